package main

// Registration HISTORIES. "The same registrations" of property C14 are the same sequence of public registry operations
// applied to every server kind through that kind's own API: Server, SSEServer and StdioServer each have their own
// RegisterTool / UnregisterTools / RegisterPrompt / RegisterResource / RegisterResources / RegisterResourceTemplate
// methods, and nothing says they all just forward to the shared managers. This part draws seeded histories of such
// operations — first registrations, registering a name again WITHOUT unregistering it (same objects, equal definition,
// other handler / description / schema / annotations / arguments / mime type / name), the same entry twice in a row,
// unregistering unknown names, twice, several at once, none, then registering again, RegisterResources replacing
// RegisterResource for a URI and back, resource templates, empty names, many entries at once — and applies each history
// identically to the seven configurations, before the first handshake, after it, or split. After every change the
// three lists, a call / get / read of every touched name (every handler says which registration it belongs to), of
// some untouched names, of unknown names and the handshake answer of a fresh connection are compared.
//
// The oracle is purely differential: whatever a re-registration means (replace, ignore, ...) is left open by the
// statement; the seven configurations only have to answer alike.

import (
	"context"
	"encoding/json"
	"fmt"
	"math/rand"
	"sort"
	"strings"
	"sync"
	"time"

	mcp "trpc.group/trpc-go/trpc-mcp-go"

	"verifharness/lib/gen"
	"verifharness/lib/kit"
	"verifharness/lib/vh"
)

type tmplSpec struct {
	Name, Pattern, Desc, Mime string
	Gen                       int
}

// histOp is one call of a public registry method, as data (the stdio server child of the client part replays it too).
type histOp struct {
	Kind   string      // tool, untool, prompt, res, tmpl
	Via    string      // "kit": through the kit.Instance helper; "direct": on the concrete server object (in.Srv())
	Reuse  bool        `json:",omitempty"` // register the very objects (definition pointer, handler value) of the previous registration of that name
	Tool   *toolSpec   `json:",omitempty"`
	Prompt *promptSpec `json:",omitempty"`
	Res    *resSpec    `json:",omitempty"`
	Tmpl   *tmplSpec   `json:",omitempty"`
	Names  []string    `json:",omitempty"` // untool
}

func (o histOp) String() string {
	v := ""
	if o.Via == "direct" {
		v = " [direct]"
	}
	if o.Reuse {
		v += " [same objects]"
	}
	switch o.Kind {
	case "tool":
		return fmt.Sprintf("RegisterTool(%q gen=%d outcome=%s desc=%q args=%d annot=%d)%s", o.Tool.Name, o.Tool.Gen, o.Tool.Outcome, o.Tool.Desc, len(o.Tool.Args), o.Tool.Annot, v)
	case "untool":
		return fmt.Sprintf("UnregisterTools(%q)%s", o.Names, v)
	case "prompt":
		return fmt.Sprintf("RegisterPrompt(%q gen=%d outcome=%s desc=%q args=%d)%s", o.Prompt.Name, o.Prompt.Gen, o.Prompt.Outcome, o.Prompt.Desc, len(o.Prompt.Args), v)
	case "res":
		api := "RegisterResource"
		if multiRes(o.Res.Outcome) {
			api = "RegisterResources"
		}
		return fmt.Sprintf("%s(%q gen=%d outcome=%s name=%q mime=%q desc=%q)%s", api, o.Res.URI, o.Res.Gen, o.Res.Outcome, o.Res.Name, o.Res.Mime, o.Res.Desc, v)
	case "tmpl":
		return fmt.Sprintf("RegisterResourceTemplate(%q pattern=%q gen=%d)%s", o.Tmpl.Name, o.Tmpl.Pattern, o.Tmpl.Gen, v)
	}
	return o.Kind
}

// ---- applying operations to one server ----

type builtTool struct {
	spec string
	t    *mcp.Tool
	h    kit.ToolFn
}
type builtPrompt struct {
	spec string
	p    *mcp.Prompt
	h    kit.PromptFn
}
type builtRes struct {
	spec   string
	r      *mcp.Resource
	single kit.ResourceFn
	multi  kit.ResourcesFn
}

// applier applies operations to one instance and remembers the objects of the last registration of every name, so that
// "register the same objects again" really passes the same definition pointer and the same handler value.
type applier struct {
	in          *kit.Instance
	tools       map[string]builtTool
	prompts     map[string]builtPrompt
	res         map[string]builtRes
	unregErrors int // UnregisterTools calls that returned an error (not judged: the statement is about JSON-RPC answers)
}

func newApplier(in *kit.Instance) *applier {
	return &applier{in: in, tools: map[string]builtTool{}, prompts: map[string]builtPrompt{}, res: map[string]builtRes{}}
}

func js(v interface{}) string { b, _ := json.Marshal(v); return string(b) }

func (a *applier) apply(o histOp) {
	in := a.in
	direct := o.Via == "direct"
	switch o.Kind {
	case "tool":
		key := js(o.Tool)
		b, ok := a.tools[o.Tool.Name]
		if !(o.Reuse && ok && b.spec == key) {
			t, h := buildTool(*o.Tool)
			b = builtTool{key, t, h}
		}
		a.tools[o.Tool.Name] = b
		if !direct {
			in.RegisterTool(b.t, b.h)
			return
		}
		switch s := in.Srv().(type) {
		case *mcp.Server:
			s.RegisterTool(b.t, b.h)
		case *mcp.SSEServer:
			s.RegisterTool(b.t, b.h)
		case *mcp.StdioServer:
			s.RegisterTool(b.t, b.h)
		}
	case "untool":
		var err error
		if !direct {
			err = in.UnregisterTools(o.Names...)
		} else {
			switch s := in.Srv().(type) {
			case *mcp.Server:
				err = s.UnregisterTools(o.Names...)
			case *mcp.SSEServer:
				err = s.UnregisterTools(o.Names...)
			case *mcp.StdioServer:
				err = s.UnregisterTools(o.Names...)
			}
		}
		if err != nil {
			a.unregErrors++
		}
	case "prompt":
		key := js(o.Prompt)
		b, ok := a.prompts[o.Prompt.Name]
		if !(o.Reuse && ok && b.spec == key) {
			p, h := buildPrompt(*o.Prompt)
			b = builtPrompt{key, p, h}
		}
		a.prompts[o.Prompt.Name] = b
		if !direct {
			in.RegisterPrompt(b.p, b.h)
			return
		}
		switch s := in.Srv().(type) {
		case *mcp.Server:
			s.RegisterPrompt(b.p, b.h)
		case *mcp.SSEServer:
			s.RegisterPrompt(b.p, b.h)
		case *mcp.StdioServer:
			s.RegisterPrompt(b.p, b.h)
		}
	case "res":
		key := js(o.Res)
		b, ok := a.res[o.Res.URI]
		if !(o.Reuse && ok && b.spec == key) {
			r, single, multi := buildRes(*o.Res)
			b = builtRes{key, r, single, multi}
		}
		a.res[o.Res.URI] = b
		if b.multi != nil {
			if !direct {
				in.RegisterResources(b.r, b.multi)
				return
			}
			switch s := in.Srv().(type) {
			case *mcp.Server:
				s.RegisterResources(b.r, b.multi)
			case *mcp.SSEServer:
				s.RegisterResources(b.r, b.multi)
			case *mcp.StdioServer:
				s.RegisterResources(b.r, b.multi)
			}
			return
		}
		if !direct {
			in.RegisterResource(b.r, b.single)
			return
		}
		switch s := in.Srv().(type) {
		case *mcp.Server:
			s.RegisterResource(b.r, b.single)
		case *mcp.SSEServer:
			s.RegisterResource(b.r, b.single)
		case *mcp.StdioServer:
			s.RegisterResource(b.r, b.single)
		}
	case "tmpl":
		// no kit helper exists for templates: always on the concrete server
		x := *o.Tmpl
		var topts []mcp.ResourceTemplateOption
		if x.Desc != "" {
			topts = append(topts, mcp.WithTemplateDescription(x.Desc))
		}
		if x.Mime != "" {
			topts = append(topts, mcp.WithTemplateMIMEType(x.Mime))
		}
		t := mcp.NewResourceTemplate(x.Pattern, x.Name, topts...)
		mark := who(x.Name, x.Gen)
		h := func(ctx context.Context, req *mcp.ReadResourceRequest) ([]mcp.ResourceContents, error) {
			return []mcp.ResourceContents{mcp.TextResourceContents{URI: req.Params.URI, Text: "template " + mark}}, nil
		}
		switch s := in.Srv().(type) {
		case *mcp.Server:
			s.RegisterResourceTemplate(t, h)
		case *mcp.SSEServer:
			s.RegisterResourceTemplate(t, h)
		case *mcp.StdioServer:
			s.RegisterResourceTemplate(t, h)
		}
	}
}

// ---- generating histories ----

// histGroup is one change of the registry (one or a few operations that belong together) plus what it touched.
type histGroup struct {
	Class   string
	Ops     []histOp
	Tools   []toolSpec   // touched tools (latest specification in this group; removed ones included)
	Prompts []promptSpec // touched prompts
	Res     []string     // touched resource URIs (incl. URIs that match a touched template)
}

// hmodel only keeps track of what has been registered so far, so that the generator can pick "an existing name" or
// "a removed name"; it is not an oracle (it predicts no answer).
type hmodel struct {
	rng      *rand.Rand
	gen      int
	tools    map[string]toolSpec // currently registered under "last registration wins"
	toolEver []string            // every name ever registered, in order
	removed  []string            // names removed by UnregisterTools and not registered since
	prompts  map[string]promptSpec
	promptEv []string
	res      map[string]resSpec
	resEver  []string
	tmpls    []tmplSpec
	seq      int
}

func newModel(rng *rand.Rand) *hmodel {
	return &hmodel{rng: rng, tools: map[string]toolSpec{}, prompts: map[string]promptSpec{}, res: map[string]resSpec{}}
}

func (m *hmodel) via() string {
	if m.rng.Intn(2) == 0 {
		return "direct"
	}
	return "kit"
}

func (m *hmodel) nextGen() int { m.gen++; return m.gen }

// outcomes whose answer shows which handler ran come first; the others keep the class of the answer apart
var histToolOutcomes = []string{"echo", "echo", "iserror", "resource", "multi", "echo", "error", "nilcontent", "empty-text"}
var histPromptOutcomes = []string{"echo", "echo", "echo", "error", "empty", "resource"}
var histSingleOutcomes = []string{"text", "text", "blob", "empty-text", "error"}
var histMultiOutcomes = []string{"multi", "multi", "multi-one", "multi-empty", "multi-nil"}

func (m *hmodel) newTool() toolSpec {
	m.seq++
	t := toolSpec{Name: fmt.Sprintf("ht%d", m.seq), Args: genArgs(m.rng, false), Annot: m.rng.Intn(4), Outcome: histToolOutcomes[m.rng.Intn(len(histToolOutcomes))], Gen: m.nextGen()}
	if m.rng.Intn(3) > 0 {
		t.Desc = fmt.Sprintf("tool %s, first definition", t.Name)
	}
	return t
}

func (m *hmodel) newPrompt() promptSpec {
	m.seq++
	p := promptSpec{Name: fmt.Sprintf("hp%d", m.seq), Args: genArgs(m.rng, true), Outcome: histPromptOutcomes[m.rng.Intn(len(histPromptOutcomes))], Gen: m.nextGen()}
	if m.rng.Intn(2) == 0 {
		p.Desc = fmt.Sprintf("prompt %s, first definition", p.Name)
	}
	return p
}

func (m *hmodel) newRes(multi bool) resSpec {
	m.seq++
	x := resSpec{URI: fmt.Sprintf("hist://r/%d", m.seq), Name: fmt.Sprintf("hr%d", m.seq), Gen: m.nextGen()}
	if multi {
		x.Outcome = histMultiOutcomes[m.rng.Intn(len(histMultiOutcomes))]
	} else {
		x.Outcome = histSingleOutcomes[m.rng.Intn(len(histSingleOutcomes))]
	}
	if m.rng.Intn(2) == 0 {
		x.Mime = []string{"text/plain", "application/octet-stream", "application/json"}[m.rng.Intn(3)]
	}
	if m.rng.Intn(2) == 0 {
		x.Desc = "resource " + x.Name + ", first definition"
	}
	return x
}

func sortedKeys[V any](mp map[string]V) []string {
	out := make([]string, 0, len(mp))
	for k := range mp {
		out = append(out, k)
	}
	sort.Strings(out)
	return out
}

// bookkeeping + operation constructors
func (m *hmodel) opTool(t toolSpec, reuse bool) histOp {
	if t.Name != "" {
		if _, ok := m.tools[t.Name]; !ok {
			seen := false
			for _, n := range m.toolEver {
				seen = seen || n == t.Name
			}
			if !seen {
				m.toolEver = append(m.toolEver, t.Name)
			}
		}
		m.tools[t.Name] = t
		for i, n := range m.removed {
			if n == t.Name {
				m.removed = append(m.removed[:i:i], m.removed[i+1:]...)
				break
			}
		}
	}
	c := t
	c.Args = append([]argSpec(nil), t.Args...)
	return histOp{Kind: "tool", Via: m.via(), Reuse: reuse, Tool: &c}
}

func (m *hmodel) opUntool(names ...string) histOp {
	for _, n := range names {
		if _, ok := m.tools[n]; ok {
			delete(m.tools, n)
			m.removed = append(m.removed, n)
		}
	}
	return histOp{Kind: "untool", Via: m.via(), Names: append([]string(nil), names...)}
}

func (m *hmodel) opPrompt(p promptSpec, reuse bool) histOp {
	if p.Name != "" {
		if _, ok := m.prompts[p.Name]; !ok {
			m.promptEv = append(m.promptEv, p.Name)
		}
		m.prompts[p.Name] = p
	}
	c := p
	c.Args = append([]argSpec(nil), p.Args...)
	return histOp{Kind: "prompt", Via: m.via(), Reuse: reuse, Prompt: &c}
}

func (m *hmodel) opRes(x resSpec, reuse bool) histOp {
	if x.URI != "" {
		if _, ok := m.res[x.URI]; !ok {
			m.resEver = append(m.resEver, x.URI)
		}
		m.res[x.URI] = x
	}
	c := x
	return histOp{Kind: "res", Via: m.via(), Reuse: reuse, Res: &c}
}

func (m *hmodel) opTmpl(x tmplSpec) histOp {
	m.tmpls = append(m.tmpls, x)
	c := x
	return histOp{Kind: "tmpl", Via: "direct", Tmpl: &c}
}

// existing entries: picked from what is registered; when nothing is, a first registration is put in front of the group
func (m *hmodel) someTool(g *histGroup) toolSpec {
	if ks := sortedKeys(m.tools); len(ks) > 0 {
		return m.tools[ks[m.rng.Intn(len(ks))]]
	}
	t := m.newTool()
	g.Ops = append(g.Ops, m.opTool(t, false))
	return t
}

func (m *hmodel) somePrompt(g *histGroup) promptSpec {
	if ks := sortedKeys(m.prompts); len(ks) > 0 {
		return m.prompts[ks[m.rng.Intn(len(ks))]]
	}
	p := m.newPrompt()
	g.Ops = append(g.Ops, m.opPrompt(p, false))
	return p
}

func (m *hmodel) someRes(g *histGroup, want string) resSpec { // want: "", "single", "multi"
	var ks []string
	for _, k := range sortedKeys(m.res) {
		if want == "" || (want == "multi") == multiRes(m.res[k].Outcome) {
			ks = append(ks, k)
		}
	}
	if len(ks) > 0 {
		return m.res[ks[m.rng.Intn(len(ks))]]
	}
	x := m.newRes(want == "multi" || (want == "" && m.rng.Intn(2) == 0))
	g.Ops = append(g.Ops, m.opRes(x, false))
	return x
}

// histClasses: every class of registry change the generator knows. Each history walks through a seeded permutation of
// this list (so that a few histories cover all of it) and then continues with random picks.
var histClasses = []string{
	"tool|first", "tool|again|same-objects", "tool|again|equal-definition", "tool|twice-in-a-row|new-name",
	"tool|replace|handler", "tool|replace|description", "tool|replace|schema", "tool|replace|annotations", "tool|replace|everything",
	"tool|replace|twice-in-a-row", "tool|empty-name", "tool|register-then-unregister",
	"untool|known", "untool|unknown-name", "untool|twice", "untool|removed-earlier", "untool|known+unknown+duplicate", "untool|no-names",
	"untool|empty-name", "untool|then-register-same", "untool|then-register-different", "untool|all",
	"prompt|first", "prompt|again|same-objects", "prompt|again|equal-definition", "prompt|twice-in-a-row|new-name",
	"prompt|replace|handler", "prompt|replace|description", "prompt|replace|arguments", "prompt|replace|everything", "prompt|empty-name",
	"res|first|single", "res|first|multi", "res|again|same-objects", "res|again|equal-definition", "res|twice-in-a-row|new-uri",
	"res|replace|handler", "res|replace|mime", "res|replace|description", "res|replace|name", "res|replace|everything",
	"res|replace|single-to-multi", "res|replace|multi-to-single", "res|empty-uri",
	"tmpl|first", "tmpl|again|same-name", "tmpl|covering-a-registered-uri", "res|at-a-uri-a-template-covers",
	"bulk|many-new", "bulk|register-everything-again",
}

func (m *hmodel) group(class string, bulkN int) histGroup {
	g := histGroup{Class: class}
	rng := m.rng
	touchT := func(t toolSpec) { g.Tools = append(g.Tools, t) }
	touchP := func(p promptSpec) { g.Prompts = append(g.Prompts, p) }
	touchR := func(uri string) { g.Res = append(g.Res, uri) }
	otherOutcome := func(list []string, cur string) string {
		for {
			if o := list[rng.Intn(len(list))]; o != cur {
				return o
			}
		}
	}
	switch class {
	// ---------------- tools ----------------
	case "tool|first":
		t := m.newTool()
		g.Ops = append(g.Ops, m.opTool(t, false))
		touchT(t)
	case "tool|again|same-objects":
		t := m.someTool(&g)
		g.Ops = append(g.Ops, m.opTool(t, true))
		touchT(t)
	case "tool|again|equal-definition":
		t := m.someTool(&g)
		g.Ops = append(g.Ops, m.opTool(t, false))
		touchT(t)
	case "tool|twice-in-a-row|new-name":
		t := m.newTool()
		g.Ops = append(g.Ops, m.opTool(t, false), m.opTool(t, rng.Intn(2) == 0))
		touchT(t)
	case "tool|replace|handler":
		t := m.someTool(&g)
		t.Gen = m.nextGen()
		t.Outcome = histToolOutcomes[rng.Intn(5)] // an outcome that shows the generation of the handler
		g.Ops = append(g.Ops, m.opTool(t, false))
		touchT(t)
	case "tool|replace|description":
		t := m.someTool(&g)
		t.Desc = fmt.Sprintf("tool %s, definition of generation %d", t.Name, m.nextGen())
		if rng.Intn(4) == 0 {
			t.Desc = ""
		}
		g.Ops = append(g.Ops, m.opTool(t, false))
		touchT(t)
	case "tool|replace|schema":
		t := m.someTool(&g)
		old := js(t.Args)
		for i := 0; i < 8 && js(t.Args) == old; i++ {
			t.Args = genArgs(rng, false)
		}
		if js(t.Args) == old {
			t.Args = append(append([]argSpec(nil), t.Args...), argSpec{Name: "added", Type: "string", Required: true})
		}
		g.Ops = append(g.Ops, m.opTool(t, false))
		touchT(t)
	case "tool|replace|annotations":
		t := m.someTool(&g)
		t.Annot = (t.Annot + 1 + rng.Intn(3)) % 4
		g.Ops = append(g.Ops, m.opTool(t, false))
		touchT(t)
	case "tool|replace|everything":
		t := m.someTool(&g)
		n := m.newTool()
		n.Name = t.Name
		n.Desc = fmt.Sprintf("tool %s, entirely new (generation %d)", t.Name, n.Gen)
		g.Ops = append(g.Ops, m.opTool(n, false))
		touchT(n)
	case "tool|replace|twice-in-a-row":
		t := m.someTool(&g)
		for i := 0; i < 2; i++ {
			t.Gen = m.nextGen()
			t.Outcome = otherOutcome(histToolOutcomes[:6], t.Outcome)
			t.Desc = fmt.Sprintf("tool %s, generation %d", t.Name, t.Gen)
			g.Ops = append(g.Ops, m.opTool(t, false))
		}
		touchT(t)
	case "tool|empty-name":
		t := m.newTool()
		t.Name = ""
		g.Ops = append(g.Ops, m.opTool(t, false))
		touchT(t)
	case "tool|register-then-unregister":
		t := m.newTool()
		g.Ops = append(g.Ops, m.opTool(t, false), m.opUntool(t.Name))
		touchT(t)
	case "untool|known":
		t := m.someTool(&g)
		g.Ops = append(g.Ops, m.opUntool(t.Name))
		touchT(t)
	case "untool|unknown-name":
		g.Ops = append(g.Ops, m.opUntool("never-registered"))
		touchT(toolSpec{Name: "never-registered"})
		if len(m.tools) > 0 {
			touchT(m.someTool(&g))
		}
	case "untool|twice":
		t := m.someTool(&g)
		g.Ops = append(g.Ops, m.opUntool(t.Name), m.opUntool(t.Name))
		touchT(t)
	case "untool|removed-earlier":
		var t toolSpec
		if len(m.removed) > 0 {
			t = toolSpec{Name: m.removed[rng.Intn(len(m.removed))]}
		} else {
			t = m.someTool(&g)
			g.Ops = append(g.Ops, m.opUntool(t.Name))
		}
		g.Ops = append(g.Ops, m.opUntool(t.Name))
		touchT(t)
	case "untool|known+unknown+duplicate":
		t := m.someTool(&g)
		names := []string{"never-registered", t.Name, "", t.Name}
		touchT(t)
		if ks := sortedKeys(m.tools); len(ks) > 1 {
			u := m.tools[ks[rng.Intn(len(ks))]]
			if u.Name != t.Name {
				names = append(names, u.Name)
				touchT(u)
			}
		}
		rng.Shuffle(len(names), func(i, j int) { names[i], names[j] = names[j], names[i] })
		g.Ops = append(g.Ops, m.opUntool(names...))
	case "untool|no-names":
		g.Ops = append(g.Ops, m.opUntool())
		if len(m.tools) > 0 {
			touchT(m.someTool(&g))
		}
	case "untool|empty-name":
		g.Ops = append(g.Ops, m.opUntool(""))
		if len(m.tools) > 0 {
			touchT(m.someTool(&g))
		}
	case "untool|then-register-same":
		t := m.someTool(&g)
		g.Ops = append(g.Ops, m.opUntool(t.Name), m.opTool(t, rng.Intn(2) == 0))
		touchT(t)
	case "untool|then-register-different":
		t := m.someTool(&g)
		n := m.newTool()
		n.Name = t.Name
		g.Ops = append(g.Ops, m.opUntool(t.Name), m.opTool(n, false))
		touchT(n)
	case "untool|all":
		ks := sortedKeys(m.tools)
		if len(ks) == 0 {
			ks = []string{m.someTool(&g).Name}
		}
		for i, k := range ks {
			if i < 4 {
				touchT(m.tools[k])
			}
		}
		g.Ops = append(g.Ops, m.opUntool(ks...))
	// ---------------- prompts ----------------
	case "prompt|first":
		p := m.newPrompt()
		g.Ops = append(g.Ops, m.opPrompt(p, false))
		touchP(p)
	case "prompt|again|same-objects":
		p := m.somePrompt(&g)
		g.Ops = append(g.Ops, m.opPrompt(p, true))
		touchP(p)
	case "prompt|again|equal-definition":
		p := m.somePrompt(&g)
		g.Ops = append(g.Ops, m.opPrompt(p, false))
		touchP(p)
	case "prompt|twice-in-a-row|new-name":
		p := m.newPrompt()
		g.Ops = append(g.Ops, m.opPrompt(p, false), m.opPrompt(p, rng.Intn(2) == 0))
		touchP(p)
	case "prompt|replace|handler":
		p := m.somePrompt(&g)
		p.Gen = m.nextGen()
		p.Outcome = []string{"echo", "echo", "resource"}[rng.Intn(3)] // shows the generation of the handler
		g.Ops = append(g.Ops, m.opPrompt(p, false))
		touchP(p)
	case "prompt|replace|description":
		p := m.somePrompt(&g)
		p.Desc = fmt.Sprintf("prompt %s, definition of generation %d", p.Name, m.nextGen())
		g.Ops = append(g.Ops, m.opPrompt(p, false))
		touchP(p)
	case "prompt|replace|arguments":
		p := m.somePrompt(&g)
		old := js(p.Args)
		for i := 0; i < 8 && js(p.Args) == old; i++ {
			p.Args = genArgs(rng, true)
		}
		if js(p.Args) == old {
			p.Args = append(append([]argSpec(nil), p.Args...), argSpec{Name: "added", Type: "string", Required: true})
		}
		g.Ops = append(g.Ops, m.opPrompt(p, false))
		touchP(p)
	case "prompt|replace|everything":
		p := m.somePrompt(&g)
		n := m.newPrompt()
		n.Name = p.Name
		n.Desc = fmt.Sprintf("prompt %s, entirely new (generation %d)", p.Name, n.Gen)
		g.Ops = append(g.Ops, m.opPrompt(n, false))
		touchP(n)
	case "prompt|empty-name":
		p := m.newPrompt()
		p.Name = ""
		g.Ops = append(g.Ops, m.opPrompt(p, false))
		touchP(p)
	// ---------------- resources ----------------
	case "res|first|single", "res|first|multi":
		x := m.newRes(class == "res|first|multi")
		g.Ops = append(g.Ops, m.opRes(x, false))
		touchR(x.URI)
	case "res|again|same-objects":
		x := m.someRes(&g, "")
		g.Ops = append(g.Ops, m.opRes(x, true))
		touchR(x.URI)
	case "res|again|equal-definition":
		x := m.someRes(&g, "")
		g.Ops = append(g.Ops, m.opRes(x, false))
		touchR(x.URI)
	case "res|twice-in-a-row|new-uri":
		x := m.newRes(rng.Intn(2) == 0)
		g.Ops = append(g.Ops, m.opRes(x, false), m.opRes(x, rng.Intn(2) == 0))
		touchR(x.URI)
	case "res|replace|handler":
		x := m.someRes(&g, "")
		x.Gen = m.nextGen()
		if multiRes(x.Outcome) { // the same API, an outcome that shows the generation of the handler
			x.Outcome = histMultiOutcomes[rng.Intn(3)]
		} else {
			x.Outcome = histSingleOutcomes[rng.Intn(3)]
		}
		g.Ops = append(g.Ops, m.opRes(x, false))
		touchR(x.URI)
	case "res|replace|mime":
		x := m.someRes(&g, "")
		x.Mime = otherOutcome([]string{"", "text/plain", "application/octet-stream", "application/json", "image/png"}, x.Mime)
		g.Ops = append(g.Ops, m.opRes(x, false))
		touchR(x.URI)
	case "res|replace|description":
		x := m.someRes(&g, "")
		x.Desc = fmt.Sprintf("resource %s, definition of generation %d", x.Name, m.nextGen())
		g.Ops = append(g.Ops, m.opRes(x, false))
		touchR(x.URI)
	case "res|replace|name":
		x := m.someRes(&g, "")
		x.Name = fmt.Sprintf("%s-renamed-%d", strings.SplitN(x.Name, "-renamed-", 2)[0], m.nextGen())
		g.Ops = append(g.Ops, m.opRes(x, false))
		touchR(x.URI)
	case "res|replace|everything":
		x := m.someRes(&g, "")
		n := m.newRes(rng.Intn(2) == 0)
		n.URI = x.URI
		g.Ops = append(g.Ops, m.opRes(n, false))
		touchR(x.URI)
	case "res|replace|single-to-multi":
		x := m.someRes(&g, "single")
		x.Outcome = histMultiOutcomes[rng.Intn(len(histMultiOutcomes))]
		x.Gen = m.nextGen()
		g.Ops = append(g.Ops, m.opRes(x, false))
		touchR(x.URI)
	case "res|replace|multi-to-single":
		x := m.someRes(&g, "multi")
		x.Outcome = histSingleOutcomes[rng.Intn(len(histSingleOutcomes))]
		x.Gen = m.nextGen()
		g.Ops = append(g.Ops, m.opRes(x, false))
		touchR(x.URI)
	case "res|empty-uri":
		x := m.newRes(rng.Intn(2) == 0)
		x.URI = ""
		g.Ops = append(g.Ops, m.opRes(x, false))
		touchR("")
	// ---------------- templates ----------------
	case "tmpl|first":
		m.seq++
		x := tmplSpec{Name: fmt.Sprintf("hm%d", m.seq), Pattern: fmt.Sprintf("hist://tmpl%d/{id}", m.seq), Gen: m.nextGen()}
		if rng.Intn(2) == 0 {
			x.Desc, x.Mime = "template "+x.Name, "text/plain"
		}
		g.Ops = append(g.Ops, m.opTmpl(x))
		touchR(fmt.Sprintf("hist://tmpl%d/42", m.seq))
	case "tmpl|again|same-name":
		if len(m.tmpls) == 0 {
			m.seq++
			g.Ops = append(g.Ops, m.opTmpl(tmplSpec{Name: fmt.Sprintf("hm%d", m.seq), Pattern: fmt.Sprintf("hist://tmpl%d/{id}", m.seq), Gen: m.nextGen()}))
		}
		x := m.tmpls[rng.Intn(len(m.tmpls))]
		touchR(strings.Replace(x.Pattern, "{id}", "7", 1))
		x.Gen = m.nextGen()
		if rng.Intn(2) == 0 {
			m.seq++
			x.Pattern = fmt.Sprintf("hist://tmpl%d-other/{id}", m.seq)
			touchR(strings.Replace(x.Pattern, "{id}", "7", 1))
		}
		g.Ops = append(g.Ops, m.opTmpl(x))
	case "tmpl|covering-a-registered-uri":
		x := m.someRes(&g, "")
		m.seq++
		g.Ops = append(g.Ops, m.opTmpl(tmplSpec{Name: fmt.Sprintf("hm%d", m.seq), Pattern: "hist://r/{n}", Gen: m.nextGen()}))
		touchR(x.URI)
		touchR("hist://r/not-registered")
	case "res|at-a-uri-a-template-covers":
		m.seq++
		g.Ops = append(g.Ops, m.opTmpl(tmplSpec{Name: fmt.Sprintf("hm%d", m.seq), Pattern: fmt.Sprintf("hist://cov%d/{id}", m.seq), Gen: m.nextGen()}))
		x := m.newRes(rng.Intn(2) == 0)
		x.URI = fmt.Sprintf("hist://cov%d/1", m.seq)
		g.Ops = append(g.Ops, m.opRes(x, false))
		touchR(x.URI)
		touchR(fmt.Sprintf("hist://cov%d/2", m.seq))
	// ---------------- many at once ----------------
	case "bulk|many-new":
		for i := 0; i < bulkN; i++ {
			t := m.newTool()
			g.Ops = append(g.Ops, m.opTool(t, false))
			p := m.newPrompt()
			g.Ops = append(g.Ops, m.opPrompt(p, false))
			x := m.newRes(rng.Intn(2) == 0)
			g.Ops = append(g.Ops, m.opRes(x, false))
			if i < 2 || i == bulkN-1 {
				touchT(t)
				touchP(p)
				touchR(x.URI)
			}
		}
	case "bulk|register-everything-again":
		m.someTool(&g)
		m.somePrompt(&g)
		m.someRes(&g, "")
		for i, k := range sortedKeys(m.tools) {
			t := m.tools[k]
			t.Gen = m.nextGen()
			t.Desc = fmt.Sprintf("tool %s, generation %d", t.Name, t.Gen)
			g.Ops = append(g.Ops, m.opTool(t, false))
			if i < 3 {
				touchT(t)
			}
		}
		for i, k := range sortedKeys(m.prompts) {
			p := m.prompts[k]
			p.Gen = m.nextGen()
			p.Desc = fmt.Sprintf("prompt %s, generation %d", p.Name, p.Gen)
			g.Ops = append(g.Ops, m.opPrompt(p, false))
			if i < 3 {
				touchP(p)
			}
		}
		for i, k := range sortedKeys(m.res) {
			x := m.res[k]
			x.Gen = m.nextGen()
			x.Desc = fmt.Sprintf("resource %s, generation %d", x.Name, x.Gen)
			g.Ops = append(g.Ops, m.opRes(x, false))
			if i < 3 {
				touchR(x.URI)
			}
		}
	default:
		panic("unknown history class " + class)
	}
	return g
}

// hstep is one step of a history script: a registry change (Ops), a request (Body) or a handshake on a fresh
// connection (Fresh). Steps with Setup are applied before the first handshake.
type hstep struct {
	Label string // "<class>|<what is probed>"
	Class string
	Ops   []histOp
	Body  string
	RawID string
	Fresh bool
}

type history struct {
	Layout string   // changes-while-serving, everything-after-handshake, everything-before-handshake
	Pre    []histOp // applied before the first handshake
	Steps  []hstep
	NOps   int
}

// probes appends the requests that look at the registry after one change.
func (m *hmodel) probes(out []hstep, g histGroup, ids *gen.IDGen, tag string, touchedOnly bool) []hstep {
	rng := m.rng
	add := func(what, method, params string) {
		raw := ids.Next()
		b := fmt.Sprintf(`{"jsonrpc":"2.0","id":%s,"method":"%s"`, raw, method)
		if params != "" {
			b += `,"params":` + params
		}
		out = append(out, hstep{Label: tag + g.Class + "|" + what, Class: g.Class, Body: b + "}", RawID: kit.CanonID([]byte(raw))})
	}
	if !touchedOnly {
		add("tools/list", "tools/list", "")
		add("prompts/list", "prompts/list", "")
		add("resources/list", "resources/list", "")
	}
	validArgs := func(args []argSpec, prompt bool) string {
		var parts []string
		for _, a := range args {
			typ := a.Type
			if prompt {
				typ = "string"
			}
			parts = append(parts, fmt.Sprintf("%q:%s", a.Name, validValue(typ, rng)))
		}
		return "{" + strings.Join(parts, ",") + "}"
	}
	touched := map[string]bool{}
	for _, t := range g.Tools {
		touched["t:"+t.Name] = true
		add("tools/call|touched|args=valid", "tools/call", fmt.Sprintf(`{"name":%q,"arguments":%s}`, t.Name, validArgs(t.Args, false)))
		add("tools/call|touched|args=empty", "tools/call", fmt.Sprintf(`{"name":%q,"arguments":{}}`, t.Name))
	}
	for _, p := range g.Prompts {
		touched["p:"+p.Name] = true
		add("prompts/get|touched|args=valid", "prompts/get", fmt.Sprintf(`{"name":%q,"arguments":%s}`, p.Name, validArgs(p.Args, true)))
		add("prompts/get|touched|args=absent", "prompts/get", fmt.Sprintf(`{"name":%q}`, p.Name))
	}
	for _, u := range g.Res {
		touched["r:"+u] = true
		add("resources/read|touched", "resources/read", fmt.Sprintf(`{"uri":%q}`, u))
	}
	if touchedOnly {
		return out
	}
	// entries the change did not touch (registered or removed earlier): they must not have been disturbed differently
	pick := func(prefix string, all []string, n int) []string {
		var cand []string
		for _, k := range all {
			if !touched[prefix+k] {
				cand = append(cand, k)
			}
		}
		rng.Shuffle(len(cand), func(i, j int) { cand[i], cand[j] = cand[j], cand[i] })
		if len(cand) > n {
			cand = cand[:n]
		}
		return cand
	}
	for _, n := range pick("t:", m.toolEver, 2) {
		add("tools/call|untouched", "tools/call", fmt.Sprintf(`{"name":%q,"arguments":{}}`, n))
	}
	for _, n := range pick("p:", m.promptEv, 1) {
		add("prompts/get|untouched", "prompts/get", fmt.Sprintf(`{"name":%q}`, n))
	}
	for _, u := range pick("r:", m.resEver, 1) {
		add("resources/read|untouched", "resources/read", fmt.Sprintf(`{"uri":%q}`, u))
	}
	add("tools/call|unknown", "tools/call", `{"name":"no-such-tool","arguments":{}}`)
	add("prompts/get|unknown", "prompts/get", `{"name":"no-such-prompt"}`)
	add("resources/read|unknown", "resources/read", `{"uri":"hist://none"}`)
	out = append(out, hstep{Label: tag + g.Class + "|initialize|fresh-connection", Class: g.Class, Fresh: true})
	return out
}

// genHistory draws history #hi: a layout, an initial registry, and nGroups changes. The classes of the first changes
// come from a permutation of histClasses that is continued from one history to the next.
func genHistory(rng *rand.Rand, hi, nGroups, bulkN int, perm []string) history {
	m := newModel(rng)
	h := history{Layout: []string{"changes-while-serving", "everything-after-handshake", "everything-before-handshake"}[hi%3]}
	ids := gen.NewIDGen("c14h", 9000)
	var setup []histGroup
	if h.Layout == "changes-while-serving" {
		// an initial registry, registered before the server sees its first client
		for i, n := 0, 1+rng.Intn(4); i < n; i++ {
			setup = append(setup, m.group("tool|first", 0))
		}
		for i, n := 0, rng.Intn(3); i < n; i++ {
			setup = append(setup, m.group("prompt|first", 0))
		}
		for i, n := 0, rng.Intn(3); i < n; i++ {
			setup = append(setup, m.group([]string{"res|first|single", "res|first|multi"}[rng.Intn(2)], 0))
		}
	}
	for _, g := range setup {
		h.Pre = append(h.Pre, g.Ops...)
	}
	var groups []histGroup
	for j := 0; j < nGroups; j++ {
		class := perm[(hi*nGroups+j)%len(perm)]
		if j >= (nGroups*2+2)/3 {
			class = histClasses[rng.Intn(len(histClasses))]
		}
		groups = append(groups, m.group(class, bulkN))
	}
	switch h.Layout {
	case "everything-before-handshake":
		// the whole history happens before the first handshake; afterwards every change is looked at
		for _, g := range groups {
			h.Pre = append(h.Pre, g.Ops...)
		}
		// (the lists, unknown names and the fresh handshake see the outcome of all changes at once: asked once)
		h.Steps = m.probes(h.Steps, histGroup{Class: "all-changes"}, ids, "before-handshake|", false)
		for _, g := range groups {
			h.Steps = m.probes(h.Steps, g, ids, "before-handshake|", true)
		}
	default:
		for _, g := range groups {
			h.Steps = append(h.Steps, hstep{Label: "change:" + g.Class, Class: g.Class, Ops: g.Ops})
			h.Steps = m.probes(h.Steps, g, ids, "", false)
		}
	}
	h.NOps = len(h.Pre)
	for _, s := range h.Steps {
		h.NOps += len(s.Ops)
	}
	return h
}

// conclusive: an answer (result or error) or a definite refusal came back. Silence and transport errors are what a
// slow machine produces too; they are never compared.
func conclusive(o gen.Outcome, ex *kit.Exchange) bool {
	return !ex.TimedOut && o.Class != "silence" && o.Class != "transport-error"
}

func historyDifferential(r *vh.Run, nHist, nGroups, bulkN int) {
	kinds := []kit.Kind{kit.SJSON, kit.SSSE, kit.SLJSON, kit.SNoSess, kit.LSSE, kit.Stdio, kit.SLSSE}
	perm := append([]string(nil), histClasses...)
	r.Rand("c14-hist-perm").Shuffle(len(perm), func(i, j int) { perm[i], perm[j] = perm[j], perm[i] })
	classSeen := map[string]int{}
	for hi := 0; hi < nHist; hi++ {
		h := genHistory(r.Rand(fmt.Sprintf("c14-hist-%d", hi)), hi, nGroups, bulkN, perm)
		type res struct {
			norm   []string // index 0: the first handshake; then one per step
			frames [][]string
			unreg  int
		}
		results := map[kit.Kind]*res{}
		var mu sync.Mutex
		var wg sync.WaitGroup
		for _, kind := range kinds {
			wg.Add(1)
			go func(kind kit.Kind) {
				defer wg.Done()
				in := kit.Start(kind, kit.Opts{})
				defer in.Close()
				ap := newApplier(in)
				for _, o := range h.Pre {
					ap.apply(o)
				}
				ctx, cancel := context.WithTimeout(context.Background(), 20*time.Minute)
				defer cancel()
				c, err := in.Dial(ctx)
				if err != nil {
					r.Inconclusive(fmt.Sprintf("history #%d: dial %s: %v", hi, kind, err))
					return
				}
				defer c.Close()
				out := &res{}
				record := func(ex *kit.Exchange) {
					o := gen.Observe(kind, ex)
					if conclusive(o, ex) {
						out.norm = append(out.norm, normalise(o, ex.Frames))
					} else {
						out.norm = append(out.norm, "inconclusive:"+o.Class)
					}
					out.frames = append(out.frames, o.Frames)
				}
				ex := c.Post(ctx, kit.InitBody(`"hist-init"`, ""), kit.PostOpts{WantID: `"hist-init"`, NoSessionID: true, Wait: 30 * time.Second})
				if kind.IsStreamable() && ex.HTTP != nil && ex.HTTP.Sess != "" {
					c.SessionID = ex.HTTP.Sess
				}
				record(ex)
				c.Post(ctx, []byte(kit.InitializedBody), kit.PostOpts{NoWait: true})
				for _, st := range h.Steps {
					switch {
					case st.Ops != nil:
						for _, o := range st.Ops {
							ap.apply(o)
						}
						out.norm = append(out.norm, "change")
						out.frames = append(out.frames, nil)
					case st.Fresh:
						c2, err := in.Dial(ctx)
						if err != nil {
							out.norm = append(out.norm, "inconclusive:dial")
							out.frames = append(out.frames, nil)
							continue
						}
						record(c2.Post(ctx, kit.InitBody(`"hist-init-fresh"`, ""), kit.PostOpts{WantID: `"hist-init-fresh"`, NoSessionID: true, Wait: 30 * time.Second}))
						c2.Close()
					default:
						opts := kit.PostOpts{Wait: 30 * time.Second}
						if kind == kit.Stdio || kind == kit.LSSE {
							opts.WantID = st.RawID
						}
						record(c.Post(ctx, []byte(st.Body), opts))
					}
				}
				out.unreg = ap.unregErrors
				mu.Lock()
				results[kind] = out
				mu.Unlock()
			}(kind)
		}
		wg.Wait()
		ref := results[kinds[0]]
		if ref == nil {
			continue
		}
		// the operations that had been applied when step i was answered (for the witness)
		opsBefore := func(i int) []string {
			var l []string
			for _, o := range h.Pre {
				l = append(l, o.String())
			}
			for j := 0; j < i-1 && j < len(h.Steps); j++ {
				for _, o := range h.Steps[j].Ops {
					l = append(l, o.String())
				}
			}
			if len(l) > 40 {
				l = append([]string{fmt.Sprintf("... %d earlier operations ...", len(l)-40)}, l[len(l)-40:]...)
			}
			return l
		}
		groupOK := map[string]bool{} // class → every probe of it was answered conclusively by every configuration
		// Once a configuration's registry has diverged, every later look at the same family of entries shows the same
		// divergence again under the label of an unrelated change: per history, configuration and family only the
		// first divergence is reported, the others are counted.
		reported := map[string]bool{}
		family := func(label string) string {
			for _, f := range []string{"tools/", "prompts/", "resources/", "initialize"} {
				if strings.Contains(label, "|"+f) {
					return f
				}
			}
			return label
		}
		for i := 0; i < len(ref.norm); i++ {
			label, class, body := h.Layout+"|initialize", "", string(kit.InitBody(`"hist-init"`, ""))
			if i > 0 {
				st := h.Steps[i-1]
				if st.Ops != nil {
					continue
				}
				label, class, body = st.Label, st.Class, st.Body
				if st.Fresh {
					body = string(kit.InitBody(`"hist-init-fresh"`, ""))
				}
			}
			if _, ok := groupOK[class]; !ok {
				groupOK[class] = true
			}
			agree, all := true, true
			if strings.HasPrefix(ref.norm[i], "inconclusive:") {
				r.Inconclusive(fmt.Sprintf("history #%d step %d (%s): no answer from %s (%s)", hi, i, label, kinds[0], ref.norm[i]))
				groupOK[class] = false
				continue
			}
			for _, k := range kinds[1:] {
				got := results[k]
				if got == nil || i >= len(got.norm) {
					all = false
					continue
				}
				if strings.HasPrefix(got.norm[i], "inconclusive:") {
					r.Inconclusive(fmt.Sprintf("history #%d step %d (%s): no answer from %s (%s)", hi, i, label, k, got.norm[i]))
					all = false
					continue
				}
				r.Eval(1)
				if got.norm[i] != ref.norm[i] {
					agree = false
					if fk := string(k) + "|" + family(label); reported[fk] {
						r.Count("history_follow_up_divergences(not reported again)", 1)
						continue
					} else {
						reported[fk] = true
					}
					r.Violation(fmt.Sprintf("C14|server|history|%s|%s-vs-%s|%s", label, kinds[0], k, diffClass(ref.norm[i], got.norm[i])),
						fmt.Sprintf("registration history #%d (%s), step %d (%s): %s answers %s, %s answers %s", hi, h.Layout, i, label, kinds[0], short(ref.norm[i]), k, short(got.norm[i])),
						map[string]interface{}{"history_so_far": opsBefore(i), "request": short(body), string(kinds[0]): ref.frames[i], string(k): got.frames[i]})
				}
			}
			if !all {
				groupOK[class] = false
			}
			if agree && all {
				r.Distinct("server|history|" + label + "|" + classOf(ref.norm[i]))
				r.Count("history_probes_agreed", 1)
			}
		}
		for class, ok := range groupOK {
			if ok && class != "" {
				classSeen[class]++
				r.SetAdd("history_change_classes_observed", class)
			}
		}
		for _, s := range h.Steps {
			if s.Ops != nil {
				r.Count("history_changes", 1)
			}
		}
		// the Go return values of UnregisterTools are outside the statement (it speaks of JSON-RPC answers): counted only
		for _, k := range kinds[1:] {
			if results[k] != nil && results[k].unreg != ref.unreg {
				r.Count("history_unregister_return_values_differ(not judged)", 1)
			}
		}
		r.Count("histories", 1)
		r.Count("history_layout|"+h.Layout, 1)
		r.Count("history_registry_operations", int64(h.NOps))
		r.Max("history_operations_in_one_history", int64(h.NOps))
		if hi == 0 {
			var l []string
			for _, o := range h.Pre {
				l = append(l, "before the first handshake: "+o.String())
			}
			for _, s := range h.Steps {
				for _, o := range s.Ops {
					l = append(l, s.Class+": "+o.String())
				}
			}
			if len(l) > 14 {
				l = l[:14]
			}
			ex := len(ref.norm) / 2
			exl := "initialize"
			if ex > 0 {
				exl = h.Steps[ex-1].Label
			}
			r.Sample(map[string]interface{}{"part": "history", "layout": h.Layout, "operations": h.NOps, "first_operations": l, "steps": len(ref.norm), "example_step": exl, "example_answer": short(ref.norm[ex])})
		}
	}
	// non-vacuity: the classes the part exists for must have been looked at on all seven configurations
	for _, must := range []string{"tool|replace|handler", "tool|replace|description", "tool|again|same-objects", "prompt|replace|handler", "res|replace|handler",
		"res|replace|single-to-multi", "res|replace|multi-to-single", "untool|unknown-name", "untool|twice", "untool|then-register-different", "tmpl|first", "bulk|many-new"} {
		r.Require(classSeen[must] > 0, "history part: no change of class %q was answered by all seven configurations", must)
	}
	r.Count("history_change_classes_known", int64(len(histClasses)))
}

// ---- the client part over registration histories ----

// specAfter lists every name the specification and the history ever mentioned, each with the last specification
// registered under it (removed tools stay in the list: calling them must fail alike through every client).
func specAfter(spec regSpec, hist []histOp) (regSpec, []string) {
	out := regSpec{Tools: append([]toolSpec(nil), spec.Tools...), Prompts: append([]promptSpec(nil), spec.Prompts...), Res: append([]resSpec(nil), spec.Res...)}
	var lines []string
	for _, o := range hist {
		lines = append(lines, o.String())
		switch o.Kind {
		case "tool":
			found := false
			for i := range out.Tools {
				if out.Tools[i].Name == o.Tool.Name {
					out.Tools[i], found = *o.Tool, true
				}
			}
			if !found {
				out.Tools = append(out.Tools, *o.Tool)
			}
		case "prompt":
			found := false
			for i := range out.Prompts {
				if out.Prompts[i].Name == o.Prompt.Name {
					out.Prompts[i], found = *o.Prompt, true
				}
			}
			if !found {
				out.Prompts = append(out.Prompts, *o.Prompt)
			}
		case "res":
			found := false
			for i := range out.Res {
				if out.Res[i].URI == o.Res.URI {
					out.Res[i], found = *o.Res, true
				}
			}
			if !found {
				out.Res = append(out.Res, *o.Res)
			}
		case "tmpl":
			out.Res = append(out.Res, resSpec{URI: strings.NewReplacer("{id}", "1", "{n}", "not-registered").Replace(o.Tmpl.Pattern), Outcome: "template"})
		}
	}
	if len(lines) > 60 {
		lines = append([]string{fmt.Sprintf("... %d earlier operations ...", len(lines)-60)}, lines[len(lines)-60:]...)
	}
	return out, lines
}

// historyClients: a generated registry plus a history of registry operations on top of it, applied to the four HTTP
// servers in this process and replayed by the stdio server child through StdioServer's own methods; the five clients
// then list and call / get / read every name that was ever mentioned.
func historyClients(r *vh.Run, n, nGroups, bulkN int) {
	ctx, cancel := context.WithTimeout(context.Background(), 20*time.Minute)
	defer cancel()
	canonEmptyArgs.Store(true)
	defer canonEmptyArgs.Store(false)
	perm := append([]string(nil), histClasses...)
	r.Rand("c14-histcli-perm").Shuffle(len(perm), func(i, j int) { perm[i], perm[j] = perm[j], perm[i] })
	for hi := 0; hi < n; hi++ {
		rng := r.Rand(fmt.Sprintf("c14-histcli-%d", hi))
		spec := regSpec{}
		if hi%2 == 1 {
			spec = genSpec(rng)
		}
		m := newModel(rng)
		hist := []histOp{}
		for j := 0; j < nGroups; j++ {
			class := perm[(hi*nGroups+j)%len(perm)]
			g := m.group(class, bulkN)
			hist = append(hist, g.Ops...)
			r.SetAdd("history_client_change_classes", class)
		}
		clientRound(r, ctx, "history", hi, spec, hist, rng)
		r.Count("history_client_registry_operations", int64(len(hist)))
		if hi == 0 {
			after, lines := specAfter(spec, hist)
			if len(lines) > 10 {
				lines = lines[:10]
			}
			r.Sample(map[string]interface{}{"part": "client-history", "operations": len(hist), "first_operations": lines, "tools_looked_at": len(after.Tools), "prompts_looked_at": len(after.Prompts), "resources_looked_at": len(after.Res)})
		}
	}
}
