package main

// Generated registrations and request sequences ("for all generated registrations and request sequences, pairwise
// across all server kinds"). A registry specification is drawn from the PRNG — tools with random argument lists,
// annotations and handler outcomes, prompts with random arguments, resources of several content kinds — and registered
// identically on the seven server configurations. One scripted sequence of requests (valid and invalid, derived from
// the specification), interleaved with registry changes (unregister, register again, register a first prompt), is
// replayed on each configuration; the normalised answers of step i must be equal across configurations.

import (
	"context"
	"encoding/base64"
	"encoding/json"
	"errors"
	"fmt"
	"math/rand"
	"os"
	"regexp"
	"strings"
	"sync"
	"sync/atomic"
	"time"

	mcp "trpc.group/trpc-go/trpc-mcp-go"

	"verifharness/lib/gen"
	"verifharness/lib/kit"
	"verifharness/lib/vh"
)

type argSpec struct {
	Name     string
	Type     string // string number integer boolean array object
	Required bool
	Desc     string
}

type toolSpec struct {
	Name    string
	Desc    string
	Args    []argSpec
	Annot   int    // 0 none, 1 title only, 2 all hints, 3 some hints false
	Outcome string // echo, error, iserror, nilcontent, image, audio, resource, multi, empty-text, nan
	Gen     int    `json:",omitempty"` // registration generation (history part): shows in the answer which handler ran
}

type promptSpec struct {
	Name    string
	Desc    string
	Args    []argSpec
	Outcome string // echo, error, empty, image, resource
	Gen     int    `json:",omitempty"`
}

type resSpec struct {
	URI, Name, Mime, Desc string
	Outcome               string // text, blob, empty-text, error (single content handler); multi, multi-empty, multi-one, multi-nil (RegisterResources)
	Gen                   int    `json:",omitempty"`
}

// who names the handler of one registration: the entry's name, plus the generation when the history part registers
// the same name more than once.
func who(name string, gen int) string {
	if gen == 0 {
		return name
	}
	return fmt.Sprintf("%s#g%d", name, gen)
}

type regSpec struct {
	Tools   []toolSpec
	Prompts []promptSpec
	Res     []resSpec
}

func genArgs(rng *rand.Rand, prompt bool) []argSpec {
	types := []string{"string", "number", "integer", "boolean", "array", "object"}
	n := rng.Intn(4)
	var out []argSpec
	for i := 0; i < n; i++ {
		a := argSpec{Name: fmt.Sprintf("a%d", i), Type: types[rng.Intn(len(types))], Required: rng.Intn(2) == 0}
		if prompt {
			a.Type = "string"
		}
		if rng.Intn(2) == 0 {
			a.Desc = fmt.Sprintf("desc of a%d \"quoted\" é", i)
		}
		out = append(out, a)
	}
	return out
}

func genSpec(rng *rand.Rand) regSpec {
	var s regSpec
	tOut := []string{"echo", "echo", "error", "iserror", "nilcontent", "image", "audio", "resource", "multi", "empty-text", "nan"}
	for i, n := 0, rng.Intn(6); i < n; i++ {
		t := toolSpec{Name: fmt.Sprintf("t%d", i), Args: genArgs(rng, false), Annot: rng.Intn(4), Outcome: tOut[rng.Intn(len(tOut))]}
		if rng.Intn(3) > 0 {
			t.Desc = fmt.Sprintf("tool %d — does things", i)
		}
		s.Tools = append(s.Tools, t)
	}
	pOut := []string{"echo", "echo", "error", "empty", "image", "resource"}
	for i, n := 0, rng.Intn(4); i < n; i++ {
		p := promptSpec{Name: fmt.Sprintf("p%d", i), Args: genArgs(rng, true), Outcome: pOut[rng.Intn(len(pOut))]}
		if rng.Intn(2) == 0 {
			p.Desc = fmt.Sprintf("prompt %d", i)
		}
		s.Prompts = append(s.Prompts, p)
	}
	rOut := []string{"text", "blob", "empty-text", "error", "multi", "multi-empty"}
	for i, n := 0, rng.Intn(4); i < n; i++ {
		x := resSpec{URI: fmt.Sprintf("gen://r/%d", i), Name: fmt.Sprintf("r%d", i), Outcome: rOut[rng.Intn(len(rOut))]}
		if rng.Intn(2) == 0 {
			x.Mime = []string{"text/plain", "application/octet-stream", "application/json"}[rng.Intn(3)]
		}
		if rng.Intn(2) == 0 {
			x.Desc = "resource " + x.Name
		}
		s.Res = append(s.Res, x)
	}
	return s
}

func bptr(b bool) *bool { return &b }

func registerTool(in *kit.Instance, t toolSpec) {
	tool, h := buildTool(t)
	in.RegisterTool(tool, h)
}

// buildTool makes the definition and the handler of one tool specification.
func buildTool(t toolSpec) (*mcp.Tool, kit.ToolFn) {
	var opts []mcp.ToolOption
	if t.Desc != "" {
		opts = append(opts, mcp.WithDescription(t.Desc))
	}
	for _, a := range t.Args {
		var po []mcp.PropertyOption
		if a.Required {
			po = append(po, mcp.Required())
		}
		if a.Desc != "" {
			po = append(po, mcp.Description(a.Desc))
		}
		switch a.Type {
		case "string":
			opts = append(opts, mcp.WithString(a.Name, po...))
		case "number":
			opts = append(opts, mcp.WithNumber(a.Name, po...))
		case "integer":
			opts = append(opts, mcp.WithInteger(a.Name, po...))
		case "boolean":
			opts = append(opts, mcp.WithBoolean(a.Name, po...))
		case "array":
			opts = append(opts, mcp.WithArray(a.Name, po...))
		default:
			opts = append(opts, mcp.WithObject(a.Name, po...))
		}
	}
	switch t.Annot {
	case 1:
		opts = append(opts, mcp.WithToolAnnotations(&mcp.ToolAnnotations{Title: "Title of " + t.Name}))
	case 2:
		opts = append(opts, mcp.WithToolAnnotations(&mcp.ToolAnnotations{Title: "T", ReadOnlyHint: bptr(true), DestructiveHint: bptr(true), IdempotentHint: bptr(true), OpenWorldHint: bptr(true)}))
	case 3:
		opts = append(opts, mcp.WithToolAnnotations(&mcp.ToolAnnotations{ReadOnlyHint: bptr(false), DestructiveHint: bptr(false)}))
	}
	outcome := t.Outcome
	name := who(t.Name, t.Gen)
	return mcp.NewTool(t.Name, opts...), func(ctx context.Context, req *mcp.CallToolRequest) (*mcp.CallToolResult, error) {
		args, _ := json.Marshal(req.Params.Arguments)
		if canonEmptyArgs.Load() && len(req.Params.Arguments) == 0 {
			args = []byte("{}")
		}
		switch outcome {
		case "error":
			return nil, errors.New("tool " + name + " failed")
		case "iserror":
			return mcp.NewErrorResult("tool " + name + " says no: " + string(args)), nil
		case "nilcontent":
			return &mcp.CallToolResult{}, nil
		case "image":
			return &mcp.CallToolResult{Content: []mcp.Content{mcp.NewImageContent("aGk=", "image/png")}}, nil
		case "audio":
			return &mcp.CallToolResult{Content: []mcp.Content{mcp.NewAudioContent("", "audio/wav")}}, nil
		case "resource":
			return &mcp.CallToolResult{Content: []mcp.Content{mcp.NewEmbeddedResource(mcp.TextResourceContents{URI: "emb://" + name, Text: string(args), MIMEType: "text/plain"})}}, nil
		case "multi":
			return &mcp.CallToolResult{Content: []mcp.Content{mcp.NewTextContent(name), mcp.NewTextContent(""), mcp.NewImageContent("", "image/gif"), mcp.NewEmbeddedResource(mcp.BlobResourceContents{URI: "emb://b", Blob: "AAEC"})}}, nil
		case "empty-text":
			return mcp.NewTextResult(""), nil
		case "nan":
			return &mcp.CallToolResult{Content: []mcp.Content{mcp.NewTextContent("x")}, StructuredContent: map[string]interface{}{"v": nanValue()}}, nil
		}
		return mcp.NewTextResult(name + " got " + string(args)), nil
	}
}

// canonEmptyArgs: in the CLIENT part the three clients encode "no arguments" differently on the wire (member omitted
// vs. an empty object), so the servers do not receive equal requests; the statement compares clients on equal server
// answers only, hence the echo does not distinguish nil from empty there. The server part keeps the exact echo.
var canonEmptyArgs atomic.Bool

func nanValue() float64 { z := 0.0; return z / z }

func registerPrompt(in *kit.Instance, p promptSpec) {
	pr, h := buildPrompt(p)
	in.RegisterPrompt(pr, h)
}

func buildPrompt(p promptSpec) (*mcp.Prompt, kit.PromptFn) {
	pr := &mcp.Prompt{Name: p.Name, Description: p.Desc}
	for _, a := range p.Args {
		pr.Arguments = append(pr.Arguments, mcp.PromptArgument{Name: a.Name, Description: a.Desc, Required: a.Required})
	}
	outcome, name := p.Outcome, who(p.Name, p.Gen)
	return pr, func(ctx context.Context, req *mcp.GetPromptRequest) (*mcp.GetPromptResult, error) {
		args, _ := json.Marshal(req.Params.Arguments)
		switch outcome {
		case "error":
			return nil, errors.New("prompt " + name + " failed")
		case "empty":
			return &mcp.GetPromptResult{}, nil
		case "image":
			return &mcp.GetPromptResult{Messages: []mcp.PromptMessage{{Role: mcp.RoleAssistant, Content: mcp.NewImageContent("aGk=", "image/png")}}}, nil
		case "resource":
			uri := "emb://p"
			if name != pr.Name { // history part: say which registration this handler belongs to
				uri = "emb://" + name
			}
			return &mcp.GetPromptResult{Description: "d", Messages: []mcp.PromptMessage{{Role: mcp.RoleUser, Content: mcp.NewEmbeddedResource(mcp.TextResourceContents{URI: uri, Text: "t"})}}}, nil
		}
		return &mcp.GetPromptResult{Description: name, Messages: []mcp.PromptMessage{{Role: mcp.RoleUser, Content: mcp.NewTextContent(name + " got " + string(args))}}}, nil
	}
}

func registerRes(in *kit.Instance, x resSpec) {
	rs, single, multi := buildRes(x)
	if multi != nil {
		in.RegisterResources(rs, multi)
		return
	}
	in.RegisterResource(rs, single)
}

// multiRes: the outcomes that are registered through RegisterResources (a handler returning several contents).
func multiRes(outcome string) bool { return strings.HasPrefix(outcome, "multi") }

// buildRes makes the definition and the handler of one resource specification; exactly one of the two handlers is
// non-nil (single content: RegisterResource, several contents: RegisterResources).
func buildRes(x resSpec) (*mcp.Resource, kit.ResourceFn, kit.ResourcesFn) {
	rs := &mcp.Resource{URI: x.URI, Name: x.Name, MimeType: x.Mime, Description: x.Desc}
	uri, outcome := x.URI, x.Outcome
	mark, blob := "", "AAEC"
	if x.Gen != 0 {
		mark = fmt.Sprintf("#g%d", x.Gen)
		blob = base64.StdEncoding.EncodeToString([]byte(who(x.URI, x.Gen)))
	}
	if multiRes(outcome) {
		return rs, nil, func(ctx context.Context, req *mcp.ReadResourceRequest) ([]mcp.ResourceContents, error) {
			switch outcome {
			case "multi-empty":
				return []mcp.ResourceContents{}, nil
			case "multi-nil":
				return nil, nil
			case "multi-one":
				return []mcp.ResourceContents{mcp.TextResourceContents{URI: uri, Text: "only one" + mark}}, nil
			}
			return []mcp.ResourceContents{mcp.TextResourceContents{URI: uri, Text: "one" + mark}, mcp.BlobResourceContents{URI: uri + "#b", Blob: blob, MIMEType: "application/octet-stream"}}, nil
		}
	}
	return rs, func(ctx context.Context, req *mcp.ReadResourceRequest) (mcp.ResourceContents, error) {
		switch outcome {
		case "blob":
			return mcp.BlobResourceContents{URI: uri, Blob: blob}, nil
		case "empty-text":
			return mcp.TextResourceContents{URI: uri, Text: ""}, nil
		case "error":
			return nil, errors.New("resource " + uri + " failed")
		}
		return mcp.TextResourceContents{URI: uri, Text: "text of " + uri + mark, MIMEType: "text/plain"}, nil
	}, nil
}

// step is either a request (Body != "") or a registry change (Change != nil), replayed on every configuration.
type step struct {
	Label  string
	Body   string
	RawID  string
	Change func(in *kit.Instance)
}

func validValue(typ string, rng *rand.Rand) string {
	switch typ {
	case "string":
		return []string{`"s"`, `""`, `"ünï \"q\" \n"`}[rng.Intn(3)]
	case "number":
		return []string{"1.5", "0", "-3e2", "9007199254740992"}[rng.Intn(4)]
	case "integer":
		return []string{"7", "0", "-1"}[rng.Intn(3)]
	case "boolean":
		return []string{"true", "false"}[rng.Intn(2)]
	case "array":
		return []string{"[]", "[1,\"a\",null]"}[rng.Intn(2)]
	}
	return []string{"{}", `{"k":{"n":[1,2]}}`}[rng.Intn(2)]
}

func genSteps(rng *rand.Rand, s regSpec, ids *gen.IDGen) []step {
	var out []step
	add := func(label, method, params string) {
		raw := ids.Next()
		b := fmt.Sprintf(`{"jsonrpc":"2.0","id":%s,"method":"%s"`, raw, method)
		if params != "" {
			b += `,"params":` + params
		}
		out = append(out, step{Label: label, Body: b + "}", RawID: kit.CanonID([]byte(raw))})
	}
	lists := func(tag string) {
		add("tools/list"+tag, "tools/list", "")
		add("prompts/list"+tag, "prompts/list", "")
		add("resources/list"+tag, "resources/list", "")
	}
	add("ping", "ping", "")
	lists("")
	argsJSON := func(args []argSpec, mode string) string {
		var parts []string
		for i, a := range args {
			switch mode {
			case "valid":
				parts = append(parts, fmt.Sprintf("%q:%s", a.Name, validValue(a.Type, rng)))
			case "missing-required":
				if a.Required {
					continue
				}
				parts = append(parts, fmt.Sprintf("%q:%s", a.Name, validValue(a.Type, rng)))
			case "wrong-type":
				other := map[string]string{"string": "5", "number": `"x"`, "integer": "1.5", "boolean": `"true"`, "array": "{}", "object": "[]"}[a.Type]
				parts = append(parts, fmt.Sprintf("%q:%s", a.Name, other))
			case "extra":
				parts = append(parts, fmt.Sprintf("%q:%s", a.Name, validValue(a.Type, rng)))
				if i == len(args)-1 {
					parts = append(parts, `"zz_extra":[1]`)
				}
			case "null-values":
				parts = append(parts, fmt.Sprintf("%q:null", a.Name))
			}
		}
		return "{" + strings.Join(parts, ",") + "}"
	}
	for _, t := range s.Tools {
		for _, mode := range []string{"valid", "missing-required", "wrong-type", "extra", "null-values"} {
			add(fmt.Sprintf("tools/call|outcome=%s|args=%s", t.Outcome, mode), "tools/call", fmt.Sprintf(`{"name":%q,"arguments":%s}`, t.Name, argsJSON(t.Args, mode)))
		}
		add(fmt.Sprintf("tools/call|outcome=%s|args=absent", t.Outcome), "tools/call", fmt.Sprintf(`{"name":%q}`, t.Name))
		add(fmt.Sprintf("tools/call|outcome=%s|args=null", t.Outcome), "tools/call", fmt.Sprintf(`{"name":%q,"arguments":null}`, t.Name))
		add(fmt.Sprintf("tools/call|outcome=%s|args=array", t.Outcome), "tools/call", fmt.Sprintf(`{"name":%q,"arguments":[1]}`, t.Name))
		add(fmt.Sprintf("tools/call|outcome=%s|_meta", t.Outcome), "tools/call", fmt.Sprintf(`{"name":%q,"arguments":{},"_meta":{"progressToken":"pt"}}`, t.Name))
	}
	add("tools/call|unknown-tool", "tools/call", `{"name":"no-such-tool","arguments":{}}`)
	add("tools/call|name=empty", "tools/call", `{"name":"","arguments":{}}`)
	for _, p := range s.Prompts {
		for _, mode := range []string{"valid", "missing-required", "extra"} {
			a := argsJSON(p.Args, mode)
			if mode == "valid" || mode == "extra" {
				// prompt arguments are strings
				var parts []string
				for _, x := range p.Args {
					parts = append(parts, fmt.Sprintf("%q:%s", x.Name, validValue("string", rng)))
				}
				if mode == "extra" {
					parts = append(parts, `"zz_extra":"e"`)
				}
				a = "{" + strings.Join(parts, ",") + "}"
			}
			add(fmt.Sprintf("prompts/get|outcome=%s|args=%s", p.Outcome, mode), "prompts/get", fmt.Sprintf(`{"name":%q,"arguments":%s}`, p.Name, a))
		}
		add(fmt.Sprintf("prompts/get|outcome=%s|args=absent", p.Outcome), "prompts/get", fmt.Sprintf(`{"name":%q}`, p.Name))
		add(fmt.Sprintf("prompts/get|outcome=%s|args=non-string-values", p.Outcome), "prompts/get", fmt.Sprintf(`{"name":%q,"arguments":{"a0":5,"a1":[1],"a2":null}}`, p.Name))
	}
	add("prompts/get|unknown-prompt", "prompts/get", `{"name":"no-such-prompt"}`)
	for _, x := range s.Res {
		add(fmt.Sprintf("resources/read|outcome=%s", x.Outcome), "resources/read", fmt.Sprintf(`{"uri":%q}`, x.URI))
		add(fmt.Sprintf("resources/read|outcome=%s|extra-arguments", x.Outcome), "resources/read", fmt.Sprintf(`{"uri":%q,"arguments":{"k":"v"}}`, x.URI))
	}
	add("resources/read|unknown-uri", "resources/read", `{"uri":"gen://r/none"}`)
	add("resources/read|uri=int", "resources/read", `{"uri":5}`)
	// ---- the registry changes while the servers run ----
	if len(s.Tools) > 0 {
		t0 := s.Tools[0]
		out = append(out, step{Label: "change:unregister-first-tool", Change: func(in *kit.Instance) { _ = in.UnregisterTools(t0.Name) }})
		lists("|after-unregister")
		add("tools/call|unregistered-tool", "tools/call", fmt.Sprintf(`{"name":%q,"arguments":{}}`, t0.Name))
		t0b := t0
		t0b.Outcome = "echo"
		t0b.Desc = "registered again"
		out = append(out, step{Label: "change:register-it-again-differently", Change: func(in *kit.Instance) { registerTool(in, t0b) }})
		lists("|after-register-again")
		add("tools/call|re-registered-tool", "tools/call", fmt.Sprintf(`{"name":%q,"arguments":{}}`, t0.Name))
	}
	out = append(out, step{Label: "change:register-new-of-each", Change: func(in *kit.Instance) {
		registerTool(in, toolSpec{Name: "late-tool", Outcome: "echo", Args: []argSpec{{Name: "q", Type: "string", Required: true}}})
		registerPrompt(in, promptSpec{Name: "late-prompt", Outcome: "echo"})
		registerRes(in, resSpec{URI: "gen://late", Name: "late", Outcome: "text"})
	}})
	lists("|after-late-registration")
	add("tools/call|late-tool", "tools/call", `{"name":"late-tool","arguments":{"q":"x"}}`)
	add("prompts/get|late-prompt", "prompts/get", `{"name":"late-prompt"}`)
	add("resources/read|late-resource", "resources/read", `{"uri":"gen://late"}`)
	// a second handshake's answer (capabilities after the changes) on a NEW connection is compared by the caller
	return out
}

func generatedDifferential(r *vh.Run, nSpecs int) {
	kinds := []kit.Kind{kit.SJSON, kit.SSSE, kit.SLJSON, kit.SNoSess, kit.LSSE, kit.Stdio, kit.SLSSE}
	for si := 0; si < nSpecs; si++ {
		spec := genSpec(r.Rand(fmt.Sprintf("c14-spec-%d", si)))
		if si == 0 {
			spec = regSpec{} // the empty registry is a registration too
		}
		type res struct {
			norm   []string
			frames [][]string
			init2  string
		}
		results := map[kit.Kind]*res{}
		var steps0 []step
		var mu sync.Mutex
		var wg sync.WaitGroup
		for _, kind := range kinds {
			wg.Add(1)
			go func(kind kit.Kind) {
				defer wg.Done()
				in := kit.Start(kind, kit.Opts{})
				defer in.Close()
				for _, t := range spec.Tools {
					registerTool(in, t)
				}
				for _, p := range spec.Prompts {
					registerPrompt(in, p)
				}
				for _, x := range spec.Res {
					registerRes(in, x)
				}
				ctx, cancel := context.WithTimeout(context.Background(), 10*time.Minute)
				defer cancel()
				c, err := in.Dial(ctx)
				if err != nil {
					r.Fatal("dial %s: %v", kind, err)
				}
				defer c.Close()
				// the handshake answer is the first compared step
				ex := c.Post(ctx, kit.InitBody(`"gen-init"`, ""), kit.PostOpts{WantID: `"gen-init"`, NoSessionID: true, Wait: 15 * time.Second})
				if kind.IsStreamable() && ex.HTTP != nil && ex.HTTP.Sess != "" {
					c.SessionID = ex.HTTP.Sess
				}
				out := &res{}
				o := gen.Observe(kind, ex)
				out.norm = append(out.norm, normalise(o, ex.Frames))
				out.frames = append(out.frames, o.Frames)
				c.Post(ctx, []byte(kit.InitializedBody), kit.PostOpts{NoWait: true})
				// identical steps for every kind: same PRNG label, same id generator
				steps := genSteps(r.Rand(fmt.Sprintf("c14-steps-%d", si)), spec, gen.NewIDGen("c14g", 7000))
				for _, st := range steps {
					if st.Change != nil {
						st.Change(in)
						out.norm = append(out.norm, "change")
						out.frames = append(out.frames, nil)
						continue
					}
					opts := kit.PostOpts{}
					if kind == kit.Stdio || kind == kit.LSSE {
						opts.WantID = st.RawID
						opts.Wait = 15 * time.Second
					}
					ex := c.Post(ctx, []byte(st.Body), opts)
					o := gen.Observe(kind, ex)
					out.norm = append(out.norm, normalise(o, ex.Frames))
					out.frames = append(out.frames, o.Frames)
				}
				// capabilities after the changes, as a new client sees them
				if c2, err := in.Dial(ctx); err == nil {
					ex := c2.Post(ctx, kit.InitBody(`"gen-init-2"`, ""), kit.PostOpts{WantID: `"gen-init-2"`, NoSessionID: true, Wait: 15 * time.Second})
					out.init2 = normalise(gen.Observe(kind, ex), ex.Frames)
					c2.Close()
				}
				mu.Lock()
				results[kind] = out
				if kind == kinds[0] {
					steps0 = steps
				}
				mu.Unlock()
			}(kind)
		}
		wg.Wait()
		ref := results[kinds[0]]
		if ref == nil {
			continue
		}
		labels := append([]string{"initialize"}, func() []string {
			var l []string
			for _, s := range steps0 {
				l = append(l, s.Label)
			}
			return l
		}()...)
		bodyOf := func(i int) string {
			if i == 0 {
				return string(kit.InitBody(`"gen-init"`, ""))
			}
			return steps0[i-1].Body
		}
		for i, label := range labels {
			if i >= len(ref.norm) || ref.norm[i] == "change" {
				continue
			}
			agree := true
			for _, k := range kinds[1:] {
				got := results[k]
				if got == nil || i >= len(got.norm) {
					continue
				}
				r.Eval(1)
				if got.norm[i] != ref.norm[i] {
					agree = false
					r.Violation(fmt.Sprintf("C14|server|generated|%s|%s-vs-%s|%s", label, kinds[0], k, diffClass(ref.norm[i], got.norm[i])),
						fmt.Sprintf("generated registry #%d, step %d (%s): %s answers %s, %s answers %s", si, i, label, kinds[0], short(ref.norm[i]), k, short(got.norm[i])),
						map[string]interface{}{"registry": spec, "request": short(bodyOf(i)), string(kinds[0]): ref.frames[i], string(k): got.frames[i]})
				}
			}
			if agree {
				r.Distinct("server|generated|" + label + "|" + classOf(ref.norm[i]))
			}
		}
		for _, k := range kinds[1:] {
			if results[k] != nil && results[k].init2 != ref.init2 {
				r.Violation(fmt.Sprintf("C14|server|generated|initialize-after-changes|%s-vs-%s|%s", kinds[0], k, diffClass(ref.init2, results[k].init2)),
					fmt.Sprintf("generated registry #%d: initialize after the registry changes: %s answers %s, %s answers %s", si, kinds[0], short(ref.init2), k, short(results[k].init2)), map[string]interface{}{"registry": spec})
			}
		}
		r.Count("generated_registries", 1)
		r.Count("generated_steps_compared", int64(len(labels)))
		if si == 1 {
			r.Sample(map[string]interface{}{"part": "generated", "registry": spec, "steps": len(labels), "example_step": labels[len(labels)/2], "example_answer": short(ref.norm[len(labels)/2])})
		}
	}
}

// ---- client part over generated registries ----

func applySpec(in *kit.Instance, spec regSpec) {
	for _, t := range spec.Tools {
		registerTool(in, t)
	}
	for _, p := range spec.Prompts {
		registerPrompt(in, p)
	}
	for _, x := range spec.Res {
		registerRes(in, x)
	}
}

func init() {
	// the stdio server child of this binary rebuilds the registry from the specification in its environment
	kit.Fixtures["c14gen"] = func(in *kit.Instance) {
		var spec regSpec
		canonEmptyArgs.Store(true)
		if json.Unmarshal([]byte(os.Getenv("C14_SPEC")), &spec) == nil {
			applySpec(in, spec)
		}
		// history part: the same registry operations, through the stdio server's own methods
		var hist []histOp
		if h := os.Getenv("C14_HIST"); h != "" && json.Unmarshal([]byte(h), &hist) == nil {
			ap := newApplier(in)
			for _, o := range hist {
				ap.apply(o)
			}
		}
	}
}

var codeReG = regexp.MustCompile(`code: (-?\d+)`)

func normClient(v interface{}, err error) string {
	if err != nil {
		n := "error"
		if m := codeReG.FindStringSubmatch(err.Error()); m != nil {
			n += ":" + m[1]
		}
		return n
	}
	b, _ := json.Marshal(v)
	var gv interface{}
	_ = json.Unmarshal(b, &gv)
	sortLists(gv)
	b, _ = json.Marshal(gv)
	return "value:" + string(b)
}

// generatedClients: the library's clients (Streamable JSON / SSE / stateless, legacy SSE, stdio) perform the same
// operations against servers that hold the same generated registry; the returned Go values must be equal as JSON.
func generatedClients(r *vh.Run, nSpecs int) {
	ctx, cancel := context.WithTimeout(context.Background(), 20*time.Minute)
	defer cancel()
	canonEmptyArgs.Store(true)
	defer canonEmptyArgs.Store(false)
	for si := 1; si <= nSpecs; si++ {
		spec := genSpec(r.Rand(fmt.Sprintf("c14-spec-%d", si)))
		clientRound(r, ctx, "generated", si, spec, nil, r.Rand(fmt.Sprintf("c14-clientops-%d", si)))
	}
}

// clientRound: one registry — a specification and, in the history part, registry operations applied on top of it
// through each server kind's own methods — served to the five clients; the value every operation returns is compared.
func clientRound(r *vh.Run, ctx context.Context, scen string, si int, spec regSpec, hist []histOp, rng *rand.Rand) {
	type cl struct {
		name string
		c    *kit.LibClient
		in   *kit.Instance
	}
	var cls []cl
	for _, kind := range []kit.Kind{kit.SJSON, kit.SSSE, kit.SLJSON, kit.LSSE} {
		in := kit.Start(kind, kit.Opts{})
		applySpec(in, spec)
		ap := newApplier(in)
		for _, o := range hist {
			ap.apply(o)
		}
		c, err := in.NewClient()
		if err != nil {
			r.Fatal("client: %v", err)
		}
		cls = append(cls, cl{"client@" + string(kind), c, in})
	}
	sb, _ := json.Marshal(spec)
	env := map[string]string{"C14_SPEC": string(sb)}
	if hist != nil {
		env["C14_HIST"] = js(hist)
	}
	if sc, err := kit.NewStdioClient("c14gen", env, 30*time.Second); err == nil {
		cls = append(cls, cl{"client@stdio", sc, nil})
	} else {
		r.Fatal("stdio client: %v", err)
	}
	defer func() {
		for _, c := range cls {
			c.c.Close()
			if c.in != nil {
				c.in.Close()
			}
		}
	}()
	// what is looked at: every name of the specification and every name the history touched (with the last
	// specification registered under it)
	var witness interface{} = map[string]interface{}{"registry": spec}
	if hist != nil {
		var hl []string
		spec, hl = specAfter(spec, hist)
		witness = map[string]interface{}{"names_looked_at": spec, "history": hl}
	}
	for _, c := range cls {
		if _, err := c.c.Initialize(ctx, &mcp.InitializeRequest{}); err != nil {
			r.Violation("C14|client|"+scen+"|initialize|"+c.name, err.Error(), witness)
			return
		}
	}
	type op struct {
		name string
		run  func(c mcp.Connector) (interface{}, error)
	}
	ops := []op{
		{"ListTools", func(c mcp.Connector) (interface{}, error) { return c.ListTools(ctx, &mcp.ListToolsRequest{}) }},
		{"ListPrompts", func(c mcp.Connector) (interface{}, error) { return c.ListPrompts(ctx, &mcp.ListPromptsRequest{}) }},
		{"ListResources", func(c mcp.Connector) (interface{}, error) { return c.ListResources(ctx, &mcp.ListResourcesRequest{}) }},
	}
	for _, t := range spec.Tools {
		t := t
		for _, mode := range []string{"typed", "nil", "empty"} {
			var args map[string]interface{}
			switch mode {
			case "typed":
				args = map[string]interface{}{}
				for _, a := range t.Args {
					var v interface{}
					_ = json.Unmarshal([]byte(validValue(a.Type, rng)), &v)
					args[a.Name] = v
				}
			case "empty":
				args = map[string]interface{}{}
			}
			a := args
			ops = append(ops, op{fmt.Sprintf("CallTool|outcome=%s|args=%s", t.Outcome, mode), func(c mcp.Connector) (interface{}, error) {
				rq := &mcp.CallToolRequest{}
				rq.Params.Name = t.Name
				rq.Params.Arguments = a
				return c.CallTool(ctx, rq)
			}})
		}
	}
	for _, p := range spec.Prompts {
		p := p
		args := map[string]string{}
		for _, a := range p.Args {
			args[a.Name] = "v-" + a.Name
		}
		ops = append(ops, op{fmt.Sprintf("GetPrompt|outcome=%s", p.Outcome), func(c mcp.Connector) (interface{}, error) {
			rq := &mcp.GetPromptRequest{}
			rq.Params.Name = p.Name
			rq.Params.Arguments = args
			return c.GetPrompt(ctx, rq)
		}})
	}
	for _, x := range spec.Res {
		x := x
		ops = append(ops, op{fmt.Sprintf("ReadResource|outcome=%s", x.Outcome), func(c mcp.Connector) (interface{}, error) {
			rq := &mcp.ReadResourceRequest{}
			rq.Params.URI = x.URI
			return c.ReadResource(ctx, rq)
		}})
	}
	// history part: a registry that diverged shows in every later operation of the same family; per round, client and
	// family (List* / CallTool / GetPrompt / ReadResource of that kind of entry) only the first divergence is reported
	reported := map[string]bool{}
	for _, o := range ops {
		var ref string
		for i, c := range cls {
			v, err := o.run(c.c)
			r.Eval(1)
			norm := normClient(v, err)
			if i == 0 {
				ref = norm
				continue
			}
			if norm != ref {
				if hist != nil {
					fk := c.name + "|" + clientFamily(o.name)
					if reported[fk] {
						r.Count("history_client_follow_up_divergences(not reported again)", 1)
						continue
					}
					reported[fk] = true
				}
				r.Violation(fmt.Sprintf("C14|client|%s|%s|%s-vs-%s|%s", scen, o.name, cls[0].name, c.name, diffClass(strings.Replace(ref, "value:", "result:", 1), strings.Replace(norm, "value:", "result:", 1))),
					fmt.Sprintf("%s registry #%d, operation %s: %s returned %s, %s returned %s", scen, si, o.name, cls[0].name, short(ref), c.name, short(norm)), witness)
			} else {
				r.Distinct("client|" + scen + "|" + o.name + "|" + c.name)
			}
		}
	}
	r.Count(scen+"_client_operations", int64(len(ops)))
}

// clientFamily: the kind of registry entry a client operation looks at.
func clientFamily(op string) string {
	switch {
	case strings.HasSuffix(op, "Tools") || strings.HasPrefix(op, "CallTool"):
		return "tools"
	case strings.HasSuffix(op, "Prompts") || strings.HasPrefix(op, "GetPrompt"):
		return "prompts"
	}
	return "resources"
}
