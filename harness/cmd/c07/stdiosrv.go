package main

import (
	"bufio"
	"encoding/json"
	"fmt"
	"os"
	"strings"
	"sync"
	"time"
)

// stdioServerMain is the scripted stdio server (role c07-stdio-srv): JSON-RPC lines on stdin, on stdout
// whatever the script says for the probe, correct answers for everything else. No library type is used.
// Every event is appended to the record file C07_REC so that the oracle sees the wire from the server's side.
func stdioServerMain() {
	var sc Script
	b, err := os.ReadFile(os.Getenv("C07_SCRIPT"))
	if err != nil || json.Unmarshal(b, &sc) != nil {
		fmt.Fprintln(os.Stderr, "c07-stdio-srv: cannot load script")
		os.Exit(2)
	}
	rec, _ := os.OpenFile(os.Getenv("C07_REC"), os.O_CREATE|os.O_WRONLY|os.O_APPEND, 0o644)
	var rmu sync.Mutex
	note := func(format string, a ...interface{}) {
		if rec == nil {
			return
		}
		m := fmt.Sprintf(format, a...)
		if len(m) > 400 {
			m = m[:400] + "..."
		}
		rmu.Lock()
		rec.WriteString(strings.ReplaceAll(m, "\n", " ") + "\n")
		rmu.Unlock()
	}
	out := os.Stdout
	write := func(b []byte) bool {
		for len(b) > 0 {
			n, err := out.Write(b)
			if err != nil {
				note("ERR stdout write: %v", err)
				return false
			}
			b = b[n:]
		}
		return true
	}
	answer := func(m *rpcMsg, name string) {
		if write([]byte(fmt.Sprintf(`{"jsonrpc":"2.0","id":%s,"result":%s}`+"\n", m.ID, validResult(m.Method, name)))) {
			note("ANSWERED %s id=%s", name, m.ID)
		}
	}
	var pending *rpcMsg
	probeDone := false
	rd := bufio.NewReaderSize(os.Stdin, 1<<20)
	for {
		line, err := rd.ReadBytes('\n')
		if len(line) > 0 {
			note("RECV %s", strings.TrimSpace(string(line)))
		}
		if err != nil {
			// stdin closed: leave after a moment (the client under test closes stdin first and the other pipes next;
			// leaving at once would race its own Close, which is not what this check is about)
			time.Sleep(300 * time.Millisecond)
			return
		}
		var m rpcMsg
		if json.Unmarshal(line, &m) != nil {
			continue
		}
		switch {
		case m.Method == "initialize":
			write([]byte(fmt.Sprintf(`{"jsonrpc":"2.0","id":%s,"result":{"protocolVersion":"2025-03-26","capabilities":{"tools":{"listChanged":true}},"serverInfo":{"name":"scripted","version":"1"}}}`+"\n", m.ID)))
		case m.Method != "" && !m.hasID():
		case m.Method == "":
			// an answer of the client to a server-issued request (possibly without a usable id)
			note("CLIENTRESP %s", m.ID)
		case m.Method == "tools/call" && m.Params.Name == "pending":
			if probeDone {
				answer(&m, "pending")
			} else {
				mm := m
				pending = &mm
				note("PENDING id=%s", m.ID)
			}
		case !probeDone && isProbe(&m, &sc):
			id, pid := string(m.ID), "424242"
			if pending != nil {
				pid = string(pending.ID)
			}
			if len(sc.Stderr) > 0 {
				os.Stderr.Write(sc.Stderr)
			}
			for _, p := range sc.Stream {
				if !write(p.expand(id, pid)) {
					break
				}
				if p.Ms > 0 {
					time.Sleep(time.Duration(p.Ms) * time.Millisecond)
				}
			}
			probeDone = true
			note("PROBEDONE id=%s pid=%s", id, pid)
			if sc.StreamClose {
				note("EXIT")
				os.Exit(0)
			}
			if pending != nil {
				answer(pending, "pending")
				pending = nil
			}
		case m.Method == "tools/call" && strings.HasPrefix(m.Params.Name, "later-"):
			k := strings.TrimPrefix(m.Params.Name, "later-")
			write([]byte(fmt.Sprintf(`{"jsonrpc":"2.0","method":"notifications/verif","params":{"n":%s}}`+"\n", k)))
			write([]byte(fmt.Sprintf(`{"jsonrpc":"2.0","id":"srv-later-%s","method":"roots/list"}`+"\n", k)))
			note("LATER %s", k)
			answer(&m, m.Params.Name)
		default:
			name := m.Params.Name
			if isListMethod(m.Method) {
				name = "list"
			}
			answer(&m, name)
		}
	}
}

// stdioCtl reads the record file of a scripted stdio server.
type stdioCtl struct{ path string }

func (c stdioCtl) lines() []string {
	b, _ := os.ReadFile(c.path)
	return strings.Split(string(b), "\n")
}

func (c stdioCtl) has(prefix string) bool {
	for _, l := range c.lines() {
		if strings.HasPrefix(l, prefix) {
			return true
		}
	}
	return false
}

func (c stdioCtl) waitFor(prefix string, d time.Duration) bool {
	dl := time.Now().Add(d)
	for {
		if c.has(prefix) {
			return true
		}
		if !time.Now().Before(dl) {
			return false
		}
		time.Sleep(5 * time.Millisecond)
	}
}

func (c stdioCtl) wire() []string {
	l := c.lines()
	if len(l) > 40 {
		l = l[len(l)-40:]
	}
	for i := range l {
		if len(l[i]) > 200 {
			l[i] = l[i][:200] + "..."
		}
	}
	return l
}
