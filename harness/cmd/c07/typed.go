package main

import (
	"fmt"
	"math/rand"
	"strings"
)

// ---------------------------------------------------------------------------------------------
// The typed-members family: the TYPE LATTICE of the members of server-to-client messages.
//
// The other generators mutate envelopes, ids and framing; the members INSIDE notifications, server-issued
// requests, results and error objects are mostly well typed there. Here every frame is well-formed JSON in
// a well-formed JSON-RPC envelope, and ONE member is given each JSON type in turn (null, bool, number,
// string, array, object, plus empty / nested / out-of-range values), is duplicated, is deeply nested or is
// very large:
//
//   notif   notifications (no id): params as a whole, params._meta, the members of progress / message /
//           cancelled / resources-updated notifications, the method member, unknown and duplicated members
//   srvreq  server-issued requests (own id): params, params._meta, the members of sampling/createMessage and
//           elicitation/create, the method member, unknown and duplicated members
//   result  responses bearing the id of the call in flight whose result members are of a wrong type
//           (content and its items, contents, messages, tools[i].inputSchema / annotations, prompts,
//           resources, _meta, isError, nextCursor, structuredContent, roots, ...)
//   error   error responses bearing that id whose code / message / data are of each type
//
// notif / srvreq cells carry all type variants of one member (they are not answers: every frame is read
// by the client's reader); result / error cells carry ONE frame (the first frame bearing the id is the one the
// call decodes). Every cell is placed before / between / after / instead of the well-formed answer on every
// transport (sameIDCombos), with and without notification handlers registered for the methods used.
// Oracle (child.go judgeTyped + the general stages): the call returns an error or the well-formed answer
// (a frame that bears the call's id may also be read leniently), nothing dies, nothing spins, later frames
// and calls are processed and Close returns.
// ---------------------------------------------------------------------------------------------

type tv struct{ name, val string }

var coreTypes = []tv{
	{"null", "null"}, {"bool", "true"}, {"number", "-7.5"}, {"string", `"s"`},
	{"array", `[1,"a",null,{}]`}, {"object", `{"k":{"j":[1]}}`},
}

var moreTypes = []tv{
	{"false", "false"}, {"zero", "0"}, {"empty-string", `""`}, {"empty-array", "[]"}, {"empty-object", "{}"},
	{"big-number", "1e400"}, {"nested", `{"a":{"b":[{"c":null,"_meta":[{}]}]}}`},
}

func allTypes() []tv { return append(append([]tv{}, coreTypes...), moreTypes...) }

// typesExcept: the core types but the named ones.
func typesExcept(names ...string) []tv {
	var out []tv
	for _, t := range coreTypes {
		skip := false
		for _, n := range names {
			skip = skip || n == t.name
		}
		if !skip {
			out = append(out, t)
		}
	}
	return out
}

// typedNotifMethods are the notification methods the family uses; in with-handler mode a handler is registered for each.
var typedNotifMethods = []string{
	"notifications/message", "notifications/progress", "notifications/cancelled",
	"notifications/tools/list_changed", "notifications/prompts/list_changed",
	"notifications/resources/list_changed", "notifications/resources/updated",
}

type typedCell struct {
	family  string // notif | srvreq | result | error
	class   string
	variant string
	method  string // probe method the cell needs ("" = rotates over probeMethods)
	msgs    []string
	pad     int
}

func notifFrame(method, params string) string {
	if params == "" {
		return `{"jsonrpc":"2.0","method":"` + method + `"}`
	}
	return `{"jsonrpc":"2.0","method":"` + method + `","params":` + params + `}`
}

// obj renders an object from (key, raw value) pairs, in order (duplicates allowed).
func obj(kv ...string) string {
	var b strings.Builder
	b.WriteByte('{')
	for i := 0; i+1 < len(kv); i += 2 {
		if i > 0 {
			b.WriteByte(',')
		}
		b.WriteString(`"` + kv[i] + `":` + kv[i+1])
	}
	b.WriteByte('}')
	return b.String()
}

// with replaces (or appends) member key of the ordered pairs base by raw value v.
func with(base []string, key, v string) string {
	kv := append([]string{}, base...)
	found := false
	for i := 0; i+1 < len(kv); i += 2 {
		if kv[i] == key {
			kv[i+1] = v
			found = true
		}
	}
	if !found {
		kv = append(kv, key, v)
	}
	return obj(kv...)
}

func deep(n int) string { return strings.Repeat("[", n) + strings.Repeat("]", n) }

// ---- notif + srvreq cells (grouped: all type variants of one member in one cell) ----

func typedStreamCells() []typedCell {
	var cells []typedCell
	add := func(family, class string, msgs []string, pad int) {
		cells = append(cells, typedCell{family: family, class: class, variant: "all-types", msgs: msgs, pad: pad})
	}
	types := allTypes()

	// -- notifications --
	{
		var ms []string
		for _, t := range types {
			for _, m := range []string{"notifications/verif", "notifications/message", "notifications/progress"} {
				ms = append(ms, notifFrame(m, t.val))
			}
		}
		ms = append(ms, notifFrame("notifications/verif", ""), notifFrame("notifications/progress", ""))
		add("notif", "typed-notif-params", ms, 0)
	}
	{
		var ms []string
		for _, t := range types {
			for i, m := range []string{"notifications/verif", "notifications/message", "notifications/progress", "notifications/tools/list_changed"} {
				if i%2 == 0 {
					ms = append(ms, notifFrame(m, obj("_meta", t.val, "n", "0")))
				} else {
					ms = append(ms, notifFrame(m, obj("n", "0", "_meta", t.val)))
				}
			}
			ms = append(ms, notifFrame("notifications/verif", obj("_meta", t.val)))
			ms = append(ms, notifFrame("notifications/progress", obj("_meta", obj("progressToken", t.val), "progress", "1")))
		}
		add("notif", "typed-notif-meta", ms, 0)
	}
	progBase := []string{"progressToken", `"tok"`, "progress", "1", "total", "2", "message", `"m"`}
	for _, member := range []string{"progressToken", "progress", "total", "message"} {
		var ms []string
		for _, t := range types {
			ms = append(ms, notifFrame("notifications/progress", with(progBase, member, t.val)))
		}
		ms = append(ms, notifFrame("notifications/progress", with(progBase, member, "99999999999999999999")), notifFrame("notifications/progress", with(progBase, member, "1e-400")))
		add("notif", "typed-notif-progress-"+member, ms, 0)
	}
	logBase := []string{"level", `"info"`, "logger", `"l"`, "data", `"d"`}
	for _, member := range []string{"level", "logger", "data"} {
		var ms []string
		for _, t := range types {
			ms = append(ms, notifFrame("notifications/message", with(logBase, member, t.val)))
		}
		ms = append(ms, notifFrame("notifications/message", with(logBase, member, `"no-such-level"`)))
		add("notif", "typed-notif-message-"+member, ms, 0)
	}
	{
		var ms []string
		for _, t := range types {
			ms = append(ms, `{"jsonrpc":"2.0","method":`+t.val+`}`, `{"jsonrpc":"2.0","method":`+t.val+`,"params":{"n":0}}`)
		}
		ms = append(ms, notifFrame("x/"+strings.Repeat("m", 3000), `{}`), notifFrame("notifications/", `{}`), notifFrame("NOTIFICATIONS/VERIF", `{"n":0}`))
		add("notif", "typed-notif-method", ms, 0)
	}
	{
		var ms []string
		for _, t := range types {
			ms = append(ms,
				notifFrame("notifications/cancelled", obj("requestId", t.val, "reason", `"r"`)),
				notifFrame("notifications/cancelled", obj("requestId", "987654", "reason", t.val)),
				notifFrame("notifications/resources/updated", obj("uri", t.val)),
				notifFrame("notifications/resources/list_changed", t.val),
				notifFrame("notifications/prompts/list_changed", obj("_meta", t.val)))
		}
		add("notif", "typed-notif-cancelled-updated-listchanged", ms, 0)
	}
	{
		var ms []string
		for _, t := range types {
			ms = append(ms,
				`{"jsonrpc":"2.0","method":"notifications/verif","params":{"n":0},"extra":`+t.val+`}`,
				`{"jsonrpc":"2.0","_meta":`+t.val+`,"method":"notifications/message","params":{"level":"info","data":"d"}}`,
				notifFrame("notifications/verif", obj("n", "0", "unknown", t.val, "meta", t.val, "__meta", t.val)))
		}
		add("notif", "typed-notif-unknown-members", ms, 0)
	}
	{
		var ms []string
		for _, t := range types {
			ms = append(ms,
				notifFrame("notifications/verif", obj("_meta", `{"a":1}`, "_meta", t.val, "n", "0")),
				notifFrame("notifications/verif", obj("_meta", t.val, "_meta", `{"a":1}`, "n", "0")),
				`{"jsonrpc":"2.0","method":"notifications/verif","params":`+t.val+`,"params":{"n":0}}`,
				`{"jsonrpc":"2.0","method":"notifications/verif","params":{"n":0},"params":`+t.val+`}`,
				`{"jsonrpc":"2.0","method":"notifications/verif","method":`+t.val+`,"params":{"n":0}}`,
				`{"jsonrpc":"2.0","method":`+t.val+`,"method":"notifications/verif","params":{"n":0}}`)
		}
		ms = append(ms, `{"jsonrpc":"2.0","jsonrpc":"2.0","method":"notifications/verif","params":{"n":0,"n":0}}`)
		add("notif", "typed-notif-duplicated-members", ms, 0)
	}
	add("notif", "typed-notif-deep-values", []string{
		notifFrame("notifications/verif", obj("_meta", deep(200), "n", "0")),
		notifFrame("notifications/verif", obj("_meta", obj("k", deep(3000)), "n", "0")),
		notifFrame("notifications/message", obj("level", `"info"`, "data", deep(9000))),
		notifFrame("notifications/progress", obj("progressToken", deep(12000), "progress", "1")),
		notifFrame("notifications/verif", obj("_meta", strings.Repeat(`{"_meta":`, 2000)+"null"+strings.Repeat("}", 2000), "n", "0")),
	}, 0)
	add("notif", "typed-notif-large-values", []string{
		notifFrame("notifications/verif", obj("_meta", `"@PAD@"`, "n", "0")),
		notifFrame("notifications/verif", obj("_meta", obj("k", `"@PAD@"`), "n", "0")),
		notifFrame("notifications/message", obj("level", `"info"`, "data", `["@PAD@"]`)),
		notifFrame("notifications/progress", obj("progressToken", `"@PAD@"`, "progress", "1")),
		notifFrame("notifications/progress", obj("progressToken", "1", "progress", "1", "message", `"@PAD@"`)),
	}, 1<<20)

	// -- server-issued requests (own ids, alternately strings and numbers) --
	sn := 0
	sreq := func(methodJSON, params string, more ...string) string {
		sn++
		id := fmt.Sprintf(`"srv-t-%d"`, sn)
		if sn%3 == 0 {
			id = fmt.Sprint(880000 + sn)
		}
		kv := []string{"jsonrpc", `"2.0"`, "id", id, "method", methodJSON}
		if params != "" {
			kv = append(kv, "params", params)
		}
		return obj(append(kv, more...)...)
	}
	srvMethods := []string{`"roots/list"`, `"sampling/createMessage"`, `"ping"`, `"elicitation/create"`, `"verif/unknown"`}
	{
		var ms []string
		for _, t := range types {
			for _, m := range srvMethods {
				ms = append(ms, sreq(m, t.val))
			}
		}
		add("srvreq", "typed-srvreq-params", ms, 0)
	}
	{
		var ms []string
		for _, t := range types {
			for _, m := range srvMethods[:3] {
				ms = append(ms, sreq(m, obj("_meta", t.val)))
			}
			ms = append(ms, sreq(`"roots/list"`, obj("_meta", obj("progressToken", t.val))))
		}
		add("srvreq", "typed-srvreq-meta", ms, 0)
	}
	{
		samp := []string{"messages", `[{"role":"user","content":{"type":"text","text":"hi"}}]`, "maxTokens", "10", "systemPrompt", `"p"`, "modelPreferences", `{"hints":[{"name":"m"}]}`}
		var ms []string
		for _, t := range types {
			for _, member := range []string{"messages", "maxTokens", "systemPrompt", "modelPreferences"} {
				ms = append(ms, sreq(`"sampling/createMessage"`, with(samp, member, t.val)))
			}
			ms = append(ms,
				sreq(`"sampling/createMessage"`, with(samp, "messages", "["+t.val+"]")),
				sreq(`"sampling/createMessage"`, with(samp, "messages", `[{"role":`+t.val+`,"content":`+t.val+`}]`)),
				sreq(`"sampling/createMessage"`, with(samp, "messages", `[{"role":"user","content":{"type":`+t.val+`,"text":`+t.val+`}}]`)),
				sreq(`"elicitation/create"`, obj("message", t.val, "requestedSchema", t.val)))
		}
		add("srvreq", "typed-srvreq-sampling-elicitation-members", ms, 0)
	}
	{
		var ms []string
		for _, t := range types {
			ms = append(ms, sreq(t.val, ""), sreq(t.val, `{}`))
		}
		add("srvreq", "typed-srvreq-method", ms, 0)
	}
	{
		var ms []string
		for _, t := range types {
			ms = append(ms,
				sreq(`"roots/list"`, `{}`, "params", t.val),
				sreq(`"roots/list"`, t.val, "params", `{}`),
				sreq(`"roots/list"`, "", "method", t.val),
				sreq(t.val, "", "method", `"roots/list"`),
				sreq(`"roots/list"`, "", "extra", t.val, "_meta", t.val),
				sreq(`"roots/list"`, obj("_meta", `{"a":1}`, "_meta", t.val)),
				sreq(`"ping"`, "", "id", `"srv-t-dup"`))
		}
		add("srvreq", "typed-srvreq-unknown-and-duplicated-members", ms, 0)
	}
	add("srvreq", "typed-srvreq-deep-and-large-values", []string{
		sreq(`"roots/list"`, obj("_meta", deep(3000))),
		sreq(`"roots/list"`, deep(12000)),
		sreq(`"sampling/createMessage"`, obj("messages", deep(9000))),
		sreq(`"roots/list"`, obj("_meta", obj("k", `"@PAD@"`))),
		sreq(`"sampling/createMessage"`, obj("messages", `[{"role":"user","content":{"type":"text","text":"@PAD@"}}]`, "maxTokens", "1")),
		sreq(`"ping"`, `"@PAD@"`),
	}, 1<<20)
	return cells
}

// ---- result + error cells (one frame each, bearing the id of the call in flight) ----

func typedAnswerCells() []typedCell {
	var cells []typedCell
	res := func(method, class, variant, body string) {
		cells = append(cells, typedCell{family: "result", class: class, variant: variant, method: method,
			msgs: []string{`{"jsonrpc":"2.0","id":@ID@,"result":` + body + `}`}})
	}
	core := coreTypes
	few := []tv{coreTypes[0], coreTypes[2], coreTypes[5]} // null, number, object
	some := append(append([]tv{}, coreTypes...), tv{"empty-array", "[]"}, tv{"empty-object", "{}"})

	// tools/call
	const tc = "tools/call"
	item := `{"type":"text","text":"valid:probe"}`
	itemKV := []string{"type", `"text"`, "text", `"valid:probe"`}
	for _, t := range some {
		res(tc, "typed-result-content", t.name, obj("content", t.val))
	}
	for _, t := range core {
		res(tc, "typed-result-content-item", t.name, obj("content", "["+t.val+"]"))
	}
	res(tc, "typed-result-content-item", "valid-then-null", obj("content", "["+item+",null]"))
	res(tc, "typed-result-content-item", "valid-then-number", obj("content", "["+item+",7]"))
	for _, t := range typesExcept("string") {
		res(tc, "typed-result-content-item-type", t.name, obj("content", "["+with(itemKV, "type", t.val)+"]"))
		res(tc, "typed-result-content-item-text", t.name, obj("content", "["+with(itemKV, "text", t.val)+"]"))
	}
	res(tc, "typed-result-content-item-type", "unknown-string", obj("content", `[{"type":"nope","text":"valid:probe"}]`))
	res(tc, "typed-result-content-item-type", "absent", obj("content", `[{"text":"valid:probe"}]`))
	for _, t := range few {
		res(tc, "typed-result-content-item-image-audio", "data-"+t.name, obj("content", `[{"type":"image","data":`+t.val+`,"mimeType":"image/png"}]`))
		res(tc, "typed-result-content-item-image-audio", "mimeType-"+t.name, obj("content", `[{"type":"audio","data":"QQ==","mimeType":`+t.val+`}]`))
		res(tc, "typed-result-content-item-resource", "uri-"+t.name, obj("content", `[{"type":"resource","resource":{"uri":`+t.val+`,"text":"x"}}]`))
		res(tc, "typed-result-content-item-resource", "text-"+t.name, obj("content", `[{"type":"resource","resource":{"uri":"file:///x","text":`+t.val+`}}]`))
		res(tc, "typed-result-content-item-resource", "blob-"+t.name, obj("content", `[{"type":"resource","resource":{"uri":"file:///x","blob":`+t.val+`,"mimeType":`+t.val+`}}]`))
	}
	for _, t := range core {
		res(tc, "typed-result-content-item-resource", "resource-"+t.name, obj("content", `[{"type":"resource","resource":`+t.val+`}]`))
		res(tc, "typed-result-content-item-annotations", t.name, obj("content", "["+with(itemKV, "annotations", t.val)+"]"))
		res(tc, "typed-result-meta", "call-"+t.name, obj("_meta", t.val, "content", "["+item+"]"))
		res(tc, "typed-result-structuredContent", t.name, obj("content", "["+item+"]", "structuredContent", t.val))
		res(tc, "typed-result-isError", t.name, obj("content", "["+item+"]", "isError", t.val))
	}
	res(tc, "typed-result-meta", "call-nested-after-content", obj("content", "["+item+"]", "_meta", moreTypes[6].val))
	res(tc, "typed-result-content-item-annotations", "members-mistyped", obj("content", "["+with(itemKV, "annotations", `{"audience":"user","priority":"high"}`)+"]"))
	// duplicated / unknown members, deep and large values
	res(tc, "typed-result-duplicated-members", "content-valid-then-null", obj("content", "["+item+"]", "content", "null"))
	res(tc, "typed-result-duplicated-members", "content-string-then-valid", obj("content", `"s"`, "content", "["+item+"]"))
	res(tc, "typed-result-duplicated-members", "meta-object-then-number", obj("_meta", `{"a":1}`, "_meta", "7", "content", "["+item+"]"))
	cells = append(cells, typedCell{family: "result", class: "typed-result-duplicated-members", variant: "result-twice", method: tc,
		msgs: []string{`{"jsonrpc":"2.0","id":@ID@,"result":7,"result":` + obj("content", "["+item+"]") + `}`}})
	res(tc, "typed-result-unknown-members", "call", obj("content", "["+item+"]", "unknown", `[1]`, "Content", "7", "is_error", `"x"`))
	res(tc, "typed-result-deep-and-large-values", "meta-deep", obj("_meta", obj("k", deep(12000)), "content", "["+item+"]"))
	res(tc, "typed-result-deep-and-large-values", "structured-deep", obj("content", "["+item+"]", "structuredContent", deep(3000)))
	cells = append(cells, typedCell{family: "result", class: "typed-result-deep-and-large-values", variant: "meta-large", method: tc, pad: 1 << 20,
		msgs: []string{`{"jsonrpc":"2.0","id":@ID@,"result":` + obj("_meta", obj("k", `"@PAD@"`), "content", "["+item+"]") + `}`}})
	// "roots" is what a CLIENT answers; a server result carrying it (of any type) is an unknown member
	for i, t := range core {
		m := probeMethods[i%len(probeMethods)]
		res(m, "typed-result-roots-member", t.name, strings.TrimSuffix(resultBody(m, validMarker(m, "probe")), "}")+`,"roots":`+t.val+`}`)
	}

	// tools/list
	const tl = "tools/list"
	toolKV := []string{"name", `"valid-tool"`, "description", `"d"`, "inputSchema", `{"type":"object"}`}
	tool := obj(toolKV...)
	for _, t := range some {
		res(tl, "typed-result-tools", t.name, obj("tools", t.val))
	}
	for _, t := range core {
		res(tl, "typed-result-tools-item", t.name, obj("tools", "["+t.val+"]"))
		res(tl, "typed-result-tools-inputSchema", t.name, obj("tools", "["+with(toolKV, "inputSchema", t.val)+"]"))
		res(tl, "typed-result-tools-annotations", t.name, obj("tools", "["+with(toolKV, "annotations", t.val)+"]"))
	}
	res(tl, "typed-result-tools-item", "every-type-then-valid", obj("tools", `[null,true,1,"s",[],{},`+tool+`]`))
	res(tl, "typed-result-tools-inputSchema", "type-number", obj("tools", "["+with(toolKV, "inputSchema", `{"type":7}`)+"]"))
	res(tl, "typed-result-tools-inputSchema", "properties-string", obj("tools", "["+with(toolKV, "inputSchema", `{"type":"object","properties":"x"}`)+"]"))
	res(tl, "typed-result-tools-inputSchema", "property-number-required-string", obj("tools", "["+with(toolKV, "inputSchema", `{"type":"object","properties":{"a":7},"required":"x"}`)+"]"))
	res(tl, "typed-result-tools-inputSchema", "deep", obj("tools", "["+with(toolKV, "inputSchema", strings.Repeat(`{"properties":{"a":`, 1500)+"{}"+strings.Repeat("}}", 1500))+"]"))
	res(tl, "typed-result-tools-annotations", "members-mistyped", obj("tools", "["+with(toolKV, "annotations", `{"title":7,"readOnlyHint":"yes","destructiveHint":[],"idempotentHint":{},"openWorldHint":null}`)+"]"))
	for _, t := range few {
		res(tl, "typed-result-tools-outputSchema", t.name, obj("tools", "["+with(toolKV, "outputSchema", t.val)+"]"))
		res(tl, "typed-result-tools-name-description", "description-"+t.name, obj("tools", "["+with(toolKV, "description", t.val)+"]"))
		res(tl, "typed-result-meta", "list-"+t.name, obj("_meta", t.val, "tools", "["+tool+"]"))
	}
	res(tl, "typed-result-tools-outputSchema", "string", obj("tools", "["+with(toolKV, "outputSchema", `"s"`)+"]"))
	for _, t := range typesExcept("string") {
		res(tl, "typed-result-tools-name-description", "name-"+t.name, obj("tools", "["+with(toolKV, "name", t.val)+"]"))
		res(tl, "typed-result-nextCursor", "tools-"+t.name, obj("tools", "["+tool+"]", "nextCursor", t.val))
	}
	for _, t := range few {
		res("prompts/list", "typed-result-nextCursor", "prompts-"+t.name, obj("prompts", `[{"name":"valid-prompt"}]`, "nextCursor", t.val))
		res("resources/list", "typed-result-nextCursor", "resources-"+t.name, obj("nextCursor", t.val, "resources", `[{"uri":"file:///c07/r","name":"valid-res"}]`))
	}

	// prompts/list, resources/list
	promptKV := []string{"name", `"valid-prompt"`, "description", `"d"`}
	resKV := []string{"uri", `"file:///c07/r"`, "name", `"valid-res"`, "mimeType", `"text/plain"`}
	for _, t := range core {
		res("prompts/list", "typed-result-prompts", t.name, obj("prompts", t.val))
		res("resources/list", "typed-result-resources", t.name, obj("resources", t.val))
	}
	for _, t := range typesExcept("object") {
		res("prompts/list", "typed-result-prompts-item", t.name, obj("prompts", "["+t.val+","+obj(promptKV...)+"]"))
		res("resources/list", "typed-result-resources-item", t.name, obj("resources", "["+t.val+","+obj(resKV...)+"]"))
	}
	for _, t := range typesExcept("array") {
		res("prompts/list", "typed-result-prompts-item-members", "arguments-"+t.name, obj("prompts", "["+with(promptKV, "arguments", t.val)+"]"))
	}
	res("prompts/list", "typed-result-prompts-item-members", "arguments-items-mistyped", obj("prompts", "["+with(promptKV, "arguments", `[null,7,"s",{"name":7,"required":"yes"}]`)+"]"))
	for _, t := range few {
		res("prompts/list", "typed-result-prompts-item-members", "name-"+t.name, obj("prompts", "["+with(promptKV, "name", t.val)+"]"))
		res("resources/list", "typed-result-resources-item-members", "uri-"+t.name, obj("resources", "["+with(resKV, "uri", t.val)+"]"))
		res("resources/list", "typed-result-resources-item-members", "name-mimeType-"+t.name, obj("resources", "["+with(resKV, "name", t.val)+","+with(resKV, "mimeType", t.val)+"]"))
		res("resources/list", "typed-result-resources-item-members", "annotations-size-"+t.name, obj("resources", "["+with(resKV, "annotations", t.val)+","+with(resKV, "size", t.val)+"]"))
	}
	res("resources/list", "typed-result-resources-item-members", "size-string", obj("resources", "["+with(resKV, "size", `"big"`)+"]"))

	// resources/read
	const rr = "resources/read"
	cKV := []string{"uri", `"file:///c07/probe"`, "mimeType", `"text/plain"`, "text", `"valid:probe"`}
	for _, t := range some {
		res(rr, "typed-result-contents", t.name, obj("contents", t.val))
	}
	for _, t := range core {
		res(rr, "typed-result-contents-item", t.name, obj("contents", "["+t.val+"]"))
	}
	res(rr, "typed-result-contents-item", "every-type-then-valid", obj("contents", `[null,true,1,"s",[],{},`+obj(cKV...)+`]`))
	for _, t := range few {
		res(rr, "typed-result-contents-item-members", "uri-"+t.name, obj("contents", "["+with(cKV, "uri", t.val)+"]"))
		res(rr, "typed-result-contents-item-members", "text-"+t.name, obj("contents", "["+with(cKV, "text", t.val)+"]"))
		res(rr, "typed-result-contents-item-members", "mimeType-"+t.name, obj("contents", "["+with(cKV, "mimeType", t.val)+"]"))
		res(rr, "typed-result-contents-item-members", "blob-"+t.name, obj("contents", `[{"uri":"file:///c07/probe","blob":`+t.val+`}]`))
		res(rr, "typed-result-meta", "read-"+t.name, obj("contents", "["+obj(cKV...)+"]", "_meta", t.val))
	}
	res(rr, "typed-result-contents-item-members", "text-and-blob", obj("contents", `[{"uri":"file:///c07/probe","text":"valid:probe","blob":"QQ=="}]`))

	// prompts/get
	const pg = "prompts/get"
	msg := `{"role":"user","content":{"type":"text","text":"valid:probe"}}`
	for _, t := range some {
		res(pg, "typed-result-messages", t.name, obj("description", `"d"`, "messages", t.val))
	}
	for _, t := range core {
		res(pg, "typed-result-messages-item", t.name, obj("messages", "["+t.val+"]"))
		res(pg, "typed-result-messages-content", t.name, obj("messages", `[{"role":"user","content":`+t.val+`}]`))
	}
	res(pg, "typed-result-messages-item", "valid-then-null", obj("messages", "["+msg+",null]"))
	res(pg, "typed-result-messages-content", "absent", obj("messages", `[{"role":"user"}]`))
	res(pg, "typed-result-messages-content", "array-of-items", obj("messages", `[{"role":"user","content":[{"type":"text","text":"valid:probe"}]}]`))
	for _, t := range typesExcept("string") {
		res(pg, "typed-result-messages-role", t.name, obj("messages", `[{"role":`+t.val+`,"content":{"type":"text","text":"valid:probe"}}]`))
	}
	res(pg, "typed-result-messages-role", "unknown-string", obj("messages", `[{"role":"nobody","content":{"type":"text","text":"valid:probe"}}]`))
	for _, t := range few {
		res(pg, "typed-result-messages-content-members", "type-"+t.name, obj("messages", `[{"role":"user","content":{"type":`+t.val+`,"text":"valid:probe"}}]`))
		res(pg, "typed-result-messages-content-members", "text-"+t.name, obj("messages", `[{"role":"user","content":{"type":"text","text":`+t.val+`}}]`))
		res(pg, "typed-result-messages-content-members", "resource-"+t.name, obj("messages", `[{"role":"user","content":{"type":"resource","resource":`+t.val+`}}]`))
		res(pg, "typed-result-description", t.name, obj("description", t.val, "messages", "["+msg+"]"))
		res(pg, "typed-result-meta", "get-"+t.name, obj("_meta", t.val, "messages", "["+msg+"]"))
	}
	res(pg, "typed-result-duplicated-members", "content-twice-in-message", obj("messages", `[{"role":"user","content":7,"content":{"type":"text","text":"valid:probe"},"content":null}]`))

	// error objects
	errKV := []string{"code", "-32000", "message", `"m"`, "data", `{"d":1}`}
	errCell := func(class, variant, e string) {
		cells = append(cells, typedCell{family: "error", class: class, variant: variant,
			msgs: []string{`{"jsonrpc":"2.0","id":@ID@,"error":` + e + `}`}})
	}
	for _, t := range core {
		errCell("typed-error-code", t.name, with(errKV, "code", t.val))
		errCell("typed-error-message", t.name, with(errKV, "message", t.val))
		errCell("typed-error-data", t.name, with(errKV, "data", t.val))
	}
	errCell("typed-error-code", "fraction", with(errKV, "code", "1.5"))
	errCell("typed-error-code", "out-of-range", with(errKV, "code", "99999999999999999999"))
	errCell("typed-error-code", "big-number", with(errKV, "code", "1e400"))
	errCell("typed-error-code", "absent", obj("message", `"m"`))
	errCell("typed-error-message", "absent", obj("code", "-32000"))
	errCell("typed-error-data", "nested", with(errKV, "data", moreTypes[6].val))
	errCell("typed-error-data", "deep", with(errKV, "data", deep(12000)))
	errCell("typed-error-members", "duplicated", obj("code", "-32000", "code", `"x"`, "message", `"m"`, "message", "null", "data", "1", "data", "[]"))
	errCell("typed-error-members", "unknown", with(errKV, "extra", `{"code":1}`))
	errCell("typed-error-members", "meta-number", with(errKV, "_meta", "7"))
	cells = append(cells, typedCell{family: "error", class: "typed-error-members", variant: "error-twice",
		msgs: []string{`{"jsonrpc":"2.0","id":@ID@,"error":7,"error":` + obj(errKV...) + `}`}})
	cells = append(cells, typedCell{family: "error", class: "typed-error-data", variant: "large", pad: 1 << 20,
		msgs: []string{`{"jsonrpc":"2.0","id":@ID@,"error":` + with(errKV, "data", `"@PAD@"`) + `}`}})
	return cells
}

// answerKinds are the client kinds on which an id-bearing frame of the probe's stream reaches the call's decoder.
var answerKinds = []string{"streamable-json", "streamable-sse", "legacy-sse", "stdio"}

func kindIndex(kinds []string, kind string) int {
	for i, k := range kinds {
		if k == kind {
			return i
		}
	}
	return -1
}

func mkTyped(kind string, c typedCell, method string, cb sameIDCombo, rng *rand.Rand) Script {
	fr := newFramer(kind)
	bears := c.family == "result" || c.family == "error"
	s := Script{Kind: kind, Placement: cb.placement, Class: c.class, Variant: c.variant, ProbeMethod: method,
		WithHandler: cb.handler, NoHandler: !cb.handler, HasValid: true, SameIDOdd: bears, Typed: c.family}
	var odd []Part
	for i, m := range c.msgs {
		p := Part{B: fr.frame(m, rng), Pad: c.pad}
		if i == 0 && coin(2) {
			p.Ms = 3
		}
		odd = append(odd, p)
	}
	va := validAnswer(method, false)
	switch kind {
	case "streamable-json":
		var body []Part
		switch cb.placement {
		case "only-body":
			for _, m := range c.msgs {
				body = append(body, Part{B: []byte(m + "\n"), Pad: c.pad})
			}
			s.HasValid = false
		case "before-body":
			for _, m := range c.msgs {
				body = append(body, Part{B: []byte(m + "\n"), Pad: c.pad})
			}
			body = append(body, Part{B: []byte(va)})
		default: // batch-array
			body = append(body, Part{B: []byte("[")})
			for _, m := range c.msgs {
				body = append(body, Part{B: []byte(m + ","), Pad: c.pad})
			}
			body = append(body, Part{B: []byte(va + "]")})
		}
		s.Post = okJSON(body, rng)
	case "streamable-sse":
		ans := Part{B: fr.frame(va, rng)}
		note := Part{B: fr.frame(validNotif, rng)}
		var body []Part
		switch cb.placement {
		case "before-answer":
			body = append(append(body, odd...), ans)
		case "between-events":
			body = append(body, note)
			body = append(body, odd...)
			body = append(body, note, ans)
		default:
			body = append(body, ans)
			body = append(body, odd...)
		}
		s.Post = okSSE(body)
	case "streamable-get":
		s.Stream = odd
		s.Post = okJSON([]Part{{B: []byte(va)}}, rng)
	default: // legacy-sse, stdio
		ans := Part{B: fr.frame(va, nil)}
		if cb.placement == "before-answer" {
			s.Stream = append(odd, ans)
		} else {
			s.Stream = append([]Part{ans}, odd...)
		}
	}
	return s
}

// typedScripts enumerates the family for one client kind.
//
//	notif / srvreq cells: every kind; quick: 2 of the (placement, handler) combinations, one of each handler mode,
//	                      rotating with the cell; thorough: all combinations.
//	error cells:          every kind; quick: 1 combination (rotating); thorough: all.
//	result cells:         the decoders of result members run in the caller, after the transport delivered the frame, so a
//	                      cell is the same work on every transport: quick runs each cell on ONE of the four answer-carrying
//	                      kinds (rotating, not a function of the seed), thorough on all four with 2 combinations each.
func typedScripts(kind string, rngFor func(label string) *rand.Rand, thorough bool) []Script {
	combos := sameIDCombos(kind)
	half := len(combos) / 2 // combos = without-handler placements, then with-handler placements
	var out []Script
	emit := func(ci int, c typedCell, cbs []sameIDCombo) {
		for k, cb := range cbs {
			m := c.method
			if m == "" {
				m = probeMethods[(ci+k)%len(probeMethods)]
			}
			rng := rngFor(fmt.Sprintf("c07|typed|%s|%s|%s|%d", kind, c.class, c.variant, k))
			curBI, curCycle, coinK = 2000+ci, k, 0
			out = append(out, mkTyped(kind, c, m, cb, rng))
		}
	}
	for ci, c := range typedStreamCells() {
		cbs := combos
		if !thorough {
			cbs = []sameIDCombo{combos[ci%half], combos[half+(ci+1)%half]}
		}
		emit(ci, c, cbs)
	}
	ak := kindIndex(answerKinds, kind)
	for ci, c := range typedAnswerCells() {
		var cbs []sameIDCombo
		switch {
		case c.family == "error" && thorough:
			cbs = combos
		case c.family == "error":
			cbs = []sameIDCombo{combos[ci%len(combos)]}
		case ak < 0:
			continue // result frames on the GET stream never reach a result decoder (the error cells cover the envelope there)
		case thorough:
			cbs = []sameIDCombo{combos[ci%half], combos[half+(ci+1)%half]}
		case ci%len(answerKinds) == ak:
			cbs = []sameIDCombo{combos[(ci/len(answerKinds))%len(combos)]}
		default:
			continue
		}
		emit(100+ci, c, cbs)
	}
	return out
}
