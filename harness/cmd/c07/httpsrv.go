package main

import (
	"bufio"
	"encoding/json"
	"fmt"
	"io"
	"net"
	"net/http"
	"strings"
	"sync"
	"time"
)

// httpSrv is a scripted HTTP/1.1 server on a raw TCP listener. No type of the library under test and no
// net/http server is involved: every response byte is written here. One request per connection
// (every response carries "Connection: close"), event streams stay open.
type httpSrv struct {
	sc   *Script
	ln   net.Listener
	base string

	mu          sync.Mutex
	cond        *sync.Cond
	stream      net.Conn // GET listening stream / legacy event stream
	streamOpen  bool
	streamEnded bool
	pendingID   string
	pendingSeen bool
	probeSeen   bool
	probeID     string
	probeDone   bool
	written     map[string]bool   // call name -> valid answer fully written
	clientResp  map[string]string // id (JSON text) -> message posted by the client
	wire        []string
	stalled     bool
	closed      bool
	wg          sync.WaitGroup
}

func newHTTPSrv(sc *Script) (*httpSrv, error) {
	ln, err := net.Listen("tcp", "127.0.0.1:0")
	if err != nil {
		return nil, err
	}
	s := &httpSrv{sc: sc, ln: ln, base: "http://" + ln.Addr().String(), written: map[string]bool{}, clientResp: map[string]string{}}
	s.cond = sync.NewCond(&s.mu)
	go s.acceptLoop()
	return s, nil
}

func (s *httpSrv) URL() string {
	if s.sc.Kind == "legacy-sse" {
		return s.base + "/sse"
	}
	return s.base + "/mcp"
}

func (s *httpSrv) logf(format string, a ...interface{}) {
	s.mu.Lock()
	if len(s.wire) < 60 {
		m := fmt.Sprintf(format, a...)
		if len(m) > 200 {
			m = m[:200] + "..."
		}
		s.wire = append(s.wire, m)
	}
	s.mu.Unlock()
}

func (s *httpSrv) set(f func()) {
	s.mu.Lock()
	f()
	s.cond.Broadcast()
	s.mu.Unlock()
}

// waitFor waits until cond() holds (under the lock) or d elapsed.
func (s *httpSrv) waitFor(d time.Duration, cond func() bool) bool {
	t := time.AfterFunc(d, func() { s.mu.Lock(); s.cond.Broadcast(); s.mu.Unlock() })
	defer t.Stop()
	deadline := time.Now().Add(d)
	s.mu.Lock()
	defer s.mu.Unlock()
	for !cond() {
		if !time.Now().Before(deadline) {
			return false
		}
		s.cond.Wait()
	}
	return true
}

func (s *httpSrv) acceptLoop() {
	for {
		c, err := s.ln.Accept()
		if err != nil {
			return
		}
		s.wg.Add(1)
		go func() {
			defer s.wg.Done()
			s.serve(c)
		}()
	}
}

func (s *httpSrv) Close() {
	s.set(func() { s.closed = true })
	s.ln.Close()
	s.mu.Lock()
	if s.stream != nil {
		s.stream.Close()
	}
	s.mu.Unlock()
}

func write(c net.Conn, b []byte) error {
	c.SetWriteDeadline(time.Now().Add(15 * time.Second))
	_, err := c.Write(b)
	return err
}

func writeChunk(c net.Conn, b []byte) error {
	if len(b) == 0 {
		return nil
	}
	buf := make([]byte, 0, len(b)+32)
	buf = append(buf, fmt.Sprintf("%x\r\n", len(b))...)
	buf = append(buf, b...)
	buf = append(buf, '\r', '\n')
	return write(c, buf)
}

type rpcMsg struct {
	ID     json.RawMessage `json:"id"`
	Method string          `json:"method"`
	Params struct {
		Name string `json:"name"`
	} `json:"params"`
}

func (m *rpcMsg) hasID() bool { return len(m.ID) > 0 && string(m.ID) != "null" }

func (s *httpSrv) serve(c net.Conn) {
	defer c.Close()
	br := bufio.NewReader(c)
	c.SetReadDeadline(time.Now().Add(60 * time.Second))
	req, err := http.ReadRequest(br)
	if err != nil {
		return
	}
	body, _ := io.ReadAll(req.Body)
	c.SetReadDeadline(time.Time{})
	legacy := s.sc.Kind == "legacy-sse"
	switch {
	case !legacy && req.URL.Path == "/mcp":
		switch req.Method {
		case "POST":
			s.rpc(c, body)
		case "GET":
			if s.sc.Kind == "streamable-get" {
				s.openStream(c, nil, false)
				return
			}
			s.simple(c, "405 Method Not Allowed", "")
		case "DELETE":
			s.simple(c, "200 OK", "")
		default:
			s.simple(c, "405 Method Not Allowed", "")
		}
	case legacy && req.URL.Path == "/sse" && req.Method == "GET":
		hs := []Part{{B: []byte("event: endpoint\ndata: /message?sessionId=s1\n\n")}}
		if s.sc.Handshake != nil {
			hs = s.sc.Handshake
		}
		s.openStream(c, hs, s.sc.HandClose)
	case legacy && req.URL.Path == "/message" && req.Method == "POST":
		s.rpc(c, body)
	default:
		s.simple(c, "404 Not Found", "not found")
	}
}

func (s *httpSrv) simple(c net.Conn, status, body string) {
	write(c, []byte(fmt.Sprintf("HTTP/1.1 %s\r\nContent-Type: text/plain\r\nContent-Length: %d\r\nConnection: close\r\n\r\n%s", status, len(body), body)))
}

func (s *httpSrv) jsonReply(c net.Conn, body string, extra string) error {
	return write(c, []byte(fmt.Sprintf("HTTP/1.1 200 OK\r\nContent-Type: application/json\r\n%sContent-Length: %d\r\nConnection: close\r\n\r\n%s", extra, len(body), body)))
}

// openStream answers a GET with an open chunked event stream and keeps the connection until it is closed.
func (s *httpSrv) openStream(c net.Conn, first []Part, thenClose bool) {
	if err := write(c, []byte("HTTP/1.1 200 OK\r\nContent-Type: text/event-stream\r\nCache-Control: no-cache\r\nTransfer-Encoding: chunked\r\nConnection: close\r\n\r\n")); err != nil {
		return
	}
	s.set(func() { s.stream = c; s.streamOpen = true; s.streamEnded = false })
	for _, p := range first {
		if err := writeChunk(c, p.expand("0", "0")); err != nil {
			break
		}
		if p.Ms > 0 {
			time.Sleep(time.Duration(p.Ms) * time.Millisecond)
		}
	}
	if thenClose {
		write(c, []byte("0\r\n\r\n"))
		s.set(func() { s.streamEnded = true })
		s.logf("stream: closed by the script after the handshake part")
		return
	}
	// stay until the client goes away or the stream is ended by the script / Close
	buf := make([]byte, 256)
	for {
		if _, err := c.Read(buf); err != nil {
			break
		}
	}
	s.set(func() { s.streamEnded = true })
}

// streamWrite writes on the event stream; false when there is none or the write failed / stalled.
func (s *httpSrv) streamWrite(b []byte) bool {
	s.mu.Lock()
	c, ok := s.stream, s.streamOpen && !s.streamEnded
	s.mu.Unlock()
	if !ok || c == nil {
		return false
	}
	if err := writeChunk(c, b); err != nil {
		s.set(func() { s.stalled = true })
		s.logf("stream: write of %d bytes failed: %v", len(b), err)
		return false
	}
	return true
}

func (s *httpSrv) endStream() {
	s.mu.Lock()
	c := s.stream
	s.mu.Unlock()
	if c != nil {
		write(c, []byte("0\r\n\r\n"))
		c.Close()
	}
	s.set(func() { s.streamEnded = true })
}

func validResult(method, name string) string {
	return resultBody(method, validMarker(method, name))
}

// isProbe: the one call of the script's probe method (every other call of a run is a tools/call with another name).
func isProbe(m *rpcMsg, sc *Script) bool {
	return m.Method == sc.ProbeMethod && (m.Method != "tools/call" || m.Params.Name == "probe")
}

// answer delivers a valid answer for a call: in the POST response (Streamable) or on the event stream (legacy).
func (s *httpSrv) answer(c net.Conn, m *rpcMsg, name string) {
	msg := fmt.Sprintf(`{"jsonrpc":"2.0","id":%s,"result":%s}`, m.ID, validResult(m.Method, name))
	ok := false
	if s.sc.Kind == "legacy-sse" {
		if c != nil {
			s.simple(c, "202 Accepted", "")
		}
		ok = s.streamWrite([]byte("event: message\ndata: " + msg + "\n\n"))
	} else {
		ok = s.jsonReply(c, msg, "") == nil
	}
	if ok {
		s.set(func() { s.written[name] = true })
		s.logf("answer to %q (id %s) written", name, m.ID)
	}
}

func (s *httpSrv) rpc(c net.Conn, body []byte) {
	var m rpcMsg
	if err := json.Unmarshal(body, &m); err != nil {
		s.simple(c, "400 Bad Request", "bad json")
		return
	}
	legacy := s.sc.Kind == "legacy-sse"
	switch {
	case m.Method == "initialize":
		res := fmt.Sprintf(`{"jsonrpc":"2.0","id":%s,"result":{"protocolVersion":"2025-03-26","capabilities":{"tools":{"listChanged":true}},"serverInfo":{"name":"scripted","version":"1"}}}`, m.ID)
		if legacy {
			s.simple(c, "202 Accepted", "")
			s.streamWrite([]byte("event: message\ndata: " + res + "\n\n"))
		} else {
			s.jsonReply(c, res, "Mcp-Session-Id: sess-c07\r\n")
		}
	case m.Method != "" && !m.hasID():
		s.simple(c, "202 Accepted", "")
	case m.Method == "":
		s.set(func() { s.clientResp[string(m.ID)] = string(body) })
		s.logf("client answered server request %s", m.ID)
		s.simple(c, "202 Accepted", "")
	case m.Method == "tools/call" && m.Params.Name == "pending":
		s.set(func() { s.pendingID = string(m.ID); s.pendingSeen = true })
		pc := c
		if legacy {
			s.simple(c, "202 Accepted", "")
			c.Close()
			pc = nil
		}
		// answered once the probe script has been played (or at shutdown)
		s.waitFor(40*time.Second, func() bool { return s.probeDone || s.closed })
		time.Sleep(5 * time.Millisecond)
		s.answer(pc, &m, "pending")
	case !s.probeTaken() && isProbe(&m, s.sc):
		s.probe(c, &m)
	default:
		name := m.Params.Name
		if isListMethod(m.Method) {
			name = "list"
		}
		s.answer(c, &m, name)
	}
}

func (s *httpSrv) probeTaken() bool {
	s.mu.Lock()
	defer s.mu.Unlock()
	return s.probeSeen
}

func (s *httpSrv) ids() (string, string) {
	s.mu.Lock()
	defer s.mu.Unlock()
	pid := s.pendingID
	if pid == "" {
		pid = "424242"
	}
	return s.probeID, pid
}

// probe plays the script.
func (s *httpSrv) probe(c net.Conn, m *rpcMsg) {
	s.set(func() { s.probeSeen = true; s.probeID = string(m.ID) })
	id, pid := s.ids()
	sc := s.sc
	defer s.set(func() { s.probeDone = true })
	streamParts := func() {
		for _, p := range sc.Stream {
			if !s.streamWrite(p.expand(id, pid)) {
				break
			}
			if p.Ms > 0 {
				time.Sleep(time.Duration(p.Ms) * time.Millisecond)
			}
		}
		if sc.StreamClose {
			s.endStream()
			s.logf("stream: ended by the script")
		}
	}
	switch sc.Kind {
	case "streamable-get":
		streamParts()
		s.postResp(c, sc.Post, id, pid)
	case "legacy-sse":
		if sc.Post != nil {
			s.postResp(c, sc.Post, id, pid)
		} else {
			s.simple(c, "202 Accepted", "")
		}
		streamParts()
	default:
		s.postResp(c, sc.Post, id, pid)
	}
	s.logf("probe script played (probe id %s, pending id %s)", id, pid)
}

// postResp writes a scripted raw HTTP response.
func (s *httpSrv) postResp(c net.Conn, p *PostResp, id, pid string) {
	if p.Mode == "abort" {
		return
	}
	var body [][]byte
	total := 0
	for _, part := range p.Body {
		b := part.expand(id, pid)
		body = append(body, b)
		total += len(b)
	}
	var head strings.Builder
	if strings.HasPrefix(p.Status, "RAW:") {
		head.WriteString(strings.TrimPrefix(p.Status, "RAW:") + "\r\n")
	} else {
		head.WriteString("HTTP/1.1 " + p.Status + "\r\n")
	}
	for _, h := range p.Headers {
		if strings.Contains(h, "@PAD@") {
			h = strings.Replace(h, "@PAD@", strings.Repeat("h", 70000), 1)
		}
		head.WriteString(h + "\r\n")
	}
	switch p.Mode {
	case "cl":
		head.WriteString(fmt.Sprintf("Content-Length: %d\r\n", total+p.CLDelta))
	case "chunked":
		head.WriteString("Transfer-Encoding: chunked\r\n")
	}
	head.WriteString("Connection: close\r\n\r\n")
	if write(c, []byte(head.String())) != nil {
		return
	}
	if p.Mode == "none" {
		return
	}
	for i, b := range body {
		var err error
		if p.Mode == "chunked" {
			err = writeChunk(c, b)
		} else {
			err = write(c, b)
		}
		if err != nil {
			s.logf("post response: write failed: %v", err)
			return
		}
		if ms := p.Body[i].Ms; ms > 0 {
			time.Sleep(time.Duration(ms) * time.Millisecond)
		}
	}
	if p.Hold {
		// silent, open connection: wait for the client to give up
		buf := make([]byte, 64)
		c.SetReadDeadline(time.Now().Add(30 * time.Second))
		c.Read(buf)
		return
	}
	if p.Mode == "chunked" && !p.NoTerm {
		write(c, []byte("0\r\n\r\n"))
	}
	if p.Mode == "cl" && p.CLDelta > 0 {
		time.Sleep(20 * time.Millisecond) // let the client read what there is before the early close
	}
}

// ---- control surface used by the oracle ----

func (s *httpSrv) WaitStream(d time.Duration) bool {
	return s.waitFor(d, func() bool { return s.streamOpen })
}
func (s *httpSrv) WaitPending(d time.Duration) bool {
	return s.waitFor(d, func() bool { return s.pendingSeen })
}
func (s *httpSrv) ProbeDone() bool { s.mu.Lock(); defer s.mu.Unlock(); return s.probeDone }
func (s *httpSrv) Written(name string) bool {
	s.mu.Lock()
	defer s.mu.Unlock()
	return s.written[name]
}
func (s *httpSrv) StreamAlive() bool {
	s.mu.Lock()
	defer s.mu.Unlock()
	return s.streamOpen && !s.streamEnded && !s.stalled
}

// PushLater writes a well-formed notification and a well-formed roots/list request on the event stream.
func (s *httpSrv) PushLater(k int) bool {
	n := fmt.Sprintf(`{"jsonrpc":"2.0","method":"notifications/verif","params":{"n":%d}}`, k)
	q := fmt.Sprintf(`{"jsonrpc":"2.0","id":"srv-later-%d","method":"roots/list"}`, k)
	pre := "data: "
	if s.sc.Kind == "legacy-sse" {
		pre = "event: message\ndata: "
	}
	ok := s.streamWrite([]byte(pre + n + "\n\n"))
	ok = s.streamWrite([]byte(pre+q+"\n\n")) && ok
	if ok {
		s.logf("later frames %d written on the stream", k)
	}
	return ok
}

func (s *httpSrv) WaitClientResp(k int, d time.Duration) bool {
	key := fmt.Sprintf(`"srv-later-%d"`, k)
	return s.waitFor(d, func() bool { _, ok := s.clientResp[key]; return ok })
}
func (s *httpSrv) HasClientResp(k int) bool {
	return s.WaitClientResp(k, 0)
}

func (s *httpSrv) Wire() []string {
	s.mu.Lock()
	defer s.mu.Unlock()
	return append([]string{}, s.wire...)
}
