package main

import (
	"fmt"
	"math/rand"
)

// ---------------------------------------------------------------------------------------------
// The same-id family: frames of the WRONG KIND that share the id of a call in flight.
//
// The id spaces of the two directions are independent, so a server-to-client request may bear the very
// id of the client's pending call; a sloppy server may also emit an id-only object, a request-like object
// whose method is no string, the same id in another JSON type, ... None of these is the call's answer.
// Each frame is placed next to the call's well-formed answer, for every call type of probeMethods, with
// and without notification handlers registered on the client, on every transport (Streamable POST answered
// in SSE mode and in JSON mode, the GET listening stream, legacy SSE, stdio). The oracle compares the
// CONTENT the call returns with the content the scripted server sent (Script.Expect, child.go judgeSameID).
// ---------------------------------------------------------------------------------------------

type sameIDFrame struct {
	class   string
	variant string
	// mk builds the frame; idp is the placeholder of the id it addresses (@ID@ or @PID@)
	mk         func(rng *rand.Rand, method, idp string) string
	expect     string // see Script.Expect
	resultful  bool   // the frame has a result or error member (a lenient reader may take it)
	pendingMay bool   // addressed at the pending call: a stream-borne client may legitimately fail that call
	pending    bool   // the frame addresses the other pending call (@PID@), not the probe
}

func randWord(rng *rand.Rand) string {
	const a = "abcdefghijklmnopqrstuvwxyz0123456789-_ "
	n := 1 + rng.Intn(24)
	b := make([]byte, n)
	for i := range b {
		b[i] = a[rng.Intn(len(a))]
	}
	return string(b)
}

var sameIDFrames = []sameIDFrame{
	// ---- legal messages of another kind: server-to-client requests. Only the well-formed answer may be returned.
	{class: "sameid-server-request", variant: "roots-list", expect: "valid",
		mk: func(rng *rand.Rand, m, id string) string {
			return `{"jsonrpc":"2.0","id":` + id + `,"method":"roots/list"}`
		}},
	{class: "sameid-server-request", variant: "sampling", expect: "valid",
		mk: func(rng *rand.Rand, m, id string) string {
			return `{"jsonrpc":"2.0","id":` + id + `,"method":"sampling/createMessage","params":{"messages":[{"role":"user","content":{"type":"text","text":"` + randWord(rng) + `"}}],"maxTokens":` + fmt.Sprint(1+rng.Intn(500)) + `}}`
		}},
	{class: "sameid-server-request", variant: "ping", expect: "valid",
		mk: func(rng *rand.Rand, m, id string) string { return `{"jsonrpc":"2.0","id":` + id + `,"method":"ping"}` }},
	{class: "sameid-server-request", variant: "unknown-method-params-mention-result", expect: "valid",
		mk: func(rng *rand.Rand, m, id string) string {
			return `{"jsonrpc":"2.0","id":` + id + `,"method":"verif/unknown","params":{"result":` + resultBody(m, "odd") + `,"error":null,"w":"` + randWord(rng) + `"}}`
		}},
	{class: "sameid-server-request", variant: "notification-method-with-id", expect: "valid",
		mk: func(rng *rand.Rand, m, id string) string {
			return `{"jsonrpc":"2.0","id":` + id + `,"method":"notifications/verif","params":{"n":0}}`
		}},
	{class: "sameid-server-request", variant: "id-as-string", expect: "valid",
		mk: func(rng *rand.Rand, m, id string) string {
			return `{"jsonrpc":"2.0","id":"` + id + `","method":"roots/list"}`
		}},
	{class: "sameid-server-request", variant: "id-as-decimal", expect: "valid",
		mk: func(rng *rand.Rand, m, id string) string {
			return `{"jsonrpc":"2.0","id":` + id + `.0,"method":"roots/list"}`
		}},

	// ---- malformed objects bearing the id, with neither result nor error: nothing a result could be taken from.
	{class: "sameid-bare-frame", variant: "id-only", expect: "valid-or-error",
		mk: func(rng *rand.Rand, m, id string) string { return `{"jsonrpc":"2.0","id":` + id + `}` }},
	{class: "sameid-bare-frame", variant: "id-and-params", expect: "valid-or-error",
		mk: func(rng *rand.Rand, m, id string) string {
			return `{"jsonrpc":"2.0","id":` + id + `,"params":{"w":"` + randWord(rng) + `"}}`
		}},
	{class: "sameid-bare-frame", variant: "no-version", expect: "valid-or-error",
		mk: func(rng *rand.Rand, m, id string) string { return `{"id":` + id + `}` }},
	{class: "sameid-bare-frame", variant: "id-as-string", expect: "valid-or-error",
		mk: func(rng *rand.Rand, m, id string) string { return `{"jsonrpc":"2.0","id":"` + id + `"}` }},
	{class: "sameid-bare-frame", variant: "unknown-members", expect: "valid-or-error",
		mk: func(rng *rand.Rand, m, id string) string {
			return `{"jsonrpc":"2.0","id":` + id + `,"results":` + resultBody(m, "odd") + `,"res":1,"` + randWord(rng) + `":null}`
		}},
	{class: "sameid-request-like-odd-method", variant: "method-number", expect: "valid-or-error",
		mk: func(rng *rand.Rand, m, id string) string { return `{"jsonrpc":"2.0","id":` + id + `,"method":42}` }},
	{class: "sameid-request-like-odd-method", variant: "method-empty", expect: "valid-or-error",
		mk: func(rng *rand.Rand, m, id string) string { return `{"jsonrpc":"2.0","id":` + id + `,"method":""}` }},
	{class: "sameid-request-like-odd-method", variant: "method-null", expect: "valid-or-error",
		mk: func(rng *rand.Rand, m, id string) string { return `{"jsonrpc":"2.0","id":` + id + `,"method":null}` }},

	// ---- request AND response at once: a lenient reader may take the frame's own result / error.
	{class: "sameid-result-and-method", variant: "result", expect: "valid-or-error-or-odd", resultful: true,
		mk: func(rng *rand.Rand, m, id string) string {
			return `{"jsonrpc":"2.0","id":` + id + `,"method":"roots/list","result":` + resultBody(m, "odd") + `}`
		}},
	{class: "sameid-result-and-method", variant: "error", expect: "valid-or-error-or-odd", resultful: true,
		mk: func(rng *rand.Rand, m, id string) string {
			return `{"jsonrpc":"2.0","id":` + id + `,"method":"roots/list","error":{"code":-32000,"message":"odd"}}`
		}},
	{class: "sameid-result-and-method", variant: "capitalised-Result", expect: "valid-or-error-or-odd", resultful: true,
		mk: func(rng *rand.Rand, m, id string) string {
			return `{"jsonrpc":"2.0","id":` + id + `,"Result":` + resultBody(m, "odd") + `}`
		}},

	// ---- the same, addressed at the OTHER call that is pending while the probe runs.
	{class: "pendingid-server-request", variant: "roots-list", expect: "valid", pending: true,
		mk: func(rng *rand.Rand, m, id string) string {
			return `{"jsonrpc":"2.0","id":` + id + `,"method":"roots/list"}`
		}},
	{class: "pendingid-server-request", variant: "unknown-method", expect: "valid", pending: true,
		mk: func(rng *rand.Rand, m, id string) string {
			return `{"jsonrpc":"2.0","id":` + id + `,"method":"verif/unknown","params":{"w":"` + randWord(rng) + `"}}`
		}},
	{class: "pendingid-bare-frame", variant: "id-only", expect: "valid", pending: true, pendingMay: true,
		mk: func(rng *rand.Rand, m, id string) string { return `{"jsonrpc":"2.0","id":` + id + `}` }},
}

type sameIDCombo struct {
	placement string
	handler   bool
}

func sameIDCombos(kind string) []sameIDCombo {
	var pls []string
	switch kind {
	case "streamable-json":
		pls = []string{"only-body", "before-body", "batch-array"}
	case "streamable-sse":
		pls = []string{"before-answer", "between-events", "after-answer"}
	case "streamable-get":
		pls = []string{"get-stream"}
	default:
		pls = []string{"before-answer", "after-answer"}
	}
	var out []sameIDCombo
	for _, h := range []bool{false, true} {
		for _, p := range pls {
			out = append(out, sameIDCombo{p, h})
		}
	}
	return out
}

func mkSameID(kind string, f sameIDFrame, method string, cb sameIDCombo, rng *rand.Rand) Script {
	fr := newFramer(kind)
	idp := "@ID@"
	if f.pending {
		idp = "@PID@"
	}
	msg := f.mk(rng, method, idp)
	s := Script{Kind: kind, Placement: cb.placement, Class: f.class, Variant: f.variant, ProbeMethod: method,
		WithHandler: cb.handler, NoHandler: !cb.handler, Expect: f.expect, HasValid: true, PendingMay: f.pendingMay}
	if !f.pending {
		s.SameIDOdd = true
	}
	// one or two copies of the odd frame (structure is not a function of the seed, see coin)
	odd := []Part{{B: fr.frame(msg, rng)}}
	if coin(3) {
		odd = append(odd, Part{B: fr.frame(msg, rng)})
	}
	if coin(2) {
		odd[0].Ms = 3
	}
	va := validAnswer(method, false)
	switch kind {
	case "streamable-json":
		var body []Part
		switch cb.placement {
		case "only-body":
			// no answer at all was sent: the general rules apply (an error, or for a frame that has a result member a lenient result)
			body = []Part{{B: []byte(msg)}}
			s.Expect, s.HasValid, s.SameIDOdd = "", false, f.resultful && !f.pending
		case "before-body":
			body = []Part{{B: []byte(msg + "\n")}, {B: []byte(va)}}
		default:
			body = []Part{{B: []byte("[" + msg + ",")}, {B: []byte(va + "]")}}
		}
		if s.Expect == "valid" {
			// two JSON values in one JSON-mode body are not an answer a client must understand
			s.Expect = "valid-or-error"
		}
		s.Post = okJSON(body, rng)
	case "streamable-sse":
		ans := Part{B: fr.frame(va, rng)}
		note := Part{B: fr.frame(validNotif, rng)}
		var body []Part
		switch cb.placement {
		case "before-answer":
			body = append(append(body, odd...), ans)
		case "between-events":
			body = append(body, note)
			body = append(body, odd...)
			body = append(body, note, ans)
		default:
			body = append(body, ans)
			body = append(body, odd...)
		}
		s.Post = okSSE(body)
	case "streamable-get":
		s.Stream = odd
		s.Post = okJSON([]Part{{B: []byte(va)}}, rng)
	default: // legacy-sse, stdio
		ans := Part{B: fr.frame(va, nil)}
		if cb.placement == "before-answer" {
			s.Stream = append(odd, ans)
		} else {
			s.Stream = append([]Part{ans}, odd...)
		}
	}
	return s
}

// sameIDScripts enumerates the family for one client kind. thorough: frames x call types x (placement, handler);
// quick: frames x call types, the (placement, handler) combination rotating so that every frame meets every
// combination and every call type meets every combination.
func sameIDScripts(kind string, rngFor func(label string) *rand.Rand, thorough bool) []Script {
	combos := sameIDCombos(kind)
	var out []Script
	for fi, f := range sameIDFrames {
		for mi, m := range probeMethods {
			var cbs []sameIDCombo
			if thorough {
				cbs = combos
			} else {
				cbs = []sameIDCombo{combos[(fi+mi)%len(combos)]}
			}
			for ci, cb := range cbs {
				rng := rngFor(fmt.Sprintf("c07|sameid|%s|%d|%d|%d", kind, fi, mi, ci))
				curBI, curCycle, coinK = 1000+fi, mi*16+ci, 0
				out = append(out, mkSameID(kind, f, m, cb, rng))
			}
		}
	}
	return out
}
