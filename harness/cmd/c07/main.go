// C07 — clients survive arbitrary server output.
//
// Scripted servers written without any library type (a raw TCP HTTP/1.1 server for the Streamable and the
// legacy SSE protocol, a scripted stdio child) answer the handshake correctly, then emit an adversarial
// fragment before / inside / after a valid answer of ONE probe call, then behave correctly again. The
// client under test runs in a child process per (client kind, batch); its death names the script.
package main

import (
	"fmt"
	"os"
	"regexp"
	"strconv"
	"strings"
	"sync"
	"time"

	"verifharness/lib/kit"
	"verifharness/lib/vh"
)

var idxRe = regexp.MustCompile(`^idx=(\d+)\|([^|]*)\|([^|]*)\|([^|]*)\|`)

func tail(s string, n int) string {
	if len(s) > n {
		return s[len(s)-n:]
	}
	return s
}

// crashExcerpt returns the panic / fatal line and the goroutine that crashed.
func crashExcerpt(stderr string) string {
	i := strings.Index(stderr, "panic: ")
	if j := strings.Index(stderr, "fatal error: "); j >= 0 && (i < 0 || j < i) {
		i = j
	}
	if i < 0 {
		return tail(stderr, 1500)
	}
	e := stderr[i:]
	if len(e) > 1800 {
		e = e[:1800]
	}
	return e
}

func main() {
	kit.MaybeServeStdioChild()
	switch vh.ChildRole() {
	case "c07-stdio-srv":
		stdioServerMain()
		return
	case "c07-client":
		clientChild()
		return
	}
	r := vh.NewRun("C07", "exploration")
	perKind := r.Pick(250, 3000)
	nBatch := r.Pick(4, 6)
	if v := os.Getenv("C07_PER_KIND"); v != "" {
		perKind, _ = strconv.Atoi(v)
	}
	kinds := allKinds
	if v := os.Getenv("C07_ONLY"); v != "" {
		kinds = strings.Split(v, ",")
	}
	var wg sync.WaitGroup
	for _, kind := range kinds {
		for b := 0; b < nBatch; b++ {
			wg.Add(1)
			go func(kind string, b int) {
				defer wg.Done()
				from := 0
				for attempt := 0; attempt < 400; attempt++ {
					tag := fmt.Sprintf("%s-b%d-from%d", kind, b, from)
					env := append(r.ChildEnvFor(), "C07_KIND="+kind, "C07_BATCH="+strconv.Itoa(b), "C07_NBATCH="+strconv.Itoa(nBatch), "C07_FROM="+strconv.Itoa(from), "C07_N="+strconv.Itoa(perKind))
					res := r.SpawnChild("c07-client", tag, os.Args[1:], env, nil, time.Duration(r.Pick(12, 40))*time.Minute)
					cr := r.Merge(res.Stdout())
					r.Count("children", 1)
					if cr.Done && os.Getenv("C07_LIBLOG") != "" {
						return
					}
					if cr.Done {
						os.Remove(res.StdoutPath)
						os.Remove(res.StderrPath)
						return
					}
					stderr := res.Stderr()
					m := idxRe.FindStringSubmatch(cr.LastProgress)
					if res.TimedOut || m == nil {
						r.Inconclusive(fmt.Sprintf("client child %s ended without a verdict (%s); last script: %s; first library frame: %s", tag, res.Describe(), cr.LastProgress, vh.FirstLibFrame(stderr)))
						return
					}
					idx, _ := strconv.Atoi(m[1])
					r.Count("process_deaths", 1)
					site := vh.FirstLibFrame(stderr)
					r.Violation(fmt.Sprintf("C07|%s|%s|%s|process-death", m[2], m[3], m[4]),
						fmt.Sprintf("%s client, fragment class %q placed %s: the client process died (%s): %s; first library frame: %s", m[2], m[4], m[3], res.Describe(), vh.CrashLine(stderr), site),
						map[string]interface{}{"script": cr.LastProgress, "crash": vh.CrashLine(stderr), "first_library_frame": site, "stderr_excerpt": crashExcerpt(stderr)})
					from = idx + 1
				}
			}(kind, b)
		}
	}
	wg.Wait()
	for _, k := range kinds {
		if r.Counter("scripts_"+k) == 0 {
			r.Fatal("no script ran for client kind %s", k)
		}
	}
	if r.Counter("spin_measurements") == 0 || r.Counter("calls_judged") == 0 {
		r.Fatal("nothing was measured (spin_measurements=%d calls_judged=%d)", r.Counter("spin_measurements"), r.Counter("calls_judged"))
	}
	for _, k := range []string{"later_notifications_delivered", "later_roots_list_answered", "pending_calls_completed_with_own_answer", "second_calls_succeeded", "second_calls_failed_promptly_on_closed_stream"} {
		r.Require(r.Counter(k) > 0, "monitor counter %s is zero: the workload did not exercise that part of the oracle", k)
	}
	// the same-id family must have been observed on every client kind that ran, for every call type, and on the
	// handler-sensitive transport in both handler modes
	for _, k := range kinds {
		r.Require(r.Counter("sameid_probes_judged_"+k) > 0, "same-id family: no probe of the %s client was judged", k)
		if k == "streamable-json" {
			continue // a JSON-mode body holding two values is answered by an error: there is no content to compare
		}
		r.Require(r.Counter("sameid_sent_answer_returned_"+k) > 0, "same-id family: no call of the %s client returned the content of the well-formed answer that followed a same-id frame of the wrong kind", k)
		if k == "legacy-sse" {
			continue // RegisterNotificationHandler is a no-op on the legacy client
		}
		for _, h := range []string{"with-handler", "without-handler"} {
			r.Require(r.Counter("sameid_sent_answer_returned_"+k+"_"+h) > 0, "same-id family: the %s client was not observed %s", k, h)
		}
	}
	// the typed-members family must have been observed on every client kind that ran: each family of frames, both
	// handler modes, the later-frames / later-call part of the oracle, and a measured set of member classes
	for _, k := range kinds {
		for _, fam := range []string{"notif", "srvreq", "error", "result"} {
			if fam == "result" && k == "streamable-get" {
				continue // result frames are not driven on the GET stream (they never reach a result decoder there)
			}
			r.Require(r.Counter("typed_scripts_conformed_"+fam+"_"+k) > 0, "typed-members family: no %s script of the %s client ran to a conforming end", fam, k)
		}
		r.Require(r.Counter("typed_second_calls_succeeded_"+k) > 0, "typed-members family: no later call of the %s client succeeded after a typed-members fragment", k)
		if k == "streamable-get" || k == "legacy-sse" || k == "stdio" {
			r.Require(r.Counter("typed_later_roots_list_answered_"+k) > 0, "typed-members family: no later roots/list request was answered by the %s client after a typed-members fragment", k)
		}
		if k == "streamable-get" || k == "stdio" {
			r.Require(r.Counter("typed_later_notifications_delivered_"+k) > 0, "typed-members family: no later notification reached the handler of the %s client after a typed-members fragment", k)
		}
	}
	if len(kinds) > 0 {
		for _, h := range []string{"with-handler", "without-handler"} {
			r.Require(r.Counter("typed_scripts_conformed_"+h) > 0, "typed-members family: no script conformed %s", h)
		}
		r.Require(r.Counter("typed_probes_returned_the_well_formed_answer") > 0 && r.Counter("typed_probes_failed_with_an_error") > 0, "typed-members family: the probe outcomes (well-formed answer / error) were not both observed")
		r.Require(r.Counter("typed_notifications_handed_to_registered_handlers") > 0, "typed-members family: no notification of the family reached a registered handler (the with-handler mode observed nothing)")
	}
	r.Finish("per client kind (Streamable JSON answers, Streamable SSE answers, Streamable GET listening stream, legacy SSE, stdio) a seeded list of scripts = (placement, fragment class, random parameters): a fragment (garbage bytes incl. NUL / invalid UTF-8, non-JSON lines, JSON of the wrong kind, responses with unknown / other-pending / mistyped / missing ids, both or neither of result and error, results and errors of the wrong shape, odd notifications and server requests, deep nesting, frames of 64 KiB-1 / 64 KiB / 64 KiB+1 / 1 MiB / 16 MiB, SSE comments, blank lines, CR / CRLF line ends, data without space, multi-line data, id-only events, BOM, unknown fields, unterminated huge line, duplicated / missing / garbage / late endpoint events, HTTP-level faults: content types, empty 200, 204, 202, 5xx/4xx HTML, redirects, truncated chunked bodies, Content-Length mismatches, bad status lines and headers, abort) is placed before / inside / after / instead of the valid answer of one probe call (ListTools or CallTool), on the GET stream while the probe runs over POST, in the handshake, or on stderr; the exchange ends by the valid answer, by the server closing, or (where the client cannot know) by the caller's 1.5 s deadline. Scripted servers use no library type (raw TCP HTTP/1.1 server, scripted stdio child). Per script, in a child process: the probe returns an error or the valid result (never a foreign-id frame's content, never a result out of nothing), a call pending across the fragment completes with its own answer, CPU of the idle client over 300 ms windows before / after the fragment stays below 20 % of a core (two consecutive windows to call it a spin), later well-formed notification + roots/list request on the long-lived stream are processed (one following frame may be lost to a fragment that leaves a line open), a second call succeeds (or fails promptly when the server closed the stream), Close returns within 10 s (stdio 12 s). A wait is cut short only when the client's reader goroutine is gone or busy-looping. Same-id family (on top of the list above, size fixed by the tier): frames of the wrong kind that bear the id of the call in flight (server-to-client requests roots/list / sampling / ping / unknown / notification-method with that id, the id as string or decimal; id-only objects, id + params, no version, unknown members, method of the wrong type; request-and-response-at-once; the same addressed at the other pending call) x call type (ListTools, CallTool, ListPrompts, ListResources, ReadResource, GetPrompt) x (placement before / between / after the well-formed answer; JSON mode: instead of / in front of / batched with it; GET stream; legacy and stdio stream) x (notification handler registered or not); there the CONTENT the call returns is compared with what the server sent: after a legal server request only the well-formed answer's content may come back, after a malformed id-bearing object that content or an error, and the odd frame's own result only where it has one. Typed-members family (on top, size fixed by the tier): every frame is well-formed JSON in a well-formed JSON-RPC envelope and ONE member takes each JSON type in turn (null, bool, number, string, array, object, false / 0 / empty string / empty array / empty object / 1e400 / nested object), is duplicated, deeply nested (up to 12000 levels) or 1 MiB large: notifications (params as a whole; params._meta; progressToken / progress / total / message of progress; level / logger / data of message; requestId / reason of cancelled; uri of resources/updated; list_changed params; the method member; unknown and duplicated members), server-issued requests with their own id (params and params._meta of roots/list, sampling/createMessage, ping, elicitation/create, unknown; members of sampling / elicitation params; method member; unknown / duplicated members incl. id), results bearing the id of the call in flight (content and its items and their type / text / data / mimeType / resource / annotations; _meta; isError; structuredContent; tools and items, inputSchema, outputSchema, annotations, name, description; nextCursor; prompts / resources and items and their members; contents and items and uri / text / blob / mimeType; messages and items, role, content and its members; description; a roots member; duplicated / unknown members) and error responses bearing that id (code, message, data of each type, absent, duplicated, unknown members); a notif / srvreq script carries all type variants of one member, a result / error script one frame; x the placements and handler modes of the same-id family (with a handler requested, handlers are registered for notifications/verif and the library's 7 well-known notification methods); quick runs each result cell on one of the four answer-carrying kinds (rotation independent of the seed), notif / srvreq cells on every kind in 2 combinations, error cells on every kind in 1. Oracle there: the probe returns an error or its well-formed answer (a frame bearing its id that has a result / error member may also be read leniently), plus every stage above (process alive, pending call, spin, later frames, second call, Close). Distinct = (client kind, placement, fragment class, probe outcome) that conformed.",
		[]string{
			"'all byte streams' is sampled: fixed class list x placements x seeded parameters",
			"a client that extracts a valid answer from a damaged HTTP response, accepts an id of another JSON type with the same value (\"3\" / 3.0 for 3), or builds a result from a wrongly shaped result object with the right id is accepted (lenient reading is not a survival failure)",
			"a fragment that does not end in LF is followed by one sacrificial well-formed notification; only frames after it must be processed",
			"a server-to-client request may bear the id of a pending client call (independent id spaces): it is not that call's answer; a malformed id-bearing object without result and error may fail the call but cannot yield a result",
			"in a JSON-mode body two JSON values (same-id frame + answer, or a batch array) need not be understood: error or the answer's content",
			"for scripts that close the legacy / stdio stream the transport is legitimately dead: later calls must fail promptly, not succeed",
			"stdout closed while the server process stays alive is not driven (C08)",
			"typed-members family: a notification / server request whose members have unexpected types may be dropped, delivered to the handler as decoded, or answered with an error by the client - all are survival; only death, spin, a hang, a result out of nothing, and lost later frames / calls are failures",
			"typed-members family: result frames are not placed on the Streamable GET stream (a response there never reaches a result decoder); the error-object cells cover the envelope decoding on that stream",
			"the spin monitor measures the whole client process (getrusage), the scripted HTTP server lives in the same process but is idle during the windows",
		})
}
