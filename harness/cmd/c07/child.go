package main

import (
	"context"
	"encoding/json"
	"errors"
	"fmt"
	"os"
	"path/filepath"
	"strconv"
	"strings"
	"sync/atomic"
	"syscall"
	"time"

	mcp "trpc.group/trpc-go/trpc-mcp-go"

	"verifharness/lib/kit"
	"verifharness/lib/leak"
	"verifharness/lib/sched"
	"verifharness/lib/vh"
)

const (
	callDeadline  = 20 * time.Second
	initFailCtx   = 10 * time.Second
	noAnswerCtx   = 1500 * time.Millisecond
	idleWindow    = 300 * time.Millisecond
	spinThreshold = 20 // percent of one core
)

// ---- CPU of this process ----

func cpuNow() time.Duration {
	var ru syscall.Rusage
	if syscall.Getrusage(syscall.RUSAGE_SELF, &ru) != nil {
		return 0
	}
	return time.Duration(ru.Utime.Nano() + ru.Stime.Nano())
}

// idleCPU returns the CPU (user+system, all threads) this process burnt during an idle window, in percent of one core.
func idleCPU(d time.Duration) int {
	c0, t0 := cpuNow(), time.Now()
	time.Sleep(d)
	c1, t1 := cpuNow(), time.Now()
	return int(100 * float64(c1-c0) / float64(t1.Sub(t0)))
}

// ---- reader goroutine of the client under test ----

func readerFunc(kind string) string {
	switch kind {
	case "stdio":
		return "(*stdioClientTransport).readLoop"
	case "legacy-sse":
		return "(*sseClientTransport).readSSE"
	case "streamable-get":
		return "(*streamableHTTPClientTransport).connectGetSSE"
	}
	return ""
}

// readerState: "absent", "running" (running / runnable) or "parked:<state>"; "" when the kind has no reader goroutine.
func readerState(kind string) string {
	fn := readerFunc(kind)
	if fn == "" {
		return ""
	}
	for _, g := range leak.Parse(leak.Dump()) {
		for _, f := range g.Funcs {
			if strings.HasSuffix(f, fn) {
				st := g.State
				if i := strings.Index(st, ","); i > 0 {
					st = st[:i]
				}
				if st == "running" || st == "runnable" {
					return "running"
				}
				return "parked:" + st
			}
		}
	}
	return "absent"
}

// deathWatch turns reader states into a reason to stop waiting: the reader is gone, or it is busy in
// every one of 4 consecutive samples (a blocked reader is parked in IO wait / select).
type deathWatch struct {
	kind     string
	busy     int
	absentOK bool
}

func (w *deathWatch) check() string {
	switch st := readerState(w.kind); {
	case st == "absent" && w.absentOK:
		return ""
	case st == "absent":
		return "the client's reader goroutine " + readerFunc(w.kind) + " no longer exists"
	case st == "running":
		w.busy++
		if w.busy >= 4 {
			return "the client's reader goroutine " + readerFunc(w.kind) + " was running/runnable in 4 consecutive samples (busy loop)"
		}
	default:
		w.busy = 0
	}
	return ""
}

// await waits for done up to max. After grace it asks dead() every 250 ms; a reason ends the wait early.
func await(done <-chan struct{}, max, grace time.Duration, dead func() string) (bool, string) {
	start := time.Now()
	tick := time.NewTicker(250 * time.Millisecond)
	defer tick.Stop()
	to := time.NewTimer(max)
	defer to.Stop()
	for {
		select {
		case <-done:
			return true, ""
		case <-to.C:
			return false, ""
		case <-tick.C:
			if dead != nil && time.Since(start) >= grace {
				if why := dead(); why != "" {
					// the call may have completed meanwhile
					select {
					case <-done:
						return true, ""
					default:
					}
					return false, why
				}
			}
		}
	}
}

// ---- calls ----

type callOut struct {
	Returned bool   `json:"returned"`
	Err      string `json:"err,omitempty"`
	Marker   string `json:"marker,omitempty"` // valid | foreign | empty | other:<..>
	Ms       int64  `json:"ms"`
	Early    string `json:"gave_up_early_because,omitempty"`
	AtDL     bool   `json:"returned_at_deadline,omitempty"`
}

func (o callOut) class() string {
	switch {
	case !o.Returned:
		return "no-return"
	case o.Err != "":
		return "error"
	default:
		return "result-" + strings.SplitN(o.Marker, ":", 2)[0]
	}
}

type call struct {
	done   chan struct{}
	out    callOut
	cancel context.CancelFunc
	dl     time.Duration
}

func startCall(cl mcp.Connector, method, name string, dl time.Duration) *call {
	ctx, cancel := context.WithTimeout(context.Background(), dl)
	c := &call{done: make(chan struct{}), cancel: cancel, dl: dl}
	go func() {
		defer close(c.done)
		t0 := time.Now()
		var marker string
		var err error
		// classify turns the marker text found in a result into valid | foreign | odd | other:<text>
		classify := func(text, valid string) string {
			switch text {
			case valid:
				return "valid"
			case "foreign":
				return "foreign"
			case "odd":
				return "odd"
			}
			return "other:" + clip(text, 40)
		}
		// item names of list results are "<marker>-<suffix>"; the first item that is not "other" decides
		names := func(ns []string, suffix string) string {
			m := "empty"
			for _, n := range ns {
				k := classify(strings.TrimSuffix(n, suffix), "valid")
				if m == "empty" || (strings.HasPrefix(m, "other:") && !strings.HasPrefix(k, "other:")) {
					m = k
				}
			}
			return m
		}
		switch method {
		case "tools/list":
			var res *mcp.ListToolsResult
			res, err = cl.ListTools(ctx, &mcp.ListToolsRequest{})
			if err == nil {
				var ns []string
				if res != nil {
					for _, t := range res.Tools {
						ns = append(ns, t.Name)
					}
				}
				marker = names(ns, "-tool")
			}
		case "prompts/list":
			var res *mcp.ListPromptsResult
			res, err = cl.ListPrompts(ctx, &mcp.ListPromptsRequest{})
			if err == nil {
				var ns []string
				if res != nil {
					for _, t := range res.Prompts {
						ns = append(ns, t.Name)
					}
				}
				marker = names(ns, "-prompt")
			}
		case "resources/list":
			var res *mcp.ListResourcesResult
			res, err = cl.ListResources(ctx, &mcp.ListResourcesRequest{})
			if err == nil {
				var ns []string
				if res != nil {
					for _, t := range res.Resources {
						ns = append(ns, t.Name)
					}
				}
				marker = names(ns, "-res")
			}
		case "resources/read":
			rq := &mcp.ReadResourceRequest{}
			rq.Params.URI = "file:///c07/" + name
			var res *mcp.ReadResourceResult
			res, err = cl.ReadResource(ctx, rq)
			if err == nil {
				marker = "empty"
				if res != nil && len(res.Contents) > 0 {
					marker = "other"
					if tc, ok := res.Contents[0].(mcp.TextResourceContents); ok {
						marker = classify(tc.Text, "valid:"+name)
					}
				}
			}
		case "prompts/get":
			rq := &mcp.GetPromptRequest{}
			rq.Params.Name = name
			var res *mcp.GetPromptResult
			res, err = cl.GetPrompt(ctx, rq)
			if err == nil {
				marker = "empty"
				if res != nil && len(res.Messages) > 0 {
					marker = "other"
					if tc, ok := res.Messages[0].Content.(mcp.TextContent); ok {
						marker = classify(tc.Text, "valid:"+name)
					} else if tc, ok := res.Messages[0].Content.(*mcp.TextContent); ok && tc != nil {
						marker = classify(tc.Text, "valid:"+name)
					}
				}
			}
		default:
			rq := &mcp.CallToolRequest{}
			rq.Params.Name = name
			rq.Params.Arguments = map[string]interface{}{"k": "v"}
			var res *mcp.CallToolResult
			res, err = cl.CallTool(ctx, rq)
			if err == nil {
				marker = "empty"
				if res != nil && len(res.Content) > 0 {
					marker = "other"
					if tc, ok := res.Content[0].(mcp.TextContent); ok {
						marker = classify(tc.Text, "valid:"+name)
					}
				}
			}
		}
		c.out.Ms = time.Since(t0).Milliseconds()
		c.out.Marker = marker
		if err != nil {
			c.out.Err = clip(err.Error(), 300)
			c.out.AtDL = time.Since(t0) >= dl-100*time.Millisecond && (errors.Is(err, context.DeadlineExceeded) || strings.Contains(err.Error(), "deadline exceeded"))
		}
	}()
	return c
}

// wait returns the outcome; a call that did not return is cancelled (and given a moment to unwind).
func (c *call) wait(max time.Duration, grace time.Duration, dead func() string) callOut {
	ok, why := await(c.done, max, grace, dead)
	if ok {
		c.cancel()
		o := c.out
		o.Returned = true
		return o
	}
	c.cancel()
	select {
	case <-c.done:
	case <-time.After(2 * time.Second):
	}
	return callOut{Returned: false, Early: why, Ms: -1}
}

func clip(s string, n int) string {
	if len(s) > n {
		return s[:n] + fmt.Sprintf("...(%d bytes)", len(s))
	}
	return s
}

func describeParts(ps []Part) []string {
	var out []string
	for i, p := range ps {
		if i >= 6 {
			out = append(out, fmt.Sprintf("... %d more parts", len(ps)-i))
			break
		}
		out = append(out, fmt.Sprintf("%s  [pad=%d]", clip(string(p.B), 160), p.Pad))
	}
	return out
}

func describeScript(sc *Script) map[string]interface{} {
	m := map[string]interface{}{"label": sc.label(), "probe_method": sc.ProbeMethod, "has_valid_answer": sc.HasValid, "foreign_id_answer": sc.Foreign, "same_id_odd_frame": sc.SameIDOdd}
	if sc.Expect != "" {
		m["same_id_family_expectation"] = sc.Expect
		m["notification_handler_requested"] = !sc.NoHandler
	}
	if sc.Post != nil {
		m["post_response"] = map[string]interface{}{"status": sc.Post.Status, "headers": sc.Post.Headers, "mode": sc.Post.Mode, "cl_delta": sc.Post.CLDelta, "no_terminating_chunk": sc.Post.NoTerm, "hold_open": sc.Post.Hold, "body": describeParts(sc.Post.Body)}
	}
	if sc.Stream != nil {
		m["stream"] = describeParts(sc.Stream)
		m["stream_then_closed"] = sc.StreamClose
	}
	if sc.Handshake != nil {
		m["handshake"] = describeParts(sc.Handshake)
		m["handshake_then_closed"] = sc.HandClose
	}
	return m
}

// ---- one script ----

type scriptRun struct {
	rep   *vh.Reporter
	sc    *Script
	hs    *httpSrv
	ctl   stdioCtl
	cl    mcp.Connector
	obs   map[string]interface{}
	viols []violRec
	// readerGone is set once the client's reader goroutine was found dead or busy-looping: later waits are not drawn out
	readerGone string
	// touched counts the notifications of the typed-members family handed to a registered handler
	touched atomic.Int64
}

// touchHandler is the handler registered for the well-known notification methods in the typed-members family: it reads
// the decoded params the way an application would (comma-ok assertions only: whatever type a member has is fine).
func (x *scriptRun) touchHandler(n *mcp.JSONRPCNotification) error {
	if n == nil {
		return nil
	}
	x.touched.Add(1)
	k := len(n.Method) + len(n.Params.Meta) + len(n.Params.AdditionalFields)
	for _, key := range []string{"progressToken", "progress", "total", "message", "level", "logger", "data", "uri", "requestId", "reason"} {
		switch v := n.Params.AdditionalFields[key].(type) {
		case string:
			k += len(v)
		case float64:
			k += int(v)
		case map[string]interface{}:
			k += len(v)
		case []interface{}:
			k += len(v)
		}
	}
	if n.Params.Meta != nil {
		if _, ok := n.Params.Meta["progressToken"]; ok {
			k++
		}
	}
	_ = k
	return nil
}

type violRec struct{ symptom, what string }

// chain lists the symptoms that are usually consequences of one another (a reader that spins or died loses
// every later frame): per script only the first one present is reported, the others are named in the witness.
var chain = []string{"spins", "hangs", "pending-call-lost", "later-frame-not-processed", "later-call-not-processed"}

func inChain(s string) int {
	for i, c := range chain {
		if c == s {
			return i
		}
	}
	return -1
}

func (x *scriptRun) emit() []string {
	sc := x.sc
	best := -1
	var all []string
	for _, v := range x.viols {
		all = append(all, v.symptom)
		if i := inChain(v.symptom); i >= 0 && (best < 0 || i < best) {
			best = i
		}
	}
	var out []string
	seen := map[string]bool{}
	for _, v := range x.viols {
		if i := inChain(v.symptom); i >= 0 && i != best {
			continue
		}
		if seen[v.symptom] {
			continue
		}
		seen[v.symptom] = true
		out = append(out, v.symptom)
		class := sc.Class
		if sc.Kind == "stdio" && sc.StreamClose && v.symptom == "spins" {
			// once the server process has exited, what it wrote before does not matter for a busy loop
			class = "server-exit"
		}
		sig := fmt.Sprintf("C07|%s|%s|%s|%s", sc.Kind, sc.Placement, class, v.symptom)
		x.rep.Violation(sig, fmt.Sprintf("%s client, fragment class %q placed %s: %s", sc.Kind, sc.Class, sc.Placement, v.what),
			map[string]interface{}{"script": describeScript(sc), "all_symptoms_of_this_script": all, "observed": x.obs, "server_side_wire_log": x.wire()})
	}
	return out
}

func (x *scriptRun) wire() []string {
	if x.hs != nil {
		return x.hs.Wire()
	}
	return x.ctl.wire()
}

func (x *scriptRun) viol(symptom, what string) {
	x.viols = append(x.viols, violRec{symptom, what})
}

// watch returns the early-exit test for waits on a stream-borne answer. When the stream was closed by the
// script an absent reader is legitimate, a busy-looping one is not.
func (x *scriptRun) watch(absentOK bool) func() string {
	w := &deathWatch{kind: x.sc.Kind, absentOK: absentOK}
	return func() string {
		if x.readerGone != "" {
			return x.readerGone
		}
		if why := w.check(); why != "" {
			x.readerGone = why
			return why
		}
		return ""
	}
}

// spinCheck measures idle windows. One window at or below the threshold means "not spinning" (work left over
// from a big frame dies down, a wedged loop does not). A spin is called when the client's reader goroutine is
// running/runnable around five consecutive hot windows, or — for clients without a reader goroutine, or with a
// parked one — when ten consecutive windows (3 s) are all hot.
func (x *scriptRun) spinCheck() (bool, []int) {
	kind := x.sc.Kind
	ws := []int{idleCPU(idleWindow)}
	x.rep.Count("spin_measurements", 1)
	if ws[0] <= spinThreshold {
		return false, ws
	}
	busyHot := 0
	for len(ws) < 10 {
		busyBefore := readerState(kind) == "running"
		w := idleCPU(idleWindow)
		x.rep.Count("spin_measurements", 1)
		ws = append(ws, w)
		if w <= spinThreshold {
			return false, ws
		}
		if busyBefore && readerState(kind) == "running" {
			// a reader that is legitimately chewing on a multi-megabyte frame is also "running": it must stay
			// hot and busy for five windows in a row (1.5 s) before it is called a spin
			busyHot++
			if busyHot >= 5 {
				return true, ws
			}
		} else {
			busyHot = 0
		}
	}
	return true, ws
}

func (x *scriptRun) grace() time.Duration {
	if x.readerGone != "" {
		return 0
	}
	return 1500 * time.Millisecond
}

func (x *scriptRun) written(name string) bool {
	if x.hs != nil {
		return x.hs.Written(name)
	}
	return x.ctl.has("ANSWERED " + name + " ")
}

func runScript(rep *vh.Reporter, sc *Script, tmp string, seed int64) {
	x := &scriptRun{rep: rep, sc: sc, obs: map[string]interface{}{}}
	kind := sc.Kind
	streamKind := kind == "legacy-sse" || kind == "stdio" // answers travel on a long-lived stream read by a reader goroutine
	notifs := make(chan int, 256)
	handler := func(n *mcp.JSONRPCNotification) error {
		k := -1
		if v, ok := n.Params.AdditionalFields["n"].(float64); ok {
			k = int(v)
		}
		select {
		case notifs <- k:
		default:
		}
		return nil
	}
	var err error
	switch kind {
	case "stdio":
		sp := filepath.Join(tmp, fmt.Sprintf("script-%d.json", sc.Idx))
		rp := filepath.Join(tmp, fmt.Sprintf("rec-%d.log", sc.Idx))
		b, _ := json.Marshal(sc)
		os.WriteFile(sp, b, 0o644)
		os.Remove(rp)
		defer os.Remove(sp)
		defer os.Remove(rp)
		x.ctl = stdioCtl{rp}
		self, _ := os.Executable()
		var c *mcp.StdioClient
		c, err = mcp.NewStdioClient(mcp.StdioTransportConfig{
			ServerParams: mcp.StdioServerParameters{Command: self, Env: map[string]string{vh.ChildEnv: "c07-stdio-srv", "C07_SCRIPT": sp, "C07_REC": rp}},
			Timeout:      30 * time.Second,
		}, kit.ClientInfo, mcp.WithStdioLogger(quietLogger()))
		if err == nil {
			x.cl = c
		}
	default:
		x.hs, err = newHTTPSrv(sc)
		if err != nil {
			rep.Inconclusive("listen: " + err.Error())
			return
		}
		defer x.hs.Close()
		var c *mcp.Client
		if kind == "legacy-sse" {
			c, err = mcp.NewSSEClient(x.hs.URL(), kit.ClientInfo, mcp.WithClientLogger(quietLogger()))
		} else {
			c, err = mcp.NewClient(x.hs.URL(), kit.ClientInfo, mcp.WithClientLogger(quietLogger()))
		}
		if err == nil {
			x.cl = c
		}
	}
	if err != nil {
		rep.Inconclusive("client construction: " + err.Error())
		return
	}
	cl := x.cl
	// GET-stream and stdio scripts run with a notification handler (the later-frames oracle needs it) unless the
	// script asks for a client without any; Streamable POST-answer scripts register one when the script says so.
	canNotify := (kind == "streamable-get" || kind == "stdio") && !sc.NoHandler
	if canNotify || ((kind == "streamable-sse" || kind == "streamable-json") && sc.WithHandler) {
		cl.RegisterNotificationHandler("notifications/verif", handler)
		x.obs["notification_handler_registered"] = true
		if sc.Typed != "" {
			// the typed-members family also sends the library's well-known notification methods: a handler for each
			for _, m := range typedNotifMethods {
				cl.RegisterNotificationHandler(m, x.touchHandler)
			}
		}
	}
	cl.SetRootsProvider(mcp.NewDefaultRootsProvider(mcp.Root{URI: "file:///c07", Name: "c07"}))
	rep.Eval(1)
	rep.Count("scripts_"+kind, 1)

	closed := false
	doClose := func(healthy bool) {
		if closed {
			return
		}
		closed = true
		max := 10 * time.Second
		if kind == "stdio" {
			max = 12 * time.Second
		}
		done := make(chan struct{})
		var cerr error
		t0 := time.Now()
		go func() { cerr = cl.Close(); close(done) }()
		ok, _ := await(done, max, 0, nil)
		x.obs["close_ms"] = time.Since(t0).Milliseconds()
		rep.Count("closes_judged", 1)
		if !ok {
			x.viol("close-hangs", fmt.Sprintf("Close() did not return within %s", max))
			return
		}
		if cerr != nil {
			x.obs["close_err"] = clip(cerr.Error(), 200)
			if ownPipesOnly(cerr.Error()) {
				// The library's Close cancels the context its process was started with (exec kills the child, Cmd.Wait
				// closes the pipe ends) and then closes the same pipes itself: whoever loses that race reports
				// "file already closed". It happens with any server output, so it is counted, not judged here.
				rep.Count("close_error_own_pipes_already_closed_race", 1)
			} else if healthy {
				x.viol("close-error", "Close() returned an error although the server side was healthy: "+clip(cerr.Error(), 200))
			}
		}
	}
	finish := func(outcome string) {
		if sc.Typed != "" {
			if n := x.touched.Load(); n > 0 {
				x.obs["typed_notifications_handed_to_registered_handlers"] = n
				rep.Count("typed_notifications_handed_to_registered_handlers", n)
			}
		}
		if len(x.viols) > 0 {
			outcome = "violation:" + strings.Join(x.emit(), "+")
		} else {
			rep.Distinct(fmt.Sprintf("%s|%s|%s|%s", kind, sc.Placement, sc.Class, outcome))
			if sc.Typed != "" {
				hk := "without-handler"
				if x.obs["notification_handler_registered"] == true {
					hk = "with-handler"
				}
				rep.Count("typed_scripts_conformed", 1)
				rep.Count("typed_scripts_conformed_"+kind, 1)
				rep.Count("typed_scripts_conformed_"+sc.Typed+"_"+kind, 1)
				rep.Count("typed_scripts_conformed_"+hk, 1)
				rep.SetAdd("typed_member_classes_conformed", sc.Class)
				rep.SetAdd("typed_placements_conformed", kind+"/"+sc.Placement+"/"+hk)
			}
		}
		rep.Count("outcome_"+strings.SplitN(outcome, ":", 2)[0], 1)
		if os.Getenv("C07_TRACE") != "" {
			b, _ := json.Marshal(x.obs)
			fmt.Fprintf(os.Stderr, "TRACE %s => %s %s\n", sc.label(), outcome, b)
		}
		if sc.Idx%61 == 7 || (sc.Expect != "" && sc.Idx%53 == 11) || (sc.Typed != "" && sc.Idx%59 == 3) {
			rep.Sample(map[string]interface{}{"script": describeScript(sc), "outcome": outcome, "observed": x.obs})
		}
	}

	// ---- 1. handshake ----
	idl := callDeadline
	if sc.InitFails {
		idl = initFailCtx
	}
	ictx, icancel := context.WithTimeout(context.Background(), idl)
	defer icancel()
	idone := make(chan struct{})
	var ierr error
	t0 := time.Now()
	go func() { _, ierr = cl.Initialize(ictx, &mcp.InitializeRequest{}); close(idone) }()
	iok, _ := await(idone, idl+5*time.Second, 0, nil)
	ims := time.Since(t0)
	x.obs["initialize_ms"] = ims.Milliseconds()
	rep.Count("calls_judged", 1)
	if !iok {
		x.obs["reader"] = readerState(kind)
		x.viol("hangs", fmt.Sprintf("Initialize did not return within %s (5 s after its own context deadline)", idl+5*time.Second))
		icancel()
		doClose(false)
		finish("")
		return
	}
	if ierr != nil {
		x.obs["initialize_err"] = clip(ierr.Error(), 300)
	}
	if sc.InitFails {
		switch {
		case ierr == nil:
			x.viol("result-from-garbage", "Initialize succeeded although the stream never carried a usable endpoint event")
		case ims >= idl-200*time.Millisecond:
			x.obs["stream_ended_by_server"] = x.hs != nil && !x.hs.StreamAlive()
			x.obs["reader_at_return"] = readerState(kind)
			x.viol("waits-for-deadline", fmt.Sprintf("the event stream ended without an endpoint event, yet Initialize returned only after %s, i.e. at its caller's context deadline (%s); with a longer context it waits the library's 60 s", ims.Round(time.Millisecond), idl))
		}
		doClose(false)
		finish("init-error-prompt")
		return
	}
	if ierr != nil {
		switch {
		case sc.InitMay:
		case sc.Placement == "handshake":
			x.viol("later-frame-not-processed", "a well-formed endpoint event following the fragment was not used: Initialize failed: "+clip(ierr.Error(), 200))
		default:
			rep.Inconclusive(fmt.Sprintf("%s: Initialize against the scripted server failed: %v", sc.label(), ierr))
		}
		doClose(false)
		finish("init-error")
		return
	}
	if kind == "streamable-get" && !x.hs.WaitStream(10*time.Second) {
		rep.Inconclusive(sc.label() + ": the client did not open its GET listening stream")
		doClose(true)
		finish("no-get-stream")
		return
	}

	// ---- 2. baseline idle window ----
	base := idleCPU(idleWindow)
	x.obs["idle_cpu_pct_before"] = base
	rep.Max("idle_cpu_pct_before_fragment", int64(base))
	rep.Count("spin_measurements", 1)

	// ---- 3. a call that is pending while the fragment arrives ----
	var pend *call
	if !sc.Race {
		pend = startCall(cl, "tools/call", "pending", 40*time.Second)
		seen := false
		if x.hs != nil {
			seen = x.hs.WaitPending(10 * time.Second)
		} else {
			seen = x.ctl.waitFor("PENDING", 10*time.Second)
		}
		if !seen {
			rep.Inconclusive(sc.label() + ": the pending call did not reach the server")
		}
	}

	// ---- 4. the probe ----
	var po callOut
	var probeWatch func() string
	if streamKind {
		probeWatch = x.watch(sc.dead())
	}
	if sc.Race {
		ctl := sched.New(15*time.Second, seed)
		ctl.Install()
		ctl.Hold("stdiocli.resp.lookup")
		pc := startCall(cl, sc.ProbeMethod, "probe", callDeadline)
		n := ctl.AwaitWaiting("stdiocli.resp.lookup", 1, 10*time.Second)
		x.obs["reader_parked_with_answer_in_hand"] = n
		pc.cancel() // the caller gives up exactly while its answer is being delivered
		po = pc.wait(10*time.Second, 0, nil)
		ctl.Release("stdiocli.resp.lookup")
		sched.Uninstall()
		if n == 0 {
			rep.Inconclusive(sc.label() + ": yield point stdiocli.resp.lookup was not reached")
		}
		time.Sleep(50 * time.Millisecond)
	} else {
		dl := callDeadline
		if sc.NoAnswer {
			dl = noAnswerCtx
		}
		pc := startCall(cl, sc.ProbeMethod, "probe", dl)
		po = pc.wait(dl+3*time.Second, x.grace(), probeWatch)
	}
	x.obs["probe"] = po
	rep.Count("calls_judged", 1)
	probeOutcome := po.class()
	switch {
	case !po.Returned:
		x.obs["reader"] = readerState(kind)
		x.obs["script_fully_played"] = x.scriptPlayed()
		if po.Early != "" {
			x.viol("hangs", "the affected call did not return although the script had ended the exchange; waiting was cut short because "+po.Early)
		} else {
			x.viol("hangs", "the affected call did not return within its deadline + 3 s")
		}
	case sc.Typed != "":
		probeOutcome = x.judgeTyped(po)
	case sc.Expect != "":
		probeOutcome = x.judgeSameID(po)
	case po.Err != "":
		if po.AtDL && !sc.NoAnswer && !sc.Race {
			x.obs["script_fully_played"] = x.scriptPlayed()
			x.viol("hangs", fmt.Sprintf("the script had ended the exchange, yet the affected call returned only at its %s context deadline", callDeadline))
		}
	case po.Marker == "foreign":
		x.viol("wrong-result-accepted", "the call returned the content of a frame that carried a foreign / unknown / absent id as its own result")
	case po.Marker == "valid":
		if !sc.HasValid && !sc.SameIDOdd {
			x.viol("result-from-garbage", "the call returned the valid marker although the script contained no valid answer (harness bug?)")
		}
	default:
		// a result that is neither the valid nor the foreign marker
		if !sc.HasValid && !sc.SameIDOdd {
			x.viol("result-from-garbage", fmt.Sprintf("the script contained no answer for the call's id, yet the call returned a result (%s)", po.Marker))
		} else {
			rep.Count("lenient_result_from_odd_answer", 1)
			probeOutcome = "result-lenient"
		}
	}

	// ---- 5. the pending call ----
	transportDead := streamKind && sc.dead()
	if pend != nil {
		var w func() string
		if streamKind {
			w = x.watch(transportDead)
		}
		pe := pend.wait(callDeadline, x.grace(), w)
		x.obs["pending_call"] = pe
		rep.Count("calls_judged", 1)
		switch {
		case pe.Returned && pe.Marker == "valid":
			rep.Count("pending_calls_completed_with_own_answer", 1)
		case !pe.Returned:
			x.obs["reader"] = readerState(kind)
			x.obs["pending_answer_written_by_server"] = x.written("pending")
			why := "the call that was pending when the fragment arrived never completed"
			if pe.Early != "" {
				why += "; waiting was cut short because " + pe.Early
			}
			x.viol("pending-call-lost", why)
		case transportDead || (sc.PendingMay && streamKind):
		case pe.Marker == "foreign":
			x.viol("wrong-result-accepted", "the pending call returned the content of a frame with a foreign id")
		case pe.Marker != "valid":
			x.obs["pending_answer_written_by_server"] = x.written("pending")
			x.viol("pending-call-lost", fmt.Sprintf("the call that was pending when the fragment arrived did not complete with its own answer: %s %s", pe.class(), pe.Err))
		}
	}

	// ---- 6. spin monitor ----
	{
		spin, ws := x.spinCheck()
		x.obs["idle_cpu_pct_after"] = ws
		rep.Max("idle_cpu_pct_after_fragment", int64(ws[len(ws)-1]))
		if spin {
			x.obs["reader"] = readerState(kind)
			if streamKind && x.readerGone == "" && x.obs["reader"] == "running" {
				x.readerGone = "the idle client burns CPU and its reader goroutine " + readerFunc(kind) + " is running"
			}
			x.viol("spins", fmt.Sprintf("with no call pending the client process burnt %v %% of a core in %d consecutive %s idle windows (before the fragment: %d%%)", ws, len(ws), idleWindow, base))
		}
	}

	// ---- 7. later well-formed frames on the long-lived stream ----
	streamAlive := !sc.dead() && (kind == "stdio" || (x.hs != nil && x.hs.StreamAlive()))
	if (kind == "streamable-get" || streamKind) && !sc.dead() {
		w := x.watch(false)
		gotN, gotR, rounds := false, false, 0
		for k := 1; k <= 3 && !(gotR && (gotN || !canNotify)); k++ {
			rounds = k
			pushed := true
			var lc *call
			if x.hs != nil {
				pushed = x.hs.PushLater(k)
			} else {
				lc = startCall(cl, "tools/call", fmt.Sprintf("later-%d", k), callDeadline)
			}
			dl := time.Now().Add(3 * time.Second)
			why := ""
			for time.Now().Before(dl) && why == "" && pushed {
				select {
				case n := <-notifs:
					if n >= 1 {
						gotN = true
					}
				case <-time.After(50 * time.Millisecond):
				}
				if x.hs != nil {
					gotR = gotR || x.hs.HasClientResp(k)
				} else {
					gotR = gotR || x.ctl.has(fmt.Sprintf(`CLIENTRESP "srv-later-%d"`, k))
				}
				if gotR && (gotN || !canNotify) {
					break
				}
				if x.readerGone != "" || time.Until(dl) < 1500*time.Millisecond {
					why = w()
				}
			}
			if lc != nil {
				lo := lc.wait(2*time.Second, 0, nil)
				x.obs[fmt.Sprintf("later_call_%d", k)] = lo
			}
			if why != "" {
				x.obs["later_frames_wait_cut_short"] = why
				break
			}
			if !pushed {
				x.obs["later_frames_not_writable"] = "the server could not write on the stream (client not reading / stream gone)"
				break
			}
		}
		x.obs["later_notification_delivered"] = gotN
		x.obs["later_roots_list_answered"] = gotR
		x.obs["later_rounds"] = rounds
		x.obs["reader_after_later_frames"] = readerState(kind)
		rep.Count("later_frame_checks", 1)
		if gotN {
			rep.Count("later_notifications_delivered", 1)
		}
		if gotR {
			rep.Count("later_roots_list_answered", 1)
			if sc.Typed != "" {
				rep.Count("typed_later_roots_list_answered_"+kind, 1)
			}
		}
		if gotN && sc.Typed != "" {
			rep.Count("typed_later_notifications_delivered_"+kind, 1)
		}
		if rounds > 1 && gotR {
			rep.Count("later_frames_eaten_before_resync", int64(rounds-1))
		}
		switch {
		case canNotify && !gotN && !gotR:
			x.viol("later-frame-not-processed", "after the fragment, up to 3 well-formed notifications and roots/list requests on the same stream were neither delivered to the registered handler nor answered")
		case canNotify && !gotN:
			x.viol("later-frame-not-processed", "after the fragment, well-formed notifications on the same stream never reached the registered handler (roots/list was answered)")
		case !gotR:
			x.viol("later-frame-not-processed", "after the fragment, well-formed roots/list requests on the same stream were never answered")
		}
	}

	// ---- 8. a later call on the same client ----
	{
		var w func() string
		if streamKind {
			w = x.watch(transportDead)
		}
		sec := startCall(cl, "tools/call", "second", callDeadline)
		so := sec.wait(callDeadline+3*time.Second, x.grace(), w)
		x.obs["second_call"] = so
		rep.Count("calls_judged", 1)
		switch {
		case !transportDead && so.Returned && so.Marker == "valid":
			rep.Count("second_calls_succeeded", 1)
			if sc.Typed != "" {
				rep.Count("typed_second_calls_succeeded", 1)
				rep.Count("typed_second_calls_succeeded_"+kind, 1)
			}
		case transportDead:
			if so.Returned && !so.AtDL {
				rep.Count("second_calls_failed_promptly_on_closed_stream", 1)
			}
			if !so.Returned || so.AtDL {
				x.viol("later-call-not-processed", "the stream had been closed by the server; a later call on the dead transport did not fail promptly but only at / after its deadline")
			}
		case !so.Returned:
			x.obs["reader"] = readerState(kind)
			x.obs["second_answer_written_by_server"] = x.written("second")
			why := "a later call on the same client, answered correctly by the server, never returned"
			if so.Early != "" {
				why += "; waiting was cut short because " + so.Early
			}
			x.viol("later-call-not-processed", why)
		case so.Marker != "valid":
			x.obs["second_answer_written_by_server"] = x.written("second")
			x.viol("later-call-not-processed", fmt.Sprintf("a later call on the same client, answered correctly by the server, did not succeed: %s %s", so.class(), so.Err))
		}
	}

	// a reader that started to spin only after the idle window (e.g. on the later frames) is still a spin
	if len(x.viols) > 0 && x.readerGone != "" {
		spun := false
		for _, v := range x.viols {
			spun = spun || v.symptom == "spins"
		}
		if !spun {
			spin, ws := x.spinCheck()
			x.obs["idle_cpu_pct_final_windows"] = ws
			if spin {
				x.viol("spins", fmt.Sprintf("with no call pending the client process burnt %v %% of a core in %d consecutive %s idle windows after the later frames (before the fragment: %d%%)", ws, len(ws), idleWindow, base))
			}
		}
	}

	// ---- 9. Close ----
	doClose(!transportDead && (streamAlive || !streamKind))
	finish(probeOutcome)
}

// judgeTyped judges the probe of a typed-members script (typed.go). The call returned (po.Returned). The statement:
// "the affected call returns an error" - or, the fragment being harmless, its well-formed answer. A frame that bears
// the call's id and has a result / error member IS an answer a lenient reader may build a result from (family result /
// error); a notification or a server-issued request with its own id has nothing a result could be taken from.
func (x *scriptRun) judgeTyped(po callOut) string {
	sc, rep := x.sc, x.rep
	rep.Count("typed_probes_judged", 1)
	rep.Count("typed_probes_judged_"+sc.Typed, 1)
	rep.Count("typed_probes_judged_"+sc.Kind, 1)
	bears := sc.Typed == "result" || sc.Typed == "error"
	switch {
	case po.Err != "":
		if po.AtDL && !sc.NoAnswer {
			x.obs["script_fully_played"] = x.scriptPlayed()
			x.viol("hangs", fmt.Sprintf("the script had ended the exchange, yet the affected call returned only at its %s context deadline", callDeadline))
			return "error"
		}
		rep.Count("typed_probes_failed_with_an_error", 1)
		rep.Count("typed_probes_failed_with_an_error_"+sc.Typed, 1)
		return "error"
	case po.Marker == "valid" && (sc.HasValid || bears):
		rep.Count("typed_probes_returned_the_well_formed_answer", 1)
		rep.Count("typed_probes_returned_the_well_formed_answer_"+sc.Typed, 1)
		return "result-valid"
	case bears:
		rep.Count("typed_probes_read_the_mistyped_answer_leniently", 1)
		rep.Count("lenient_result_from_odd_answer", 1)
		return "result-lenient"
	}
	x.viol("result-from-garbage", fmt.Sprintf("the only frames next to the call's well-formed answer were %s frames without the call's id (nothing a result could be taken from), yet the call returned success with %q instead of an error or the content of its well-formed answer", sc.Typed, po.Marker))
	return "result-" + strings.SplitN(po.Marker, ":", 2)[0]
}

// judgeSameID judges the probe of a same-id script (sameid.go): a frame of the wrong kind that bears the id of the
// call in flight stood next to the call's well-formed answer. The call returned (po.Returned).
func (x *scriptRun) judgeSameID(po callOut) string {
	sc, rep := x.sc, x.rep
	rep.Count("sameid_probes_judged", 1)
	rep.Count("sameid_probes_judged_"+sc.Kind, 1)
	sent := "the well-formed answer " + clip(validAnswer(sc.ProbeMethod, false), 200) + " (with the call's id) was sent on the same stream"
	switch {
	case po.Err == "" && po.Marker == "valid":
		rep.Count("sameid_probes_returned_the_sent_answer", 1)
		rep.Count("sameid_sent_answer_returned_"+sc.Kind, 1)
		rep.SetAdd("sameid_call_types_that_returned_the_sent_answer", sc.ProbeMethod)
		hk := "without-handler"
		if x.obs["notification_handler_registered"] == true {
			hk = "with-handler"
		}
		rep.SetAdd("sameid_handler_modes_that_returned_the_sent_answer", sc.Kind+"/"+hk)
		rep.Count("sameid_sent_answer_returned_"+sc.Kind+"_"+hk, 1)
		return "result-valid"
	case po.Err != "":
		if po.AtDL {
			x.obs["script_fully_played"] = x.scriptPlayed()
			x.viol("hangs", fmt.Sprintf("the script had ended the exchange, yet the affected call returned only at its %s context deadline", callDeadline))
			return "error"
		}
		if sc.Expect == "valid" {
			x.viol("answer-lost", "a well-formed server-to-client request (its id space is independent of the client's) happened to bear the id of the call in flight; "+sent+", yet the call failed: "+po.Err)
			return "error"
		}
		rep.Count("sameid_probes_failed_with_an_error", 1)
		return "error"
	case po.Marker == "odd" && sc.Expect == "valid-or-error-or-odd":
		rep.Count("sameid_probes_returned_the_odd_frames_own_result", 1)
		return "result-lenient"
	}
	x.viol("wrong-kind-frame-taken-as-answer", fmt.Sprintf("a frame that bears the id of the call in flight but is no response (it has neither the result the call returned nor an error) was taken as the call's answer: the call returned success with %q; %s and its content was not returned", po.Marker, sent))
	return "result-" + strings.SplitN(po.Marker, ":", 2)[0]
}

// ownPipesOnly: every error in the list is "file already closed" on one of the client's own pipe ends.
func ownPipesOnly(msg string) bool {
	if !strings.HasPrefix(msg, "close errors: [") {
		return false
	}
	n := strings.Count(msg, "failed to close ")
	return n > 0 && n == strings.Count(msg, ": file already closed")
}

func (x *scriptRun) scriptPlayed() bool {
	if x.hs != nil {
		return x.hs.ProbeDone()
	}
	return x.ctl.has("PROBEDONE")
}

// clientChild runs the scripts of one (kind, batch) from a start index on.
// libLog prints the first library log lines of level warn/error to stderr when C07_LIBLOG is set (diagnosis only).
type libLog struct {
	kit.Quiet
	n *int
}

func (l libLog) Errorf(f string, a ...interface{}) {
	if *l.n < 40 {
		*l.n++
		fmt.Fprintf(os.Stderr, "LIB error: "+f+"\n", a...)
	}
}
func (l libLog) Warnf(f string, a ...interface{}) {
	if *l.n < 40 {
		*l.n++
		fmt.Fprintf(os.Stderr, "LIB warn: "+f+"\n", a...)
	}
}

func quietLogger() mcp.Logger {
	if os.Getenv("C07_LIBLOG") != "" {
		n := 0
		return libLog{n: &n}
	}
	return kit.Quiet{}
}

func clientChild() {
	kit.Silence()
	rep := vh.NewReporter()
	kind := os.Getenv("C07_KIND")
	batch, _ := strconv.Atoi(os.Getenv("C07_BATCH"))
	nb, _ := strconv.Atoi(os.Getenv("C07_NBATCH"))
	from, _ := strconv.Atoi(os.Getenv("C07_FROM"))
	n, _ := strconv.Atoi(os.Getenv("C07_N"))
	r := vh.NewChildRun("C07")
	scripts := scriptsFor(kind, n, r.Rand, !r.Quick())
	tmp, err := os.MkdirTemp("", "c07-")
	if err != nil {
		rep.Inconclusive("mktemp: " + err.Error())
		rep.Done()
		return
	}
	defer os.RemoveAll(tmp)
	for i := range scripts {
		sc := &scripts[i]
		if sc.Idx%nb != batch || sc.Idx < from {
			continue
		}
		rep.Progress(sc.label())
		runScript(rep, sc, tmp, r.Seed)
	}
	os.RemoveAll(tmp)
	rep.Done()
}
