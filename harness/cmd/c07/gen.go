package main

import (
	"bytes"
	"fmt"
	"math/rand"
	"strings"
)

// ---------------------------------------------------------------------------------------------
// Script model. A script is what a scripted server emits for ONE probe call of a client under test.
// Bytes may contain the placeholders @ID@ (JSON text of the probe request's id), @PID@ (id of the
// call that was pending when the probe arrived) and @PAD@ (Part.Pad filler bytes), expanded by the
// server at write time (so that a 16 MiB frame costs nothing until it is sent).
// ---------------------------------------------------------------------------------------------

// Part is a piece of output followed by an optional pause (a flush point).
type Part struct {
	B   []byte `json:"b"`
	Pad int    `json:"pad,omitempty"`
	Ms  int    `json:"ms,omitempty"`
}

func (p Part) expand(id, pid string) []byte {
	b := p.B
	if bytes.Contains(b, []byte("@ID@")) {
		b = bytes.ReplaceAll(b, []byte("@ID@"), []byte(id))
	}
	if bytes.Contains(b, []byte("@PID@")) {
		b = bytes.ReplaceAll(b, []byte("@PID@"), []byte(pid))
	}
	if p.Pad > 0 && bytes.Contains(b, []byte("@PAD@")) {
		b = bytes.Replace(b, []byte("@PAD@"), bytes.Repeat([]byte("x"), p.Pad), 1)
	}
	return b
}

// PostResp describes the raw HTTP response to the probe POST.
type PostResp struct {
	Status  string   `json:"status"`            // "200 OK"; a value starting with "RAW:" replaces the whole status line
	Headers []string `json:"headers,omitempty"` // without Connection / Content-Length / Transfer-Encoding
	Mode    string   `json:"mode"`              // "cl" (Content-Length), "chunked", "eof" (body delimited by close)
	CLDelta int      `json:"cl_delta,omitempty"`
	NoTerm  bool     `json:"no_term,omitempty"` // chunked: close without the terminating chunk
	Body    []Part   `json:"body,omitempty"`
	Hold    bool     `json:"hold,omitempty"` // keep the connection open and silent after the body until the client goes away
}

// Script is one case.
type Script struct {
	Idx         int       `json:"idx"`
	Kind        string    `json:"kind"`
	Placement   string    `json:"placement"`
	Class       string    `json:"class"`
	Variant     string    `json:"variant"`
	ProbeMethod string    `json:"probe_method"` // tools/call (name=probe) or tools/list
	Post        *PostResp `json:"post,omitempty"`
	Stream      []Part    `json:"stream,omitempty"`       // written on the async stream (GET stream, legacy stream, stdout) when the probe arrives
	StreamClose bool      `json:"stream_close,omitempty"` // then the stream is closed (legacy / GET: connection ends; stdio: process exits)
	Handshake   []Part    `json:"handshake,omitempty"`    // legacy: emitted when the event stream opens, instead of the endpoint event
	HandClose   bool      `json:"hand_close,omitempty"`
	Stderr      []byte    `json:"stderr,omitempty"`
	HasValid    bool      `json:"has_valid"`           // the script contains a valid answer carrying the probe's id
	SameIDOdd   bool      `json:"same_id_odd"`         // contains a frame with the probe's id (or a type variant of the same value) that is not a plain valid answer
	Foreign     bool      `json:"foreign"`             // contains a result frame with a foreign id (marker "foreign")
	PendingMay  bool      `json:"pending_may"`         // the fragment addresses the pending call's id: that call may legitimately get it
	InitFails   bool      `json:"init_fails"`          // handshake script that gives the client no usable endpoint
	InitMay     bool      `json:"init_may"`            // handshake may or may not succeed
	NoAnswer    bool      `json:"no_answer,omitempty"` // exchange ends only by the harness's deadline (client cannot know)
	WithHandler bool      `json:"with_handler,omitempty"`
	Race        bool      `json:"race,omitempty"` // stdio: valid answer racing the caller's cancellation
	Costly      bool      `json:"costly,omitempty"`
	// Expect is set by the same-id family (sameid.go): what the probe may return when a frame of the wrong kind
	// bearing the probe's id was placed next to its well-formed answer. "valid": only the content of the
	// well-formed answer; "valid-or-error": that content or an error; "valid-or-error-or-odd": also the content
	// of the odd frame's own result member. "" = the general rules.
	Expect    string `json:"expect,omitempty"`
	NoHandler bool   `json:"no_handler,omitempty"` // no notification handler is registered on the client (any kind)
	// Typed is set by the typed-members family (typed.go): notif | srvreq | result | error. The probe is judged by
	// judgeTyped (child.go); with a handler requested, handlers are registered for every notification method the family uses.
	Typed string `json:"typed,omitempty"`
}

func (s *Script) label() string {
	return fmt.Sprintf("idx=%d|%s|%s|%s|%s", s.Idx, s.Kind, s.Placement, s.Class, s.Variant)
}

// dead reports whether the async stream of the client is legitimately gone after the script.
func (s *Script) dead() bool { return s.StreamClose || s.HandClose }

// ---------------------------------------------------------------------------------------------
// Valid / foreign frames
// ---------------------------------------------------------------------------------------------

func validAnswer(method string, pad bool) string {
	if method != "tools/list" && method != "tools/call" {
		return `{"jsonrpc":"2.0","id":@ID@,"result":` + resultBody(method, validMarker(method, "probe")) + `}`
	}
	if method == "tools/list" {
		d := "d"
		if pad {
			d = "@PAD@"
		}
		return `{"jsonrpc":"2.0","id":@ID@,"result":{"tools":[{"name":"valid-tool","description":"` + d + `","inputSchema":{"type":"object"}}]}}`
	}
	extra := ""
	if pad {
		extra = `,{"type":"text","text":"@PAD@"}`
	}
	return `{"jsonrpc":"2.0","id":@ID@,"result":{"content":[{"type":"text","text":"valid:probe"}` + extra + `]}}`
}

// probeMethods are the call types a probe can be. The list calls carry the marker in the (only) item's name,
// the others in the text of the first content item.
var probeMethods = []string{"tools/list", "tools/call", "prompts/list", "resources/list", "resources/read", "prompts/get"}

func isListMethod(method string) bool { return strings.HasSuffix(method, "/list") }

// validMarker is the marker of the well-formed answer to a call (name = tool / prompt name of the call).
func validMarker(method, name string) string {
	if isListMethod(method) {
		return "valid"
	}
	return "valid:" + name
}

func resultBody(method, marker string) string {
	switch method {
	case "tools/list":
		return `{"tools":[{"name":"` + marker + `-tool","description":"d","inputSchema":{"type":"object"}}]}`
	case "prompts/list":
		return `{"prompts":[{"name":"` + marker + `-prompt","description":"d"}]}`
	case "resources/list":
		return `{"resources":[{"uri":"file:///c07/r","name":"` + marker + `-res","mimeType":"text/plain"}]}`
	case "resources/read":
		return `{"contents":[{"uri":"file:///c07/probe","mimeType":"text/plain","text":"` + marker + `"}]}`
	case "prompts/get":
		return `{"description":"d","messages":[{"role":"user","content":{"type":"text","text":"` + marker + `"}}]}`
	}
	return `{"content":[{"type":"text","text":"` + marker + `"}]}`
}

func foreignFrame(method, idJSON string) string {
	if idJSON == "" {
		return `{"jsonrpc":"2.0","result":` + resultBody(method, "foreign") + `}`
	}
	return `{"jsonrpc":"2.0","id":` + idJSON + `,"result":` + resultBody(method, "foreign") + `}`
}

const validNotif = `{"jsonrpc":"2.0","method":"notifications/verif","params":{"n":0}}`

// ---------------------------------------------------------------------------------------------
// Fragments
// ---------------------------------------------------------------------------------------------

// Frag is an adversarial fragment: message-level (Msgs: each to be framed as one frame of the transport)
// or raw (bytes in the transport's own framing).
type Frag struct {
	Class      string
	Variant    string
	Msgs       []string
	Raw        []byte
	Pad        int
	Foreign    bool
	SameIDOdd  bool
	PendingMay bool
	Costly     bool
	NoNewline  bool // raw fragment leaves the line open (must be followed by a close)
	EatsNext   bool // the fragment does not end in LF: a reader that splits at LF only merges it with the next line, so a
	// sacrificial well-formed notification follows it; frames after that one must be processed
}

type fragGen func(rng *rand.Rand, method string, lineOverhead int) Frag

func randBytes(rng *rand.Rand, n int, noNL bool) []byte {
	b := make([]byte, n)
	for i := range b {
		c := byte(rng.Intn(256))
		if rng.Intn(8) == 0 {
			c = []byte{0x00, 0xff, 0xc0, 0x80, 0xfe, 0x1b, 0x7f, '{', '}', '"', ':', '\\'}[rng.Intn(12)]
		}
		if noNL && (c == '\n' || c == '\r') {
			c = 0
		}
		b[i] = c
	}
	return b
}

func pick(rng *rand.Rand, l []string) (string, int) {
	i := rng.Intn(len(l))
	return l[i], i
}

// message-level fragment generators
var msgFrags = []fragGen{
	func(rng *rand.Rand, m string, _ int) Frag {
		n := 1 + rng.Intn(4)
		var ms []string
		for i := 0; i < n; i++ {
			ms = append(ms, string(randBytes(rng, 1+rng.Intn(200), true)))
		}
		return Frag{Class: "garbage-bytes", Variant: fmt.Sprintf("frames=%d", n), Msgs: ms}
	},
	func(rng *rand.Rand, m string, _ int) Frag {
		s, i := pick(rng, []string{"hello world", "<html><body>502 Bad Gateway</body></html>", "{not json", "}{", `{"jsonrpc":"2.0",`, "NaN", "undefined", "True", `{"jsonrpc":"2.0","id":@ID@,"result":`, "Content-Length: 52", "\x1b[31mERROR\x1b[0m something failed", `{"a":1}}`, "'single'", "{\"jsonrpc\":\"2.0\",\"method\":\"x\"\x00}"})
		return Frag{Class: "non-json-line", Variant: fmt.Sprintf("v%d", i), Msgs: []string{s}}
	},
	func(rng *rand.Rand, m string, _ int) Frag {
		s, i := pick(rng, []string{"[]", "[1,2,3]", "42", `"a string"`, "null", "{}", "true", "-0.5e3", `[{"jsonrpc":"2.0","id":@ID@,"result":` + resultBody(m, "valid:probe") + `}]`, `{"id":@ID@}`, `{"jsonrpc":2,"id":@ID@,"result":{}}`})
		f := Frag{Class: "json-wrong-kind", Variant: fmt.Sprintf("v%d", i), Msgs: []string{s}}
		if strings.Contains(s, "@ID@") {
			f.SameIDOdd = true
		}
		return f
	},
	func(rng *rand.Rand, m string, _ int) Frag {
		id, i := pick(rng, []string{"999999", "0", "-7", `"no-such-request"`, "4611686018427387904"})
		return Frag{Class: "id-unknown", Variant: fmt.Sprintf("v%d", i), Msgs: []string{foreignFrame(m, id)}, Foreign: true}
	},
	func(rng *rand.Rand, m string, _ int) Frag {
		return Frag{Class: "id-other-pending", Variant: "v0", Msgs: []string{foreignFrame(m, "@PID@")}, Foreign: true, PendingMay: true}
	},
	func(rng *rand.Rand, m string, _ int) Frag {
		id, i := pick(rng, []string{"null", `{"v":@ID@}`, "[@ID@]", "true", `"x@ID@"`, "1e400", `""`})
		return Frag{Class: "id-mistyped", Variant: fmt.Sprintf("v%d", i), Msgs: []string{foreignFrame(m, id)}, Foreign: true}
	},
	func(rng *rand.Rand, m string, _ int) Frag {
		id, i := pick(rng, []string{"@ID@.5", "@ID@.25", "@ID@.999"})
		return Frag{Class: "id-fractional", Variant: fmt.Sprintf("v%d", i), Msgs: []string{foreignFrame(m, id)}, Foreign: true}
	},
	func(rng *rand.Rand, m string, _ int) Frag {
		// the same value in another JSON type / spelling: a lenient match is tolerated by the oracle
		id, i := pick(rng, []string{`"@ID@"`, "@ID@.0", "@ID@e0"})
		return Frag{Class: "id-type-variant", Variant: fmt.Sprintf("v%d", i), Msgs: []string{`{"jsonrpc":"2.0","id":` + id + `,"result":` + resultBody(m, "variant") + `}`}, SameIDOdd: true}
	},
	func(rng *rand.Rand, m string, _ int) Frag {
		return Frag{Class: "id-missing", Variant: "v0", Msgs: []string{foreignFrame(m, "")}, Foreign: true}
	},
	func(rng *rand.Rand, m string, _ int) Frag {
		s, i := pick(rng, []string{
			`{"jsonrpc":"2.0","id":@ID@,"result":` + resultBody(m, "both") + `,"error":{"code":-32000,"message":"both"}}`,
			`{"jsonrpc":"2.0","id":@ID@,"error":{"code":-32000,"message":"both"},"result":null}`})
		return Frag{Class: "result-and-error", Variant: fmt.Sprintf("v%d", i), Msgs: []string{s}, SameIDOdd: true}
	},
	func(rng *rand.Rand, m string, _ int) Frag {
		s, i := pick(rng, []string{`{"jsonrpc":"2.0","id":@ID@}`, `{"jsonrpc":"2.0","id":@ID@,"params":{}}`})
		return Frag{Class: "neither-result-nor-error", Variant: fmt.Sprintf("v%d", i), Msgs: []string{s}, SameIDOdd: true}
	},
	func(rng *rand.Rand, m string, _ int) Frag {
		r, i := pick(rng, []string{`{"tools":"not-an-array"}`, `{"tools":null}`, `{"tools":[1,"x",null,[]]}`, `{"content":"not-an-array"}`, `{"content":null}`, `{"content":[1,null,"x"]}`, `{"content":[{"type":"nope"}]}`, "null", "[]", `"str"`, "42", "{}", `{"content":[{"type":"text","text":42}],"isError":"yes"}`})
		return Frag{Class: "result-wrong-shape", Variant: fmt.Sprintf("v%d", i), Msgs: []string{`{"jsonrpc":"2.0","id":@ID@,"result":` + r + `}`}, SameIDOdd: true}
	},
	func(rng *rand.Rand, m string, _ int) Frag {
		e, i := pick(rng, []string{`"a string"`, "null", `{"code":"x","message":7}`, "[]", "42", `{}`, `{"code":1e400,"message":"m"}`})
		return Frag{Class: "error-odd-shape", Variant: fmt.Sprintf("v%d", i), Msgs: []string{`{"jsonrpc":"2.0","id":@ID@,"error":` + e + `}`}, SameIDOdd: true}
	},
	func(rng *rand.Rand, m string, _ int) Frag {
		s, i := pick(rng, []string{
			`{"jsonrpc":"2.0","method":"notifications/whatever","params":{}}`,
			`{"jsonrpc":"2.0","method":"notifications/verif","params":"a string"}`,
			`{"jsonrpc":"2.0","method":"notifications/verif","params":[1,2]}`,
			`{"jsonrpc":"2.0","method":42}`,
			`{"jsonrpc":"2.0","method":""}`,
			`{"jsonrpc":"2.0","method":"notifications/progress","params":{"progressToken":{},"progress":"x"}}`,
			`{"jsonrpc":"2.0","method":"notifications/cancelled","params":{"requestId":@ID@}}`,
			`{"method":"notifications/verif"}`})
		return Frag{Class: "notif-odd", Variant: fmt.Sprintf("v%d", i), Msgs: []string{s}}
	},
	func(rng *rand.Rand, m string, _ int) Frag {
		s, i := pick(rng, []string{
			`{"jsonrpc":"2.0","id":"srv-u1","method":"verif/unknown"}`,
			`{"jsonrpc":"2.0","id":777001,"method":"sampling/createMessage","params":{}}`,
			`{"jsonrpc":"2.0","id":null,"method":"verif/unknown"}`,
			`{"jsonrpc":"2.0","id":{"a":1},"method":"roots/list"}`,
			`{"jsonrpc":"2.0","id":"srv-u2","method":"roots/list","params":"x"}`,
			`{"jsonrpc":"2.0","id":@ID@,"method":"verif/unknown"}`,
			`{"jsonrpc":"2.0","id":"srv-u3","method":42}`})
		f := Frag{Class: "server-request-odd", Variant: fmt.Sprintf("v%d", i), Msgs: []string{s}}
		if strings.Contains(s, "@ID@") {
			f.SameIDOdd = true
		}
		return f
	},
	func(rng *rand.Rand, m string, _ int) Frag {
		s, i := pick(rng, []string{
			`{"jsonrpc":"1.0","id":@ID@,"result":` + resultBody(m, "valid:probe") + `}`,
			`{"id":@ID@,"result":` + resultBody(m, "valid:probe") + `}`,
			`{"jsonrpc":null,"id":@ID@,"result":` + resultBody(m, "valid:probe") + `}`})
		return Frag{Class: "bad-jsonrpc-version", Variant: fmt.Sprintf("v%d", i), Msgs: []string{s}, SameIDOdd: true}
	},
	func(rng *rand.Rand, m string, _ int) Frag {
		d := 100 + rng.Intn(20000)
		return Frag{Class: "json-deep-nesting", Variant: "v0", Msgs: []string{`{"jsonrpc":"2.0","method":"notifications/verif","params":{"deep":` + strings.Repeat("[", d) + strings.Repeat("]", d) + `}}`}}
	},
	bigNotif("frame<64KiB", 65535),
	bigNotif("frame>=64KiB", 65536),
	bigNotif("frame>=64KiB", 65537),
	bigNotif("frame>=64KiB", 1<<20),
}

// bigNotif builds one valid notification whose LINE on the wire (framing prefix included) is exactly n bytes.
func bigNotif(class string, n int) fragGen {
	return func(rng *rand.Rand, m string, overhead int) Frag {
		skel := `{"jsonrpc":"2.0","method":"notifications/verif","params":{"n":0,"pad":"@PAD@"}}`
		pad := n - overhead - (len(skel) - len("@PAD@"))
		return Frag{Class: class, Variant: fmt.Sprintf("line=%d", n), Msgs: []string{skel}, Pad: pad, Costly: n >= 8<<20}
	}
}

var costlyMsgFrags = []fragGen{bigNotif("frame>=64KiB", 16<<20)}

// raw fragments for event streams
var sseRawFrags = []fragGen{
	func(rng *rand.Rand, m string, _ int) Frag {
		s, i := pick(rng, []string{": x\n", ":\n", ": keep-alive\n\n", strings.Repeat(": c\n", 50), ":data: " + validNotif + "\n\n"})
		return Frag{Class: "sse-comment", Variant: fmt.Sprintf("v%d", i), Raw: []byte(s)}
	},
	func(rng *rand.Rand, m string, _ int) Frag {
		return Frag{Class: "blank-lines", Variant: "v0", Raw: []byte(strings.Repeat("\n", 1+rng.Intn(40)))}
	},
	func(rng *rand.Rand, m string, _ int) Frag {
		return Frag{Class: "crlf-line-ends", Variant: "v0", Raw: []byte("event: message\r\ndata: " + validNotif + "\r\n\r\n")}
	},
	func(rng *rand.Rand, m string, _ int) Frag {
		return Frag{Class: "cr-only-line-ends", Variant: "v0", Raw: []byte("event: message\rdata: " + validNotif + "\r\r"), EatsNext: true}
	},
	func(rng *rand.Rand, m string, _ int) Frag {
		return Frag{Class: "data-without-space", Variant: "v0", Raw: []byte("event:message\ndata:" + validNotif + "\n\n")}
	},
	func(rng *rand.Rand, m string, _ int) Frag {
		return Frag{Class: "multi-line-data", Variant: "v0", Raw: []byte("event: message\ndata: {\"jsonrpc\":\"2.0\",\ndata: \"method\":\"notifications/verif\",\ndata: \"params\":{\"n\":0}}\n\n")}
	},
	func(rng *rand.Rand, m string, _ int) Frag {
		s, i := pick(rng, []string{"id: 7\n\n", "id\n\n", "id: 1\nid: 2\nid: 3\n\n", "id: " + strings.Repeat("i", 5000) + "\n\n"})
		return Frag{Class: "id-only-event", Variant: fmt.Sprintf("v%d", i), Raw: []byte(s)}
	},
	func(rng *rand.Rand, m string, _ int) Frag {
		// WHATWG: an id containing U+0000 is ignored; control characters are not valid in an HTTP header value
		s, i := pick(rng, []string{"id: \x00\n\n", "id: ev\x01\x7f\ndata: " + validNotif + "\n\n", "id: a\x00b\n\n"})
		return Frag{Class: "event-id-control-char", Variant: fmt.Sprintf("v%d", i), Raw: []byte(s)}
	},
	func(rng *rand.Rand, m string, _ int) Frag {
		return Frag{Class: "bom", Variant: "v0", Raw: []byte("\xEF\xBB\xBF"), EatsNext: true}
	},
	func(rng *rand.Rand, m string, _ int) Frag {
		s, i := pick(rng, []string{"retry: 100\n\n", "retry: abc\n\n", "foo: bar\n\n", "data\n\n", "event: weird\ndata: x\n\n", "event: \ndata: {}\n\n", "event: message\n\n", "data: \n\n", " data: {}\n\n", "event: message\nevent: message\ndata: []\n\n"})
		return Frag{Class: "sse-field-odd", Variant: fmt.Sprintf("v%d", i), Raw: []byte(s)}
	},
	func(rng *rand.Rand, m string, _ int) Frag {
		b := randBytes(rng, 1+rng.Intn(600), false)
		b = append(b, '\n', '\n')
		return Frag{Class: "garbage-raw", Variant: "v0", Raw: b}
	},
}

// raw fragments for the stdio stdout
var stdioRawFrags = []fragGen{
	func(rng *rand.Rand, m string, _ int) Frag {
		return Frag{Class: "blank-lines", Variant: "v0", Raw: []byte(strings.Repeat("\n", 1+rng.Intn(40)))}
	},
	func(rng *rand.Rand, m string, _ int) Frag {
		return Frag{Class: "crlf-line-ends", Variant: "v0", Raw: []byte(validNotif + "\r\n")}
	},
	func(rng *rand.Rand, m string, _ int) Frag {
		return Frag{Class: "whitespace-line", Variant: "v0", Raw: []byte("   \t \n \r\n")}
	},
	func(rng *rand.Rand, m string, _ int) Frag {
		return Frag{Class: "two-messages-one-line", Variant: "v0", Raw: []byte(validNotif + validNotif + "\n")}
	},
	func(rng *rand.Rand, m string, _ int) Frag {
		b := randBytes(rng, 1+rng.Intn(600), false)
		b = append(b, '\n')
		return Frag{Class: "garbage-raw", Variant: "v0", Raw: b}
	},
	func(rng *rand.Rand, m string, _ int) Frag {
		return Frag{Class: "bom", Variant: "v0", Raw: []byte("\xEF\xBB\xBF"), EatsNext: true}
	},
}

func hugeOpenLine(rng *rand.Rand) Frag {
	n := []int{70000, 1 << 20, 3 << 20}[rng.Intn(3)]
	return Frag{Class: "unterminated-huge-line", Variant: "v0", Raw: []byte("data: @PAD@"), Pad: n, NoNewline: true}
}

// ---------------------------------------------------------------------------------------------
// Framing helpers
// ---------------------------------------------------------------------------------------------

type framer struct {
	kind     string
	overhead int
}

func newFramer(kind string) framer {
	if kind == "stdio" || kind == "streamable-json" {
		return framer{kind, 0}
	}
	return framer{kind, len("data: ")}
}

// frame wraps one message into the transport's frame.
func (f framer) frame(msg string, rng *rand.Rand) []byte {
	switch f.kind {
	case "stdio":
		return []byte(msg + "\n")
	case "legacy-sse":
		return []byte("event: message\ndata: " + msg + "\n\n")
	case "streamable-json":
		return []byte(msg)
	default:
		pre := ""
		if rng != nil && coin(2) {
			pre = "event: message\n"
		}
		if rng != nil && coin(2) {
			pre += fmt.Sprintf("id: ev-%d\n", rng.Intn(1000))
		}
		return []byte(pre + "data: " + msg + "\n\n")
	}
}

func (f framer) parts(fr Frag, rng *rand.Rand) []Part {
	if fr.Raw != nil {
		out := []Part{{B: fr.Raw, Pad: fr.Pad}}
		if fr.EatsNext && f.kind != "streamable-json" {
			out = append(out, Part{B: f.frame(validNotif, nil)})
		}
		return out
	}
	var out []Part
	for _, m := range fr.Msgs {
		out = append(out, Part{B: f.frame(m, rng), Pad: fr.Pad})
	}
	return out
}

func (s *Script) take(fr Frag) {
	s.Class, s.Variant = fr.Class, fr.Variant
	s.Foreign = s.Foreign || fr.Foreign
	s.SameIDOdd = s.SameIDOdd || fr.SameIDOdd
	s.PendingMay = s.PendingMay || fr.PendingMay
	s.Costly = s.Costly || fr.Costly
}

func probeMethod(rng *rand.Rand) string {
	if coin(3) {
		return "tools/list"
	}
	return "tools/call"
}

// ---------------------------------------------------------------------------------------------
// Case enumeration per client kind. A builder yields one script; the i-th script of a kind is
// builders[i % len] with fresh random parameters, costly builders only in the first cycle
// (thorough: every 8th cycle).
// ---------------------------------------------------------------------------------------------

type builder struct {
	costly bool
	mk     func(rng *rand.Rand) Script
}

func jsonHeaders(ct string) []string {
	h := []string{}
	if ct != "" {
		h = append(h, "Content-Type: "+ct)
	}
	return h
}

func okJSON(body []Part, rng *rand.Rand) *PostResp {
	mode := "cl"
	if coin(2) {
		mode = "chunked"
	}
	return &PostResp{Status: "200 OK", Headers: jsonHeaders("application/json"), Mode: mode, Body: body}
}

func okSSE(body []Part) *PostResp {
	return &PostResp{Status: "200 OK", Headers: []string{"Content-Type: text/event-stream", "Cache-Control: no-cache"}, Mode: "chunked", Body: body}
}

// httpFaults are HTTP-level answers to the probe POST; valid says whether a conforming client may extract the valid answer.
func httpFaults(method string, sse bool) []func(rng *rand.Rand) (string, string, *PostResp, bool) {
	va := func() []Part { return []Part{{B: []byte(validAnswer(method, false))}} }
	vaSSE := func() []Part { return []Part{{B: []byte("data: " + validAnswer(method, false) + "\n\n")}} }
	body := va
	ct := "application/json"
	if sse {
		body = vaSSE
		ct = "text/event-stream"
	}
	return []func(rng *rand.Rand) (string, string, *PostResp, bool){
		func(rng *rand.Rand) (string, string, *PostResp, bool) {
			c, i := pick(rng, []string{"text/plain", "text/html; charset=utf-8", "", "application/octet-stream", "APPLICATION/JSON", "application/json; charset=utf-16", "text/event-stream-x"})
			return "wrong-content-type", fmt.Sprintf("v%d", i), &PostResp{Status: "200 OK", Headers: jsonHeaders(c), Mode: "cl", Body: body()}, true
		},
		func(rng *rand.Rand) (string, string, *PostResp, bool) {
			// the other mode's body under this mode's content type
			if sse {
				return "content-type-body-mismatch", "json-as-sse", &PostResp{Status: "200 OK", Headers: jsonHeaders("text/event-stream"), Mode: "chunked", Body: va()}, true
			}
			return "content-type-body-mismatch", "sse-as-json", &PostResp{Status: "200 OK", Headers: jsonHeaders("application/json"), Mode: "cl", Body: vaSSE()}, true
		},
		func(rng *rand.Rand) (string, string, *PostResp, bool) {
			m, i := pick(rng, []string{"cl", "chunked", "eof"})
			return "empty-200", fmt.Sprintf("v%d", i), &PostResp{Status: "200 OK", Headers: jsonHeaders(ct), Mode: m}, false
		},
		func(rng *rand.Rand) (string, string, *PostResp, bool) {
			return "status-204", "v0", &PostResp{Status: "204 No Content", Headers: jsonHeaders(ct), Mode: "none"}, false
		},
		func(rng *rand.Rand) (string, string, *PostResp, bool) {
			return "status-202-for-request", "v0", &PostResp{Status: "202 Accepted", Mode: "cl"}, false
		},
		func(rng *rand.Rand) (string, string, *PostResp, bool) {
			st, i := pick(rng, []string{"500 Internal Server Error", "502 Bad Gateway", "404 Not Found", "401 Unauthorized", "429 Too Many Requests"})
			return "status-error-html", fmt.Sprintf("v%d", i), &PostResp{Status: st, Headers: jsonHeaders("text/html"), Mode: "cl", Body: []Part{{B: []byte("<html><body><h1>" + st + "</h1></body></html>")}}}, false
		},
		func(rng *rand.Rand) (string, string, *PostResp, bool) {
			// an error status whose body is a valid answer
			return "status-error-with-answer", "v0", &PostResp{Status: "500 Internal Server Error", Headers: jsonHeaders(ct), Mode: "cl", Body: body()}, true
		},
		func(rng *rand.Rand) (string, string, *PostResp, bool) {
			st, i := pick(rng, []string{"302 Found", "301 Moved Permanently", "307 Temporary Redirect", "308 Permanent Redirect"})
			return "status-redirect", fmt.Sprintf("v%d", i), &PostResp{Status: st, Headers: []string{"Location: /elsewhere"}, Mode: "cl"}, false
		},
		func(rng *rand.Rand) (string, string, *PostResp, bool) {
			return "truncated-chunked", "v0", &PostResp{Status: "200 OK", Headers: jsonHeaders(ct), Mode: "chunked", NoTerm: true, Body: body()}, true
		},
		func(rng *rand.Rand) (string, string, *PostResp, bool) {
			b := body()
			half := b[0].B[:len(b[0].B)/2]
			return "truncated-body", "v0", &PostResp{Status: "200 OK", Headers: jsonHeaders(ct), Mode: "chunked", NoTerm: true, Body: []Part{{B: half}}}, false
		},
		func(rng *rand.Rand) (string, string, *PostResp, bool) {
			return "content-length-too-long", "v0", &PostResp{Status: "200 OK", Headers: jsonHeaders(ct), Mode: "cl", CLDelta: 1 + rng.Intn(500), Body: body()}, true
		},
		func(rng *rand.Rand) (string, string, *PostResp, bool) {
			// an event stream cut inside its trailing line ends still holds the complete data line
			return "content-length-too-short", "v0", &PostResp{Status: "200 OK", Headers: jsonHeaders(ct), Mode: "cl", CLDelta: -(1 + rng.Intn(20)), Body: body()}, sse
		},
		func(rng *rand.Rand) (string, string, *PostResp, bool) {
			s, i := pick(rng, []string{"RAW:HTTP/1.1 abc OK", "RAW:garbage garbage garbage", "RAW:HTTP/9.9 200 OK", "RAW:\x00\x01\x02", "RAW:HTTP/1.1 200"})
			return "bad-status-line", fmt.Sprintf("v%d", i), &PostResp{Status: s, Headers: jsonHeaders(ct), Mode: "cl", Body: body()}, true
		},
		func(rng *rand.Rand) (string, string, *PostResp, bool) {
			h, i := pick(rng, []string{"Broken Header Without Colon", "X-Big: @PAD@", "Mcp-Session-Id: \x01\x02", "Content-Encoding: gzip", "Transfer-Encoding: bogus"})
			return "odd-header", fmt.Sprintf("v%d", i), &PostResp{Status: "200 OK", Headers: append(jsonHeaders(ct), h), Mode: "cl", Body: body()}, true
		},
		func(rng *rand.Rand) (string, string, *PostResp, bool) {
			return "close-before-response", "v0", &PostResp{Status: "RAW:", Mode: "abort"}, false
		},
	}
}

func buildersFor(kind string) []builder {
	fr := newFramer(kind)
	var bs []builder
	add := func(costly bool, mk func(rng *rand.Rand) Script) { bs = append(bs, builder{costly, mk}) }
	allMsg := func() []struct {
		g      fragGen
		costly bool
	} {
		var l []struct {
			g      fragGen
			costly bool
		}
		for _, g := range msgFrags {
			l = append(l, struct {
				g      fragGen
				costly bool
			}{g, false})
		}
		for _, g := range costlyMsgFrags {
			l = append(l, struct {
				g      fragGen
				costly bool
			}{g, true})
		}
		return l
	}

	switch kind {
	case "streamable-json":
		for _, e := range allMsg() {
			e := e
			for _, pl := range []string{"before-body", "inside-body", "after-body", "only-body"} {
				pl := pl
				add(e.costly, func(rng *rand.Rand) Script {
					m := probeMethod(rng)
					f := e.g(rng, m, 0)
					s := Script{Kind: kind, Placement: pl, ProbeMethod: m}
					s.take(f)
					frag := fr.parts(f, nil)
					va := []byte(validAnswer(m, false))
					var body []Part
					switch pl {
					case "before-body":
						body = append(append(body, frag...), Part{B: append([]byte("\n"), va...)})
						s.HasValid = true
					case "inside-body":
						cut := len(va) / 2
						body = append(body, Part{B: va[:cut]})
						body = append(body, frag...)
						body = append(body, Part{B: va[cut:]})
						s.SameIDOdd = true // a lenient reader may or may not recover the answer
					case "after-body":
						body = append(body, Part{B: append(va, '\n')})
						body = append(body, frag...)
						s.HasValid = true
					default:
						body = frag
					}
					s.Post = okJSON(body, rng)
					return s
				})
			}
		}
		// the valid answer itself, big
		for _, n := range []int{65535, 65536, 1 << 20, 16 << 20} {
			n := n
			add(n >= 8<<20, func(rng *rand.Rand) Script {
				m := probeMethod(rng)
				cl := "frame>=64KiB"
				if n < 65536 {
					cl = "frame<64KiB"
				}
				s := Script{Kind: kind, Placement: "answer-is-big", Class: cl, Variant: fmt.Sprintf("body=%d", n), ProbeMethod: m, HasValid: true, Costly: n >= 8<<20}
				va := validAnswer(m, true)
				s.Post = okJSON([]Part{{B: []byte(va), Pad: n - (len(va) - len("@PAD@"))}}, rng)
				return s
			})
		}
		for _, hf := range httpFaults("tools/call", false) {
			hf := hf
			add(false, func(rng *rand.Rand) Script {
				cl, v, p, valid := hf(rng)
				return Script{Kind: kind, Placement: "http-response", Class: cl, Variant: v, ProbeMethod: "tools/call", Post: p, HasValid: valid}
			})
		}

	case "streamable-sse":
		gens := allMsg()
		for _, g := range sseRawFrags {
			gens = append(gens, struct {
				g      fragGen
				costly bool
			}{g, false})
		}
		for _, e := range gens {
			e := e
			for _, pl := range []string{"before-answer", "between-events", "after-answer", "no-answer-then-close"} {
				pl := pl
				add(e.costly, func(rng *rand.Rand) Script {
					m := probeMethod(rng)
					f := e.g(rng, m, fr.overhead)
					s := Script{Kind: kind, Placement: pl, ProbeMethod: m, WithHandler: coin(2)}
					s.take(f)
					frag := fr.parts(f, rng)
					ans := Part{B: fr.frame(validAnswer(m, false), rng)}
					note := Part{B: fr.frame(validNotif, rng)}
					var body []Part
					switch pl {
					case "before-answer":
						body = append(append(body, frag...), ans)
						s.HasValid = true
					case "between-events":
						body = append(body, note)
						body = append(body, frag...)
						body = append(body, note, ans)
						s.HasValid = true
					case "after-answer":
						body = append(body, ans)
						body = append(body, frag...)
						s.HasValid = true
					default:
						body = frag
					}
					if coin(3) && len(body) > 1 {
						body[0].Ms = 5
					}
					s.Post = okSSE(body)
					s.Post.NoTerm = coin(3)
					return s
				})
			}
		}
		// the answer itself in unusual framing
		type fv struct {
			class string
			mk    func(va string) string
		}
		for _, v := range []fv{
			{"crlf-line-ends", func(va string) string { return "event: message\r\nid: 1\r\ndata: " + va + "\r\n\r\n" }},
			{"cr-only-line-ends", func(va string) string { return "event: message\rdata: " + va + "\r\r" }},
			{"data-without-space", func(va string) string { return "data:" + va + "\n\n" }},
			{"multi-line-data", func(va string) string { return "data: " + va[:20] + "\ndata: " + va[20:] + "\n\n" }},
			{"event-type-unknown", func(va string) string { return "event: weird\ndata: " + va + "\n\n" }},
			{"no-final-blank-line", func(va string) string { return "data: " + va + "\n" }},
			{"unterminated-data-line", func(va string) string { return "data: " + va }},
			{"bom", func(va string) string { return "\xEF\xBB\xBFdata: " + va + "\n\n" }},
		} {
			v := v
			add(false, func(rng *rand.Rand) Script {
				m := probeMethod(rng)
				s := Script{Kind: kind, Placement: "answer-framing", Class: v.class, Variant: "v0", ProbeMethod: m, HasValid: true, WithHandler: coin(2)}
				s.Post = okSSE([]Part{{B: []byte(v.mk(validAnswer(m, false)))}})
				return s
			})
		}
		for _, n := range []int{65535, 65536, 1 << 20, 16 << 20} {
			n := n
			add(n >= 8<<20, func(rng *rand.Rand) Script {
				m := probeMethod(rng)
				cl := "frame>=64KiB"
				if n < 65536 {
					cl = "frame<64KiB"
				}
				s := Script{Kind: kind, Placement: "answer-is-big", Class: cl, Variant: fmt.Sprintf("line=%d", n), ProbeMethod: m, HasValid: true, Costly: n >= 8<<20, WithHandler: coin(2)}
				va := validAnswer(m, true)
				s.Post = okSSE([]Part{{B: []byte("data: " + va + "\n\n"), Pad: n - 6 - (len(va) - len("@PAD@"))}})
				return s
			})
		}
		add(false, func(rng *rand.Rand) Script {
			f := hugeOpenLine(rng)
			s := Script{Kind: kind, Placement: "no-answer-then-close", ProbeMethod: "tools/call"}
			s.take(f)
			s.Post = okSSE(fr.parts(f, nil))
			s.Post.NoTerm = true
			return s
		})
		// silence: only the caller's deadline ends the exchange
		add(false, func(rng *rand.Rand) Script {
			m := probeMethod(rng)
			f := msgFrags[rng.Intn(3)](rng, m, fr.overhead)
			s := Script{Kind: kind, Placement: "no-answer-until-deadline", ProbeMethod: m, NoAnswer: true}
			s.take(f)
			s.Post = okSSE(fr.parts(f, rng))
			s.Post.Hold = true
			return s
		})
		for _, hf := range httpFaults("tools/call", true) {
			hf := hf
			add(false, func(rng *rand.Rand) Script {
				cl, v, p, valid := hf(rng)
				return Script{Kind: kind, Placement: "http-response", Class: cl, Variant: v, ProbeMethod: "tools/call", Post: p, HasValid: valid}
			})
		}

	case "streamable-get":
		gens := allMsg()
		for _, g := range sseRawFrags {
			gens = append(gens, struct {
				g      fragGen
				costly bool
			}{g, false})
		}
		for _, e := range gens {
			e := e
			for _, pl := range []string{"get-stream", "get-stream-then-close"} {
				pl := pl
				add(e.costly, func(rng *rand.Rand) Script {
					m := probeMethod(rng)
					f := e.g(rng, m, fr.overhead)
					s := Script{Kind: kind, Placement: pl, ProbeMethod: m, HasValid: true}
					s.take(f)
					s.Foreign = false // the probe is answered on its own POST; frames on the GET stream cannot be its answer
					s.Stream = fr.parts(f, rng)
					s.StreamClose = pl == "get-stream-then-close"
					s.Post = okJSON([]Part{{B: []byte(validAnswer(m, false))}}, rng)
					return s
				})
			}
		}
		add(false, func(rng *rand.Rand) Script {
			f := hugeOpenLine(rng)
			s := Script{Kind: kind, Placement: "get-stream-then-close", ProbeMethod: "tools/call", HasValid: true, StreamClose: true}
			s.take(f)
			s.Stream = fr.parts(f, nil)
			s.Post = okJSON([]Part{{B: []byte(validAnswer("tools/call", false))}}, rng)
			return s
		})

	case "legacy-sse":
		gens := allMsg()
		for _, g := range sseRawFrags {
			gens = append(gens, struct {
				g      fragGen
				costly bool
			}{g, false})
		}
		for _, e := range gens {
			e := e
			for _, pl := range []string{"before-answer", "after-answer", "no-answer-then-close"} {
				pl := pl
				add(e.costly, func(rng *rand.Rand) Script {
					m := probeMethod(rng)
					f := e.g(rng, m, fr.overhead)
					s := Script{Kind: kind, Placement: pl, ProbeMethod: m}
					s.take(f)
					frag := fr.parts(f, rng)
					ans := Part{B: fr.frame(validAnswer(m, false), nil)}
					switch pl {
					case "before-answer":
						s.Stream = append(frag, ans)
						s.HasValid = true
					case "after-answer":
						s.Stream = append([]Part{ans}, frag...)
						s.HasValid = true
					default:
						s.Stream = frag
						s.StreamClose = true
					}
					return s
				})
			}
		}
		add(false, func(rng *rand.Rand) Script {
			m := probeMethod(rng)
			f := msgFrags[rng.Intn(3)](rng, m, fr.overhead)
			s := Script{Kind: kind, Placement: "no-answer-until-deadline", ProbeMethod: m, NoAnswer: true}
			s.take(f)
			s.Stream = fr.parts(f, rng)
			return s
		})
		add(false, func(rng *rand.Rand) Script {
			f := hugeOpenLine(rng)
			s := Script{Kind: kind, Placement: "no-answer-then-close", ProbeMethod: "tools/call", StreamClose: true}
			s.take(f)
			s.Stream = fr.parts(f, nil)
			return s
		})
		// the answer in unusual framing
		type fv struct {
			class string
			mk    func(va string) string
		}
		for _, v := range []fv{
			{"crlf-line-ends", func(va string) string { return "event: message\r\ndata: " + va + "\r\n\r\n" }},
			{"data-without-space", func(va string) string { return "event:message\ndata:" + va + "\n\n" }},
			{"data-before-event-line", func(va string) string { return "data: " + va + "\nevent: message\n\n" }},
			{"event-type-missing", func(va string) string { return "data: " + va + "\n\n" }},
			{"cr-only-line-ends", func(va string) string { return "event: message\rdata: " + va + "\r\r" }},
		} {
			v := v
			add(false, func(rng *rand.Rand) Script {
				m := probeMethod(rng)
				// an unusual framing may legitimately not be understood: then only the harness deadline ends the call
				s := Script{Kind: kind, Placement: "answer-framing", Class: v.class, Variant: "v0", ProbeMethod: m, HasValid: true, NoAnswer: true}
				s.Stream = []Part{{B: []byte(v.mk(validAnswer(m, false)))}}
				if v.class == "cr-only-line-ends" {
					s.Stream = append(s.Stream, Part{B: fr.frame(validNotif, nil)}) // sacrificial frame (see Frag.EatsNext)
				}
				return s
			})
		}
		for _, n := range []int{65535, 65536, 1 << 20, 16 << 20} {
			n := n
			add(n >= 8<<20, func(rng *rand.Rand) Script {
				m := probeMethod(rng)
				cl := "frame>=64KiB"
				if n < 65536 {
					cl = "frame<64KiB"
				}
				s := Script{Kind: kind, Placement: "answer-is-big", Class: cl, Variant: fmt.Sprintf("line=%d", n), ProbeMethod: m, HasValid: true, Costly: n >= 8<<20}
				va := validAnswer(m, true)
				s.Stream = []Part{{B: []byte("event: message\ndata: " + va + "\n\n"), Pad: n - 6 - (len(va) - len("@PAD@"))}}
				return s
			})
		}
		// HTTP-level faults on the POST /message answer; the JSON-RPC answer still arrives on the stream
		for _, hf := range httpFaults("tools/call", false) {
			hf := hf
			add(false, func(rng *rand.Rand) Script {
				cl, v, p, _ := hf(rng)
				s := Script{Kind: kind, Placement: "post-response", Class: cl, Variant: v, ProbeMethod: "tools/call", Post: p, HasValid: true}
				s.Stream = []Part{{B: fr.frame(validAnswer("tools/call", false), nil)}}
				return s
			})
		}
		// endpoint handling
		ep := "event: endpoint\ndata: /message?sessionId=s1\n\n"
		type hs struct {
			class, variant string
			parts          []string
			close          bool
			fails, may     bool
			costly         bool
		}
		for _, h := range []hs{
			{"endpoint-duplicated", "same-url", []string{ep, ep}, false, false, false, false},
			{"endpoint-duplicated", "other-url", []string{ep, "event: endpoint\ndata: /message?sessionId=s2\n\n"}, false, false, false, false},
			{"endpoint-duplicated", "three", []string{ep, ": c\n\n", ep, ep}, false, false, false, false},
			{"endpoint-missing", "close-at-once", nil, true, true, false, true},
			{"endpoint-missing", "comments-then-close", []string{": hi\n\n", ": hi\n\n"}, true, true, false, true},
			{"endpoint-missing", "message-then-close", []string{"event: message\ndata: " + validNotif + "\n\n"}, true, true, false, true},
			{"endpoint-missing", "unparsable-url-then-close", []string{"event: endpoint\ndata: ://\x7f%zz\n\n"}, true, true, false, true},
			{"endpoint-garbage-url", "unparsable-then-valid", []string{"event: endpoint\ndata: ://%zz\n\n", ep}, false, false, false, false},
			{"endpoint-garbage-url", "parsable-nonsense", []string{"event: endpoint\ndata: not a url at all\n\n"}, false, false, true, false},
			{"endpoint-garbage-url", "empty-data", []string{"event: endpoint\ndata: \n\n", ep}, false, false, false, false},
			{"endpoint-late", "after-comments-and-garbage", []string{": c\n\n", "event: message\ndata: {not json\n\n", "data: x\n\n", ep}, false, false, false, false},
			{"endpoint-framing", "crlf", []string{"event: endpoint\r\ndata: /message?sessionId=s1\r\n\r\n"}, false, false, false, false},
			{"endpoint-framing", "data-first", []string{"data: /message?sessionId=s1\nevent: endpoint\n\n"}, false, false, false, false},
		} {
			h := h
			add(h.costly, func(rng *rand.Rand) Script {
				m := probeMethod(rng)
				s := Script{Kind: kind, Placement: "handshake", Class: h.class, Variant: h.variant, ProbeMethod: m, HasValid: true, HandClose: h.close, InitFails: h.fails, InitMay: h.may, Costly: h.costly}
				s.Handshake = []Part{}
				for _, p := range h.parts {
					s.Handshake = append(s.Handshake, Part{B: []byte(p), Ms: 2})
				}
				s.Stream = []Part{{B: fr.frame(validAnswer(m, false), nil)}}
				return s
			})
		}

	case "stdio":
		gens := allMsg()
		for _, g := range stdioRawFrags {
			gens = append(gens, struct {
				g      fragGen
				costly bool
			}{g, false})
		}
		for _, e := range gens {
			e := e
			for _, pl := range []string{"before-answer", "after-answer", "no-answer-then-exit"} {
				pl := pl
				add(e.costly, func(rng *rand.Rand) Script {
					m := probeMethod(rng)
					f := e.g(rng, m, 0)
					s := Script{Kind: kind, Placement: pl, ProbeMethod: m}
					s.take(f)
					frag := fr.parts(f, nil)
					ans := Part{B: fr.frame(validAnswer(m, false), nil)}
					switch pl {
					case "before-answer":
						s.Stream = append(frag, ans)
						s.HasValid = true
					case "after-answer":
						s.Stream = append([]Part{ans}, frag...)
						s.HasValid = true
					default:
						s.Stream = frag
						s.StreamClose = true
					}
					return s
				})
			}
		}
		add(false, func(rng *rand.Rand) Script {
			m := probeMethod(rng)
			f := msgFrags[2+rng.Intn(2)](rng, m, 0) // well-formed JSON that is no answer
			s := Script{Kind: kind, Placement: "no-answer-until-deadline", ProbeMethod: m, NoAnswer: true}
			s.take(f)
			s.Stream = fr.parts(f, nil)
			return s
		})
		add(false, func(rng *rand.Rand) Script {
			f := hugeOpenLine(rng)
			f.Raw = []byte("@PAD@")
			s := Script{Kind: kind, Placement: "no-answer-then-exit", ProbeMethod: "tools/call", StreamClose: true}
			s.take(f)
			s.Stream = fr.parts(f, nil)
			return s
		})
		add(false, func(rng *rand.Rand) Script {
			m := probeMethod(rng)
			s := Script{Kind: kind, Placement: "stderr", Class: "stderr-noise", Variant: "v0", ProbeMethod: m, HasValid: true}
			s.Stderr = append(randBytes(rng, 2000, false), []byte("\npanic: not really\n"+strings.Repeat("e", 70000)+"\n")...)
			s.Stream = []Part{{B: fr.frame(validAnswer(m, false), nil)}}
			return s
		})
		type fv struct {
			class string
			mk    func(va string) string
		}
		for _, v := range []fv{
			{"crlf-line-ends", func(va string) string { return va + "\r\n" }},
			{"pretty-printed-answer", func(va string) string {
				return strings.Replace(strings.Replace(va, `,"result"`, ",\n  \"result\"", 1), `{"jsonrpc"`, "{\n  \"jsonrpc\"", 1) + "\n"
			}},
			{"leading-whitespace", func(va string) string { return "   \t" + va + "\n" }},
			{"no-final-newline-then-more", func(va string) string { return va + validNotif + "\n" }},
		} {
			v := v
			add(false, func(rng *rand.Rand) Script {
				m := probeMethod(rng)
				s := Script{Kind: kind, Placement: "answer-framing", Class: v.class, Variant: "v0", ProbeMethod: m, HasValid: true, NoAnswer: true}
				s.Stream = []Part{{B: []byte(v.mk(validAnswer(m, false)))}}
				return s
			})
		}
		for _, n := range []int{65535, 65536, 1 << 20, 16 << 20} {
			n := n
			add(n >= 8<<20, func(rng *rand.Rand) Script {
				m := probeMethod(rng)
				cl := "frame>=64KiB"
				if n < 65536 {
					cl = "frame<64KiB"
				}
				s := Script{Kind: kind, Placement: "answer-is-big", Class: cl, Variant: fmt.Sprintf("line=%d", n), ProbeMethod: m, HasValid: true, Costly: n >= 8<<20}
				va := validAnswer(m, true)
				s.Stream = []Part{{B: []byte(va + "\n"), Pad: n - (len(va) - len("@PAD@"))}}
				return s
			})
		}
		add(false, func(rng *rand.Rand) Script {
			m := probeMethod(rng)
			s := Script{Kind: kind, Placement: "answer-races-cancel", Class: "valid-answer", Variant: "v0", ProbeMethod: m, HasValid: true, Race: true}
			s.Stream = []Part{{B: fr.frame(validAnswer(m, false), nil)}}
			return s
		})
	}
	return bs
}

// Structural choices (probe method, optional event:/id: lines, handler registered or not, chunk terminator, ...)
// are a fixed function of (builder, cycle, position) and NOT of the seed: the seed varies fragment contents
// only, so that the set of (placement, class) signatures a defect produces is the same for every seed.
var curBI, curCycle, coinK int

func coin(n int) bool {
	coinK++
	h := uint32(curBI+1)*2654435761 ^ uint32(curCycle+1)*40503 ^ uint32(coinK)*2246822519
	h ^= h >> 15
	h *= 2654435761
	h ^= h >> 13
	return h%uint32(n) == 0
}

var allKinds = []string{"streamable-json", "streamable-sse", "streamable-get", "legacy-sse", "stdio"}

// scriptsFor returns the n scripts of a kind for this seed.
func scriptsFor(kind string, n int, rngFor func(label string) *rand.Rand, thorough bool) []Script {
	bs := buildersFor(kind)
	var out []Script
	cycle := 0
	for len(out) < n {
		for bi, b := range bs {
			if len(out) >= n {
				break
			}
			if b.costly && cycle > 0 && !(thorough && cycle%8 == 0) {
				continue
			}
			rng := rngFor(fmt.Sprintf("c07|%s|%d|%d", kind, cycle, bi))
			curBI, curCycle, coinK = bi, cycle, 0
			s := b.mk(rng)
			s.Idx = len(out)
			out = append(out, s)
		}
		cycle++
	}
	// the same-id family comes on top of the n scripts (its size is fixed by the tier, not by n)
	for _, s := range sameIDScripts(kind, rngFor, thorough) {
		s.Idx = len(out)
		out = append(out, s)
	}
	// and so does the typed-members family
	for _, s := range typedScripts(kind, rngFor, thorough) {
		s.Idx = len(out)
		out = append(out, s)
	}
	return out
}
