package main

// Operations on the client WHILE a call's notification stream is open ("all handler registrations, concurrent calls
// on one client"). The registration histories (reghist.go) change the handler table only BETWEEN calls; here the
// table changes, further calls start, and the client is closed while an SSE-answered call is in the middle of its
// script:
//
//   actor=handler   a notification handler itself — running inside the call's dispatch — unregisters its own method
//                   (the one-shot handler), unregisters / registers / replaces another method, replaces itself, starts
//                   another call on the same client (tools/list, or a nested emitting tools/call) and waits for it,
//                   or closes the client at the last notification;
//   actor=other     the tool is parked at a gate in the middle of its script (call A is open); other goroutines
//                   register / unregister / replace handlers, close the client, and start further calls B on the same
//                   client. A's gate is opened only after B has returned (A depends on B).
//
// Oracle (statement of C10 only):
//   * every call returns, and returns its result intact. "Never returns" is decided by the gate discipline (nothing
//     the harness controls keeps the call from returning), a generous watchdog, and two goroutine dumps three seconds
//     apart that both show the call's goroutine parked on a lock inside the library; anything else that is slow is
//     inconclusive. (After Close was issued on the client an error instead of the result is accepted.)
//   * every handler value carries a generation and the method it was registered for; every table operation is an
//     interval [start, end] of the logical clock. A notification of call A may reach generation g of its method iff
//     g was possibly in effect at some moment between A's invocation and the delivery (so both "the table as it was
//     when the call started" and "the table as it is now" are accepted, as the statement does not say which);
//     it may reach nobody iff "no handler" was possibly in effect at some moment between A's invocation and A's
//     return. Deliveries of one call: strictly increasing seq (in order, at most once), each before the call's
//     return, by a handler registered for that method, parameters as emitted.
//   * a follow-up call after everything is quiet sees exactly the table the operations left behind.

import (
	"context"
	"encoding/json"
	"fmt"
	"math"
	"reflect"
	"runtime"
	"sort"
	"strconv"
	"strings"
	"sync"
	"time"

	mcp "trpc.group/trpc-go/trpc-mcp-go"

	"verifharness/lib/kit"
	"verifharness/lib/vh"
)

// ---- tool with gates ------------------------------------------------------------------------------------------------

type mitem struct {
	Kind string `json:"kind"` // progress | log | custom | gate
	Size int    `json:"size,omitempty"`
	Meta string `json:"meta,omitempty"`
	Gate string `json:"gate,omitempty"`
}

// mgate: the tool announces that it has arrived and stays until the harness releases it (no time limit: the
// harness decides; the request context ending releases it as well).
type mgate struct {
	arrived, open chan struct{}
	a, o          sync.Once
}

var mgates sync.Map

func mg(name string) *mgate {
	if v, ok := mgates.Load(name); ok {
		return v.(*mgate)
	}
	v, _ := mgates.LoadOrStore(name, &mgate{arrived: make(chan struct{}), open: make(chan struct{})})
	return v.(*mgate)
}
func (g *mgate) arrive()  { g.a.Do(func() { close(g.arrived) }) }
func (g *mgate) release() { g.o.Do(func() { close(g.open) }) }

func registerEmitG(in *kit.Instance) {
	in.RegisterTool(mcp.NewTool("emitg", mcp.WithString("nonce"), mcp.WithArray("script")), func(ctx context.Context, req *mcp.CallToolRequest) (*mcp.CallToolResult, error) {
		nonce, _ := req.Params.Arguments["nonce"].(string)
		raw, _ := json.Marshal(req.Params.Arguments["script"])
		var script []mitem
		json.Unmarshal(raw, &script)
		sender, ok := mcp.GetNotificationSender(ctx)
		sent, of, seq := 0, 0, 0
		for _, it := range script {
			if it.Kind == "gate" {
				g := mg(it.Gate)
				g.arrive()
				select {
				case <-g.open:
				case <-ctx.Done():
				}
				continue
			}
			of++
			if ok {
				tag := fmt.Sprintf("%s#%d#%s", nonce, seq, pad(it.Size))
				var err error
				switch it.Kind {
				case "progress":
					err = sender.SendProgress(float64(seq), tag)
				case "log":
					err = sender.SendLogMessage("info", tag)
				default:
					params := map[string]interface{}{"nonce": nonce, "seq": seq, "pad": pad(it.Size)}
					switch it.Meta {
					case "empty":
						params["_meta"] = map[string]interface{}{}
					case "some":
						params["_meta"] = map[string]interface{}{"progressToken": "tok-" + nonce, "n": seq}
					}
					err = sender.SendCustomNotification("notifications/verif", params)
				}
				if err == nil {
					sent++
				}
			}
			seq++
		}
		return mcp.NewTextResult(fmt.Sprintf(`{"nonce":"%s","emitted":%d,"of":%d}`, nonce, sent, of)), nil
	})
}

func notifs(script []mitem) []mitem {
	var out []mitem
	for _, it := range script {
		if it.Kind != "gate" {
			out = append(out, it)
		}
	}
	return out
}

// ---- goroutine inspection -------------------------------------------------------------------------------------------

func goid() uint64 {
	buf := make([]byte, 64)
	n := runtime.Stack(buf, false)
	f := strings.Fields(string(buf[:n]))
	if len(f) < 2 {
		return 0
	}
	id, _ := strconv.ParseUint(f[1], 10, 64)
	return id
}

type parkInfo struct {
	Found    bool   `json:"found"`
	State    string `json:"state"`
	OnLock   bool   `json:"on_lock"`
	LibFrame string `json:"library_frame"` // first frame below sync / runtime, when it belongs to the library
	Top      string `json:"top_frames"`
}

const libPrefix = "trpc.group/trpc-go/trpc-mcp-go."

// inspect finds goroutine id in a dump of all goroutines and says where it is parked.
func inspect(id uint64) parkInfo {
	size := 4 << 20
	var dump string
	for {
		buf := make([]byte, size)
		n := runtime.Stack(buf, true)
		if n < size || size >= 256<<20 {
			dump = string(buf[:n])
			break
		}
		size *= 4
	}
	head := fmt.Sprintf("goroutine %d [", id)
	for _, blk := range strings.Split(dump, "\n\n") {
		if !strings.HasPrefix(blk, head) {
			continue
		}
		lines := strings.Split(blk, "\n")
		p := parkInfo{Found: true}
		if i := strings.Index(lines[0], "["); i >= 0 {
			p.State = strings.TrimSuffix(strings.TrimSuffix(lines[0][i+1:], ":"), "]")
		}
		st := strings.SplitN(p.State, ",", 2)[0]
		p.OnLock = st == "sync.Mutex.Lock" || st == "sync.RWMutex.Lock" || st == "sync.RWMutex.RLock" || st == "semacquire"
		var top []string
		first := ""
		for _, l := range lines[1:] {
			if strings.HasPrefix(l, "\t") || l == "" {
				continue
			}
			fn := l
			if i := strings.LastIndex(fn, "("); i > 0 {
				fn = fn[:i]
			}
			if len(top) < 8 {
				top = append(top, fn)
			}
			if first == "" && !strings.HasPrefix(fn, "sync.") && !strings.HasPrefix(fn, "runtime.") && !strings.HasPrefix(fn, "internal/") {
				first = fn
			}
		}
		if strings.HasPrefix(first, libPrefix) {
			p.LibFrame = strings.TrimPrefix(first, libPrefix)
		}
		p.Top = strings.Join(top, " <- ")
		return p
	}
	return parkInfo{}
}

// ---- one case -------------------------------------------------------------------------------------------------------

type tableOp struct {
	Method string `json:"method"`
	Gen    int    `json:"gen"` // 0 = no handler
	Start  uint64 `json:"start"`
	End    uint64 `json:"end"` // MaxUint64 while the operation has not returned
	Actor  string `json:"actor"`
	What   string `json:"what"`
}

type mdeliv struct {
	LC        uint64
	Method    string // method of the notification
	RegMethod string // method the invoked handler value was registered for
	Gen       int
	Nonce     string
	Seq       int
	Params    map[string]interface{}
	Meta      map[string]interface{}
}

type mcall struct {
	Nonce  string
	Role   string // first | second | nested | follow-up | list
	List   bool
	Script []mitem
	Goid   uint64
	Invoke uint64
	Ret    uint64
	Text   string
	Err    error
	done   chan struct{}
}

type hact struct {
	Op     string  `json:"op"` // unreg-self unreg-other reg-other replace-self list call close
	Target string  `json:"target,omitempty"`
	Script []mitem `json:"-"`
}

type mcase struct {
	r      *vh.Run
	kind   kit.Kind
	id     string
	actor  string
	class  string
	tokens []string
	c      *kit.LibClient
	ctx    context.Context
	cancel context.CancelFunc
	wd     time.Duration

	mu        sync.Mutex
	gen       int
	ops       []*tableOp
	dels      []mdeliv
	calls     []*mcall
	actions   map[string]hact // "nonce#seq" -> what the handler that receives it does
	fired     map[string]int
	curAction string
	closedAt  uint64 // start stamp of the first Close (0 = not closed)
	trace     []string
	gates     []string
	sigOp     string // the handler operation that did not return (names the class in the signature)
	dead      bool   // a call of this case never returned / could not be judged
	problems  int
}

var midMethods = []string{"notifications/progress", "notifications/message", "notifications/verif"}

func short(m string) string { return strings.TrimPrefix(m, "notifications/") }

func (cs *mcase) note(format string, a ...interface{}) {
	cs.trace = append(cs.trace, fmt.Sprintf(format, a...))
}

func (cs *mcase) sig(sym string) string {
	op := cs.class
	if cs.sigOp != "" {
		op = cs.sigOp
	}
	return fmt.Sprintf("C10|midcall|%s|actor=%s|op=%s|%s", cs.kind, cs.actor, op, sym)
}

func (cs *mcase) witness(extra map[string]interface{}) map[string]interface{} {
	cs.mu.Lock()
	defer cs.mu.Unlock()
	ops := make([]tableOp, 0, len(cs.ops))
	for _, o := range cs.ops {
		ops = append(ops, *o)
	}
	w := map[string]interface{}{"case": cs.id, "kind": cs.kind, "actor": cs.actor, "class": cs.class, "trace": append([]string{}, cs.trace...), "table_operations": ops}
	for k, v := range extra {
		w[k] = v
	}
	return w
}

func (cs *mcase) violation(sym, what string, extra map[string]interface{}) {
	cs.mu.Lock()
	cs.problems++
	tr := strings.Join(cs.trace, " ; ")
	cs.mu.Unlock()
	cs.r.Violation(cs.sig(sym), fmt.Sprintf("%s, %s/%s: %s (trace: %s)", cs.kind, cs.actor, cs.class, what, tr), cs.witness(extra))
}

func (cs *mcase) register(m, actor string) {
	cs.mu.Lock()
	cs.gen++
	g := cs.gen
	op := &tableOp{Method: m, Gen: g, Start: kit.Tick(), End: math.MaxUint64, Actor: actor, What: "register"}
	cs.ops = append(cs.ops, op)
	cs.note("%s:register(%s)=g%d", actor, short(m), g)
	cs.mu.Unlock()
	cs.c.RegisterNotificationHandler(m, cs.handler(m, g))
	cs.mu.Lock()
	op.End = kit.Tick()
	cs.mu.Unlock()
}

func (cs *mcase) unregister(m, actor string) {
	cs.mu.Lock()
	op := &tableOp{Method: m, Gen: 0, Start: kit.Tick(), End: math.MaxUint64, Actor: actor, What: "unregister"}
	cs.ops = append(cs.ops, op)
	cs.note("%s:unregister(%s)", actor, short(m))
	cs.mu.Unlock()
	cs.c.UnregisterNotificationHandler(m)
	cs.mu.Lock()
	op.End = kit.Tick()
	cs.mu.Unlock()
}

func (cs *mcase) closeClient(actor string) {
	cs.mu.Lock()
	st := kit.Tick()
	var mine []*tableOp
	for _, m := range midMethods {
		op := &tableOp{Method: m, Gen: 0, Start: st, End: math.MaxUint64, Actor: actor, What: "close"}
		cs.ops = append(cs.ops, op)
		mine = append(mine, op)
	}
	if cs.closedAt == 0 {
		cs.closedAt = st
	}
	cs.note("%s:close", actor)
	cs.mu.Unlock()
	cs.c.Close()
	cs.mu.Lock()
	e := kit.Tick()
	for _, op := range mine {
		op.End = e
	}
	cs.mu.Unlock()
}

func (cs *mcase) handler(method string, gen int) mcp.NotificationHandler {
	return func(n *mcp.JSONRPCNotification) error {
		d := mdeliv{Method: n.Method, RegMethod: method, Gen: gen, Seq: -1, Params: n.Params.AdditionalFields, Meta: n.Params.Meta}
		tag := ""
		switch n.Method {
		case "notifications/progress":
			tag, _ = n.Params.AdditionalFields["message"].(string)
		case "notifications/message":
			if dd, ok := n.Params.AdditionalFields["data"].(map[string]interface{}); ok {
				tag, _ = dd["message"].(string)
			}
		default:
			d.Nonce, _ = n.Params.AdditionalFields["nonce"].(string)
			if s, ok := n.Params.AdditionalFields["seq"].(float64); ok {
				d.Seq = int(s)
			}
		}
		if parts := strings.SplitN(tag, "#", 3); len(parts) == 3 {
			d.Nonce = parts[0]
			fmt.Sscanf(parts[1], "%d", &d.Seq)
		}
		key := fmt.Sprintf("%s#%d", d.Nonce, d.Seq)
		cs.mu.Lock()
		d.LC = kit.Tick()
		cs.dels = append(cs.dels, d)
		act, has := cs.actions[key]
		if has {
			delete(cs.actions, key)
			cs.curAction = act.Op
			cs.fired[act.Op]++
			cs.note("handler g%d(%s) at %s: %s %s", gen, short(method), key, act.Op, short(act.Target))
		}
		cs.mu.Unlock()
		if has {
			cs.runAction(act, n.Method, d.Nonce, d.Seq)
			cs.mu.Lock()
			cs.curAction = ""
			cs.mu.Unlock()
		}
		return nil
	}
}

func (cs *mcase) runAction(a hact, self, nonce string, seq int) {
	switch a.Op {
	case "unreg-self":
		cs.unregister(self, "handler")
	case "replace-self":
		cs.register(self, "handler")
	case "unreg-other":
		cs.unregister(a.Target, "handler")
	case "reg-other":
		cs.register(a.Target, "handler")
	case "list":
		cs.doCall(&mcall{Nonce: fmt.Sprintf("%s-l%d", nonce, seq), Role: "nested", List: true, done: make(chan struct{})})
	case "call":
		cs.doCall(&mcall{Nonce: fmt.Sprintf("%s-n%d", nonce, seq), Role: "nested", Script: a.Script, done: make(chan struct{})})
	case "close":
		cs.closeClient("handler")
	}
}

// doCall runs one call on the calling goroutine (cl.done must exist).
func (cs *mcase) doCall(cl *mcall) {
	cs.mu.Lock()
	cl.Goid = goid()
	cs.calls = append(cs.calls, cl)
	if cl.List {
		cs.note("%s list %s", cl.Role, cl.Nonce)
	} else {
		cs.note("%s call %s (%d notifications)", cl.Role, cl.Nonce, len(notifs(cl.Script)))
	}
	cl.Invoke = kit.Tick()
	cs.mu.Unlock()
	var text string
	var err error
	if cl.List {
		_, err = cs.c.ListTools(cs.ctx, &mcp.ListToolsRequest{})
	} else {
		rq := &mcp.CallToolRequest{}
		rq.Params.Name = "emitg"
		rq.Params.Arguments = map[string]interface{}{"nonce": cl.Nonce, "script": cl.Script}
		var out *mcp.CallToolResult
		out, err = cs.c.CallTool(cs.ctx, rq)
		if err == nil && out != nil && len(out.Content) == 1 {
			if tc, ok := out.Content[0].(mcp.TextContent); ok {
				text = tc.Text
			}
		}
	}
	cs.mu.Lock()
	cl.Ret = kit.Tick()
	cl.Text, cl.Err = text, err
	cs.mu.Unlock()
	close(cl.done)
}

// startCall runs the call on a goroutine of its own.
func (cs *mcase) startCall(cl *mcall) *mcall {
	cl.done = make(chan struct{})
	go cs.doCall(cl)
	return cl
}

var wedgedTokens sync.Map

// await waits for a call to return. false: it did not (violation or inconclusive already recorded, case is dead).
func (cs *mcase) await(cl *mcall, sym, what string) bool {
	t := time.NewTimer(cs.wd)
	defer t.Stop()
	select {
	case <-cl.done:
		return true
	case <-t.C:
	}
	cs.mu.Lock()
	id := cl.Goid
	cur := cs.curAction
	cs.mu.Unlock()
	p1 := inspect(id)
	t2 := time.NewTimer(3 * time.Second)
	defer t2.Stop()
	select {
	case <-cl.done:
		cs.r.Count("midcall_slow_calls", 1)
		return true
	case <-t2.C:
	}
	p2 := inspect(id)
	select {
	case <-cl.done:
		cs.r.Count("midcall_slow_calls", 1)
		return true
	default:
	}
	cs.mu.Lock()
	cs.dead = true
	cs.mu.Unlock()
	if p1.Found && p2.Found && p1.OnLock && p2.OnLock && p1.LibFrame != "" && p1.LibFrame == p2.LibFrame {
		if cur != "" {
			wedgedTokens.Store("handler:"+cur, true)
			cs.sigOp = cur
		} else {
			for _, tk := range cs.tokens {
				wedgedTokens.Store(tk, true)
			}
		}
		if cur != "" {
			what += fmt.Sprintf("; the handler's own operation %q is what does not return", cur)
		}
		// what happens once everything the harness holds is released?
		for _, g := range cs.gates {
			mg(g).release()
		}
		after := "still not returned 2 s after every gate was opened"
		t3 := time.NewTimer(2 * time.Second)
		select {
		case <-cl.done:
			after = "returned only after the harness released the other call"
		case <-t3.C:
		}
		t3.Stop()
		cs.violation(sym, fmt.Sprintf("%s: %s %s has not returned after %v and its goroutine is parked on a lock inside the library at %s (two dumps 3 s apart; %s)",
			what, cl.Role, cl.Nonce, cs.wd+3*time.Second, p1.LibFrame, after),
			map[string]interface{}{"call": cl.Nonce, "role": cl.Role, "goroutine": p2, "after_release": after, "handler_operation": cur})
		return false
	}
	cs.r.Inconclusive(fmt.Sprintf("midcall %s/%s/%s: %s %s did not return within %v, its goroutine is not parked on a library lock (state %q / %q, %s) - not judged",
		cs.kind, cs.actor, cs.class, cl.Role, cl.Nonce, cs.wd+3*time.Second, p1.State, p2.State, p2.Top))
	return false
}

// awaitGate waits until the tool of call a is parked at the gate. false: it never got there.
func (cs *mcase) awaitGate(name string, a *mcall) bool {
	t := time.NewTimer(cs.wd)
	defer t.Stop()
	select {
	case <-mg(name).arrived:
		return true
	case <-a.done:
		return false // judged as a returned call (it cannot have a result: the gate was never opened)
	case <-t.C:
		cs.mu.Lock()
		cs.dead = true
		cs.mu.Unlock()
		cs.r.Inconclusive(fmt.Sprintf("midcall %s/%s/%s: the tool did not reach gate %s within %v - not judged", cs.kind, cs.actor, cs.class, name, cs.wd))
		return false
	}
}

// settle gives the client time to dispatch what the tool emitted before it parked (workload shaping only: the
// judgement works on intervals and does not depend on it).
func (cs *mcase) settle(a *mcall, want int) {
	for i := 0; i < 400; i++ {
		cs.mu.Lock()
		n := 0
		for _, d := range cs.dels {
			if d.Nonce == a.Nonce {
				n++
			}
		}
		cs.mu.Unlock()
		if n >= want {
			return
		}
		time.Sleep(5 * time.Millisecond)
	}
}

// opsQuiet waits until every table operation has returned.
func (cs *mcase) opsQuiet() bool {
	deadline := time.Now().Add(cs.wd)
	for {
		cs.mu.Lock()
		pending := 0
		for _, o := range cs.ops {
			if o.End == math.MaxUint64 {
				pending++
			}
		}
		cs.mu.Unlock()
		if pending == 0 {
			return true
		}
		if time.Now().After(deadline) {
			cs.mu.Lock()
			cs.dead = true
			cs.mu.Unlock()
			cs.r.Inconclusive(fmt.Sprintf("midcall %s/%s/%s: %d table operations have not returned %v after every call had returned - not judged", cs.kind, cs.actor, cs.class, pending, cs.wd))
			return false
		}
		time.Sleep(5 * time.Millisecond)
	}
}

// sup: the stamp at which the entry written by o is definitely gone (an operation on the same method that started
// after o had returned has itself returned).
func sup(ops []*tableOp, o *tableOp) uint64 {
	s := uint64(math.MaxUint64)
	for _, p := range ops {
		if p != o && p.Method == o.Method && p.Start > o.End && p.End < s {
			s = p.End
		}
	}
	return s
}

func (cs *mcase) judge() bool {
	cs.mu.Lock()
	ops := append([]*tableOp{}, cs.ops...)
	for _, m := range midMethods {
		ops = append(ops, &tableOp{Method: m, Gen: 0, Start: 0, End: 0, What: "initial"})
	}
	dels := append([]mdeliv{}, cs.dels...)
	calls := append([]*mcall{}, cs.calls...)
	closedAt := cs.closedAt
	cs.mu.Unlock()
	byGen := map[int]*tableOp{}
	for _, o := range ops {
		if o.Gen != 0 {
			byGen[o.Gen] = o
		}
	}
	sort.SliceStable(dels, func(i, j int) bool { return dels[i].LC < dels[j].LC })
	allOK := true
	sems := map[string]bool{}
	for _, cl := range calls {
		cs.r.Eval(1)
		w := map[string]interface{}{"call": cl.Nonce, "role": cl.Role}
		if cl.Err != nil {
			if closedAt != 0 && closedAt < cl.Ret {
				cs.r.Count("midcall_calls_error_after_close", 1)
				continue
			}
			allOK = false
			cs.violation("call-failed", fmt.Sprintf("%s %s failed: %v", cl.Role, cl.Nonce, cl.Err), w)
			continue
		}
		if cl.List {
			cs.r.Count("midcall_list_calls_returned", 1)
			continue
		}
		ns := notifs(cl.Script)
		var rt struct {
			Nonce   string `json:"nonce"`
			Emitted int    `json:"emitted"`
			Of      int    `json:"of"`
		}
		if json.Unmarshal([]byte(cl.Text), &rt) != nil || rt.Nonce != cl.Nonce || rt.Of != len(ns) || rt.Emitted != len(ns) {
			allOK = false
			cs.violation("result-changed", fmt.Sprintf("the result of %s %s is not intact: %q", cl.Role, cl.Nonce, cl.Text), w)
			continue
		}
		seen := map[int]bool{}
		last := -1
		ok := true
		var gotSeq []string
		for _, d := range dels {
			if d.Nonce != cl.Nonce {
				continue
			}
			gotSeq = append(gotSeq, fmt.Sprintf("%d:g%d", d.Seq, d.Gen))
		}
		w["delivered"] = gotSeq
		for _, d := range dels {
			if d.Nonce != cl.Nonce || !ok {
				continue
			}
			switch {
			case d.Seq < 0 || d.Seq >= len(ns):
				ok = false
				cs.violation("unknown-notification", fmt.Sprintf("a handler got notification #%d of %s, which emitted %d", d.Seq, cl.Nonce, len(ns)), w)
			case seen[d.Seq]:
				ok = false
				cs.violation("delivered-twice", fmt.Sprintf("notification #%d of %s (%s) was delivered more than once", d.Seq, cl.Nonce, short(d.Method)), w)
			case d.Seq < last:
				ok = false
				cs.violation("order-differs", fmt.Sprintf("notification #%d of %s was delivered after #%d", d.Seq, cl.Nonce, last), w)
			case d.Method != methodOf[ns[d.Seq].Kind]:
				ok = false
				cs.violation("method-differs", fmt.Sprintf("notification #%d of %s has method %s, emitted as %s", d.Seq, cl.Nonce, d.Method, methodOf[ns[d.Seq].Kind]), w)
			case d.RegMethod != d.Method:
				ok = false
				cs.violation("wrong-method-handler", fmt.Sprintf("notification #%d of %s (%s) reached a handler registered for %s", d.Seq, cl.Nonce, d.Method, d.RegMethod), w)
			case d.LC >= cl.Ret:
				ok = false
				cs.violation("after-return", fmt.Sprintf("the handler for notification #%d of %s ran after the call had returned", d.Seq, cl.Nonce), w)
			}
			if !ok {
				break
			}
			seen[d.Seq] = true
			last = d.Seq
			o := byGen[d.Gen]
			if o == nil || o.Method != d.Method || o.Start > d.LC || sup(ops, o) < cl.Invoke {
				ok = false
				cs.violation("delivered-to-stale-handler", fmt.Sprintf("notification #%d of %s (%s) reached handler generation %d, which was not registered at any moment between the call's start and this delivery", d.Seq, cl.Nonce, short(d.Method), d.Gen), w)
				break
			}
			switch {
			case sup(ops, o) < d.LC:
				sems["to-handler-of-call-start-after-table-changed"] = true
				cs.r.Count("midcall_delivered_to_call_start_handler_after_change", 1)
			case o.Start > cl.Invoke:
				sems["to-handler-registered-during-call"] = true
				cs.r.Count("midcall_delivered_to_handler_registered_during_call", 1)
			}
			// parameters as emitted
			it := ns[d.Seq]
			good := true
			switch it.Kind {
			case "progress":
				good = d.Params["message"] == fmt.Sprintf("%s#%d#%s", cl.Nonce, d.Seq, pad(it.Size)) && d.Params["progress"] == float64(d.Seq)
			case "log":
				dd, _ := d.Params["data"].(map[string]interface{})
				good = d.Params["level"] == "info" && dd != nil && dd["message"] == fmt.Sprintf("%s#%d#%s", cl.Nonce, d.Seq, pad(it.Size))
			default:
				good = d.Params["pad"] == pad(it.Size)
				if it.Meta == "some" {
					good = good && reflect.DeepEqual(map[string]interface{}(d.Meta), map[string]interface{}{"progressToken": "tok-" + cl.Nonce, "n": float64(d.Seq)})
				} else {
					good = good && len(d.Meta) == 0
				}
			}
			if !good {
				ok = false
				cs.violation("params-differ|kind="+it.Kind, fmt.Sprintf("parameters / _meta of notification #%d of %s (%s) are not what the tool emitted", d.Seq, cl.Nonce, it.Kind), w)
				break
			}
			cs.r.Count("midcall_notifications_checked", 1)
		}
		for i := 0; ok && i < len(ns); i++ {
			if seen[i] {
				continue
			}
			m := methodOf[ns[i].Kind]
			may := false
			during := false
			for _, o := range ops {
				if o.Method == m && o.Gen == 0 && o.Start <= cl.Ret && sup(ops, o) >= cl.Invoke {
					may = true
					if o.Start > cl.Invoke {
						during = true
					}
				}
			}
			if !may {
				ok = false
				cs.violation("lost", fmt.Sprintf("notification #%d of %s (%s) reached nobody although a handler was registered for its method during the whole call", i, cl.Nonce, short(m)), w)
				break
			}
			if during {
				cs.r.Count("midcall_dropped_method_unregistered_during_call", 1)
			} else {
				cs.r.Count("midcall_dropped_no_handler", 1)
			}
		}
		if ok {
			cs.r.Count("midcall_calls_conforming", 1)
			cs.r.Count("midcall_calls_conforming_"+cl.Role, 1)
		} else {
			allOK = false
		}
	}
	if allOK {
		var ss []string
		for s := range sems {
			ss = append(ss, s)
		}
		sort.Strings(ss)
		for _, s := range ss {
			cs.r.SetAdd("midcall_semantics_observed", s)
		}
	}
	return allOK
}

// ---- plans ----------------------------------------------------------------------------------------------------------

type intner interface{ Intn(int) int }

func smallItems(rng intner, n int) []mitem {
	kinds := []string{"progress", "log", "custom"}
	metas := []string{"absent", "empty", "some"}
	sizes := []int{0, 1, 100, 4000}
	out := make([]mitem, n)
	for i := range out {
		sz := sizes[rng.Intn(3)]
		if rng.Intn(10) == 0 {
			sz = sizes[3]
		}
		out[i] = mitem{Kind: kinds[rng.Intn(3)], Size: sz, Meta: metas[rng.Intn(3)]}
	}
	return out
}

func allKinds() []mitem {
	return []mitem{{Kind: "progress"}, {Kind: "log"}, {Kind: "custom", Meta: "some"}, {Kind: "progress", Size: 100}, {Kind: "custom"}}
}

func otherThan(rng intner, m string) string {
	for {
		o := midMethods[rng.Intn(3)]
		if o != m {
			return o
		}
	}
}

var handlerOps = []string{"unreg-self", "unreg-other", "reg-other", "replace-self", "list", "call", "close", "unreg-self+call"}
var otherClasses = []string{"register+call", "unregister+call", "replace+call", "register-only", "unregister-only", "replace-only", "call-only", "list-only", "close-only", "mixed"}

type ostep struct {
	Op     string // register unregister replace close call call2 list
	Method string
	Script []mitem
}

func (cs *mcase) finishCase(conformed bool) {
	cs.mu.Lock()
	dead := cs.dead
	cs.mu.Unlock()
	for _, g := range cs.gates {
		mg(g).release()
	}
	if dead {
		// something of this case may be parked inside the client for good: do not wait for anything of it
		cs.cancel()
		go cs.c.Close()
		return
	}
	cs.c.Close()
	cs.cancel()
	for _, g := range cs.gates {
		mgates.Delete(g)
	}
	_ = conformed
}

func skipCase(r *vh.Run, tokens []string) bool {
	for _, tk := range tokens {
		if _, w := wedgedTokens.Load(tk); w {
			r.Count("midcall_cases_skipped_after_a_call_that_never_returned", 1)
			return true
		}
	}
	return false
}

func newCase(r *vh.Run, in *kit.Instance, id, actor, class string, tokens []string) *mcase {
	c, err := in.NewClient()
	if err != nil {
		r.Fatal("client: %v", err)
	}
	ctx, cancel := context.WithCancel(context.Background())
	ictx, icancel := context.WithTimeout(ctx, 2*time.Minute)
	defer icancel()
	if _, err := c.Initialize(ictx, &mcp.InitializeRequest{}); err != nil {
		r.Fatal("initialize: %v", err)
	}
	wd := 20 * time.Second
	if !r.Quick() {
		wd = 30 * time.Second
	}
	return &mcase{r: r, kind: in.Kind, id: id, actor: actor, class: class, tokens: tokens, c: c, ctx: ctx, cancel: cancel, wd: wd,
		actions: map[string]hact{}, fired: map[string]int{}}
}

type midResult struct {
	class     string
	conformed bool
	exercised bool
	violated  bool
	sample    map[string]interface{}
}

// handlerCase: the handler itself operates on the client while its call's stream is open.
func handlerCase(r *vh.Run, in *kit.Instance, class string, rep int) midResult {
	id := fmt.Sprintf("c10mh-%s-%s-%d", in.Kind, class, rep)
	rng := r.Rand(id)
	res := midResult{class: "handler|" + class}
	n := 3 + rng.Intn(8)
	script := smallItems(rng, n)
	primary := strings.SplitN(class, "+", 2)[0]
	acts := map[int]hact{}
	p := rng.Intn(n - 1)
	if rep%2 == 0 && (class == "unreg-self" || class == "replace-self") {
		p = n - 1 // the classic one-shot: done at the last notification
	}
	if primary == "close" {
		p = n - 1
	}
	pm := methodOf[script[p].Kind]
	mk := func(op, self string) hact {
		a := hact{Op: op}
		switch op {
		case "unreg-other", "reg-other":
			a.Target = otherThan(rng, self)
		case "call":
			a.Script = smallItems(rng, rng.Intn(5))
		}
		return a
	}
	acts[p] = mk(primary, pm)
	if strings.HasSuffix(class, "+call") && p+1 < n {
		acts[p+1] = mk("call", methodOf[script[p+1].Kind])
	} else if rng.Intn(3) == 0 {
		q := rng.Intn(n)
		if primary == "close" {
			q = rng.Intn(n - 1)
		}
		if _, taken := acts[q]; !taken {
			sec := []string{"list", "call", "reg-other", "unreg-other", "replace-self", "unreg-self"}
			acts[q] = mk(sec[rng.Intn(len(sec))], methodOf[script[q].Kind])
		}
	}
	var tokens []string
	for _, a := range acts {
		tokens = append(tokens, "handler:"+a.Op)
	}
	sort.Strings(tokens)
	if skipCase(r, tokens) {
		return res
	}
	cs := newCase(r, in, id, "handler", class, tokens)
	// initial table: all three methods, or a subset that contains the method of the primary position
	initial := map[string]bool{pm: true}
	for _, m := range midMethods {
		if rng.Intn(4) != 0 {
			initial[m] = true
		}
	}
	for _, m := range midMethods {
		if initial[m] {
			cs.register(m, "setup")
		}
	}
	nonce := id + "-A"
	for q, a := range acts {
		cs.actions[fmt.Sprintf("%s#%d", nonce, q)] = a
	}
	a := cs.startCall(&mcall{Nonce: nonce, Role: "first", Script: script})
	conformed := false
	if cs.await(a, "call-never-returns", "a notification handler operated on the client while its call's stream was open") {
		cs.mu.Lock()
		closed := cs.closedAt != 0
		cs.mu.Unlock()
		good := cs.opsQuiet()
		if good && !closed {
			f := cs.startCall(&mcall{Nonce: id + "-F", Role: "follow-up", Script: allKinds()})
			good = cs.await(f, "follow-up-call-never-returns", "the call after a handler-made table change")
		}
		if good {
			conformed = cs.judge()
		}
	}
	cs.mu.Lock()
	firedPrimary := cs.fired[primary] > 0
	nfired := 0
	for _, v := range cs.fired {
		nfired += v
	}
	problems := cs.problems
	cs.mu.Unlock()
	r.Count("midcall_handler_operations_performed", int64(nfired))
	res.conformed = conformed && problems == 0
	res.violated = problems > 0
	res.exercised = res.conformed && firedPrimary
	if res.exercised {
		r.Distinct(fmt.Sprintf("midcall|%s|actor=handler|op=%s|at-last=%v", in.Kind, class, p == n-1))
		res.sample = map[string]interface{}{"midcall": in.Kind, "actor": "handler", "class": class, "trace": append([]string{}, cs.trace...)}
	}
	cs.finishCase(conformed)
	return res
}

// otherCase: call A is parked in the middle of its script; other goroutines change the table, close the client,
// start further calls.
func otherCase(r *vh.Run, in *kit.Instance, class string, rep int) midResult {
	id := fmt.Sprintf("c10mo-%s-%s-%d", in.Kind, class, rep)
	rng := r.Rand(id)
	res := midResult{class: "other|" + class}
	// initial table
	initial := map[string]bool{}
	for _, m := range midMethods {
		if rng.Intn(5) != 0 {
			initial[m] = true
		}
	}
	if len(initial) == 0 && rng.Intn(6) != 0 { // mostly: somebody listens (the client then reads the stream to its end)
		initial[midMethods[rng.Intn(3)]] = true
	}
	pick := func(registered bool) string {
		var c []string
		for _, m := range midMethods {
			if initial[m] == registered {
				c = append(c, m)
			}
		}
		if len(c) == 0 {
			m := midMethods[rng.Intn(3)]
			initial[m] = registered
			return m
		}
		return c[rng.Intn(len(c))]
	}
	randStep := func() ostep {
		switch rng.Intn(6) {
		case 0:
			return ostep{Op: "register", Method: midMethods[rng.Intn(3)]}
		case 1:
			return ostep{Op: "unregister", Method: midMethods[rng.Intn(3)]}
		case 2:
			return ostep{Op: "replace", Method: midMethods[rng.Intn(3)]}
		case 3:
			return ostep{Op: "call", Script: smallItems(rng, rng.Intn(7))}
		case 4:
			return ostep{Op: "call2", Script: smallItems(rng, 1+rng.Intn(5))}
		default:
			return ostep{Op: "list"}
		}
	}
	var g1 []ostep
	bscript := func() []mitem {
		if rng.Intn(4) == 0 {
			return allKinds()
		}
		return smallItems(rng, 1+rng.Intn(6))
	}
	switch class {
	case "register+call":
		g1 = []ostep{{Op: "register", Method: pick(false)}, {Op: "call", Script: bscript()}}
	case "unregister+call":
		g1 = []ostep{{Op: "unregister", Method: pick(true)}, {Op: "call", Script: bscript()}}
	case "replace+call":
		g1 = []ostep{{Op: "replace", Method: pick(true)}, {Op: "call", Script: bscript()}}
	case "register-only":
		g1 = []ostep{{Op: "register", Method: pick(false)}}
	case "unregister-only":
		g1 = []ostep{{Op: "unregister", Method: pick(true)}}
	case "replace-only":
		g1 = []ostep{{Op: "replace", Method: pick(true)}}
	case "call-only":
		g1 = []ostep{{Op: "call", Script: bscript()}}
	case "list-only":
		g1 = []ostep{{Op: "list"}}
	case "close-only":
		g1 = []ostep{{Op: "close"}}
	default:
		for i, k := 0, 2+rng.Intn(3); i < k; i++ {
			g1 = append(g1, randStep())
		}
	}
	stages := [][]ostep{g1}
	if class != "close-only" && rng.Intn(2) == 0 {
		var g2 []ostep
		for i, k := 0, 1+rng.Intn(2); i < k; i++ {
			g2 = append(g2, randStep())
		}
		stages = append(stages, g2)
	}
	// a table operation followed by a call while A is open
	sawOp, pattern := false, false
	for _, st := range stages {
		for _, s := range st {
			switch s.Op {
			case "register", "unregister", "replace", "close":
				sawOp = true
			default:
				if sawOp {
					pattern = true
				}
			}
		}
	}
	var tokens []string
	if pattern {
		tokens = []string{"other:table-operation-then-call"}
	}
	if skipCase(r, tokens) {
		return res
	}
	cs := newCase(r, in, id, "other", class, tokens)
	for _, m := range midMethods {
		if initial[m] {
			cs.register(m, "setup")
		}
	}
	// script of A: segment, gate, segment [, gate, segment]
	var script []mitem
	segs := make([][]mitem, len(stages)+1)
	for i := range segs {
		segs[i] = smallItems(rng, 1+rng.Intn(5))
		script = append(script, segs[i]...)
		if i < len(stages) {
			g := fmt.Sprintf("%s-g%d", id, i+1)
			cs.gates = append(cs.gates, g)
			script = append(script, mitem{Kind: "gate", Gate: g})
		}
	}
	a := cs.startCall(&mcall{Nonce: id + "-A", Role: "first", Script: script})
	alive := true
	emitted := 0
	bn := 0
	secondWhileOpen := 0
stagesLoop:
	for si, st := range stages {
		if !cs.awaitGate(cs.gates[si], a) {
			cs.mu.Lock()
			alive = !cs.dead
			cs.mu.Unlock()
			break
		}
		// what A has emitted so far and somebody is registered for: let it be dispatched first
		cs.mu.Lock()
		want := 0
		cur := map[string]bool{}
		for _, o := range cs.ops {
			cur[o.Method] = o.Gen != 0
		}
		cs.mu.Unlock()
		for _, it := range segs[si] {
			if cur[methodOf[it.Kind]] {
				want++
			}
		}
		emitted += want
		if si == 0 {
			cs.settle(a, emitted)
		}
		cs.mu.Lock()
		cs.note("first call parked at gate %d", si+1)
		cs.mu.Unlock()
		for _, s := range st {
			switch s.Op {
			case "register", "unregister", "replace", "close":
				done := make(chan struct{})
				go func(s ostep) {
					defer close(done)
					switch s.Op {
					case "unregister":
						cs.unregister(s.Method, "other")
					case "close":
						cs.closeClient("other")
					default:
						cs.register(s.Method, "other")
					}
				}(s)
				r.Count("midcall_other_goroutine_table_operations", 1)
				t := time.NewTimer(300 * time.Millisecond)
				select {
				case <-done:
				case <-t.C:
					// not judged: the statement promises nothing about how long a registration takes
					r.Count("midcall_table_operation_still_pending_after_300ms_while_call_open", 1)
				}
				t.Stop()
			case "call", "call2", "list":
				k := 1
				if s.Op == "call2" {
					k = 2
				}
				var bs []*mcall
				for j := 0; j < k; j++ {
					bn++
					b := &mcall{Nonce: fmt.Sprintf("%s-B%d", id, bn), Role: "second", Script: s.Script, List: s.Op == "list"}
					bs = append(bs, cs.startCall(b))
				}
				for _, b := range bs {
					if !cs.await(b, "second-call-never-returns-while-first-open", "a second call on the client was started while the first call's stream was open (the first call is parked at a gate that opens after the second returns)") {
						alive = false
						break stagesLoop
					}
					select {
					case <-a.done:
					default:
						secondWhileOpen++
					}
				}
			}
		}
		mg(cs.gates[si]).release()
	}
	conformed := false
	if alive && cs.await(a, "call-never-returns", "the first call, after its gates were opened") {
		cs.mu.Lock()
		closed := cs.closedAt != 0
		cs.mu.Unlock()
		good := cs.opsQuiet()
		if good && !closed {
			f := cs.startCall(&mcall{Nonce: id + "-F", Role: "follow-up", Script: allKinds()})
			good = cs.await(f, "follow-up-call-never-returns", "the call after the table changes")
		}
		if good {
			conformed = cs.judge()
		}
	}
	cs.mu.Lock()
	problems := cs.problems
	cs.mu.Unlock()
	res.conformed = conformed && problems == 0
	res.violated = problems > 0
	res.exercised = res.conformed
	if res.conformed {
		r.Count("midcall_second_calls_returned_while_first_open", int64(secondWhileOpen))
		r.Distinct(fmt.Sprintf("midcall|%s|actor=other|op=%s|gates=%d", in.Kind, class, len(stages)))
		res.sample = map[string]interface{}{"midcall": in.Kind, "actor": "other", "class": class, "trace": append([]string{}, cs.trace...)}
	}
	cs.finishCase(conformed)
	return res
}

// midCall runs both families on the given kinds.
func midCall(r *vh.Run, kinds []kit.Kind, reps int) {
	type job struct {
		in     *kit.Instance
		family string
		class  string
		rep    int
	}
	var jobs []job
	var ins []*kit.Instance
	for _, k := range kinds {
		in := kit.Start(k, kit.Opts{})
		kit.StdFixture(in)
		registerEmitG(in)
		ins = append(ins, in)
	}
	defer func() {
		for _, in := range ins {
			in.Close()
		}
	}()
	for rep := 0; rep < reps; rep++ {
		for _, in := range ins {
			for _, c := range handlerOps {
				jobs = append(jobs, job{in, "handler", c, rep})
			}
			for _, c := range otherClasses {
				jobs = append(jobs, job{in, "other", c, rep})
			}
		}
	}
	results := make([]midResult, len(jobs))
	ch := make(chan int)
	var wg sync.WaitGroup
	for w := 0; w < 8; w++ {
		wg.Add(1)
		go func() {
			defer wg.Done()
			for i := range ch {
				j := jobs[i]
				if j.family == "handler" {
					results[i] = handlerCase(r, j.in, j.class, j.rep)
				} else {
					results[i] = otherCase(r, j.in, j.class, j.rep)
				}
				results[i].class = string(j.in.Kind) + "|" + results[i].class
			}
		}()
	}
	for i := range jobs {
		ch <- i
	}
	close(ch)
	wg.Wait()
	exercised := map[string]int{}
	violated := map[string]bool{}
	sampled := map[string]bool{}
	var classes []string
	for i, res := range results {
		if _, ok := exercised[res.class]; !ok {
			exercised[res.class] = 0
			classes = append(classes, res.class)
		}
		r.Count("midcall_cases", 1)
		if res.violated {
			violated[res.class] = true
		}
		if res.exercised {
			exercised[res.class]++
			r.Count("midcall_cases_conforming", 1)
			fam := "midcall" // one sample for the family: the evidence file keeps six samples, one per scenario family
			if !sampled[fam] && res.sample != nil && (jobs[i].class == "unreg-self" || jobs[i].class == "register+call") {
				sampled[fam] = true
				r.Sample(res.sample)
			}
		}
	}
	wedged := false
	wedgedTokens.Range(func(_, _ interface{}) bool { wedged = true; return false })
	for _, c := range classes {
		if exercised[c] == 0 && !wedged && !violated[c] {
			r.Inconclusive(fmt.Sprintf("midcall %s: not one case of this class was exercised and conformed - nothing of it can be claimed to hold", c))
		}
	}
}
