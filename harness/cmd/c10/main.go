// C10 — in-call notifications arrive complete, in order and before the result.
package main

import (
	"context"
	"encoding/json"
	"fmt"
	"reflect"
	"strings"
	"sync"
	"time"

	mcp "trpc.group/trpc-go/trpc-mcp-go"

	"verifharness/lib/kit"
	"verifharness/lib/vh"
)

type item struct {
	Kind string `json:"kind"` // progress | log | custom
	Size int    `json:"size"`
	Meta string `json:"meta"` // absent | empty | some
}

func pad(n int) string { return strings.Repeat("z", n) }

func registerEmit(in *kit.Instance) {
	in.RegisterTool(mcp.NewTool("emit", mcp.WithString("nonce"), mcp.WithArray("script")), func(ctx context.Context, req *mcp.CallToolRequest) (*mcp.CallToolResult, error) {
		nonce, _ := req.Params.Arguments["nonce"].(string)
		raw, _ := json.Marshal(req.Params.Arguments["script"])
		var script []item
		json.Unmarshal(raw, &script)
		sent := 0
		sender, ok := mcp.GetNotificationSender(ctx)
		if ok {
			for seq, it := range script {
				tag := fmt.Sprintf("%s#%d#%s", nonce, seq, pad(it.Size))
				var err error
				switch it.Kind {
				case "progress":
					err = sender.SendProgress(float64(seq), tag)
				case "log":
					err = sender.SendLogMessage("info", tag)
				default:
					params := map[string]interface{}{"nonce": nonce, "seq": seq, "pad": pad(it.Size)}
					switch it.Meta {
					case "empty":
						params["_meta"] = map[string]interface{}{}
					case "some":
						params["_meta"] = map[string]interface{}{"progressToken": "tok-" + nonce, "n": seq}
					}
					err = sender.SendCustomNotification("notifications/verif", params)
				}
				if err == nil {
					sent++
				}
			}
		}
		return mcp.NewTextResult(fmt.Sprintf(`{"nonce":"%s","emitted":%d,"of":%d}`, nonce, sent, len(script))), nil
	})
}

type got struct {
	LC     uint64
	Method string
	Nonce  string
	Seq    int
	Params map[string]interface{}
	Meta   map[string]interface{}
}

type recorder struct {
	mu  sync.Mutex
	evs map[string][]got // by call nonce
}

func (rc *recorder) handler(method string) mcp.NotificationHandler {
	return func(n *mcp.JSONRPCNotification) error {
		g := got{LC: kit.Tick(), Method: n.Method, Params: n.Params.AdditionalFields, Meta: n.Params.Meta, Seq: -1}
		tag := ""
		switch method {
		case "notifications/progress":
			tag, _ = n.Params.AdditionalFields["message"].(string)
		case "notifications/message":
			if d, ok := n.Params.AdditionalFields["data"].(map[string]interface{}); ok {
				tag, _ = d["message"].(string)
			}
		default:
			g.Nonce, _ = n.Params.AdditionalFields["nonce"].(string)
			if s, ok := n.Params.AdditionalFields["seq"].(float64); ok {
				g.Seq = int(s)
			}
		}
		if tag != "" {
			parts := strings.SplitN(tag, "#", 3)
			if len(parts) == 3 {
				g.Nonce = parts[0]
				fmt.Sscanf(parts[1], "%d", &g.Seq)
			}
		}
		rc.mu.Lock()
		rc.evs[g.Nonce] = append(rc.evs[g.Nonce], g)
		rc.mu.Unlock()
		return nil
	}
}

func genScript(r *vh.Run, label string, maxN int) []item {
	rng := r.Rand(label)
	n := 0
	switch rng.Intn(5) {
	case 0:
		n = 0
	case 1:
		n = 1
	case 2:
		n = 2 + rng.Intn(8)
	case 3:
		n = 10 + rng.Intn(40)
	default:
		n = maxN/2 + rng.Intn(maxN/2+1)
	}
	kinds := []string{"progress", "log", "custom"}
	metas := []string{"absent", "empty", "some"}
	sizes := []int{0, 1, 100, 4000, 70000, 262144}
	out := make([]item, n)
	for i := range out {
		sz := sizes[rng.Intn(3)]
		if rng.Intn(12) == 0 {
			sz = sizes[3+rng.Intn(3)]
		}
		out[i] = item{Kind: kinds[rng.Intn(3)], Size: sz, Meta: metas[rng.Intn(3)]}
	}
	return out
}

func shape(s []item) string {
	k := map[string]int{}
	big := 0
	for _, it := range s {
		k[it.Kind]++
		if it.Size >= 4000 {
			big++
		}
	}
	b := 0
	switch {
	case len(s) == 0:
		b = 0
	case len(s) == 1:
		b = 1
	case len(s) < 10:
		b = 2
	case len(s) < 50:
		b = 3
	default:
		b = 4
	}
	return fmt.Sprintf("n%d|p%v|l%v|c%v|big%v", b, k["progress"] > 0, k["log"] > 0, k["custom"] > 0, big > 0)
}

func runCalls(r *vh.Run, kind kit.Kind, withHandlers bool, nCalls, conc, maxN int) {
	in := kit.Start(kind, kit.Opts{})
	defer in.Close()
	kit.StdFixture(in)
	registerEmit(in)
	c, err := in.NewClient()
	if err != nil {
		r.Fatal("client: %v", err)
	}
	defer c.Close()
	ctx, cancel := context.WithTimeout(context.Background(), 5*time.Minute)
	defer cancel()
	if _, err := c.Initialize(ctx, &mcp.InitializeRequest{}); err != nil {
		r.Fatal("initialize: %v", err)
	}
	rc := &recorder{evs: map[string][]got{}}
	if withHandlers {
		for _, m := range []string{"notifications/progress", "notifications/message", "notifications/verif"} {
			c.RegisterNotificationHandler(m, rc.handler(m))
		}
	}
	mode := fmt.Sprintf("%s|handlers=%v", kind, withHandlers)
	type res struct {
		nonce  string
		script []item
		retLC  uint64
		text   string
		err    error
	}
	results := make([]res, nCalls)
	sem := make(chan struct{}, conc)
	var wg sync.WaitGroup
	for i := 0; i < nCalls; i++ {
		wg.Add(1)
		sem <- struct{}{}
		go func(i int) {
			defer wg.Done()
			defer func() { <-sem }()
			nonce := fmt.Sprintf("c10-%s-%v-%d", kind, withHandlers, i)
			script := genScript(r, nonce, maxN)
			rq := &mcp.CallToolRequest{}
			rq.Params.Name = "emit"
			rq.Params.Arguments = map[string]interface{}{"nonce": nonce, "script": script}
			out, err := c.CallTool(ctx, rq)
			rs := res{nonce: nonce, script: script, err: err, retLC: kit.Tick()}
			if err == nil && len(out.Content) == 1 {
				if tc, ok := out.Content[0].(mcp.TextContent); ok {
					rs.text = tc.Text
				}
			}
			results[i] = rs
		}(i)
	}
	wg.Wait()
	expectDelivery := withHandlers && (kind == kit.SSSE || kind == kit.SLSSE)
	for _, rs := range results {
		r.Eval(1)
		sig := "C10|" + mode
		wit := map[string]interface{}{"mode": mode, "nonce": rs.nonce, "script_len": len(rs.script), "shape": shape(rs.script)}
		if rs.err != nil {
			r.Violation(sig+"|call-failed", fmt.Sprintf("%s: call emitting %d notifications failed: %v", mode, len(rs.script), rs.err), wit)
			continue
		}
		wantEmitted := len(rs.script)
		if kind != kit.SSSE && kind != kit.SLSSE {
			wantEmitted = -1 // JSON mode: the sender is a no-op that reports success
		}
		var rt struct {
			Nonce   string `json:"nonce"`
			Emitted int    `json:"emitted"`
			Of      int    `json:"of"`
		}
		if json.Unmarshal([]byte(rs.text), &rt) != nil || rt.Nonce != rs.nonce || rt.Of != len(rs.script) || (wantEmitted >= 0 && rt.Emitted != wantEmitted) {
			r.Violation(sig+"|result-changed", fmt.Sprintf("%s: the call's result is not intact: %q", mode, rs.text), wit)
			continue
		}
		rc.mu.Lock()
		evs := append([]got{}, rc.evs[rs.nonce]...)
		rc.mu.Unlock()
		if !expectDelivery {
			if len(evs) != 0 {
				r.Violation(sig+"|unexpected-delivery", fmt.Sprintf("%s: %d notifications reached a handler although none should", mode, len(evs)), wit)
			} else {
				r.Distinct(fmt.Sprintf("%s|%s|dropped", mode, shape(rs.script)))
			}
			continue
		}
		ok := true
		if len(evs) != len(rs.script) {
			ok = false
			r.Violation(sig+"|count-differs", fmt.Sprintf("%s: handler saw %d notifications, the tool emitted %d", mode, len(evs), len(rs.script)), wit)
		}
		for i := 0; ok && i < len(evs); i++ {
			e, it := evs[i], rs.script[i]
			wantMethod := map[string]string{"progress": "notifications/progress", "log": "notifications/message", "custom": "notifications/verif"}[it.Kind]
			switch {
			case e.Seq != i:
				ok = false
				r.Violation(sig+"|order-differs", fmt.Sprintf("%s: notification %d arrived at position %d (loss, duplicate or reorder)", mode, e.Seq, i), wit)
			case e.Method != wantMethod:
				ok = false
				r.Violation(sig+"|method-differs", fmt.Sprintf("%s: notification %d has method %s, emitted as %s", mode, i, e.Method, wantMethod), wit)
			case e.LC >= rs.retLC:
				ok = false
				r.Violation(sig+"|after-return", fmt.Sprintf("%s: the handler for notification %d ran after CallTool had returned", mode, i), wit)
			}
			if !ok {
				break
			}
			// params / _meta intact
			switch it.Kind {
			case "progress":
				want := fmt.Sprintf("%s#%d#%s", rs.nonce, i, pad(it.Size))
				if e.Params["message"] != want || e.Params["progress"] != float64(i) {
					ok = false
				}
			case "log":
				d, _ := e.Params["data"].(map[string]interface{})
				if e.Params["level"] != "info" || d == nil || d["message"] != fmt.Sprintf("%s#%d#%s", rs.nonce, i, pad(it.Size)) {
					ok = false
				}
			default:
				if e.Params["pad"] != pad(it.Size) || e.Params["nonce"] != rs.nonce {
					ok = false
				}
				switch it.Meta {
				case "some":
					if !reflect.DeepEqual(map[string]interface{}(e.Meta), map[string]interface{}{"progressToken": "tok-" + rs.nonce, "n": float64(i)}) {
						ok = false
					}
				default:
					if len(e.Meta) != 0 {
						ok = false
					}
				}
				if _, has := e.Params["_meta"]; has {
					ok = false
				}
			}
			if !ok {
				r.Violation(sig+"|params-differ|kind="+it.Kind+"|meta="+it.Meta, fmt.Sprintf("%s: parameters / _meta of notification %d (%s) are not what the tool emitted", mode, i, it.Kind),
					map[string]interface{}{"nonce": rs.nonce, "seq": i, "item": it, "meta_received": e.Meta})
			}
		}
		if ok {
			r.Distinct(fmt.Sprintf("%s|%s", mode, shape(rs.script)))
			r.Count("notifications_checked", int64(len(evs)))
		}
	}
	if len(results) > 0 {
		r.Sample(map[string]interface{}{"mode": mode, "calls": nCalls, "concurrent": conc, "example_script_len": len(results[0].script), "example_result": results[0].text})
	}
}

// eventIDs: the id: values on one POST SSE stream are pairwise distinct.
func eventIDs(r *vh.Run, kind kit.Kind, nCalls int) {
	in := kit.Start(kind, kit.Opts{})
	defer in.Close()
	kit.StdFixture(in)
	registerEmit(in)
	ctx := context.Background()
	c, _ := in.Dial(ctx)
	defer c.Close()
	if err := c.Handshake(ctx); err != nil {
		r.Fatal("handshake: %v", err)
	}
	dups := 0
	for i := 0; i < nCalls; i++ {
		script := genScript(r, fmt.Sprintf("ids-%s-%d", kind, i), 60)
		if len(script) == 0 {
			script = []item{{Kind: "progress"}}
		}
		a, _ := json.Marshal(map[string]interface{}{"nonce": fmt.Sprintf("ids-%d", i), "script": script})
		ex := c.Post(ctx, []byte(fmt.Sprintf(`{"jsonrpc":"2.0","id":%d,"method":"tools/call","params":{"name":"emit","arguments":%s}}`, 100+i, a)), kit.PostOpts{})
		r.Eval(1)
		if ex.HTTP == nil || !ex.HTTP.IsSSE {
			r.Violation("C10|event-ids|"+string(kind)+"|not-an-sse-response", "the call was not answered as an event stream", nil)
			continue
		}
		seen := map[string]int{}
		for _, ev := range ex.HTTP.Events {
			for _, id := range ev.IDLines {
				seen[id]++
			}
		}
		r.Count("event_ids_checked", int64(len(seen)))
		for id, n := range seen {
			if n > 1 {
				dups++
				r.Violation("C10|event-ids|"+string(kind)+"|duplicate-id", fmt.Sprintf("%s: event id %q occurs %d times on one POST SSE stream", kind, id, n),
					map[string]interface{}{"events": len(ex.HTTP.Events), "id": id})
				break
			}
		}
	}
	if dups == 0 {
		r.Distinct("event-ids|" + string(kind))
	}
}

func main() {
	kit.MaybeServeStdioChild()
	kit.Silence()
	r := vh.NewRun("C10", "exploration")
	n := r.Pick(300, 3000)
	// (the evidence file keeps the first six samples: one of each scenario family comes first)
	fidelity(r, kit.SSSE, r.Pick(150, 1500), 4)
	textFidelity(r, kit.SSSE, r.Pick(150, 2000), 4)
	regHistories(r, kit.SSSE, r.Pick(40, 400), 24)
	handlerOutcomes(r, kit.SSSE, r.Pick(140, 1400))
	handlerOutcomes(r, kit.SLSSE, r.Pick(70, 700))
	if r.Counter("outcome_handler_errors_returned") == 0 {
		r.Inconclusive("handler outcomes: not one call whose handlers returned an error conformed, nothing of the scenario can be claimed to hold")
	}
	midCall(r, []kit.Kind{kit.SSSE, kit.SLSSE}, r.Pick(12, 60))
	fanoutAll(r)
	runCalls(r, kit.SSSE, true, n, 1, 200)
	runCalls(r, kit.SSSE, true, n, 16, 200)
	runCalls(r, kit.SLSSE, true, n/2, 8, 200)
	runCalls(r, kit.SSSE, false, n/3, 8, 100) // no handler registered
	runCalls(r, kit.SJSON, true, n/3, 8, 100) // JSON answers
	runCalls(r, kit.SLJSON, true, n/4, 8, 100)
	fidelity(r, kit.SLSSE, r.Pick(80, 800), 4)
	if r.Counter("fidelity_notifications_checked") == 0 {
		r.Inconclusive("value-shape fidelity: not one call of the scenario conformed, nothing of it can be claimed to hold")
	}
	textFidelity(r, kit.SLSSE, r.Pick(80, 1000), 4)
	if r.Counter("text_notifications_checked") == 0 {
		r.Inconclusive("text fidelity: not one call of the scenario conformed, nothing of it can be claimed to hold")
	}
	regHistories(r, kit.SLSSE, r.Pick(20, 200), 24)
	eventIDs(r, kit.SSSE, r.Pick(150, 1500))
	eventIDs(r, kit.SLSSE, r.Pick(80, 800))
	r.Finish("a tool emits a seeded script of 0-200 progress / log / custom notifications (bursts without sleeps, sizes 0-256 KiB, _meta absent / empty / present) tagged (call nonce, seq); library client handlers append (logical clock, nonce, seq, params, _meta), the call's return is stamped with the same clock; per call: exact sequence equality, every handler stamp < return stamp, params and _meta equal, result intact; 1 / 8 / 16 concurrent calls on one client; stateful and stateless SSE answers; JSON answers and no-handler runs must drop the notifications and leave the result intact; a raw peer records every id: line per POST stream (pairwise distinct); concurrent emitters: a tool fans out to G goroutines (G seeded from {2,4,12,32}) that, after a start barrier, each emit a burst (seeded size and pause) through SendProgress / SendLogMessage / SendCustomNotification / SendNotification - all four interleaved or one of them - and are joined before the handler returns; a raw peer reads the POST answer stream with the reference SSE parser (stateful and stateless, 1 or 3 calls at a time): all id: lines of the stream incl. the result's pairwise distinct, one id: line per event, every notification exactly once, each goroutine's notifications in its own emission order with parameters intact, exactly one result and it is the last event; the same tool through the library client with handlers for the four methods (exactly once, per-goroutine order, handler stamps < return stamp, result intact); G goroutines calling Server.SendNotification for one session while a raw peer reads that session's listening stream (Streamable with SSE and with JSON answers), and SSEServer.SendNotification on a legacy stream: id: lines pairwise distinct (deliveries counted only); monitors count events, streams, id lines, distinct ids and the largest number of goroutines seen inside a send at once; registration histories: one client walks a seeded history of register / replace / unregister / register-again on the three methods between calls, every handler value carries a generation, and each call's notifications must have reached exactly the generation registered at that moment (none when unregistered); operations while a call's stream is open (stateful and stateless SSE answers, a fresh client per case, tool emitg whose script can park at gates the harness opens): (actor=handler) the handler that receives a seeded position of the script unregisters its own method (one-shot handler, also at the last notification), replaces itself, registers / replaces / unregisters another method, runs tools/list or a nested emitting tools/call on the same client and waits for it, or closes the client at the last notification; (actor=other) while call A is parked at a gate in the middle of its script other goroutines register / unregister / replace handlers or close the client and start further calls B (1-2 emitting calls, tools/list) on the same client - A's gate opens only after B has returned - at one or two gates; then a follow-up call on the quiet client. Every table operation is a logical-clock interval, every handler value has a generation: a notification of a call may reach generation g iff g was possibly registered for its method at some moment between the call's invocation and the delivery, may reach nobody iff no handler was possibly registered at some moment of the call; per call strictly increasing seq (order, at most once), handler stamps < return stamp, method / params / _meta as emitted, result intact (after Close an error is accepted); a call that has not returned after the watchdog is a violation only when two goroutine dumps 3 s apart show its goroutine parked on a lock inside the library, otherwise inconclusive; value-shape fidelity: a second tool sends, through every entry point of the sender (SendCustomNotification, SendNotification of a Notification made by NewNotification / NewJSONRPCNotificationFromMap / by hand with _meta in the Meta field or among the additional fields, SendProgress, SendLogMessage), the full product entry x params shape x _meta shape (mcp.Meta, map[string]string/int/float64, structs, pointers, nil pointers, json.RawMessage, json.Number, json.Marshaler, typed nil / untyped nil / empty maps, nested maps and slices, float64 and int64 boundaries, unicode / control characters / invalid UTF-8, members named _meta / method / jsonrpc / id inside params, nil and empty params, unencodable values) and seeded plans that send the same map / Notification / _meta value again, and scramble the value in place right after the send returns; the tool encodes the plain Go value with encoding/json right before each send, the client handler re-encodes what it got, and per position method and params (incl. _meta) must be equal as JSON values, delivered before the return, result intact.; text fidelity: a third tool sends every string of a catalogue (literal backslash sequences that look like JSON escapes - backslash-u0026 / u003c / u003e / u2028 / n / quote / backslash, lone and trailing backslashes, backslash-u + non-hex, backslash-ud800 -, the characters encoding/json escapes by default (< > & U+2028 U+2029) alone and next to backslashes, HTML entities, percent signs and printf verbs, quotes and member-injection lookalikes, NUL and all other control characters, BOM / non-characters / U+10FFFF, invalid UTF-8, event-stream-looking text, strings that are JSON documents such as an upstream body made by encoding/json, strings of 64-200 KiB) in every string position (progress message, log message, log level, top-level and nested params values and keys, map[string]string / struct / *string / []string members, a json.RawMessage encoded without HTML escaping, _meta values, keys and nested members, the method name, all of them at once next to a second catalogue string) of every sender entry point, one string per call, then seeded plans whose strings are concatenations of 1-10 fragments of those families; the tool encodes the plain Go params with encoding/json right before each send, the handlers (one registered per method) re-encode what they got: per call same count and order, each at the handler of its method, params incl. _meta equal as JSON values, handler stamps < return stamp, result (echoing the last string) intact; handler outcomes: handlers registered for every non-empty subset of the three methods look their outcome up in a plan keyed by (call nonce, seq) - return nil, return an error (plain, wrapped, io.EOF, io.ErrUnexpectedEOF, context.Canceled, context.DeadlineExceeded, a library sentinel, wrapped io.EOF), yield / sleep 1-8 ms and then return nil or an error - with plans: error for every delivered notification, for the first, one in the middle, the last before the result, a seeded subset, slow handlers alone and combined with errors, nil everywhere; 1 or 2-4 calls at a time on one client, stateful and stateless SSE answers; per call: it returns its result intact, the handlers saw exactly the notifications of their methods in emission order with params / _meta as emitted, every handler had finished (stamp taken at its end) before the return stamp. Distinct = (mode, script shape) that conformed, (observer, kind, G, entry point, emitters overlapped) whose fan-out call / stream conformed, (registration class) that conformed, (kind, actor, mid-call operation class, shape) whose case conformed with the operation actually performed, (entry, params shape) / (entry, _meta shape) / (entry, aliasing mode) whose notifications all arrived as emitted, (kind, entry, string position) / (kind, catalogue string class) / (kind, fragment family) whose notifications all arrived as emitted, (kind, outcome plan, positions of the errors among the delivered notifications, registered methods, one / several calls) whose call conformed with the planned errors actually returned, (kind, notification kind, error value kind) returned by a handler of a conforming call.",
		[]string{"handler timing is judged by a logical clock, not wall time",
			"concurrent emitters: emissions of different goroutines of one handler are unordered, only each goroutine's own sequence is an emission order; a send that returned an error is not an emission; on the listening and legacy streams only the id: lines are judged (delivery there is not this property's), and the legacy SSE stream is expected to carry no id: lines at all (counted in fanout_legacy_id_lines); data races as such are property C20's, here only their visible effect on the stream is judged",
			"mid-call operations: the statement does not say at which moment of a call 'the handler registered for the method' is read - the handler table as it was when the call started and the table as it is at delivery are both accepted (monitors midcall_delivered_to_* count what was seen); how long a registration issued during an open call takes is not judged; after Close on the client a call may return an error instead of its result, but it must return",
			"handler outcomes: the statement puts no condition on what a handler returns or how long it takes, so delivery, order and the result are required whatever the handlers return; handler panics are not exercised (the statement promises nothing about them); how a handler's error is reported (logged or not) is not judged; only the POST answer stream is exercised (the statement speaks of Streamable HTTP with an SSE response)",
			"fidelity: numbers are compared with float64 semantics (what the client API hands to a handler); a top-level _meta that is null or {} counts as absent, params null as {}; progress / log notifications may carry extra members; a send that returns an error is not an emission; a send that changes the caller's own map is counted (fidelity_send_changed_callers_value), not judged",
			"text fidelity: strings are compared after decoding, so how a character is spelled on the wire (escaped or not) is not judged; invalid UTF-8 is expected as the tool's own json.Marshal renders it (U+FFFD); method names are \"notifications/\" + the string and only valid UTF-8 strings of at most 2 KiB are used as method names; a call that ends on the harness's own 10-minute context is inconclusive"})
}
