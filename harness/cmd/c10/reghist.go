package main

// Handler-registration histories ("all handler registrations"): ONE client goes through a seeded history of
// register / replace / unregister / register-again operations on the three notification methods, interleaved with
// calls (and with listening-stream traffic, which also reads the handler table). Every handler value carries a
// generation number. After each call the oracle knows, per method, which generation is registered right now:
// the notifications of that method must have reached exactly that generation — in order, each once, before the call
// returned — and a method without a handler must have reached nobody. The result must be intact either way.

import (
	"context"
	"encoding/json"
	"fmt"
	"strings"
	"sync"
	"time"

	mcp "trpc.group/trpc-go/trpc-mcp-go"

	"verifharness/lib/kit"
	"verifharness/lib/vh"
)

type genEv struct {
	LC     uint64
	Method string
	Gen    int
	Nonce  string
	Seq    int
}

type genLog struct {
	mu  sync.Mutex
	evs []genEv
}

func (l *genLog) handler(method string, gen int) mcp.NotificationHandler {
	return func(n *mcp.JSONRPCNotification) error {
		e := genEv{LC: kit.Tick(), Method: n.Method, Gen: gen, Seq: -1}
		tag := ""
		switch n.Method {
		case "notifications/progress":
			tag, _ = n.Params.AdditionalFields["message"].(string)
		case "notifications/message":
			if d, ok := n.Params.AdditionalFields["data"].(map[string]interface{}); ok {
				tag, _ = d["message"].(string)
			}
		default:
			e.Nonce, _ = n.Params.AdditionalFields["nonce"].(string)
			if s, ok := n.Params.AdditionalFields["seq"].(float64); ok {
				e.Seq = int(s)
			}
		}
		if parts := strings.SplitN(tag, "#", 3); len(parts) == 3 {
			e.Nonce = parts[0]
			fmt.Sscanf(parts[1], "%d", &e.Seq)
		}
		if n.Method != method {
			e.Gen = -gen - 1000 // a handler registered for another method was invoked
		}
		l.mu.Lock()
		l.evs = append(l.evs, e)
		l.mu.Unlock()
		return nil
	}
}

func (l *genLog) take() []genEv {
	l.mu.Lock()
	defer l.mu.Unlock()
	out := l.evs
	l.evs = nil
	return out
}

var methodOf = map[string]string{"progress": "notifications/progress", "log": "notifications/message", "custom": "notifications/verif"}

func regHistories(r *vh.Run, kind kit.Kind, nHist, steps int) {
	in := kit.Start(kind, kit.Opts{})
	defer in.Close()
	kit.StdFixture(in)
	registerEmit(in)
	ctx, cancel := context.WithTimeout(context.Background(), 10*time.Minute)
	defer cancel()
	methods := []string{"notifications/progress", "notifications/message", "notifications/verif"}
	for h := 0; h < nHist; h++ {
		rng := r.Rand(fmt.Sprintf("c10-reghist-%s-%d", kind, h))
		c, err := in.NewClient()
		if err != nil {
			r.Fatal("client: %v", err)
		}
		if _, err := c.Initialize(ctx, &mcp.InitializeRequest{}); err != nil {
			r.Fatal("initialize: %v", err)
		}
		lg := &genLog{}
		cur := map[string]int{} // method -> generation registered now (absent = none)
		gen := 0
		var hist []string
		calls := 0
		fail := func(sym, what string, extra map[string]interface{}) {
			w := map[string]interface{}{"kind": kind, "history": append([]string{}, hist...)}
			for k, v := range extra {
				w[k] = v
			}
			// the class of the last registration operation per method makes the signature
			r.Violation(fmt.Sprintf("C10|%s|registration-history|%s", kind, sym), fmt.Sprintf("%s: %s (history: %s)", kind, what, strings.Join(hist, " ; ")), w)
		}
		lastOp := map[string]string{}
		for s := 0; s < steps; s++ {
			m := methods[rng.Intn(3)]
			switch op := rng.Intn(10); {
			case op < 3: // register or replace
				gen++
				if _, has := cur[m]; has {
					lastOp[m] = "replaced"
				} else if lastOp[m] == "unregistered" {
					lastOp[m] = "registered-again"
				} else {
					lastOp[m] = "registered"
				}
				c.RegisterNotificationHandler(m, lg.handler(m, gen))
				cur[m] = gen
				hist = append(hist, fmt.Sprintf("register(%s)=g%d", strings.TrimPrefix(m, "notifications/"), gen))
			case op < 5: // unregister (also of a method that has none)
				c.UnregisterNotificationHandler(m)
				if _, has := cur[m]; has {
					lastOp[m] = "unregistered"
				}
				delete(cur, m)
				hist = append(hist, fmt.Sprintf("unregister(%s)", strings.TrimPrefix(m, "notifications/")))
			case op == 5: // a quiet call: builds whatever the client caches per call without any notification
				if _, err := c.ListTools(ctx, &mcp.ListToolsRequest{}); err != nil {
					fail("list-failed", "tools/list failed: "+err.Error(), nil)
				}
				hist = append(hist, "list")
			default: // a call that emits a script
				calls++
				nonce := fmt.Sprintf("c10rh-%s-%d-%d", kind, h, calls)
				script := genScript(r, nonce, 12)
				if len(script) == 0 {
					script = []item{{Kind: "progress"}, {Kind: "log"}, {Kind: "custom", Meta: "some"}}
				}
				rq := &mcp.CallToolRequest{}
				rq.Params.Name = "emit"
				rq.Params.Arguments = map[string]interface{}{"nonce": nonce, "script": script}
				hist = append(hist, fmt.Sprintf("call#%d(%d notifications)", calls, len(script)))
				out, err := c.CallTool(ctx, rq)
				ret := kit.Tick()
				r.Eval(1)
				if err != nil {
					fail("call-failed", "call failed: "+err.Error(), nil)
					continue
				}
				text := ""
				if len(out.Content) == 1 {
					if tc, ok := out.Content[0].(mcp.TextContent); ok {
						text = tc.Text
					}
				}
				var rt struct {
					Nonce   string `json:"nonce"`
					Emitted int    `json:"emitted"`
					Of      int    `json:"of"`
				}
				if json.Unmarshal([]byte(text), &rt) != nil || rt.Nonce != nonce || rt.Of != len(script) || rt.Emitted != len(script) {
					fail("result-changed", fmt.Sprintf("the call's result is not intact: %q", text), nil)
					continue
				}
				evs := lg.take()
				ok := true
				for _, mm := range methods {
					var want []int
					g, has := cur[mm]
					for i, it := range script {
						if methodOf[it.Kind] == mm && has {
							want = append(want, i)
						}
					}
					var gotSeq []int
					for _, e := range evs {
						if e.Method != mm {
							continue
						}
						cls := lastOp[mm]
						if cls == "" {
							cls = "never-registered"
						}
						switch {
						case e.Nonce != nonce:
							ok = false
							fail("foreign-notification|handler="+cls, fmt.Sprintf("a notification of call %s reached a handler during call %s", e.Nonce, nonce), map[string]interface{}{"event": e})
						case !has:
							ok = false
							fail("delivered-without-handler|handler="+cls, fmt.Sprintf("%s reached handler generation %d although no handler is registered for it now", mm, e.Gen), map[string]interface{}{"event": e})
						case e.Gen != g:
							ok = false
							fail("delivered-to-stale-handler|handler="+cls, fmt.Sprintf("%s #%d reached handler generation %d, the handler registered for the method now is generation %d", mm, e.Seq, e.Gen, g), map[string]interface{}{"event": e, "registered_generation": g})
						case e.LC >= ret:
							ok = false
							fail("after-return|handler="+cls, fmt.Sprintf("the handler for %s #%d ran after CallTool had returned", mm, e.Seq), nil)
						}
						gotSeq = append(gotSeq, e.Seq)
						if !ok {
							break
						}
					}
					if !ok {
						break
					}
					if fmt.Sprint(gotSeq) != fmt.Sprint(want) {
						ok = false
						cls := lastOp[mm]
						if cls == "" {
							cls = "never-registered"
						}
						fail("sequence-differs|handler="+cls, fmt.Sprintf("%s: registered handler (generation %d, registered=%v) saw notifications %v of the call, the tool emitted %v", mm, g, has, gotSeq, want), map[string]interface{}{"got": gotSeq, "want": want})
					}
					if ok {
						cls := lastOp[mm]
						if cls == "" {
							cls = "never-registered"
						}
						r.Distinct(fmt.Sprintf("reghist|%s|%s|handler=%s|delivered=%v", kind, strings.TrimPrefix(mm, "notifications/"), cls, len(want) > 0))
						r.Count("reghist_calls_"+cls, 1)
					}
				}
			}
		}
		c.Close()
		r.Count("registration_histories", 1)
		if h == 0 {
			r.Sample(map[string]interface{}{"kind": kind, "registration_history": hist})
		}
	}
}
