package main

// Value-shape fidelity ("with method, parameters and _meta intact" for every Go value a handler may legally hand to
// the notification sender). The emit tool of main.go builds params and _meta as map[string]interface{} literals only;
// here a second tool, emitv, walks a plan of (entry point, params shape, _meta shape, aliasing mode) items and sends
// each through one of the sender's entry points:
//
//	custom    sender.SendCustomNotification(method, params)
//	newnotif  sender.SendNotification(mcp.NewNotification(method, params))
//	frommap   sender.SendNotification(&mcp.NewJSONRPCNotificationFromMap(method, params).Notification)
//	litmeta   sender.SendNotification(&mcp.Notification{Params: {Meta: <_meta>, AdditionalFields: <rest>}})
//	litadd    sender.SendNotification(&mcp.Notification{Params: {AdditionalFields: <params incl. "_meta">}})
//	progress  sender.SendProgress(float64, string)
//	log       sender.SendLogMessage(level, message)
//
// Right BEFORE each send the tool encodes the Go value it is about to pass with encoding/json (the plain map, "_meta"
// inside - no library type takes part) and stores that as the expectation; right after the send it may scramble the
// value in place (a sender must have encoded it before returning) or keep the very same map / *Notification for the
// next send (aliasing). The client's handler renders what it got (AdditionalFields + Meta) the same way. Oracle, per
// call and position: same count, same method, JSON-value equality of params including _meta (numbers with float64
// semantics - that is the type the client's API hands to a handler), every handler stamp before the call's return,
// result intact. Left open, because the statement does not promise them: a top-level _meta that is null or {} may
// arrive as absent (it carries nothing), params null / absent may arrive as {}, progress and log notifications may
// carry extra members next to the progress / message / level that were passed, a send that returns an error is not
// an emission, and whether a send changes the caller's own map is only counted (the expectation is what the map
// holds at the moment of the send).

import (
	"context"
	"encoding/json"
	"fmt"
	"math"
	"reflect"
	"sort"
	"strings"
	"sync"
	"time"

	mcp "trpc.group/trpc-go/trpc-mcp-go"

	"verifharness/lib/kit"
	"verifharness/lib/vh"
)

// ---------- value shapes ----------

type metaStruct struct {
	ProgressToken string  `json:"progressToken"`
	N             int     `json:"n"`
	Ratio         float64 `json:"ratio"`
	Hidden        string  `json:"-"`
	Opt           string  `json:"opt,omitempty"`
}

type innerStruct struct {
	A string                 `json:"a"`
	B []int                  `json:"b"`
	M map[string]interface{} `json:"_meta,omitempty"`
}

type outerStruct struct {
	innerStruct
	Name  string       `json:"name"`
	Ptr   *innerStruct `json:"ptr"`
	Nil   *innerStruct `json:"nil"`
	Any   interface{}  `json:"any"`
	Bytes []byte       `json:"bytes"`
	priv  int
}

// objMarshaler encodes itself as a JSON object through json.Marshaler.
type objMarshaler struct{ tok string }

func (o objMarshaler) MarshalJSON() ([]byte, error) {
	return json.Marshal(map[string]interface{}{"progressToken": o.tok, "via": "MarshalJSON"})
}

const nasty = "tök   \u0000\u0001\u001f\t\n\r\"\\/<>&' 值 \U0001F600 \u0085 \xff\xfe data: x  "

type vshape struct {
	name  string
	build func(tok string, seq int) interface{}
}

// _meta shapes: every one encodes to a JSON object or null (the only legal _meta values). "absent" = key not set.
var metaShapes = []vshape{
	{"absent", nil},
	{"map[string]interface{}", func(t string, s int) interface{} { return map[string]interface{}{"progressToken": t, "n": s} }},
	{"map[string]interface{}-empty", func(string, int) interface{} { return map[string]interface{}{} }},
	{"map[string]interface{}-nil", func(string, int) interface{} { return map[string]interface{}(nil) }},
	{"untyped-nil", func(string, int) interface{} { return nil }},
	{"mcp.Meta", func(t string, s int) interface{} { return mcp.Meta{"progressToken": t, "n": s} }},
	{"mcp.Meta-empty", func(string, int) interface{} { return mcp.Meta{} }},
	{"mcp.Meta-nil", func(string, int) interface{} { return mcp.Meta(nil) }},
	{"map[string]string", func(t string, s int) interface{} { return map[string]string{"progressToken": t, "n": fmt.Sprint(s)} }},
	{"map[string]int", func(t string, s int) interface{} { return map[string]int{"progressToken": s, "n": -s} }},
	{"map[string]float64", func(t string, s int) interface{} {
		return map[string]float64{"max": math.MaxFloat64, "tiny": math.SmallestNonzeroFloat64, "negzero": math.Copysign(0, -1), "p53": 1 << 53, "n": float64(s) + 0.5}
	}},
	{"struct", func(t string, s int) interface{} { return metaStruct{ProgressToken: t, N: s, Ratio: 0.1, Hidden: "h"} }},
	{"*struct", func(t string, s int) interface{} { return &metaStruct{ProgressToken: t, N: s, Opt: "o"} }},
	{"*struct-nil", func(string, int) interface{} { return (*metaStruct)(nil) }},
	{"json.RawMessage", func(t string, s int) interface{} {
		return json.RawMessage(fmt.Sprintf(`{"progressToken":%q, "n":%d,"raw":[1,2,{"x":null}]}`, t, s))
	}},
	{"json.RawMessage-null", func(string, int) interface{} { return json.RawMessage("null") }},
	{"map[string]json.RawMessage", func(t string, s int) interface{} {
		return map[string]json.RawMessage{"progressToken": json.RawMessage(fmt.Sprintf("%q", t)), "n": json.RawMessage(fmt.Sprint(s))}
	}},
	{"json.Marshaler", func(t string, s int) interface{} { return objMarshaler{t} }},
	{"map[string]*struct", func(t string, s int) interface{} {
		return map[string]*metaStruct{"a": {ProgressToken: t, N: s}, "nil": nil}
	}},
	{"nested", func(t string, s int) interface{} {
		return map[string]interface{}{
			"progressToken": json.Number(fmt.Sprint(s)),
			"deep":          map[string]interface{}{"_meta": map[string]interface{}{"inner": t}, "list": []interface{}{1, "two", nil, []int{3}, map[string]string{"k": "v"}}},
			"typed":         mcp.Meta{"m": mcp.Meta{"mm": s}},
			"method":        "notifications/fake", "jsonrpc": "1.0", "id": s,
		}
	}},
	{"unicode", func(t string, s int) interface{} {
		return map[string]interface{}{"progressToken": nasty + t, "ключ 值": nasty, "": "empty-key", "a\u0000b": s}
	}},
	{"numeric-token", func(t string, s int) interface{} {
		return map[string]interface{}{"progressToken": int64(math.MaxInt64) - int64(s), "u": uint64(math.MaxUint64), "f": float32(0.1), "jn": json.Number("12345678901234567890"), "e": json.Number("1E5"), "small": json.Number("-0.1e-300")}
	}},
}

// params shapes: members merged into the params map next to "nonce" and "seq" ("bare" shapes replace the whole map).
var paramShapes = []vshape{
	{"flat", func(t string, s int) interface{} {
		return map[string]interface{}{"s": "str", "b": true, "n": nil, "i": s}
	}},
	{"params-nil", nil},
	{"params-empty", nil},
	{"map[string]string", func(t string, s int) interface{} {
		return map[string]interface{}{"v": map[string]string{"a": t, "b": ""}}
	}},
	{"map[string]int", func(t string, s int) interface{} {
		return map[string]interface{}{"v": map[string]int{"a": s, "b": math.MinInt64}}
	}},
	{"map[int]string", func(t string, s int) interface{} { return map[string]interface{}{"v": map[int]string{s: t, -1: "neg"}} }},
	{"struct", func(t string, s int) interface{} {
		return map[string]interface{}{"v": outerStruct{innerStruct: innerStruct{A: t, B: []int{s}, M: map[string]interface{}{"in": s}}, Name: "outer", Ptr: &innerStruct{A: "p"}, Any: metaStruct{N: s}, Bytes: []byte{0, 1, 2, 255}, priv: 1}}
	}},
	{"*struct", func(t string, s int) interface{} {
		return map[string]interface{}{"v": &outerStruct{Name: t, Any: &metaStruct{ProgressToken: t}}, "m": &metaStruct{N: s}}
	}},
	{"*struct-nil", func(t string, s int) interface{} {
		return map[string]interface{}{"v": (*outerStruct)(nil), "w": (*int)(nil)}
	}},
	{"nested", func(t string, s int) interface{} {
		return map[string]interface{}{"v": map[string]interface{}{"l1": map[string]interface{}{"l2": []interface{}{map[string]interface{}{"l3": []string{t, ""}}, []interface{}{}, nil, 1.5, s}}},
			"list": []map[string]interface{}{{"a": 1}, {}, nil}}
	}},
	{"json.RawMessage", func(t string, s int) interface{} {
		return map[string]interface{}{"obj": json.RawMessage(fmt.Sprintf(`{ "k" : %q , "n":[ %d ] }`, t, s)), "arr": json.RawMessage(`[1,"x",null]`), "num": json.RawMessage(`-1.25e2`), "str": json.RawMessage(`"rawé"`), "null": json.RawMessage(`null`)}
	}},
	{"json.Number", func(t string, s int) interface{} {
		return map[string]interface{}{"a": json.Number(fmt.Sprint(s)), "b": json.Number("12345678901234567890"), "c": json.Number("0.1e-300"), "d": json.Number("-0"), "e": json.Number("1E5"), "f": []json.Number{"1", "2.50"}}
	}},
	{"nil-and-empty", func(t string, s int) interface{} {
		return map[string]interface{}{"nilmap": map[string]interface{}(nil), "emptymap": map[string]interface{}{}, "nilslice": []string(nil), "emptyslice": []string{}, "nil": nil, "nilmeta": mcp.Meta(nil), "emptystr": "", "zero": 0, "false": false}
	}},
	{"float-bounds", func(t string, s int) interface{} {
		return map[string]interface{}{"max": math.MaxFloat64, "negmax": -math.MaxFloat64, "tiny": math.SmallestNonzeroFloat64, "negzero": math.Copysign(0, -1), "p53": float64(1 << 53), "p53plus": float64(1<<53) + 2, "e21": 1e21, "e20": 1e20, "em7": 1e-7, "em6": 1e-6, "third": 1.0 / 3, "f32": float32(16777216.0), "f32max": float32(math.MaxFloat32)}
	}},
	{"int-bounds", func(t string, s int) interface{} {
		return map[string]interface{}{"i64max": int64(math.MaxInt64), "i64min": int64(math.MinInt64), "u64max": uint64(math.MaxUint64), "p53p1": int64(1<<53 + 1), "i8": int8(-128), "u8": uint8(255), "uintptr": uintptr(7)}
	}},
	{"unicode", func(t string, s int) interface{} {
		return map[string]interface{}{"v": nasty, nasty: "nasty-key", "": "empty-key", "sse": "x\n\ndata: {\"jsonrpc\":\"2.0\"}\n\nid: 7\r\n", "html": "<script>&amp;</script>", "lead": "  padded  ", "bytes": []byte(nasty)}
	}},
	{"reserved-keys", func(t string, s int) interface{} {
		return map[string]interface{}{"method": "notifications/other", "jsonrpc": "1.0", "id": s, "params": map[string]interface{}{"_meta": map[string]interface{}{"inner": t}}, "result": map[string]interface{}{}, "error": map[string]interface{}{"code": -32603, "message": "x"},
			"sub": map[string]interface{}{"_meta": mcp.Meta{"progressToken": t}, "method": "m"}, "Meta": "capital", "_Meta": 1, "meta": 2, "AdditionalFields": 3, "progressToken": t}
	}},
	{"library-types", func(t string, s int) interface{} {
		return map[string]interface{}{"meta": mcp.Meta{"progressToken": t}, "content": mcp.NewTextContent(t), "contents": []mcp.Content{mcp.NewTextContent("a"), mcp.NewTextContent("")}, "marshaler": objMarshaler{t}, "time": time.Unix(int64(s), 5).UTC()}
	}},
	{"kib", func(t string, s int) interface{} { return map[string]interface{}{"pad": strings.Repeat("é<", 2500)} }},
	{"unencodable-NaN", func(t string, s int) interface{} { return map[string]interface{}{"v": math.NaN()} }},
	{"unencodable-chan", func(t string, s int) interface{} { return map[string]interface{}{"v": make(chan int)} }},
}

var fidMethods = []string{"notifications/verif", "notifications/verif2", "custom.method", "notifications/ünï cödé/x y", "n"}

var progressValues = []float64{0, 1, -1, 0.5, math.MaxFloat64, -math.MaxFloat64, math.SmallestNonzeroFloat64, 1 << 53, 1e21, 1e-7, math.Copysign(0, -1), 1.0 / 3, math.NaN(), math.Inf(1)}
var fidMessages = []string{"", "plain", nasty, "  padded  ", "line1\nline2\r\n", "  ", "\xff\xfe", "<script>&amp;", "x\n\ndata: {}\n\nid: 1", "\U0001F600", strings.Repeat("é", 3000)}
var fidLevels = []string{"info", "debug", "emergency", "", "weird level\n", "уровень"}

var customEntries = []string{"custom", "newnotif", "frommap", "litmeta", "litadd"}
var aliasModes = []string{"fresh", "mutate-after", "reuse-map", "reuse-notif", "shared-meta"}

func findShape(list []vshape, name string) *vshape {
	for i := range list {
		if list[i].name == name {
			return &list[i]
		}
	}
	return nil
}

// ---------- plan / expectation ----------

type planItem struct {
	E string `json:"e"` // entry
	P string `json:"p"` // params shape
	M string `json:"m"` // _meta shape
	A string `json:"a"` // aliasing mode
	X int    `json:"x"` // selector for method / progress value / message / level
}

type expect struct {
	Item      planItem
	Method    string
	Want      json.RawMessage // custom entries: the params object the tool passed
	Encodable bool
	SendErr   string
	Progress  float64
	Message   string
	Level     string
	Reused    bool // an earlier value was really sent again
	Changed   bool // the send changed the caller's own value
}

var expStore sync.Map // nonce -> []expect

// scramble changes a value in place as far as its type allows (the tool does this right after a send returned).
func scramble(v interface{}) {
	switch x := v.(type) {
	case map[string]interface{}:
		if x == nil {
			return
		}
		for k, e := range x {
			scramble(e)
			if k == "_meta" { // stays a legal _meta (an object)
				x[k] = map[string]interface{}{"progressToken": "SCRAMBLED"}
			} else {
				x[k] = "SCRAMBLED"
			}
		}
		x["zz-after-send"] = true
	case mcp.Meta:
		scramble(map[string]interface{}(x))
	case map[string]string:
		if x == nil {
			return
		}
		for k := range x {
			x[k] = "SCRAMBLED"
		}
		x["zz-after-send"] = "1"
	case map[string]int:
		for k := range x {
			x[k] = -424242
		}
	case map[string]float64:
		for k := range x {
			x[k] = -42.42
		}
	case map[string]json.RawMessage:
		for k := range x {
			x[k] = json.RawMessage(`"SCRAMBLED"`)
		}
	case map[string]*metaStruct:
		for _, e := range x {
			scramble(e)
		}
	case *metaStruct:
		if x != nil {
			*x = metaStruct{ProgressToken: "SCRAMBLED", N: -424242}
		}
	case *outerStruct:
		if x != nil {
			x.Name = "SCRAMBLED"
		}
	case []interface{}:
		for i := range x {
			scramble(x[i])
			x[i] = "SCRAMBLED"
		}
	case json.RawMessage:
		for i := range x {
			if x[i] >= '0' && x[i] <= '9' {
				x[i] = '7'
			}
		}
	case []byte:
		for i := range x {
			x[i] = 'S'
		}
	}
}

// renderNotification is the harness's own reading of a hand-made / constructed Notification value.
func renderNotification(n *mcp.Notification) ([]byte, error) {
	m := map[string]interface{}{}
	for k, v := range n.Params.AdditionalFields {
		m[k] = v
	}
	if len(n.Params.Meta) > 0 {
		m["_meta"] = map[string]interface{}(n.Params.Meta)
	}
	return json.Marshal(m)
}

func registerEmitV(in *kit.Instance) {
	in.RegisterTool(mcp.NewTool("emitv", mcp.WithString("nonce"), mcp.WithArray("plan")), func(ctx context.Context, req *mcp.CallToolRequest) (*mcp.CallToolResult, error) {
		nonce, _ := req.Params.Arguments["nonce"].(string)
		raw, _ := json.Marshal(req.Params.Arguments["plan"])
		var plan []planItem
		json.Unmarshal(raw, &plan)
		sender, ok := mcp.GetNotificationSender(ctx)
		exps := make([]expect, 0, len(plan))
		sent := 0
		var prevParams map[string]interface{}
		var prevNotif *mcp.Notification
		var prevMeta interface{}
		var prevP, prevM, prevNP, prevNM, prevMetaName string // shape names of the values kept for reuse
		for seq, it := range plan {
			if !ok {
				break
			}
			ex := expect{Item: it, Encodable: true}
			tok := fmt.Sprintf("tok-%s-%d", nonce, seq)
			var err error
			switch it.E {
			case "progress":
				ex.Method = "notifications/progress"
				ex.Progress = progressValues[it.X%len(progressValues)]
				ex.Message = fidMessages[(it.X/len(progressValues))%len(fidMessages)]
				if _, e := json.Marshal(ex.Progress); e != nil {
					ex.Encodable = false
				}
				err = sender.SendProgress(ex.Progress, ex.Message)
			case "log":
				ex.Method = "notifications/message"
				ex.Level = fidLevels[it.X%len(fidLevels)]
				ex.Message = fidMessages[(it.X/len(fidLevels))%len(fidMessages)]
				err = sender.SendLogMessage(ex.Level, ex.Message)
			default:
				ex.Method = fidMethods[it.X%len(fidMethods)]
				// the value to pass
				var params map[string]interface{}
				var notif *mcp.Notification
				var metaVal interface{}
				switch {
				case it.A == "reuse-map" && prevParams != nil:
					params, ex.Reused = prevParams, true
					ex.Item.P, ex.Item.M = prevP, prevM
				case it.A == "reuse-notif" && it.E != "custom" && prevNotif != nil:
					notif, ex.Reused = prevNotif, true
					ex.Method = notif.Method
					ex.Item.P, ex.Item.M = prevNP, prevNM
				case it.A == "reuse-notif" && it.E == "custom" && prevParams != nil:
					params, ex.Reused = prevParams, true
					ex.Item.P, ex.Item.M = prevP, prevM
				default:
					switch it.P {
					case "params-nil":
						params = map[string]interface{}(nil)
					case "params-empty":
						params = map[string]interface{}{}
					default:
						params = map[string]interface{}{"nonce": nonce, "seq": seq}
						if ps := findShape(paramShapes, it.P); ps != nil && ps.build != nil {
							for k, v := range ps.build(tok, seq).(map[string]interface{}) {
								params[k] = v
							}
						}
					}
					if ms := findShape(metaShapes, it.M); ms != nil && ms.build != nil && params != nil {
						mv := ms.build(tok, seq)
						if it.A == "shared-meta" && prevMeta != nil {
							mv, ex.Reused = prevMeta, true
							ex.Item.M = prevMetaName
						}
						params["_meta"] = mv
						metaVal = mv
						prevMeta, prevMetaName = mv, ex.Item.M
					} else {
						ex.Item.M = "absent"
					}
				}
				var keep interface{} // value scrambled after the send
				if notif == nil {
					// expectation: the plain Go value, encoded before anything of the library sees it
					w, e := json.Marshal(params)
					ex.Want, ex.Encodable = w, e == nil
					keep = params
					switch it.E {
					case "newnotif":
						notif = mcp.NewNotification(ex.Method, params)
					case "frommap":
						notif = &mcp.NewJSONRPCNotificationFromMap(ex.Method, params).Notification
					case "litmeta":
						notif = &mcp.Notification{Method: ex.Method, Params: mcp.NotificationParams{AdditionalFields: map[string]interface{}{}}}
						for k, v := range params {
							if k == "_meta" {
								switch mm := v.(type) {
								case map[string]interface{}:
									notif.Params.Meta = mm
									continue
								case mcp.Meta:
									notif.Params.Meta = mm
									continue
								}
							}
							notif.Params.AdditionalFields[k] = v
						}
						if params == nil {
							notif.Params.AdditionalFields = nil
						}
					case "litadd":
						notif = &mcp.Notification{Method: ex.Method, Params: mcp.NotificationParams{AdditionalFields: params}}
					}
				} else {
					w, e := renderNotification(notif)
					ex.Want, ex.Encodable = w, e == nil
				}
				if notif != nil && it.E != "custom" {
					err = sender.SendNotification(notif)
					prevNotif, prevNP, prevNM = notif, ex.Item.P, ex.Item.M
					if keep == nil {
						keep = notif
					}
				} else {
					err = sender.SendCustomNotification(ex.Method, params)
				}
				if params != nil {
					prevParams, prevP, prevM = params, ex.Item.P, ex.Item.M
				}
				// did the send change the caller's value?
				var after []byte
				if n, isN := keep.(*mcp.Notification); isN {
					after, _ = renderNotification(n)
				} else {
					after, _ = json.Marshal(keep)
				}
				if ex.Encodable && string(after) != string(ex.Want) {
					ex.Changed = true
				}
				if it.A == "mutate-after" {
					if n, isN := keep.(*mcp.Notification); isN {
						scramble(n.Params.AdditionalFields)
						scramble(map[string]interface{}(n.Params.Meta))
					} else {
						scramble(keep)
					}
					scramble(metaVal) // the library may have taken it out of the map and kept the reference
					if metaVal != nil {
						prevMetaName = strings.TrimSuffix(prevMetaName, "(scrambled)") + "(scrambled)"
					}
					if notif != nil {
						notif.Method = "notifications/verif2"
						scramble(notif.Params.AdditionalFields)
						scramble(map[string]interface{}(notif.Params.Meta))
					}
					// the kept values now have other shapes than the plan item says
					relabel := func(m map[string]interface{}) (string, string) {
						if _, has := m["_meta"]; has {
							return "scrambled", "map[string]interface{}"
						}
						return "scrambled", "absent"
					}
					if params != nil {
						prevP, prevM = relabel(params)
					}
					if notif != nil {
						prevNP, prevNM = relabel(notif.Params.AdditionalFields)
						if len(notif.Params.Meta) > 0 {
							prevNM = "map[string]interface{}"
						}
					}
				}
			}
			if err != nil {
				ex.SendErr = err.Error()
			} else {
				sent++
			}
			exps = append(exps, ex)
		}
		expStore.Store(nonce, exps)
		return mcp.NewTextResult(fmt.Sprintf(`{"nonce":"%s","emitted":%d,"of":%d}`, nonce, sent, len(plan))), nil
	})
}

// ---------- observation ----------

type fgot struct {
	LC         uint64
	Registered string
	Method     string
	Params     json.RawMessage
	Both       bool // "_meta" present in AdditionalFields as well as in Meta
	RenderErr  string
}

type frec struct {
	mu  sync.Mutex
	evs []fgot
}

func (f *frec) handler(registered string) mcp.NotificationHandler {
	return func(n *mcp.JSONRPCNotification) error {
		g := fgot{LC: kit.Tick(), Registered: registered, Method: n.Method}
		m := map[string]interface{}{}
		for k, v := range n.Params.AdditionalFields {
			m[k] = v
		}
		if len(n.Params.Meta) > 0 {
			_, g.Both = m["_meta"]
			m["_meta"] = map[string]interface{}(n.Params.Meta)
		}
		b, err := json.Marshal(m)
		if err != nil {
			g.RenderErr = err.Error()
		}
		g.Params = b
		f.mu.Lock()
		f.evs = append(f.evs, g)
		f.mu.Unlock()
		return nil
	}
}

func (f *frec) take() []fgot {
	f.mu.Lock()
	defer f.mu.Unlock()
	out := f.evs
	f.evs = nil
	return out
}

// normParams decodes a params encoding the way the client's API presents numbers (float64) and removes what the
// statement leaves open: params null -> {}, a top-level _meta that is null or {} -> absent.
func normParams(raw []byte) (map[string]interface{}, error) {
	var v interface{}
	if err := json.Unmarshal(raw, &v); err != nil {
		return nil, err
	}
	if v == nil {
		return map[string]interface{}{}, nil
	}
	m, ok := v.(map[string]interface{})
	if !ok {
		return nil, fmt.Errorf("params is not an object")
	}
	if mm, has := m["_meta"]; has {
		if mm == nil {
			delete(m, "_meta")
		} else if o, isObj := mm.(map[string]interface{}); isObj && len(o) == 0 {
			delete(m, "_meta")
		}
	}
	return m, nil
}

func diffParams(want, got map[string]interface{}) (sym, key string) {
	wm, wh := want["_meta"]
	gm, gh := got["_meta"]
	switch {
	case wh && !gh:
		return "meta-lost", "_meta"
	case !wh && gh:
		return "meta-invented", "_meta"
	case wh && gh && !reflect.DeepEqual(wm, gm):
		return "meta-changed", "_meta"
	}
	keys := make([]string, 0, len(want))
	for k := range want {
		keys = append(keys, k)
	}
	sort.Strings(keys)
	for _, k := range keys {
		g, has := got[k]
		if !has {
			return "field-lost", k
		}
		if !reflect.DeepEqual(want[k], g) {
			return "field-changed", k
		}
	}
	for k := range got {
		if _, has := want[k]; !has {
			return "field-invented", k
		}
	}
	return "", ""
}

func viaJSON(s string) string {
	b, _ := json.Marshal(s)
	var out string
	json.Unmarshal(b, &out)
	return out
}

func clip(b []byte) string {
	if len(b) > 600 {
		return string(b[:600]) + "…"
	}
	return string(b)
}

// matches judges one received notification against one expectation; "" = conforms.
func matches(ex *expect, g *fgot) (sym, detail string) {
	sym, key, detail := matches3(ex, g)
	switch {
	case sym == "":
	case strings.Contains(string(g.Params), "SCRAMBLED") && !strings.Contains(string(ex.Want), "SCRAMBLED"):
		sym = "changed-after-send" // what arrived is what the tool wrote into its value AFTER the send had returned
	case strings.HasPrefix(sym, "field-") && (key == "seq" || key == "nonce"):
		sym = "sequence-differs" // another notification stands at this position: loss, duplicate or reorder
	}
	return sym, detail
}

func matches3(ex *expect, g *fgot) (sym, key, detail string) {
	if g.Method != ex.Method || g.Registered != g.Method {
		return "method-differs", "", fmt.Sprintf("emitted as %q, arrived as %q at the handler registered for %q", ex.Method, g.Method, g.Registered)
	}
	if g.RenderErr != "" {
		return "unrenderable", "", g.RenderErr
	}
	got, err := normParams(g.Params)
	if err != nil {
		return "unrenderable", "", err.Error()
	}
	switch ex.Item.E {
	case "progress":
		if p, ok := got["progress"].(float64); !ok || p != ex.Progress {
			return "field-changed", "progress", fmt.Sprintf("progress passed %v, arrived %v", ex.Progress, got["progress"])
		}
		if m, ok := got["message"].(string); !ok || m != viaJSON(ex.Message) {
			return "field-changed", "message", fmt.Sprintf("message passed %q, arrived %q", ex.Message, got["message"])
		}
		return "", "", ""
	case "log":
		if l, ok := got["level"].(string); !ok || l != viaJSON(ex.Level) {
			return "field-changed", "level", fmt.Sprintf("level passed %q, arrived %v", ex.Level, got["level"])
		}
		want := viaJSON(ex.Message)
		if s, ok := got["data"].(string); ok && s == want {
			return "", "", ""
		}
		if d, ok := got["data"].(map[string]interface{}); ok {
			if s, ok := d["message"].(string); ok && s == want {
				return "", "", ""
			}
		}
		return "field-changed", "data", fmt.Sprintf("message passed %q, arrived data=%v", ex.Message, got["data"])
	}
	want, err := normParams(ex.Want)
	if err != nil {
		return "harness", "", err.Error()
	}
	if g.Both {
		return "meta-duplicated", "_meta", "the handler got a _meta member among the additional fields as well as in Meta"
	}
	s, k := diffParams(want, got)
	if s == "" {
		return "", "", ""
	}
	return s, k, fmt.Sprintf("member %q: passed %s, arrived %s", k, clip(ex.Want), clip(g.Params))
}

func (it planItem) class(sym string, reused bool) string {
	var c string
	switch {
	case it.E == "progress" || it.E == "log":
		c = "entry=" + it.E
	case strings.HasPrefix(sym, "meta-"):
		c = "entry=" + it.E + "|meta=" + it.M
	case strings.HasPrefix(sym, "field-"):
		c = "entry=" + it.E + "|params=" + it.P
	default:
		c = "entry=" + it.E + "|params=" + it.P + "|meta=" + it.M
	}
	if reused {
		c += "|alias=" + it.A
	}
	return c
}

// ---------- plans ----------

func randomItem(rng interface{ Intn(int) int }) planItem {
	it := planItem{X: rng.Intn(1 << 16), A: "fresh"}
	switch k := rng.Intn(10); {
	case k == 0:
		it.E = "progress"
	case k == 1:
		it.E = "log"
	default:
		it.E = customEntries[rng.Intn(len(customEntries))]
		it.P = paramShapes[rng.Intn(len(paramShapes))].name
		it.M = metaShapes[rng.Intn(len(metaShapes))].name
		if rng.Intn(2) == 0 {
			it.A = aliasModes[rng.Intn(len(aliasModes))]
		}
	}
	return it
}

// productPlans enumerates entry x params shape x _meta shape (fresh values), plus every progress value, message and
// level once, cut into calls of at most 60 notifications.
func productPlans() [][]planItem {
	var all []planItem
	x := 0
	for _, e := range customEntries {
		for _, p := range paramShapes {
			for _, m := range metaShapes {
				if p.name == "params-nil" && m.name != "absent" {
					continue
				}
				all = append(all, planItem{E: e, P: p.name, M: m.name, A: "fresh", X: x})
				x++
			}
		}
	}
	for i := 0; i < len(progressValues)*len(fidMessages); i++ {
		all = append(all, planItem{E: "progress", A: "fresh", X: i})
	}
	for i := 0; i < len(fidLevels)*len(fidMessages); i++ {
		all = append(all, planItem{E: "log", A: "fresh", X: i})
	}
	var out [][]planItem
	for len(all) > 0 {
		n := 60
		if n > len(all) {
			n = len(all)
		}
		out = append(out, all[:n])
		all = all[n:]
	}
	return out
}

// ---------- scenario ----------

func fidelity(r *vh.Run, kind kit.Kind, nRandom, clients int) {
	in := kit.Start(kind, kit.Opts{})
	defer in.Close()
	kit.StdFixture(in)
	registerEmitV(in)
	ctx, cancel := context.WithTimeout(context.Background(), 10*time.Minute)
	defer cancel()

	// case list: the product first, then seeded random plans with aliasing
	plans := productPlans()
	for i := 0; i < nRandom; i++ {
		rng := r.Rand(fmt.Sprintf("c10-fid-%s-%d", kind, i))
		n := 1 + rng.Intn(40)
		p := make([]planItem, n)
		for j := range p {
			p[j] = randomItem(rng)
			if j > 0 && rng.Intn(3) == 0 && p[j-1].E != "progress" && p[j-1].E != "log" && p[j].E != "progress" && p[j].E != "log" {
				// make aliasing likely: the next item reuses what the previous one sent
				p[j].A = []string{"reuse-map", "reuse-notif", "shared-meta"}[rng.Intn(3)]
			}
		}
		plans = append(plans, p)
	}

	var wg sync.WaitGroup
	var sampled sync.Once
	for w := 0; w < clients; w++ {
		wg.Add(1)
		go func(w int) {
			defer wg.Done()
			c, err := in.NewClient()
			if err != nil {
				r.Fatal("client: %v", err)
			}
			defer c.Close()
			if _, err := c.Initialize(ctx, &mcp.InitializeRequest{}); err != nil {
				r.Fatal("initialize: %v", err)
			}
			rec := &frec{}
			for _, m := range append([]string{"notifications/progress", "notifications/message"}, fidMethods...) {
				c.RegisterNotificationHandler(m, rec.handler(m))
			}
			for pi := w; pi < len(plans); pi += clients {
				plan := plans[pi]
				nonce := fmt.Sprintf("c10f-%s-%d", kind, pi)
				rq := &mcp.CallToolRequest{}
				rq.Params.Name = "emitv"
				rq.Params.Arguments = map[string]interface{}{"nonce": nonce, "plan": plan}
				out, err := c.CallTool(ctx, rq)
				ret := kit.Tick()
				evs := rec.take()
				r.Eval(1)
				sig := fmt.Sprintf("C10|fidelity|%s", kind)
				wit := map[string]interface{}{"kind": kind, "nonce": nonce, "plan_len": len(plan)}
				v, _ := expStore.LoadAndDelete(nonce)
				exps, _ := v.([]expect)
				if err != nil {
					cls := "no-send-recorded"
					if len(exps) > 0 {
						cls = "plan"
					}
					wit["plan"] = plan
					r.Violation(sig+"|call-failed|"+cls, fmt.Sprintf("%s: a call emitting %d notifications of assorted value shapes failed: %v", kind, len(plan), err), wit)
					continue
				}
				text := ""
				if len(out.Content) == 1 {
					if tc, ok := out.Content[0].(mcp.TextContent); ok {
						text = tc.Text
					}
				}
				var rt struct {
					Nonce   string `json:"nonce"`
					Emitted int    `json:"emitted"`
					Of      int    `json:"of"`
				}
				if json.Unmarshal([]byte(text), &rt) != nil || rt.Nonce != nonce || rt.Of != len(plan) || len(exps) != len(plan) {
					r.Violation(sig+"|result-changed", fmt.Sprintf("%s: the call's result is not intact: %q", kind, text), wit)
					continue
				}
				// what must have arrived: every send that returned nil
				var want []*expect
				undecidable := false
				for i := range exps {
					ex := &exps[i]
					if ex.Changed {
						r.SetAdd("fidelity_send_changed_callers_value", ex.Item.E+"|meta="+ex.Item.M)
						r.Count("fidelity_send_changed_callers_value_n", 1)
					}
					switch {
					case ex.SendErr != "":
						r.Count("fidelity_send_errors", 1)
						if ex.Encodable {
							// an encodable value was refused: the statement promises delivery of what a handler emits
							r.Violation(sig+"|"+ex.Item.class("send", ex.Reused)+"|send-refused", fmt.Sprintf("%s: the sender refused an encodable value: %s", kind, ex.SendErr),
								map[string]interface{}{"nonce": nonce, "seq": i, "item": ex.Item, "passed": clip(ex.Want)})
						} else {
							r.Distinct(fmt.Sprintf("fidelity|%s|%s|params=%s|refused-unencodable", kind, ex.Item.E, ex.Item.P))
						}
					case !ex.Encodable:
						undecidable = true // the sender accepted a value encoding/json cannot encode: nothing to compare with
					default:
						want = append(want, ex)
					}
				}
				if undecidable {
					r.Count("fidelity_calls_undecidable", 1)
					continue
				}
				bad := false
				for i := 0; i < len(want) || i < len(evs); i++ {
					switch {
					case i >= len(evs):
						ex := want[i]
						r.Violation(sig+"|"+ex.Item.class("", ex.Reused)+"|not-delivered", fmt.Sprintf("%s: handler saw %d notifications, the tool emitted %d; the first one missing is #%d (%s)", kind, len(evs), len(want), i, ex.Item.E),
							map[string]interface{}{"nonce": nonce, "position": i, "item": ex.Item, "passed": clip(ex.Want)})
						bad = true
					case i >= len(want):
						r.Violation(sig+"|extra-delivery", fmt.Sprintf("%s: handler saw %d notifications, the tool emitted %d", kind, len(evs), len(want)),
							map[string]interface{}{"nonce": nonce, "position": i, "method": evs[i].Method, "arrived": clip(evs[i].Params)})
						bad = true
					default:
						ex, g := want[i], &evs[i]
						if sym, detail := matches(ex, g); sym != "" {
							r.Violation(sig+"|"+ex.Item.class(sym, ex.Reused)+"|"+sym, fmt.Sprintf("%s: notification #%d (%s, params %s, _meta %s, %s) did not arrive as emitted: %s", kind, i, ex.Item.E, ex.Item.P, ex.Item.M, ex.Item.A, detail),
								map[string]interface{}{"nonce": nonce, "position": i, "item": ex.Item, "reused": ex.Reused, "method": ex.Method, "passed": clip(ex.Want), "arrived": clip(g.Params)})
							bad = true
						} else if g.LC >= ret {
							r.Violation(sig+"|after-return", fmt.Sprintf("%s: the handler for notification #%d ran after CallTool had returned", kind, i), wit)
							bad = true
						}
					}
					if bad {
						break
					}
				}
				if bad {
					continue
				}
				if rt.Emitted != len(want) {
					r.Violation(sig+"|result-changed", fmt.Sprintf("%s: the result reports %d sends, %d succeeded", kind, rt.Emitted, len(want)), wit)
					continue
				}
				for _, ex := range want {
					it := ex.Item
					switch it.E {
					case "progress", "log":
						r.Distinct(fmt.Sprintf("fidelity|%s|%s", kind, it.E))
					default:
						r.Distinct(fmt.Sprintf("fidelity|%s|%s|meta=%s", kind, it.E, it.M))
						r.Distinct(fmt.Sprintf("fidelity|%s|%s|params=%s", kind, it.E, it.P))
						if ex.Reused {
							r.Distinct(fmt.Sprintf("fidelity|%s|%s|alias=%s", kind, it.E, it.A))
							r.Count("fidelity_reused_values_checked", 1)
						}
						if it.A == "mutate-after" {
							r.Count("fidelity_scrambled_after_send_checked", 1)
						}
					}
				}
				r.Count("fidelity_notifications_checked", int64(len(want)))
				r.Count("fidelity_calls_conforming", 1)
				if len(want) > 3 {
					sampled.Do(func() {
						ex := want[len(want)/2]
						r.Sample(map[string]interface{}{"fidelity": kind, "plan_len": len(plan), "delivered": len(want), "example_item": ex.Item, "example_passed": clip(ex.Want)})
					})
				}
			}
		}(w)
	}
	wg.Wait()
}
