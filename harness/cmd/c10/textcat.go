package main

// Text fidelity ("with method, parameters and _meta intact" for every TEXT a handler may legally hand to the
// notification sender). fidelity.go varies the Go value shapes; its strings never contain the character sequences
// that JSON encoders, un-escapers and event-stream transports treat specially. Here a third tool, emitt, walks a plan
// of (entry point, string position, string) items: the string comes from a catalogue (textCatalogue: literal
// backslash sequences that look like JSON escapes, the characters encoding/json escapes by default alone and next to
// backslashes, HTML entities, percent signs and printf verbs, quotes, NUL and the other control characters, invalid
// UTF-8, long strings, event-stream-looking text, strings that are JSON documents) or is a seeded concatenation of
// fragments of those families, and is put into ONE string position of the notification:
//
//	progress   message
//	log        message | level
//	custom, newnotif, frommap, litmeta, litadd (the five ways to send params, see fidelity.go):
//	           pv      top-level params value             pk   top-level params key
//	           pnv     value nested in maps / slices      pnk  nested key
//	           typed   map[string]string key and value, struct field, *string, []string
//	           raw     json.RawMessage holding the string encoded WITHOUT HTML escaping
//	           mv      _meta value (progressToken)        mk   _meta key
//	           mnv     value and key nested inside _meta
//	           method  the method name "notifications/<string>" (valid UTF-8 only; a handler is registered for it)
//	           all     every position at once, a second catalogue string next to the first
//
// The plan travels to the tool as indices, so the texts never pass through the request. Right before each send the
// tool encodes the plain Go params map with encoding/json and keeps that as the expectation (expStore of
// fidelity.go); the client's handlers (frec) re-encode what they got. Oracle per call and position: same count, same
// method at the handler registered for it, params incl. _meta equal as JSON values (strings code point for code
// point after decoding; invalid UTF-8 as encoding/json defines it, i.e. what the tool's own json.Marshal made of
// it), every handler stamp before the call's return, and the result arrives intact (it echoes the last string).
// A call that ends on the harness's own context deadline is inconclusive, never a violation.

import (
	"bytes"
	"context"
	"encoding/json"
	"errors"
	"fmt"
	"sort"
	"strings"
	"sync"
	"time"
	"unicode/utf8"

	mcp "trpc.group/trpc-go/trpc-mcp-go"

	"verifharness/lib/kit"
	"verifharness/lib/vh"
)

type tstr struct {
	class string
	s     string
}

func mustJSON(v interface{}) string {
	b, err := json.Marshal(v)
	if err != nil {
		panic(err)
	}
	return string(b)
}

func allControls() string {
	var b strings.Builder
	for c := 1; c < 0x20; c++ {
		b.WriteByte(byte(c))
	}
	return b.String()
}

// textCatalogue: class names are stable (they go into violation signatures).
var textCatalogue = []tstr{
	// literal backslash sequences that LOOK like JSON escapes (the characters are a backslash followed by ...)
	{"bs-u0026", "\\u0026"},
	{"bs-u003c", "\\u003c"},
	{"bs-u003e", "\\u003e"},
	{"bs-u003C-upper", "\\u003C\\u003E"},
	{"bs-u2028", "\\u2028"},
	{"bs-u2029", "\\u2029"},
	{"bs-n", "\\n"},
	{"bs-r-t", "\\r\\t"},
	{"bs-b-f", "\\b\\f"},
	{"bs-quote", "\\\""},
	{"bs-bs", "\\\\"},
	{"bs-slash", "\\/"},
	{"bs-alone", "\\"},
	{"bs-trailing", "x\\"},
	{"bs-leading", "\\x"},
	{"bs-u-nonhex", "\\uZZZZ"},
	{"bs-u-short", "\\u12"},
	{"bs-u-bare", "\\u"},
	{"bs-ud800", "\\ud800"},
	{"bs-surrogate-pair", "\\ud83d\\ude00"},
	{"bs-u0000", "\\u0000"},
	{"bs-u005fmeta", "\\u005fmeta"},
	{"bs-u0022", "\\u0022,\\u0022x\\u0022:\\u0022"},
	{"bs-u005c", "\\u005c\\u005c"},
	{"bs-x41", "\\x41\\'\\0\\a\\v\\e"},
	{"bs-U-upper", "\\U00000026"},
	{"bs-url-u0026", "/?a=1\\u0026b=2"},
	{"bs2-u0026", "\\\\u0026"},
	{"bs3-u003c", "\\\\\\u003c"},
	{"bs-u0026-entity", "\\u0026amp;"},
	{"bs-u0026-mid", "a\\u0026b\\u003cc\\u003ed\\u2028e"},
	// the characters encoding/json escapes by default, alone and next to backslashes
	{"html-lt", "<"},
	{"html-gt", ">"},
	{"html-amp", "&"},
	{"ls-u2028", "\u2028"},
	{"ps-u2029", "\u2029"},
	{"html-all", "<>&\u2028\u2029"},
	{"html-text", "a<b>c&d 1<2 && 3>2"},
	{"html-bs-lt", "\\<"},
	{"html-lt-bs", "<\\"},
	{"html-bs-amp", "\\&"},
	{"html-amp-bs", "&\\"},
	{"html-bs-gt", "\\>\\"},
	{"ls-bs-u2028", "\\\u2028"},
	{"ls-u2028-bs", "\u2028\\\u2029\\"},
	{"html-amp-around-bs-u0026", "&\\u0026&"},
	{"html-lt-u003c", "<u003c<\\u003c"},
	{"html-script", "<script>alert(\"x&y\")</script>"},
	{"html-close-script", "</script><!-- ]]>"},
	{"html-url", "https://h/p?a=1&b=2&c=<3>#f"},
	// already-escaped HTML entities
	{"ent-amp", "&amp;"},
	{"ent-lt-gt", "&lt;b&gt;"},
	{"ent-quot", "&quot;&#39;&apos;"},
	{"ent-numeric", "&#x26;&#38;&#x3c;"},
	{"ent-double", "&amp;amp;lt;"},
	// percent signs and printf verbs
	{"pct-alone", "%"},
	{"pct-pct", "%%"},
	{"pct-s", "%s"},
	{"pct-d-v", "%d %v %+v %#v"},
	{"pct-missing", "%!s(MISSING)"},
	{"pct-n", "%n%n%n"},
	{"pct-index", "%[1]s %[2]*d %*d"},
	{"pct-x-q-T", "%x %q %T %p %c %U"},
	{"pct-100", "100% done"},
	{"pct-url-26", "%26%3C%3E%22%5C"},
	{"pct-url-nul", "%00%0a%0d"},
	{"pct-bs-u0026", "%\\u0026%s"},
	{"pct-trailing", "abc%"},
	// quotes
	{"quote-dq", "\""},
	{"quote-sq", "'"},
	{"quote-dq2", "\"\""},
	{"quote-word", "say \"hi\" and 'bye'"},
	{"quote-backtick", "`x`"},
	{"quote-dq-bs", "\"\\"},
	{"quote-close-object", "\"}"},
	{"quote-inject-member", "\",\"x\":\""},
	{"quote-inject-meta", "\",\"_meta\":{\"progressToken\":\"p\"},\"y\":\""},
	// NUL and the other control characters, odd code points
	{"ctl-nul", "\x00"},
	{"ctl-nul-mid", "a\x00b\x00"},
	{"ctl-all", allControls()},
	{"ctl-del", "\x7f"},
	{"ctl-named", "\b\f\n\r\t"},
	{"ctl-esc", "\x1b[31mred\x1b[0m"},
	{"ctl-nel", "\u0085x\u0085"},
	{"ctl-nbsp", "\u00a0x\u00a0"},
	{"uni-bom", "\ufeffx"},
	{"uni-fffd", "\ufffd"},
	{"uni-nonchar", "\ufffe\uffff"},
	{"uni-max", "\U0010FFFF"},
	{"uni-emoji", "\U0001F600"},
	{"uni-combining", "e\u0301\u200d\u202e"},
	{"uni-case", "İıßǅ"},
	// invalid UTF-8 (arrives as encoding/json encodes it)
	{"bad8-ff", "\xff"},
	{"bad8-overlong", "\xc0\xaf"},
	{"bad8-surrogate", "\xed\xa0\x80"},
	{"bad8-mid", "a\xffb\xfe"},
	{"bad8-beyond", "\xf4\x90\x80\x80"},
	{"bad8-truncated-u2028", "\xe2\x80"},
	{"bad8-bs", "\\\xff\\"},
	{"bad8-amp", "&\xff<"},
	// text that looks like the event stream it travels on
	{"sse-data", "data:"},
	{"sse-data-line", "data: x"},
	{"sse-event", "x\n\ndata: {}\n\n"},
	{"sse-id", "id: 1"},
	{"sse-id-lines", "\n\nid: 7\n\n"},
	{"sse-full", "event: message\nid: evt-1-1\ndata: {\"jsonrpc\":\"2.0\",\"id\":1,\"result\":{}}\n\n"},
	{"sse-retry", "retry: 0\n:comment\n"},
	{"sse-crlf", "\r\n\r\n"},
	{"sse-lf", "\n"},
	{"sse-lf2", "\n\n"},
	{"sse-cr", "\r"},
	{"sse-bs-n", "x\\n\\ndata: {}\\n\\n"},
	{"ws-leading", "  leading"},
	{"ws-trailing", "trailing  "},
	{"ws-tab", "\t"},
	{"ws-space", " "},
	{"empty", ""},
	// strings that are JSON documents
	{"json-upstream-body", "{\"next\":\"/?a=1\\u0026b=2\"}"},
	{"json-html-escaped", mustJSON(map[string]string{"html": "<b>&</b>\u2028"})},
	{"json-double-encoded", mustJSON(mustJSON("a&b\\c\"d"))},
	{"json-triple-encoded", mustJSON(mustJSON(mustJSON("<\\u0026>")))},
	{"json-bs", "{\"a\":\"\\\\\"}"},
	{"json-empty-object", "{}"},
	{"json-empty-array", "[]"},
	{"json-null", "null"},
	{"json-true", "true"},
	{"json-number", "-1.5e3"},
	{"json-string", "\"str\""},
	{"json-meta", "{\"_meta\":{\"progressToken\":\"x\"}}"},
	{"json-rpc-response", "{\"jsonrpc\":\"2.0\",\"id\":1,\"result\":{}}"},
	{"json-rpc-notification", "{\"jsonrpc\":\"2.0\",\"method\":\"notifications/progress\",\"params\":{\"progress\":1}}"},
	{"json-pretty", "{\n  \"a\": 1,\n  \"b\": \"<&>\"\n}\n"},
	// long strings
	{"long-ascii-70k", strings.Repeat("a", 70000)},
	{"long-bs-u0026-120k", strings.Repeat("\\u0026", 20000)},
	{"long-html-200k", strings.Repeat("<&>\u2028\\", 28000)},
	{"long-quotes-64k", strings.Repeat("\"", 1<<16)},
}

const textLongN = 4 // the long strings are the last textLongN entries of the catalogue

// fragments for seeded mixes: each belongs to a family named in the case class.
var textFragments = []tstr{
	{"bs", "\\"}, {"bs", "\\\\"}, {"uesc", "u0026"}, {"uesc", "u003c"}, {"uesc", "u003e"}, {"uesc", "u2028"}, {"uesc", "u2029"},
	{"uesc", "u"}, {"uesc", "ud800"}, {"uesc", "u00"}, {"uesc", "uZZ"}, {"esc", "n"}, {"esc", "r"}, {"esc", "t"}, {"esc", "b"}, {"esc", "/"},
	{"quote", "\""}, {"quote", "'"}, {"html", "<"}, {"html", ">"}, {"html", "&"}, {"ls", "\u2028"}, {"ls", "\u2029"},
	{"ent", "&amp;"}, {"ent", "amp;"}, {"ent", "&lt;"}, {"pct", "%"}, {"pct", "%s"}, {"pct", "%26"}, {"pct", "%d"},
	{"ctl", "\n"}, {"ctl", "\r"}, {"ctl", "\x00"}, {"ctl", "\t"}, {"ctl", "\x1b"}, {"ctl", "\x7f"}, {"bad8", "\xff"}, {"bad8", "\xe2\x80"},
	{"sse", "data:"}, {"sse", "id:"}, {"sse", "\n\n"}, {"sse", " "}, {"json", "{"}, {"json", "}"}, {"json", ":"}, {"json", ","}, {"json", "["},
	{"plain", "x"}, {"plain", "é"}, {"plain", "0"}, {"plain", "26"}, {"plain", "\U0001F600"},
}

var textCustomPositions = []string{"pv", "pk", "pnv", "pnk", "typed", "raw", "mv", "mk", "mnv", "method", "all"}

// tItem is what travels to the tool: indices only.
type tItem struct {
	E   string `json:"e"`
	Pos string `json:"pos"`
	S   int    `json:"s"`             // catalogue index, -1 = mix
	Mix []int  `json:"mix,omitempty"` // fragment indices
	S2  int    `json:"s2"`            // companion catalogue index (position "all")
}

func (it tItem) text() string {
	if it.S >= 0 {
		return textCatalogue[it.S%len(textCatalogue)].s
	}
	var b strings.Builder
	for _, f := range it.Mix {
		b.WriteString(textFragments[f%len(textFragments)].s)
	}
	return b.String()
}

func (it tItem) class() string {
	if it.S >= 0 {
		return textCatalogue[it.S%len(textCatalogue)].class
	}
	return "mix:" + strings.Join(it.families(), "+")
}

func (it tItem) families() []string {
	set := map[string]bool{}
	for _, f := range it.Mix {
		set[textFragments[f%len(textFragments)].class] = true
	}
	out := make([]string, 0, len(set))
	for k := range set {
		out = append(out, k)
	}
	sort.Strings(out)
	return out
}

func (it tItem) methodLegal() bool {
	s := it.text()
	return utf8.ValidString(s) && len(s) <= 2048
}

var textReservedKeys = map[string]bool{"nonce": true, "seq": true, "_meta": true, "v": true, "o": true, "t": true, "st": true, "sl": true, "sp": true, "r": true, "progressToken": true}

func textKey(s string) string {
	if textReservedKeys[s] {
		return "k:" + s
	}
	return s
}

func encodeNoHTML(s string) json.RawMessage {
	var b bytes.Buffer
	enc := json.NewEncoder(&b)
	enc.SetEscapeHTML(false)
	if err := enc.Encode(s); err != nil {
		panic(err)
	}
	return json.RawMessage(bytes.TrimRight(b.Bytes(), "\n"))
}

type textStruct struct {
	S string  `json:"s"`
	P *string `json:"p"`
}

// textMethod is the method an item is emitted under (used by the tool and, to register handlers, by the client).
func textMethod(it tItem) string {
	switch it.E {
	case "progress":
		return "notifications/progress"
	case "log":
		return "notifications/message"
	}
	if it.Pos == "method" || it.Pos == "all" {
		if it.methodLegal() {
			return "notifications/" + it.text()
		}
	}
	return "notifications/verif-text"
}

// textParams builds the plain Go value for a custom-entry item.
func textParams(it tItem, nonce string, seq int) map[string]interface{} {
	s := it.text()
	k := textKey(s)
	params := map[string]interface{}{"nonce": nonce, "seq": seq}
	switch it.Pos {
	case "pv":
		params["v"] = s
	case "pk":
		params[k] = "k"
	case "pnv":
		params["o"] = map[string]interface{}{"a": []interface{}{s, map[string]interface{}{"b": s}, []string{s}}}
	case "pnk":
		params["o"] = map[string]interface{}{k: map[string]interface{}{k: []interface{}{1}}}
	case "typed":
		sp := s
		params["t"] = map[string]string{k: s}
		params["st"] = textStruct{S: s, P: &sp}
		params["sl"] = []string{s, "", s}
	case "raw":
		params["r"] = encodeNoHTML(s)
	case "mv":
		params["_meta"] = map[string]interface{}{"progressToken": s}
	case "mk":
		params["_meta"] = map[string]interface{}{k: seq}
	case "mnv":
		params["_meta"] = map[string]interface{}{"o": map[string]interface{}{"a": []interface{}{s}, k: s}}
	case "method":
		params["v"] = "method"
	case "all":
		s2 := textCatalogue[it.S2%len(textCatalogue)].s
		params["v"] = s + s2
		params[k] = s2
		params["o"] = map[string]interface{}{textKey(s2): []interface{}{s, s2}}
		params["_meta"] = map[string]interface{}{"progressToken": s2, k: s, "o": map[string]interface{}{textKey(s2): []interface{}{s}}}
	}
	return params
}

type textResult struct {
	Nonce   string `json:"nonce"`
	Emitted int    `json:"emitted"`
	Of      int    `json:"of"`
	Echo    string `json:"echo"`
}

func registerEmitT(in *kit.Instance) {
	in.RegisterTool(mcp.NewTool("emitt", mcp.WithString("nonce"), mcp.WithArray("plan")), func(ctx context.Context, req *mcp.CallToolRequest) (*mcp.CallToolResult, error) {
		nonce, _ := req.Params.Arguments["nonce"].(string)
		raw, _ := json.Marshal(req.Params.Arguments["plan"])
		var plan []tItem
		json.Unmarshal(raw, &plan)
		sender, ok := mcp.GetNotificationSender(ctx)
		exps := make([]expect, 0, len(plan))
		sent := 0
		echo := ""
		for seq, it := range plan {
			if !ok {
				break
			}
			s := it.text()
			echo = s
			ex := expect{Item: planItem{E: it.E, P: it.Pos, A: "fresh"}, Encodable: true, Method: textMethod(it)}
			var err error
			switch it.E {
			case "progress":
				ex.Progress, ex.Message = float64(seq), s
				err = sender.SendProgress(ex.Progress, ex.Message)
			case "log":
				ex.Level, ex.Message = "info", s
				if it.Pos == "level" {
					ex.Level, ex.Message = s, fmt.Sprintf("%s#%d", nonce, seq)
				}
				err = sender.SendLogMessage(ex.Level, ex.Message)
			default:
				params := textParams(it, nonce, seq)
				// expectation: the plain Go value, encoded before anything of the library sees it
				w, e := json.Marshal(params)
				ex.Want, ex.Encodable = w, e == nil
				switch it.E {
				case "custom":
					err = sender.SendCustomNotification(ex.Method, params)
				case "newnotif":
					err = sender.SendNotification(mcp.NewNotification(ex.Method, params))
				case "frommap":
					err = sender.SendNotification(&mcp.NewJSONRPCNotificationFromMap(ex.Method, params).Notification)
				case "litmeta":
					n := &mcp.Notification{Method: ex.Method, Params: mcp.NotificationParams{AdditionalFields: map[string]interface{}{}}}
					for k, v := range params {
						if mm, isMap := v.(map[string]interface{}); isMap && k == "_meta" {
							n.Params.Meta = mm
							continue
						}
						n.Params.AdditionalFields[k] = v
					}
					err = sender.SendNotification(n)
				default: // litadd
					err = sender.SendNotification(&mcp.Notification{Method: ex.Method, Params: mcp.NotificationParams{AdditionalFields: params}})
				}
			}
			if err != nil {
				ex.SendErr = err.Error()
			} else {
				sent++
			}
			exps = append(exps, ex)
		}
		expStore.Store(nonce, exps)
		out, _ := json.Marshal(textResult{Nonce: nonce, Emitted: sent, Of: len(plan), Echo: echo})
		return mcp.NewTextResult(string(out)), nil
	})
}

// textProductPlans: every catalogue string in every position of every entry point, in calls of at most perCall
// notifications. A call holds one string only (so a text that breaks the stream is named by the call that failed),
// long strings get the reduced position list.
func textProductPlans(perCall int) [][]tItem {
	var out [][]tItem
	for si, cs := range textCatalogue {
		var all []tItem
		s2 := (si*7 + 3) % (len(textCatalogue) - textLongN) // companion: never one of the long strings (they are last)
		long := len(cs.s) > 4096
		all = append(all, tItem{E: "progress", Pos: "message", S: si}, tItem{E: "log", Pos: "message", S: si}, tItem{E: "log", Pos: "level", S: si})
		for ei, e := range customEntries {
			for pi, p := range textCustomPositions {
				if long && (ei+pi)%len(customEntries) != 0 { // long strings: every position once, entries rotate
					continue
				}
				if p == "method" && !(tItem{S: si}).methodLegal() {
					continue
				}
				all = append(all, tItem{E: e, Pos: p, S: si, S2: s2})
			}
		}
		for len(all) > 0 {
			n := perCall
			if n > len(all) {
				n = len(all)
			}
			out = append(out, all[:n])
			all = all[n:]
		}
	}
	return out
}

func textRandomItem(rng interface{ Intn(int) int }) tItem {
	it := tItem{S: -1, S2: rng.Intn(len(textCatalogue) - textLongN)} // companion: never one of the long strings (they are last)
	if rng.Intn(4) == 0 {
		it.S = rng.Intn(len(textCatalogue))
		if len(textCatalogue[it.S].s) > 4096 && rng.Intn(4) != 0 {
			it.S = rng.Intn(len(textCatalogue) - textLongN)
		}
	} else {
		n := 1 + rng.Intn(10)
		it.Mix = make([]int, n)
		for i := range it.Mix {
			it.Mix[i] = rng.Intn(len(textFragments))
		}
	}
	switch k := rng.Intn(12); {
	case k == 0:
		it.E, it.Pos = "progress", "message"
	case k == 1:
		it.E, it.Pos = "log", []string{"message", "level"}[rng.Intn(2)]
	default:
		it.E = customEntries[rng.Intn(len(customEntries))]
		it.Pos = textCustomPositions[rng.Intn(len(textCustomPositions))]
		if it.Pos == "method" && !it.methodLegal() {
			it.Pos = "pv"
		}
	}
	return it
}

func clipStr(s string) string {
	q := fmt.Sprintf("%q", s)
	if len(q) > 200 {
		return q[:200] + "…"
	}
	return q
}

func textFidelity(r *vh.Run, kind kit.Kind, nRandom, clients int) {
	in := kit.Start(kind, kit.Opts{})
	defer in.Close()
	kit.StdFixture(in)
	registerEmitT(in)
	ctx, cancel := context.WithTimeout(context.Background(), 10*time.Minute)
	defer cancel()

	seenClass := map[string]bool{}
	for i, cs := range textCatalogue {
		if (len(cs.s) > 4096) != (i >= len(textCatalogue)-textLongN) || seenClass[cs.class] {
			r.Fatal("text catalogue: entry %d (%s) is out of place or named twice", i, cs.class)
		}
		seenClass[cs.class] = true
	}
	plans := textProductPlans(30)
	nProduct := len(plans)
	for i := 0; i < nRandom; i++ {
		rng := r.Rand(fmt.Sprintf("c10-text-%s-%d", kind, i))
		p := make([]tItem, 1+rng.Intn(30))
		for j := range p {
			p[j] = textRandomItem(rng)
		}
		plans = append(plans, p)
	}
	// handlers: one per method that occurs
	methodSet := map[string]bool{"notifications/progress": true, "notifications/message": true, "notifications/verif-text": true}
	for _, p := range plans {
		for _, it := range p {
			methodSet[textMethod(it)] = true
		}
	}
	methods := make([]string, 0, len(methodSet))
	for m := range methodSet {
		methods = append(methods, m)
	}
	sort.Strings(methods)

	var wg sync.WaitGroup
	var sampled sync.Once
	for w := 0; w < clients; w++ {
		wg.Add(1)
		go func(w int) {
			defer wg.Done()
			c, err := in.NewClient()
			if err != nil {
				r.Fatal("client: %v", err)
			}
			defer c.Close()
			if _, err := c.Initialize(ctx, &mcp.InitializeRequest{}); err != nil {
				r.Fatal("initialize: %v", err)
			}
			rec := &frec{}
			for _, m := range methods {
				c.RegisterNotificationHandler(m, rec.handler(m))
			}
			for pi := w; pi < len(plans); pi += clients {
				plan := plans[pi]
				family := "catalogue"
				if pi >= nProduct {
					family = "seeded"
				}
				nonce := fmt.Sprintf("c10t-%s-%d", kind, pi)
				rq := &mcp.CallToolRequest{}
				rq.Params.Name = "emitt"
				rq.Params.Arguments = map[string]interface{}{"nonce": nonce, "plan": plan}
				out, err := c.CallTool(ctx, rq)
				ret := kit.Tick()
				evs := rec.take()
				r.Eval(1)
				v, _ := expStore.LoadAndDelete(nonce)
				exps, _ := v.([]expect)
				sigOf := func(i int) string {
					if i < 0 || i >= len(plan) {
						return fmt.Sprintf("C10|text|%s|after-the-last-notification", kind)
					}
					it := plan[i]
					cls := it.class()
					if it.Pos == "all" { // two strings stand next to each other in this item
						cls += "|with=" + textCatalogue[it.S2%len(textCatalogue)].class
					}
					return fmt.Sprintf("C10|text|%s|entry=%s|pos=%s|str=%s", kind, it.E, it.Pos, cls)
				}
				witOf := func(i int) map[string]interface{} {
					wit := map[string]interface{}{"kind": kind, "nonce": nonce, "plan_len": len(plan), "family": family, "position": i, "delivered": len(evs)}
					if i >= 0 && i < len(plan) {
						wit["item"] = plan[i]
						wit["string"] = clipStr(plan[i].text())
						wit["method"] = textMethod(plan[i])
						if i < len(exps) {
							wit["passed"] = clip(exps[i].Want)
						}
					}
					return wit
				}
				if err != nil {
					if ctx.Err() != nil || errors.Is(err, context.DeadlineExceeded) || errors.Is(err, context.Canceled) {
						r.Inconclusive(fmt.Sprintf("text fidelity %s: call %s ended on the harness's context (%v)", kind, nonce, err))
						continue
					}
					// the first notification that did not reach a handler is the one to name
					r.Violation(sigOf(len(evs))+"|call-failed", fmt.Sprintf("%s: a call emitting %d notifications with special text failed after %d deliveries (text class %s): %v", kind, len(plan), len(evs), classAt(plan, len(evs)), err), witOf(len(evs)))
					continue
				}
				text := ""
				if len(out.Content) == 1 {
					if tc, ok := out.Content[0].(mcp.TextContent); ok {
						text = tc.Text
					}
				}
				var rt textResult
				wantEcho := ""
				if len(plan) > 0 {
					wantEcho = viaJSON(plan[len(plan)-1].text())
				}
				if json.Unmarshal([]byte(text), &rt) != nil || rt.Nonce != nonce || rt.Of != len(plan) || len(exps) != len(plan) || rt.Echo != wantEcho {
					r.Violation(sigOf(len(plan)-1)+"|result-changed", fmt.Sprintf("%s: the call's result is not intact: %s", kind, clipStr(text)), witOf(len(plan)-1))
					continue
				}
				var want []*expect
				var wantIdx []int
				for i := range exps {
					ex := &exps[i]
					if ex.SendErr != "" || !ex.Encodable {
						// every value here is a string in a map: encodable, and the statement promises its delivery
						r.Violation(sigOf(i)+"|send-refused", fmt.Sprintf("%s: the sender refused a notification whose text is %s: %s", kind, clipStr(plan[i].text()), ex.SendErr), witOf(i))
						continue
					}
					want = append(want, ex)
					wantIdx = append(wantIdx, i)
				}
				bad := len(want) != len(exps)
				for i := 0; !bad && (i < len(want) || i < len(evs)); i++ {
					switch {
					case i >= len(evs):
						r.Violation(sigOf(wantIdx[i])+"|not-delivered", fmt.Sprintf("%s: handlers saw %d notifications, the tool emitted %d; the first one missing is #%d", kind, len(evs), len(want), i), witOf(wantIdx[i]))
						bad = true
					case i >= len(want):
						wit := witOf(-1)
						wit["method"], wit["arrived"] = evs[i].Method, clip(evs[i].Params)
						r.Violation(fmt.Sprintf("C10|text|%s|extra-delivery", kind), fmt.Sprintf("%s: handlers saw %d notifications, the tool emitted %d", kind, len(evs), len(want)), wit)
						bad = true
					default:
						ex, g := want[i], &evs[i]
						if sym, detail := matches(ex, g); sym != "" {
							wit := witOf(wantIdx[i])
							wit["arrived"], wit["arrived_method"], wit["handler_of"] = clip(g.Params), g.Method, g.Registered
							r.Violation(sigOf(wantIdx[i])+"|"+sym, fmt.Sprintf("%s: notification #%d (%s, text in %s, class %s) did not arrive as emitted: %s", kind, i, ex.Item.E, ex.Item.P, plan[wantIdx[i]].class(), detail), wit)
							bad = true
						} else if g.LC >= ret {
							r.Violation(sigOf(wantIdx[i])+"|after-return", fmt.Sprintf("%s: the handler for notification #%d ran after CallTool had returned", kind, i), witOf(wantIdx[i]))
							bad = true
						}
					}
				}
				if bad {
					continue
				}
				if rt.Emitted != len(want) {
					r.Violation(sigOf(len(plan)-1)+"|result-changed", fmt.Sprintf("%s: the result reports %d sends, %d succeeded", kind, rt.Emitted, len(want)), witOf(len(plan)-1))
					continue
				}
				for _, i := range wantIdx {
					it := plan[i]
					r.Distinct(fmt.Sprintf("text|%s|%s|pos=%s", kind, it.E, it.Pos))
					if it.S >= 0 {
						r.Distinct(fmt.Sprintf("text|%s|str=%s", kind, it.class()))
					} else {
						for _, f := range it.families() {
							r.Distinct(fmt.Sprintf("text|%s|mix-family=%s", kind, f))
						}
						r.Count("text_seeded_mixes_checked", 1)
					}
					r.Max("text_longest_string_bytes", int64(len(it.text())))
				}
				r.Count("text_notifications_checked", int64(len(want)))
				r.Count("text_calls_conforming", 1)
				if family == "seeded" && len(want) > 3 {
					sampled.Do(func() {
						it := plan[wantIdx[len(want)/2]]
						r.Sample(map[string]interface{}{"text_fidelity": kind, "plan_len": len(plan), "delivered": len(want), "example_item": it, "example_string": clipStr(it.text()), "example_method": textMethod(it), "catalogue_strings": len(textCatalogue), "product_calls": nProduct})
					})
				}
			}
		}(w)
	}
	wg.Wait()
}

func classAt(plan []tItem, i int) string {
	if i >= 0 && i < len(plan) {
		return plan[i].class()
	}
	return "-"
}
