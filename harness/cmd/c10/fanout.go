// C10 — concurrent emitters on one SSE stream.
//
// A tool handler fans its work out to G goroutines (G from a seeded list); after a start barrier every
// goroutine emits `per` in-call notifications through the sender it got from the context - through all four
// entry points (SendProgress, SendLogMessage, SendCustomNotification, SendNotification) or one of them - the
// handler joins the goroutines and returns. Everything is therefore "emitted before the handler returns"; two
// emissions of one goroutine are ordered (the first send has returned before the second starts), emissions of
// different goroutines are not.
//
// Observers:
//   - a raw peer reads the POST answer stream with the reference SSE parser: every id: line of the stream
//     (the result's included) must be pairwise distinct, every notification arrives exactly once, each emitter's
//     notifications arrive in its emission order with parameters intact, the result is the last event;
//   - a library client with handlers for the four methods: the same per call, every handler stamp < return stamp;
//   - the listening (GET) stream of a session while G goroutines call Server.SendNotification for that session:
//     id: lines pairwise distinct (delivery on that stream is counted, not judged: it is not this property's);
//   - the legacy SSE stream under SSEServer.SendNotification from G goroutines: id: lines are counted (the
//     library writes none there) and, would there be any, must be pairwise distinct.
package main

import (
	"context"
	"encoding/json"
	"fmt"
	"net/http"
	"net/url"
	"strconv"
	"strings"
	"sync"
	"sync/atomic"
	"time"

	mcp "trpc.group/trpc-go/trpc-mcp-go"

	"verifharness/lib/kit"
	"verifharness/lib/peer"
	"verifharness/lib/vh"
)

var fanGs = []int{2, 4, 12, 32}

const (
	fanAPIMixed = 4
	fanMethodC  = "notifications/verif"
	fanMethodN  = "notifications/verif2"
)

var fanAPINames = []string{"progress", "log", "custom", "notification", "mixed"}

type fanPlan struct {
	Nonce string `json:"nonce"`
	G     int    `json:"g"`
	Per   int    `json:"per"`
	Spin  int    `json:"spin"`
	API   int    `json:"api"` // 0..3 = one entry point for everything, 4 = all four, interleaved
}

func genFanPlan(r *vh.Run, nonce string, total int) fanPlan {
	rng := r.Rand("fan-" + nonce)
	p := fanPlan{Nonce: nonce, G: fanGs[rng.Intn(len(fanGs))]}
	p.Per = (total/2 + rng.Intn(total/2+1)) / p.G
	if p.Per < 4 {
		p.Per = 4
	}
	p.Spin = []int{0, 100, 200, 400}[rng.Intn(4)]
	if rng.Intn(2) == 0 {
		p.API = rng.Intn(4)
	} else {
		p.API = fanAPIMixed
	}
	return p
}

// fanStat is what the emitting side measured for one call / one round (same process as the harness).
type fanStat struct {
	inflight    atomic.Int64
	maxInflight atomic.Int64
	sent        atomic.Int64
	failed      atomic.Int64
}

func (s *fanStat) enter() {
	n := s.inflight.Add(1)
	for {
		m := s.maxInflight.Load()
		if n <= m || s.maxInflight.CompareAndSwap(m, n) {
			return
		}
	}
}

func (s *fanStat) leave(err error) {
	s.inflight.Add(-1)
	if err != nil {
		s.failed.Add(1)
	} else {
		s.sent.Add(1)
	}
}

var fanStats sync.Map // nonce -> *fanStat

var fanSink atomic.Int64

// fanSpin burns a little CPU between two emissions so that the emitters are not all parked on the stream's lock.
func fanSpin(n int) {
	x := 0
	for i := 0; i < n; i++ {
		x += i * i
	}
	if x == -1 {
		fanSink.Add(1)
	}
}

type inCallSender interface {
	SendLogMessage(level string, message string) error
	SendProgress(progress float64, message string) error
	SendCustomNotification(method string, params map[string]interface{}) error
	SendNotification(notification *mcp.Notification) error
}

func fanTag(nonce string, w, i int) string { return nonce + "#" + strconv.Itoa(w) + "#" + strconv.Itoa(i) }

func fanAPIOf(p fanPlan, w, i int) int {
	if p.API == fanAPIMixed {
		return (w + i) % 4
	}
	return p.API
}

// fanOut runs the G emitters of one plan against emit(api, w, i) behind a start barrier and joins them.
func fanOut(p fanPlan, wBase int, st *fanStat, emit func(api, w, i int) error) {
	var ready, done sync.WaitGroup
	start := make(chan struct{})
	for w := 0; w < p.G; w++ {
		ready.Add(1)
		done.Add(1)
		go func(w int) {
			defer done.Done()
			ready.Done()
			<-start
			for i := 0; i < p.Per; i++ {
				if p.Spin > 0 {
					fanSpin(p.Spin + 37*((w+i)%11))
				}
				api := fanAPIOf(p, w, i)
				st.enter()
				err := emit(api, wBase+w, i)
				st.leave(err)
			}
		}(w)
	}
	ready.Wait()
	close(start)
	done.Wait()
}

func fanNum(m map[string]interface{}, k string) int {
	f, _ := m[k].(float64)
	return int(f)
}

func registerFanout(in *kit.Instance) {
	in.RegisterTool(mcp.NewTool("fanout", mcp.WithString("nonce"), mcp.WithNumber("g"), mcp.WithNumber("per"), mcp.WithNumber("spin"), mcp.WithNumber("api")),
		func(ctx context.Context, req *mcp.CallToolRequest) (*mcp.CallToolResult, error) {
			a := req.Params.Arguments
			p := fanPlan{G: fanNum(a, "g"), Per: fanNum(a, "per"), Spin: fanNum(a, "spin"), API: fanNum(a, "api")}
			p.Nonce, _ = a["nonce"].(string)
			st := &fanStat{}
			if v, ok := fanStats.Load(p.Nonce); ok {
				st = v.(*fanStat)
			}
			got, ok := mcp.GetNotificationSender(ctx)
			if !ok {
				return mcp.NewTextResult(fmt.Sprintf(`{"nonce":%q,"emitted":-1,"failed":0,"of":%d}`, p.Nonce, p.G*p.Per)), nil
			}
			var sender inCallSender = got
			fanOut(p, 0, st, func(api, w, i int) error {
				tag := fanTag(p.Nonce, w, i)
				switch api {
				case 0:
					return sender.SendProgress(float64(i), tag)
				case 1:
					return sender.SendLogMessage("info", tag)
				case 2:
					return sender.SendCustomNotification(fanMethodC, map[string]interface{}{"tag": tag, "w": w, "i": i})
				default:
					return sender.SendNotification(mcp.NewNotification(fanMethodN, map[string]interface{}{"tag": tag, "w": w, "i": i}))
				}
			})
			// every notification has been emitted before the handler returns
			return mcp.NewTextResult(fmt.Sprintf(`{"nonce":%q,"emitted":%d,"failed":%d,"of":%d}`, p.Nonce, st.sent.Load(), st.failed.Load(), p.G*p.Per)), nil
		})
}

// fanAcc accumulates what one observer saw of one stream / one call.
type fanAcc struct {
	mu       sync.Mutex
	nonce    string
	emitters int
	per      int

	events  int // dispatched SSE events
	idLines int
	ids     map[string]int
	dupIDs  []string
	multiID int // events carrying more than one id: line
	noID    int // events carrying none

	notifs      int
	seen        []uint8
	next        []int
	dupNotif    int
	orderBad    int
	paramsBad   int
	unknown     int
	results     int
	afterResult int
	firstBad    string
	maxLC       uint64
}

func newFanAcc(nonce string, emitters, per int) *fanAcc {
	return &fanAcc{nonce: nonce, emitters: emitters, per: per, ids: map[string]int{}, seen: make([]uint8, emitters*per), next: make([]int, emitters)}
}

func (a *fanAcc) bad(format string, v ...interface{}) {
	if a.firstBad == "" {
		a.firstBad = fmt.Sprintf(format, v...)
	}
}

func (a *fanAcc) addEventIDs(lines []string) {
	a.events++
	switch {
	case len(lines) == 0:
		a.noID++
	case len(lines) > 1:
		a.multiID++
	}
	for _, id := range lines {
		a.idLines++
		a.ids[id]++
		if a.ids[id] == 2 && len(a.dupIDs) < 5 {
			a.dupIDs = append(a.dupIDs, id)
		}
	}
}

func (a *fanAcc) dupIDCount() int { return a.idLines - len(a.ids) }

// addNotification files one received notification (method + params as the observer decoded them).
// It returns false when the notification does not belong to this accumulator's nonce.
func (a *fanAcc) addNotification(method string, params map[string]interface{}) bool {
	tag := ""
	switch method {
	case "notifications/progress":
		tag, _ = params["message"].(string)
	case "notifications/message":
		if d, ok := params["data"].(map[string]interface{}); ok {
			tag, _ = d["message"].(string)
		}
	case fanMethodC, fanMethodN:
		tag, _ = params["tag"].(string)
	}
	parts := strings.Split(tag, "#")
	if len(parts) != 3 || parts[0] != a.nonce {
		return false
	}
	w, e1 := strconv.Atoi(parts[1])
	i, e2 := strconv.Atoi(parts[2])
	if e1 != nil || e2 != nil || w < 0 || w >= a.emitters || i < 0 || i >= a.per {
		a.unknown++
		a.bad("notification with a tag nobody emitted: %q", tag)
		return true
	}
	a.notifs++
	if a.results > 0 {
		a.afterResult++
		a.bad("notification %s arrived after the result", tag)
	}
	switch method {
	case "notifications/progress":
		if params["progress"] != float64(i) {
			a.paramsBad++
			a.bad("progress notification %s: progress=%v", tag, params["progress"])
		}
	case "notifications/message":
		if params["level"] != "info" {
			a.paramsBad++
			a.bad("log notification %s: level=%v", tag, params["level"])
		}
	default:
		if params["w"] != float64(w) || params["i"] != float64(i) {
			a.paramsBad++
			a.bad("notification %s: w=%v i=%v", tag, params["w"], params["i"])
		}
	}
	k := w*a.per + i
	if a.seen[k] < 255 {
		a.seen[k]++
	}
	if a.seen[k] > 1 {
		a.dupNotif++
		a.bad("notification %s delivered more than once", tag)
	} else if i < a.next[w] {
		a.orderBad++
		a.bad("emitter %d: notification %d arrived after its notification %d", w, i, a.next[w]-1)
	}
	if i+1 > a.next[w] {
		a.next[w] = i + 1
	}
	return true
}

func (a *fanAcc) lost() int {
	n := 0
	for _, c := range a.seen {
		if c == 0 {
			n++
		}
	}
	return n
}

type fanFrame struct {
	ID     json.RawMessage        `json:"id"`
	Method string                 `json:"method"`
	Params map[string]interface{} `json:"params"`
	Result json.RawMessage        `json:"result"`
	Error  json.RawMessage        `json:"error"`
}

// fanRawCall posts one fanout call as a raw peer and reads the answer stream to its end.
func fanRawCall(ctx context.Context, c *kit.RawConn, rid int, p fanPlan) (*fanAcc, string, error) {
	body := fmt.Sprintf(`{"jsonrpc":"2.0","id":%d,"method":"tools/call","params":{"name":"fanout","arguments":{"nonce":%q,"g":%d,"per":%d,"spin":%d,"api":%d}}}`,
		rid, p.Nonce, p.G, p.Per, p.Spin, p.API)
	req, err := http.NewRequestWithContext(ctx, "POST", c.In.URL(), strings.NewReader(body))
	if err != nil {
		return nil, "", err
	}
	req.Header.Set("Content-Type", "application/json")
	req.Header.Set("Accept", "application/json, text/event-stream")
	if c.SessionID != "" {
		req.Header.Set("Mcp-Session-Id", c.SessionID)
	}
	resp, err := c.HP.Client.Do(req)
	if err != nil {
		return nil, "", err
	}
	defer resp.Body.Close()
	if resp.StatusCode != 200 || !strings.Contains(resp.Header.Get("Content-Type"), "text/event-stream") {
		return nil, "", fmt.Errorf("not an event stream: status %d, content type %q", resp.StatusCode, resp.Header.Get("Content-Type"))
	}
	acc := newFanAcc(p.Nonce, p.G, p.Per)
	resultText := ""
	sr := peer.NewSSEReader(resp.Body)
	for {
		ev, err := sr.Next()
		if err != nil {
			break // end of stream (a cut stream shows as a missing result)
		}
		acc.addEventIDs(ev.IDLines)
		var f fanFrame
		if json.Unmarshal([]byte(ev.Data), &f) != nil {
			acc.unknown++
			acc.bad("event whose data is not a JSON object")
			continue
		}
		if f.Method != "" {
			if !acc.addNotification(f.Method, f.Params) {
				acc.unknown++
				acc.bad("foreign notification %s on the call's stream", f.Method)
			}
			continue
		}
		acc.results++
		var res struct {
			Content []struct {
				Text string `json:"text"`
			} `json:"content"`
		}
		if json.Unmarshal(f.Result, &res) == nil && len(res.Content) == 1 {
			resultText = res.Content[0].Text
		}
	}
	return acc, resultText, nil
}

type fanResult struct {
	Nonce   string `json:"nonce"`
	Emitted int    `json:"emitted"`
	Failed  int    `json:"failed"`
	Of      int    `json:"of"`
}

// fanJudge applies the oracle to one finished call. observer = "post" (raw stream, ids judged) or "client".
func fanJudge(r *vh.Run, observer string, kind kit.Kind, p fanPlan, acc *fanAcc, st *fanStat, resultText string, retLC uint64) {
	sig := "C10|fanout|" + observer + "|" + string(kind)
	wit := map[string]interface{}{"plan": p, "api": fanAPINames[p.API], "events": acc.events, "notifications": acc.notifs, "id_lines": acc.idLines,
		"distinct_ids": len(acc.ids), "max_concurrent_emitters": st.maxInflight.Load(), "first": acc.firstBad}
	ok := true
	if observer == "post" {
		r.Count("fanout_post_streams", 1)
		r.Count("fanout_post_events", int64(acc.events))
		r.Count("fanout_post_id_lines", int64(acc.idLines))
		r.Count("fanout_post_distinct_ids", int64(len(acc.ids)))
		r.Count("fanout_post_events_without_id", int64(acc.noID))
		if d := acc.dupIDCount(); d > 0 {
			ok = false
			wit["duplicate_ids"] = acc.dupIDs
			r.Count("fanout_post_duplicate_ids", int64(d))
			r.Violation(sig+"|duplicate-id", fmt.Sprintf("%s: %d of %d id: lines on one POST answer stream repeat an id of the same stream (e.g. %q) - %d goroutines of the tool emitted %d notifications each (%s)",
				kind, d, acc.idLines, acc.dupIDs[0], p.G, p.Per, fanAPINames[p.API]), wit)
		}
		if acc.multiID > 0 {
			ok = false
			r.Violation(sig+"|interleaved-event", fmt.Sprintf("%s: %d events of one POST answer stream carry more than one id: line (two writers interleaved)", kind, acc.multiID), wit)
		}
	} else {
		r.Count("fanout_client_calls", 1)
		r.Count("fanout_client_notifications", int64(acc.notifs))
	}
	r.Max("fanout_max_concurrent_emitters", st.maxInflight.Load())
	var rt fanResult
	switch {
	case acc.results != 1:
		ok = false
		r.Violation(sig+"|result-count", fmt.Sprintf("%s: the call's stream carried %d results", kind, acc.results), wit)
	case json.Unmarshal([]byte(resultText), &rt) != nil || rt.Nonce != p.Nonce || rt.Of != p.G*p.Per || rt.Emitted+rt.Failed != rt.Of:
		ok = false
		r.Violation(sig+"|result-changed", fmt.Sprintf("%s: the call's result is not intact: %q", kind, resultText), wit)
	}
	if acc.afterResult > 0 {
		ok = false
		r.Violation(sig+"|after-result", fmt.Sprintf("%s: %d notifications arrived after the result (%s)", kind, acc.afterResult, acc.firstBad), wit)
	}
	if acc.unknown > 0 {
		ok = false
		r.Violation(sig+"|unknown-event", fmt.Sprintf("%s: %d events nobody emitted (%s)", kind, acc.unknown, acc.firstBad), wit)
	}
	if acc.dupNotif > 0 {
		ok = false
		r.Violation(sig+"|delivered-twice", fmt.Sprintf("%s: %d notifications delivered more than once (%s)", kind, acc.dupNotif, acc.firstBad), wit)
	}
	if acc.orderBad > 0 {
		ok = false
		r.Violation(sig+"|emitter-order", fmt.Sprintf("%s: %d notifications overtook an earlier notification of the same goroutine (%s)", kind, acc.orderBad, acc.firstBad), wit)
	}
	if acc.paramsBad > 0 {
		ok = false
		r.Violation(sig+"|params-differ", fmt.Sprintf("%s: %d notifications with changed parameters (%s)", kind, acc.paramsBad, acc.firstBad), wit)
	}
	failed := int(st.failed.Load())
	if failed > 0 {
		r.Count("fanout_sends_failed", int64(failed))
	}
	if lost := acc.lost(); lost > failed {
		ok = false
		wit["lost"] = lost
		wit["sends_failed"] = failed
		r.Violation(sig+"|lost", fmt.Sprintf("%s: %d of %d notifications never arrived (%d sends reported an error)", kind, lost, p.G*p.Per, failed), wit)
	}
	if observer == "client" && acc.maxLC >= retLC && acc.notifs > 0 {
		ok = false
		r.Violation(sig+"|after-return", fmt.Sprintf("%s: a handler ran after CallTool had returned", kind), wit)
	}
	if ok {
		overlap := st.maxInflight.Load() >= 2
		if overlap {
			r.Count("fanout_"+observer+"_streams_with_overlapping_emitters", 1)
		}
		r.Distinct(fmt.Sprintf("fanout|%s|%s|G=%d|api=%s|overlap=%v", observer, kind, p.G, fanAPINames[p.API], overlap))
	}
}

// fanoutPost: raw peer, nCalls fanout calls of about `total` notifications each, `conc` calls at a time.
func fanoutPost(r *vh.Run, kind kit.Kind, nCalls, conc, total int) {
	in := kit.Start(kind, kit.Opts{})
	defer in.Close()
	registerFanout(in)
	ctx, cancel := context.WithTimeout(context.Background(), 10*time.Minute)
	defer cancel()
	c, err := in.Dial(ctx)
	if err != nil {
		r.Fatal("fanout dial: %v", err)
	}
	defer c.Close()
	if err := c.Handshake(ctx); err != nil {
		r.Fatal("fanout handshake: %v", err)
	}
	type out struct {
		p    fanPlan
		acc  *fanAcc
		st   *fanStat
		text string
		err  error
	}
	outs := make([]out, nCalls)
	sem := make(chan struct{}, conc)
	var wg sync.WaitGroup
	for i := 0; i < nCalls; i++ {
		wg.Add(1)
		sem <- struct{}{}
		go func(i int) {
			defer wg.Done()
			defer func() { <-sem }()
			p := genFanPlan(r, fmt.Sprintf("fp-%s-%d-%d", kind, conc, i), total)
			st := &fanStat{}
			fanStats.Store(p.Nonce, st)
			defer fanStats.Delete(p.Nonce)
			acc, text, err := fanRawCall(ctx, c, 5000+i, p)
			outs[i] = out{p: p, acc: acc, st: st, text: text, err: err}
		}(i)
	}
	wg.Wait()
	for _, o := range outs {
		r.Eval(1)
		if o.err != nil {
			if ctx.Err() != nil {
				r.Inconclusive("fanout: the harness's own 10-minute context ended a call")
				continue
			}
			r.Violation("C10|fanout|post|"+string(kind)+"|call-failed", fmt.Sprintf("%s: a call whose handler emits from %d goroutines failed: %v", kind, o.p.G, o.err), map[string]interface{}{"plan": o.p})
			continue
		}
		fanJudge(r, "post", kind, o.p, o.acc, o.st, o.text, 0)
	}
	if nCalls > 0 && outs[0].acc != nil {
		o := outs[0]
		r.Sample(map[string]interface{}{"scenario": "fanout-post", "kind": string(kind), "calls": nCalls, "concurrent_calls": conc, "plan": o.p, "api": fanAPINames[o.p.API],
			"events": o.acc.events, "distinct_ids": len(o.acc.ids), "max_concurrent_emitters": o.st.maxInflight.Load(), "result": o.text})
	}
}

// fanoutClient: the same tool through the library client with handlers registered for the four methods.
func fanoutClient(r *vh.Run, kind kit.Kind, nCalls, conc, total int) {
	in := kit.Start(kind, kit.Opts{})
	defer in.Close()
	registerFanout(in)
	c, err := in.NewClient()
	if err != nil {
		r.Fatal("fanout client: %v", err)
	}
	defer c.Close()
	ctx, cancel := context.WithTimeout(context.Background(), 10*time.Minute)
	defer cancel()
	if _, err := c.Initialize(ctx, &mcp.InitializeRequest{}); err != nil {
		r.Fatal("fanout initialize: %v", err)
	}
	var mu sync.Mutex
	accs := map[string]*fanAcc{}
	strays := 0
	for _, m := range []string{"notifications/progress", "notifications/message", fanMethodC, fanMethodN} {
		m := m
		c.RegisterNotificationHandler(m, func(n *mcp.JSONRPCNotification) error {
			lc := kit.Tick()
			params := n.Params.AdditionalFields
			tag := ""
			switch m {
			case "notifications/progress":
				tag, _ = params["message"].(string)
			case "notifications/message":
				if d, ok := params["data"].(map[string]interface{}); ok {
					tag, _ = d["message"].(string)
				}
			default:
				tag, _ = params["tag"].(string)
			}
			nonce := tag
			if k := strings.IndexByte(tag, '#'); k >= 0 {
				nonce = tag[:k]
			}
			mu.Lock()
			a := accs[nonce]
			mu.Unlock()
			if a == nil {
				mu.Lock()
				strays++
				mu.Unlock()
				return nil
			}
			a.mu.Lock()
			a.addNotification(n.Method, params)
			if lc > a.maxLC {
				a.maxLC = lc
			}
			a.mu.Unlock()
			return nil
		})
	}
	type out struct {
		p     fanPlan
		acc   *fanAcc
		st    *fanStat
		text  string
		err   error
		retLC uint64
	}
	outs := make([]out, nCalls)
	sem := make(chan struct{}, conc)
	var wg sync.WaitGroup
	for i := 0; i < nCalls; i++ {
		wg.Add(1)
		sem <- struct{}{}
		go func(i int) {
			defer wg.Done()
			defer func() { <-sem }()
			p := genFanPlan(r, fmt.Sprintf("fc-%s-%d-%d", kind, conc, i), total)
			st := &fanStat{}
			fanStats.Store(p.Nonce, st)
			defer fanStats.Delete(p.Nonce)
			acc := newFanAcc(p.Nonce, p.G, p.Per)
			mu.Lock()
			accs[p.Nonce] = acc
			mu.Unlock()
			rq := &mcp.CallToolRequest{}
			rq.Params.Name = "fanout"
			rq.Params.Arguments = map[string]interface{}{"nonce": p.Nonce, "g": p.G, "per": p.Per, "spin": p.Spin, "api": p.API}
			res, err := c.CallTool(ctx, rq)
			o := out{p: p, acc: acc, st: st, err: err, retLC: kit.Tick()}
			if err == nil && len(res.Content) == 1 {
				if tc, ok := res.Content[0].(mcp.TextContent); ok {
					o.text = tc.Text
				}
			}
			outs[i] = o
		}(i)
	}
	wg.Wait()
	for _, o := range outs {
		r.Eval(1)
		if o.err != nil {
			if ctx.Err() != nil {
				r.Inconclusive("fanout: the harness's own 10-minute context ended a call")
				continue
			}
			r.Violation("C10|fanout|client|"+string(kind)+"|call-failed", fmt.Sprintf("%s: a call whose handler emits from %d goroutines failed: %v", kind, o.p.G, o.err), map[string]interface{}{"plan": o.p})
			continue
		}
		o.acc.mu.Lock()
		o.acc.results = 1 // CallTool returned a result; the text is judged below
		fanJudge(r, "client", kind, o.p, o.acc, o.st, o.text, o.retLC)
		o.acc.mu.Unlock()
	}
	if strays > 0 {
		r.Violation("C10|fanout|client|"+string(kind)+"|unknown-event", fmt.Sprintf("%s: %d notifications of no running call reached a handler", kind, strays), nil)
	}
	if nCalls > 0 && outs[0].err == nil {
		o := outs[0]
		r.Sample(map[string]interface{}{"scenario": "fanout-client", "kind": string(kind), "calls": nCalls, "concurrent_calls": conc, "plan": o.p, "api": fanAPINames[o.p.API],
			"notifications": o.acc.notifs, "max_concurrent_emitters": o.st.maxInflight.Load(), "result": o.text})
	}
}

// fanoutAsync: server-side senders from several goroutines to ONE session's asynchronous stream - the Streamable
// listening (GET) stream, or the legacy SSE stream. Only the id: lines are judged here.
func fanoutAsync(r *vh.Run, kind kit.Kind, nStreams, rounds, total int) {
	in := kit.Start(kind, kit.Opts{})
	defer in.Close()
	scen := "get"
	if kind == kit.LSSE {
		scen = "legacy"
	}
	for s := 0; s < nStreams; s++ {
		r.Eval(1)
		ctx, cancel := context.WithTimeout(context.Background(), 5*time.Minute)
		hp := peer.NewHTTPPeer()
		var stream *peer.Stream
		sessionID := ""
		var send func(method string, params map[string]interface{}) error
		if kind == kit.LSSE {
			st, re := hp.OpenStream(ctx, "GET", in.URL(), map[string]string{"Accept": "text/event-stream"}, 8192)
			if st == nil {
				cancel()
				r.Fatal("fanout legacy: stream refused: %d %s", re.Status, re.Err)
			}
			stream = st
			msgURL := ""
			select {
			case ev := <-st.Events:
				if u, err := url.Parse(ev.Data); err == nil {
					sessionID = u.Query().Get("sessionId")
					if base, err := url.Parse(in.BaseURL()); err == nil {
						msgURL = base.ResolveReference(u).String()
					}
				}
			case <-time.After(10 * time.Second):
			}
			if sessionID == "" || msgURL == "" {
				st.Close()
				cancel()
				r.Fatal("fanout legacy: no endpoint event")
			}
			// handshake (the server refuses notifications for a session that is not initialized)
			hp.Do(ctx, "POST", msgURL, map[string]string{"Content-Type": "application/json"}, kit.InitBody(`"fan-init"`, ""))
			answered := false
			wd := time.After(10 * time.Second)
			for !answered {
				select {
				case ev, ok := <-st.Events:
					if !ok {
						wd = nil
						answered = true
						sessionID = ""
					} else if strings.Contains(ev.Data, `"fan-init"`) {
						answered = true
					}
				case <-wd:
					answered = true
					sessionID = ""
				}
			}
			if sessionID == "" {
				st.Close()
				cancel()
				r.Fatal("fanout legacy: initialize was not answered")
			}
			hp.Do(ctx, "POST", msgURL, map[string]string{"Content-Type": "application/json"}, []byte(kit.InitializedBody))
			send = func(m string, p map[string]interface{}) error { return in.SSE.SendNotification(sessionID, m, p) }
		} else {
			c, err := in.Dial(ctx)
			if err != nil {
				cancel()
				r.Fatal("fanout get dial: %v", err)
			}
			if err := c.Handshake(ctx); err != nil {
				cancel()
				r.Fatal("fanout get handshake: %v", err)
			}
			sessionID = c.SessionID
			c.Close()
			st, re := hp.OpenStream(ctx, "GET", in.URL(), map[string]string{"Accept": "text/event-stream", "Mcp-Session-Id": sessionID}, 8192)
			if st == nil {
				cancel()
				r.Fatal("fanout get: listening stream refused: %d %s", re.Status, re.Err)
			}
			stream = st
			send = func(m string, p map[string]interface{}) error { return in.Server.SendNotification(sessionID, m, p) }
		}
		nonce := fmt.Sprintf("fa-%s-%d", kind, s)
		// one plan per round; the emitters of all rounds are numbered consecutively
		plans := make([]fanPlan, rounds)
		emitters, per := 0, 0
		for k := range plans {
			plans[k] = genFanPlan(r, fmt.Sprintf("%s-r%d", nonce, k), total)
			plans[k].Nonce = nonce
			emitters += plans[k].G
			if plans[k].Per > per {
				per = plans[k].Per
			}
		}
		acc := newFanAcc(nonce, emitters, per)
		st := &fanStat{}
		// reader: files events as they come
		readerDone := make(chan struct{})
		var progress atomic.Int64
		go func() {
			defer close(readerDone)
			for ev := range stream.Events {
				acc.mu.Lock()
				acc.addEventIDs(ev.IDLines)
				var f fanFrame
				if json.Unmarshal([]byte(ev.Data), &f) == nil && f.Method != "" {
					acc.addNotification(f.Method, f.Params)
				}
				acc.mu.Unlock()
				progress.Add(1)
			}
		}()
		base := 0
		for _, p := range plans {
			fanOut(p, base, st, func(api, w, i int) error {
				return send(fanMethodC, map[string]interface{}{"tag": fanTag(nonce, w, i), "w": w, "i": i})
			})
			base += p.G
		}
		want := st.sent.Load()
		// wait until everything sent has been read, or nothing has moved for a while (watchdog, decides nothing)
		last, idle := int64(-1), 0
		for idle < 100 {
			acc.mu.Lock()
			n := int64(acc.notifs)
			acc.mu.Unlock()
			if n >= want {
				break
			}
			if cur := progress.Load(); cur != last {
				last, idle = cur, 0
			} else {
				idle++
			}
			time.Sleep(50 * time.Millisecond)
		}
		stream.Close()
		<-readerDone
		hp.Close()
		cancel()
		acc.mu.Lock()
		r.Count("fanout_"+scen+"_streams", 1)
		r.Count("fanout_"+scen+"_events", int64(acc.events))
		r.Count("fanout_"+scen+"_id_lines", int64(acc.idLines))
		r.Count("fanout_"+scen+"_distinct_ids", int64(len(acc.ids)))
		r.Count("fanout_"+scen+"_notifications_sent", want)
		r.Count("fanout_"+scen+"_notifications_read", int64(acc.notifs))
		r.Count("fanout_"+scen+"_sends_failed", st.failed.Load())
		r.Max("fanout_"+scen+"_max_concurrent_emitters", st.maxInflight.Load())
		wit := map[string]interface{}{"plans": plans, "events": acc.events, "id_lines": acc.idLines, "distinct_ids": len(acc.ids), "max_concurrent_emitters": st.maxInflight.Load()}
		ok := true
		if d := acc.dupIDCount(); d > 0 {
			ok = false
			wit["duplicate_ids"] = acc.dupIDs
			r.Violation("C10|fanout|"+scen+"|"+string(kind)+"|duplicate-id", fmt.Sprintf("%s: %d of %d id: lines on one %s stream repeat an id of the same stream (e.g. %q) while several goroutines sent notifications to the session",
				kind, d, acc.idLines, scen, acc.dupIDs[0]), wit)
		}
		if acc.multiID > 0 {
			ok = false
			r.Violation("C10|fanout|"+scen+"|"+string(kind)+"|interleaved-event", fmt.Sprintf("%s: %d events of one %s stream carry more than one id: line", kind, acc.multiID, scen), wit)
		}
		if ok && acc.idLines >= 2 {
			for _, p := range plans {
				r.Distinct(fmt.Sprintf("fanout|%s|%s|G=%d|overlap=%v", scen, kind, p.G, st.maxInflight.Load() >= 2))
			}
		}
		if s == 0 {
			r.Sample(map[string]interface{}{"scenario": "fanout-" + scen, "kind": string(kind), "streams": nStreams, "plans": plans, "events": acc.events,
				"id_lines": acc.idLines, "distinct_ids": len(acc.ids), "sent": want, "read": acc.notifs, "max_concurrent_emitters": st.maxInflight.Load()})
		}
		acc.mu.Unlock()
	}
}

// fanoutAll runs the concurrent-emitter scenarios and states what they observed.
func fanoutAll(r *vh.Run) {
	total := 4000
	fanoutPost(r, kit.SSSE, r.Pick(60, 400), 1, total)
	fanoutPost(r, kit.SLSSE, r.Pick(60, 400), 1, total)
	fanoutPost(r, kit.SSSE, r.Pick(24, 160), 3, total)
	fanoutClient(r, kit.SSSE, r.Pick(8, 64), 1, total)
	fanoutClient(r, kit.SLSSE, r.Pick(6, 48), 2, total)
	fanoutAsync(r, kit.SSSE, r.Pick(4, 32), 4, total)
	fanoutAsync(r, kit.SJSON, r.Pick(2, 16), 4, total)
	fanoutAsync(r, kit.LSSE, r.Pick(1, 4), 2, total)
	if r.Counter("fanout_post_id_lines") == 0 || r.Counter("fanout_post_streams_with_overlapping_emitters") == 0 {
		r.Inconclusive("concurrent emitters: no POST answer stream with overlapping emitters and id: lines was observed, nothing about their ids can be claimed to hold")
	}
	if r.Counter("fanout_get_id_lines") == 0 {
		r.Inconclusive("concurrent emitters: the listening stream delivered no event with an id: line, nothing about its ids can be claimed to hold")
	}
	if r.Counter("fanout_client_notifications") == 0 {
		r.Inconclusive("concurrent emitters: not one notification reached the library client's handlers")
	}
}
