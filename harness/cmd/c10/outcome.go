package main

// Handler OUTCOMES: what a client notification handler returns (nil or an error of some kind) and how long it takes
// is its own business - the statement promises that all in-call notifications reach the handler registered for their
// method, in emission order, before the call returns, "and the result still arrives", without any condition on what
// the handlers do. Every case registers handlers for a seeded subset of the three methods; every handler value looks
// its outcome up in a plan keyed by (call nonce, seq): return nil, return an error (several kinds of error values:
// plain, wrapped, io.EOF, io.ErrUnexpectedEOF, context.Canceled, context.DeadlineExceeded, a library sentinel), be
// slow (yield / sleep) and then return nil or an error. Plans: an error for every delivered notification, for the
// first, for one in the middle, for the last one before the result, for a seeded subset; slow handlers alone and
// combined with errors; nil everywhere as the baseline. One or several calls at a time on one client, stateful and
// stateless SSE answers.

import (
	"context"
	"encoding/json"
	"errors"
	"fmt"
	"io"
	"runtime"
	"sort"
	"strings"
	"sync"
	"time"

	mcp "trpc.group/trpc-go/trpc-mcp-go"

	"verifharness/lib/kit"
	"verifharness/lib/vh"
)

type outcome struct {
	Err  int // 0 = nil, 1.. = index into outcomeErrs
	Slow int // 0 = no, 1 = Gosched x8, 2 = sleep 1 ms, 3 = sleep 8 ms
}

var outcomeErrNames = []string{"nil", "plain", "wrapped", "io.EOF", "io.ErrUnexpectedEOF", "context.Canceled", "context.DeadlineExceeded", "lib-sentinel", "wrapped-EOF"}

func outcomeErr(i int, nonce string, seq int) error {
	switch i {
	case 0:
		return nil
	case 1:
		return errors.New("cannot render step")
	case 2:
		return fmt.Errorf("handler of %s #%d: %w", nonce, seq, errors.New("display gone"))
	case 3:
		return io.EOF
	case 4:
		return io.ErrUnexpectedEOF
	case 5:
		return context.Canceled
	case 6:
		return context.DeadlineExceeded
	case 7:
		return mcp.ErrResponseParsing
	default:
		return fmt.Errorf("sink closed: %w", io.EOF)
	}
}

type outcomePlan struct {
	mu       sync.Mutex
	plan     map[string]map[int]outcome // nonce -> seq -> outcome (absent = nil, fast)
	evs      map[string][]got
	errsRet  map[string]int
	slowDone map[string]int
}

func (p *outcomePlan) handler(method string) mcp.NotificationHandler {
	return func(n *mcp.JSONRPCNotification) error {
		g := got{Method: n.Method, Params: n.Params.AdditionalFields, Meta: n.Params.Meta, Seq: -1}
		tag := ""
		switch n.Method {
		case "notifications/progress":
			tag, _ = n.Params.AdditionalFields["message"].(string)
		case "notifications/message":
			if d, ok := n.Params.AdditionalFields["data"].(map[string]interface{}); ok {
				tag, _ = d["message"].(string)
			}
		default:
			g.Nonce, _ = n.Params.AdditionalFields["nonce"].(string)
			if s, ok := n.Params.AdditionalFields["seq"].(float64); ok {
				g.Seq = int(s)
			}
		}
		if parts := strings.SplitN(tag, "#", 3); len(parts) == 3 {
			g.Nonce = parts[0]
			fmt.Sscanf(parts[1], "%d", &g.Seq)
		}
		if n.Method != method {
			g.Method = "WRONG-HANDLER:" + method + "<-" + n.Method
		}
		p.mu.Lock()
		oc := p.plan[g.Nonce][g.Seq]
		p.mu.Unlock()
		switch oc.Slow {
		case 1:
			for i := 0; i < 8; i++ {
				runtime.Gosched()
			}
		case 2:
			time.Sleep(time.Millisecond)
		case 3:
			time.Sleep(8 * time.Millisecond)
		}
		// the stamp is taken when the handler is about to return: "before the call returns" is about the whole handler
		g.LC = kit.Tick()
		p.mu.Lock()
		p.evs[g.Nonce] = append(p.evs[g.Nonce], g)
		if oc.Err != 0 {
			p.errsRet[g.Nonce]++
		}
		if oc.Slow != 0 {
			p.slowDone[g.Nonce]++
		}
		p.mu.Unlock()
		return outcomeErr(oc.Err, g.Nonce, g.Seq)
	}
}

var outcomeSampled bool

var outcomeModes = []string{"err-all", "err-first", "err-middle", "err-last", "err-some", "slow-some", "slow-all", "slow+err-some", "slow-then-err-last", "all-nil"}

// outcomeScript: short scripts dominate (the positions first / middle / last are what matters), some long ones.
func outcomeScript(r *vh.Run, label string) []item {
	rng := r.Rand(label)
	n := 0
	switch rng.Intn(6) {
	case 0:
		n = 1
	case 1:
		n = 2
	case 2, 3:
		n = 3 + rng.Intn(6)
	case 4:
		n = 10 + rng.Intn(30)
	default:
		n = 40 + rng.Intn(80)
	}
	kinds := []string{"progress", "log", "custom"}
	metas := []string{"absent", "empty", "some"}
	sizes := []int{0, 1, 100, 4000, 70000}
	one := rng.Intn(4) == 0 // a script of one kind only
	k0 := kinds[rng.Intn(3)]
	out := make([]item, n)
	for i := range out {
		sz := sizes[rng.Intn(3)]
		if rng.Intn(15) == 0 {
			sz = sizes[3+rng.Intn(2)]
		}
		k := kinds[rng.Intn(3)]
		if one {
			k = k0
		}
		out[i] = item{Kind: k, Size: sz, Meta: metas[rng.Intn(3)]}
	}
	return out
}

func handlerOutcomes(r *vh.Run, kind kit.Kind, nCases int) {
	in := kit.Start(kind, kit.Opts{})
	defer in.Close()
	kit.StdFixture(in)
	registerEmit(in)
	ctx, cancel := context.WithTimeout(context.Background(), 8*time.Minute)
	defer cancel()
	methods := []string{"notifications/progress", "notifications/message", "notifications/verif"}
	short := func(m string) string { return strings.TrimPrefix(m, "notifications/") }
	for cs := 0; cs < nCases; cs++ {
		rng := r.Rand(fmt.Sprintf("c10-outcome-%s-%d", kind, cs))
		mode := outcomeModes[cs%len(outcomeModes)]
		// registrations: every non-empty subset of the three methods comes up (7 subsets, rotated against 10 modes)
		sub := 1 + (cs/len(outcomeModes)+cs)%7
		reg := map[string]bool{}
		var regNames []string
		for i, m := range methods {
			if sub&(1<<i) != 0 {
				reg[m] = true
				regNames = append(regNames, short(m))
			}
		}
		conc := 1
		if rng.Intn(4) == 0 {
			conc = 2 + rng.Intn(3)
		}
		c, err := in.NewClient()
		if err != nil {
			r.Fatal("client: %v", err)
		}
		if _, err := c.Initialize(ctx, &mcp.InitializeRequest{}); err != nil {
			c.Close()
			if ctx.Err() != nil {
				r.Inconclusive("handler outcomes: the harness's own context ended before all cases were run")
				return
			}
			r.Fatal("initialize: %v", err)
		}
		pl := &outcomePlan{plan: map[string]map[int]outcome{}, evs: map[string][]got{}, errsRet: map[string]int{}, slowDone: map[string]int{}}
		type call struct {
			nonce     string
			script    []item
			delivered []int // seqs whose method has a handler
			errSeqs   []int
			text      string
			err       error
			retLC     uint64
			posClass  string
		}
		calls := make([]*call, conc)
		for k := range calls {
			cl := &call{nonce: fmt.Sprintf("c10oc-%s-%d-%d", kind, cs, k)}
			cl.script = outcomeScript(r, cl.nonce)
			for i, it := range cl.script {
				if reg[methodOf[it.Kind]] {
					cl.delivered = append(cl.delivered, i)
				}
			}
			if len(cl.delivered) == 0 { // make sure the case exercises a handler at all
				for i, m := range methods {
					if reg[m] {
						cl.script = append(cl.script, item{Kind: []string{"progress", "log", "custom"}[i], Size: 1, Meta: "some"})
						cl.delivered = append(cl.delivered, len(cl.script)-1)
						break
					}
				}
			}
			d := cl.delivered
			p := map[int]outcome{}
			pickErr := func() int { return 1 + rng.Intn(len(outcomeErrNames)-1) }
			pickSlow := func() int { return 1 + rng.Intn(3) }
			mid := d[len(d)/2]
			if len(d) > 2 {
				mid = d[1+rng.Intn(len(d)-2)]
			}
			switch mode {
			case "err-all":
				e := pickErr()
				for _, s := range d {
					if rng.Intn(3) == 0 {
						e = pickErr()
					}
					p[s] = outcome{Err: e}
				}
			case "err-first":
				p[d[0]] = outcome{Err: pickErr()}
			case "err-middle":
				p[mid] = outcome{Err: pickErr()}
			case "err-last":
				p[d[len(d)-1]] = outcome{Err: pickErr()}
			case "err-some":
				for _, s := range d {
					if rng.Intn(3) == 0 {
						p[s] = outcome{Err: pickErr()}
					}
				}
				if len(p) == 0 {
					p[d[rng.Intn(len(d))]] = outcome{Err: pickErr()}
				}
			case "slow-some":
				for _, s := range d {
					if rng.Intn(4) == 0 {
						p[s] = outcome{Slow: pickSlow()}
					}
				}
				p[d[rng.Intn(len(d))]] = outcome{Slow: pickSlow()}
			case "slow-all":
				sl := 1
				if len(d) <= 12 {
					sl = pickSlow()
				}
				for _, s := range d {
					p[s] = outcome{Slow: sl}
				}
			case "slow+err-some":
				for _, s := range d {
					switch rng.Intn(4) {
					case 0:
						p[s] = outcome{Err: pickErr(), Slow: pickSlow()}
					case 1:
						p[s] = outcome{Slow: 1}
					}
				}
				p[d[rng.Intn(len(d))]] = outcome{Err: pickErr(), Slow: pickSlow()}
			case "slow-then-err-last":
				p[d[0]] = outcome{Slow: pickSlow()}
				p[d[len(d)-1]] = outcome{Err: pickErr(), Slow: pickSlow()}
			}
			for s, oc := range p {
				if oc.Err != 0 {
					cl.errSeqs = append(cl.errSeqs, s)
				}
			}
			sort.Ints(cl.errSeqs)
			// where the errors sit among the delivered notifications
			var pc []string
			if len(cl.errSeqs) > 0 {
				if cl.errSeqs[0] == d[0] {
					pc = append(pc, "first")
				}
				for _, s := range cl.errSeqs {
					if s != d[0] && s != d[len(d)-1] {
						pc = append(pc, "middle")
						break
					}
				}
				if cl.errSeqs[len(cl.errSeqs)-1] == d[len(d)-1] {
					pc = append(pc, "last")
				}
				if len(cl.errSeqs) == len(d) {
					pc = []string{"every"}
				}
			} else {
				pc = []string{"none"}
			}
			cl.posClass = strings.Join(pc, "+")
			pl.plan[cl.nonce] = p
			calls[k] = cl
		}
		for _, m := range methods {
			if reg[m] {
				c.RegisterNotificationHandler(m, pl.handler(m))
			}
		}
		var wg sync.WaitGroup
		for _, cl := range calls {
			wg.Add(1)
			go func(cl *call) {
				defer wg.Done()
				rq := &mcp.CallToolRequest{}
				rq.Params.Name = "emit"
				rq.Params.Arguments = map[string]interface{}{"nonce": cl.nonce, "script": cl.script}
				out, err := c.CallTool(ctx, rq)
				cl.retLC = kit.Tick()
				cl.err = err
				if err == nil && len(out.Content) == 1 {
					if tc, ok := out.Content[0].(mcp.TextContent); ok {
						cl.text = tc.Text
					}
				}
			}(cl)
		}
		wg.Wait()
		c.Close()
		for _, cl := range calls {
			r.Eval(1)
			concCls := "1"
			if conc > 1 {
				concCls = "n"
			}
			sig := fmt.Sprintf("C10|%s|handler-outcome|%s", kind, mode)
			pl.mu.Lock()
			evs := append([]got{}, pl.evs[cl.nonce]...)
			nErr, nSlow := pl.errsRet[cl.nonce], pl.slowDone[cl.nonce]
			pl.mu.Unlock()
			var gotSeq []int
			for _, e := range evs {
				gotSeq = append(gotSeq, e.Seq)
			}
			var errKinds []string
			for _, s := range cl.errSeqs {
				errKinds = append(errKinds, fmt.Sprintf("#%d:%s", s, outcomeErrNames[pl.plan[cl.nonce][s].Err]))
			}
			wit := map[string]interface{}{"kind": kind, "mode": mode, "registered": regNames, "concurrent_calls": conc, "nonce": cl.nonce,
				"script_len": len(cl.script), "to_be_delivered": cl.delivered, "handler_returns_error_at": errKinds, "handler_saw": gotSeq}
			if cl.err != nil {
				if ctx.Err() != nil {
					r.Inconclusive("handler outcomes: a call ended on the harness's own context")
					continue
				}
				r.Violation(sig+"|call-failed|errors-at="+cl.posClass, fmt.Sprintf("%s: handlers for %v, plan %s (handler errors at %v): the call emitting %d notifications did not return its result: %v (handlers saw %v)",
					kind, regNames, mode, errKinds, len(cl.script), cl.err, gotSeq), wit)
				continue
			}
			var rt struct {
				Nonce   string `json:"nonce"`
				Emitted int    `json:"emitted"`
				Of      int    `json:"of"`
			}
			if json.Unmarshal([]byte(cl.text), &rt) != nil || rt.Nonce != cl.nonce || rt.Of != len(cl.script) || rt.Emitted != len(cl.script) {
				r.Violation(sig+"|result-changed|errors-at="+cl.posClass, fmt.Sprintf("%s: plan %s: the call's result is not intact: %q", kind, mode, cl.text), wit)
				continue
			}
			ok := true
			if fmt.Sprint(gotSeq) != fmt.Sprint(cl.delivered) {
				ok = false
				r.Violation(sig+"|sequence-differs|errors-at="+cl.posClass, fmt.Sprintf("%s: handlers for %v, plan %s (handler errors at %v): handlers saw notifications %v of the call, the tool emitted %v for their methods",
					kind, regNames, mode, errKinds, gotSeq, cl.delivered), wit)
			}
			for i := 0; ok && i < len(evs); i++ {
				e, it := evs[i], cl.script[evs[i].Seq]
				switch {
				case e.Method != methodOf[it.Kind]:
					ok = false
					r.Violation(sig+"|method-differs", fmt.Sprintf("%s: plan %s: notification %d (%s) was handled as %s", kind, mode, e.Seq, methodOf[it.Kind], e.Method), wit)
				case e.LC >= cl.retLC:
					ok = false
					r.Violation(sig+"|after-return|errors-at="+cl.posClass, fmt.Sprintf("%s: plan %s: the handler for notification %d finished after CallTool had returned", kind, mode, e.Seq), wit)
				}
				if !ok {
					break
				}
				good := true
				switch it.Kind {
				case "progress":
					good = e.Params["message"] == fmt.Sprintf("%s#%d#%s", cl.nonce, e.Seq, pad(it.Size)) && e.Params["progress"] == float64(e.Seq)
				case "log":
					d, _ := e.Params["data"].(map[string]interface{})
					good = e.Params["level"] == "info" && d != nil && d["message"] == fmt.Sprintf("%s#%d#%s", cl.nonce, e.Seq, pad(it.Size))
				default:
					good = e.Params["pad"] == pad(it.Size) && e.Params["nonce"] == cl.nonce
					if it.Meta == "some" {
						good = good && e.Meta["progressToken"] == "tok-"+cl.nonce && e.Meta["n"] == float64(e.Seq)
					} else {
						good = good && len(e.Meta) == 0
					}
				}
				if !good {
					ok = false
					r.Violation(sig+"|params-differ|kind="+it.Kind, fmt.Sprintf("%s: plan %s: parameters / _meta of notification %d (%s) are not what the tool emitted", kind, mode, e.Seq, it.Kind), wit)
				}
			}
			if !ok {
				continue
			}
			if nErr != len(cl.errSeqs) { // the plan was not carried out as meant: nothing to claim about it
				r.Count("outcome_plans_not_carried_out", 1)
				continue
			}
			r.Count("outcome_notifications_checked", int64(len(evs)))
			r.Count("outcome_handler_errors_returned", int64(nErr))
			r.Count("outcome_slow_handler_runs", int64(nSlow))
			r.Count("outcome_calls_"+mode, 1)
			r.Distinct(fmt.Sprintf("outcome|%s|%s|errors-at=%s|registered=%s|calls=%s", kind, mode, cl.posClass, strings.Join(regNames, "+"), concCls))
			for _, s := range cl.errSeqs {
				r.Distinct(fmt.Sprintf("outcome-error|%s|%s|%s", kind, cl.script[s].Kind, outcomeErrNames[pl.plan[cl.nonce][s].Err]))
			}
			if !outcomeSampled && nErr > 0 {
				outcomeSampled = true
				r.Sample(map[string]interface{}{"scenario": "handler-outcomes", "kind": kind, "mode": mode, "registered": regNames, "script_len": len(cl.script),
					"handler_returned_error_at": errKinds, "handler_saw": gotSeq, "result": cl.text})
			}
		}
	}
}
