#!/usr/bin/env python3-vt
"""C18 reference oracle: JSON Schema Draft 2020-12 judgements, independent of the library under test.

One long-lived process. Reads NDJSON requests on stdin
    {"id": ..., "schema": <any JSON>, "instance": <any JSON>?, "instances": [<any JSON>, ...]?}
and answers one NDJSON line per request
    {"id": ..., "meta_ok": bool, "meta_err": str,
     "refs_total": int, "dangling_refs": [str, ...],
     "instance_ok": bool, "instance_err": str, "instance_ref_error": bool,
     "instance_results": [{"ok": bool, "err": str, "ref_error": bool}, ...]}

(1) the document is validated against the 2020-12 meta-schema;
(2) every "$ref" found at a schema position is resolved as a JSON pointer INSIDE the document
    ("#" or "#/..."); anything else, or a pointer that leads nowhere, is dangling;
(3) each instance is validated with Draft202012Validator against the document with an empty
    registry (local references only; "format" is an annotation, as the draft says).
"""
import json
import sys
from urllib.parse import unquote

from jsonschema import Draft202012Validator
from jsonschema import exceptions as jexc
from referencing import Registry
from referencing import exceptions as rexc

sys.setrecursionlimit(20000)

META = Draft202012Validator.META_SCHEMA
META_VALIDATOR = Draft202012Validator(META)

# keywords whose value is a schema / a list of schemas / a map name -> schema (2020-12 applicators)
SCHEMA_KW = ("items", "additionalProperties", "not", "if", "then", "else", "contains",
             "propertyNames", "unevaluatedItems", "unevaluatedProperties", "contentSchema")
LIST_KW = ("allOf", "anyOf", "oneOf", "prefixItems")
MAP_KW = ("properties", "patternProperties", "$defs", "definitions", "dependentSchemas")


def walk_refs(node, out, depth=0):
    """Collect the $ref values at schema positions."""
    if not isinstance(node, dict) or depth > 2000:
        return
    ref = node.get("$ref")
    if ref is not None:
        out.append(ref)
    for k in SCHEMA_KW:
        if k in node:
            walk_refs(node[k], out, depth + 1)
    for k in LIST_KW:
        v = node.get(k)
        if isinstance(v, list):
            for s in v:
                walk_refs(s, out, depth + 1)
    for k in MAP_KW:
        v = node.get(k)
        if isinstance(v, dict):
            for s in v.values():
                walk_refs(s, out, depth + 1)


def resolve_local(doc, ref):
    """True when ref is a same-document JSON pointer (RFC 6901, URI fragment form) that resolves."""
    if not isinstance(ref, str) or not ref.startswith("#"):
        return False
    frag = unquote(ref[1:])
    if frag == "":
        return True
    if not frag.startswith("/"):
        return False  # plain-name fragment: would need an $anchor, which the generators never emit
    cur = doc
    for tok in frag[1:].split("/"):
        tok = tok.replace("~1", "/").replace("~0", "~")
        if isinstance(cur, dict):
            if tok not in cur:
                return False
            cur = cur[tok]
        elif isinstance(cur, list):
            if not tok.isdigit() or int(tok) >= len(cur):
                return False
            cur = cur[int(tok)]
        else:
            return False
    return True


def short(s, n=400):
    s = str(s)
    return s if len(s) <= n else s[:n] + "..."


def check_instance(validator, inst):
    try:
        err = next(iter(validator.iter_errors(inst)), None)
    except (rexc.Unresolvable, jexc._WrappedReferencingError) as e:  # unresolvable reference hit
        return {"ok": False, "err": "unresolvable reference: " + short(e), "ref_error": True}
    except RecursionError:
        return {"ok": False, "err": "reference cycle: validation does not terminate", "ref_error": True}
    except Exception as e:  # broken schema (e.g. a keyword of the wrong type)
        return {"ok": False, "err": "validator error: " + type(e).__name__ + ": " + short(e), "ref_error": False}
    if err is None:
        return {"ok": True, "err": "", "ref_error": False}
    where = "/".join(str(p) for p in err.absolute_path)
    kw = "/".join(str(p) for p in err.absolute_schema_path)
    return {"ok": False, "err": short("at /%s: %s [schema path %s]" % (where, err.message, kw)), "ref_error": False}


def handle(req):
    out = {"id": req.get("id"), "meta_ok": True, "meta_err": "", "refs_total": 0, "dangling_refs": [],
           "instance_ok": True, "instance_err": "", "instance_ref_error": False, "instance_results": []}
    doc = req.get("schema")
    if not isinstance(doc, (dict, bool)):
        out["meta_ok"] = False
        out["meta_err"] = "document is not a JSON Schema (neither object nor boolean)"
    else:
        try:
            err = next(iter(META_VALIDATOR.iter_errors(doc)), None)
            if err is not None:
                out["meta_ok"] = False
                out["meta_err"] = short("at /%s: %s" % ("/".join(str(p) for p in err.absolute_path), err.message))
        except Exception as e:
            out["meta_ok"] = False
            out["meta_err"] = "meta validation error: " + type(e).__name__ + ": " + short(e)
    refs = []
    walk_refs(doc, refs)
    out["refs_total"] = len(refs)
    seen = set()
    for r in refs:
        key = r if isinstance(r, str) else json.dumps(r)
        if key in seen:
            continue
        seen.add(key)
        if not resolve_local(doc, r):
            out["dangling_refs"].append(key)
    instances = []
    if "instance" in req:
        instances.append(req["instance"])
    instances.extend(req.get("instances") or [])
    if instances:
        if not isinstance(doc, (dict, bool)):
            res = [{"ok": False, "err": "no schema document", "ref_error": False} for _ in instances]
        else:
            validator = Draft202012Validator(doc, registry=Registry())
            res = [check_instance(validator, i) for i in instances]
        out["instance_results"] = res
        for r in res:
            if not r["ok"]:
                out["instance_ok"] = False
                out["instance_err"] = r["err"]
                out["instance_ref_error"] = r["ref_error"]
                break
    return out


def main():
    for line in sys.stdin:
        line = line.strip()
        if not line:
            continue
        try:
            req = json.loads(line)
        except Exception as e:
            sys.stdout.write(json.dumps({"id": None, "fatal": "bad request: " + short(e)}) + "\n")
            sys.stdout.flush()
            continue
        try:
            ans = handle(req)
        except Exception as e:  # never die on one request
            ans = {"id": req.get("id"), "fatal": type(e).__name__ + ": " + short(e)}
        sys.stdout.write(json.dumps(ans) + "\n")
        sys.stdout.flush()


if __name__ == "__main__":
    main()
