package main

import (
	"bufio"
	"crypto/sha256"
	"encoding/json"
	"fmt"
	"io"
	"os"
	"os/exec"
	"path/filepath"
	"sync"
	"sync/atomic"
	"time"

	"verifharness/lib/vh"
)

// oracleAns is one answer of the Python reference oracle (see oracle.py).
type oracleAns struct {
	ID               int64    `json:"id"`
	Fatal            string   `json:"fatal,omitempty"`
	MetaOK           bool     `json:"meta_ok"`
	MetaErr          string   `json:"meta_err"`
	RefsTotal        int      `json:"refs_total"`
	DanglingRefs     []string `json:"dangling_refs"`
	InstanceOK       bool     `json:"instance_ok"`
	InstanceErr      string   `json:"instance_err"`
	InstanceRefError bool     `json:"instance_ref_error"`
	InstanceResults  []struct {
		OK       bool   `json:"ok"`
		Err      string `json:"err"`
		RefError bool   `json:"ref_error"`
	} `json:"instance_results"`
}

type oracleReq struct {
	ID        int64             `json:"id"`
	Schema    json.RawMessage   `json:"schema"`
	Instances []json.RawMessage `json:"instances,omitempty"`
}

type oracleProc struct {
	cmd     *exec.Cmd
	in      io.WriteCloser
	w       *bufio.Writer
	wmu     sync.Mutex
	pmu     sync.Mutex
	pending map[int64]chan oracleAns
	dead    atomic.Bool
}

// oraclePool is a small fixed set of long-lived oracle processes (requests are spread round-robin).
type oraclePool struct {
	procs []*oracleProc
	next  atomic.Int64
	ids   atomic.Int64
	cmu   sync.Mutex
	cache map[[32]byte]oracleAns // identical question (document + instances) -> answer
	hits  atomic.Int64
}

func startOracle(r *vh.Run, n int) *oraclePool {
	script := filepath.Join(vh.VerifDir, "harness", "cmd", "c18", "oracle.py")
	if _, err := os.Stat(script); err != nil {
		r.Fatal("oracle script: %v", err)
	}
	pool := &oraclePool{cache: map[[32]byte]oracleAns{}}
	for i := 0; i < n; i++ {
		cmd := exec.Command("python3-vt", script)
		stdin, err := cmd.StdinPipe()
		if err != nil {
			r.Fatal("oracle stdin: %v", err)
		}
		stdout, err := cmd.StdoutPipe()
		if err != nil {
			r.Fatal("oracle stdout: %v", err)
		}
		errF, _ := os.Create(filepath.Join(r.OutDir, fmt.Sprintf("oracle-%d.stderr", i)))
		cmd.Stderr = errF
		if err := cmd.Start(); err != nil {
			r.Fatal("start oracle (python3-vt %s): %v", script, err)
		}
		p := &oracleProc{cmd: cmd, in: stdin, w: bufio.NewWriterSize(stdin, 1<<20), pending: map[int64]chan oracleAns{}}
		go func() {
			sc := bufio.NewScanner(stdout)
			sc.Buffer(make([]byte, 1<<20), 512<<20)
			for sc.Scan() {
				var a oracleAns
				if err := json.Unmarshal(sc.Bytes(), &a); err != nil {
					continue
				}
				p.pmu.Lock()
				ch := p.pending[a.ID]
				delete(p.pending, a.ID)
				p.pmu.Unlock()
				if ch != nil {
					ch <- a
				}
			}
			p.dead.Store(true)
			p.pmu.Lock()
			for id, ch := range p.pending {
				ch <- oracleAns{ID: id, Fatal: "oracle process ended"}
				delete(p.pending, id)
			}
			p.pmu.Unlock()
		}()
		pool.procs = append(pool.procs, p)
	}
	return pool
}

// Ask sends one request and waits for its answer.
func (o *oraclePool) Ask(schema json.RawMessage, instances []json.RawMessage) (oracleAns, error) {
	h := sha256.New()
	h.Write(schema)
	for _, i := range instances {
		h.Write([]byte{0})
		h.Write(i)
	}
	var key [32]byte
	copy(key[:], h.Sum(nil))
	o.cmu.Lock()
	if a, ok := o.cache[key]; ok {
		o.cmu.Unlock()
		o.hits.Add(1)
		return a, nil
	}
	o.cmu.Unlock()
	a, err := o.ask(schema, instances)
	if err == nil {
		o.cmu.Lock()
		o.cache[key] = a
		o.cmu.Unlock()
	}
	return a, err
}

func (o *oraclePool) ask(schema json.RawMessage, instances []json.RawMessage) (oracleAns, error) {
	p := o.procs[int(o.next.Add(1))%len(o.procs)]
	if p.dead.Load() {
		return oracleAns{}, fmt.Errorf("oracle process is gone")
	}
	id := o.ids.Add(1)
	b, err := json.Marshal(oracleReq{ID: id, Schema: schema, Instances: instances})
	if err != nil {
		return oracleAns{}, err
	}
	ch := make(chan oracleAns, 1)
	p.pmu.Lock()
	p.pending[id] = ch
	p.pmu.Unlock()
	p.wmu.Lock()
	_, err = p.w.Write(append(b, '\n'))
	if err == nil {
		err = p.w.Flush()
	}
	p.wmu.Unlock()
	if err != nil {
		return oracleAns{}, err
	}
	select {
	case a := <-ch:
		if a.Fatal != "" {
			return a, fmt.Errorf("oracle: %s", a.Fatal)
		}
		return a, nil
	case <-time.After(300 * time.Second):
		return oracleAns{}, fmt.Errorf("oracle did not answer within 300 s")
	}
}

// Close ends the oracle processes.
func (o *oraclePool) Close() {
	for _, p := range o.procs {
		p.in.Close()
		done := make(chan struct{})
		go func(p *oracleProc) { p.cmd.Wait(); close(done) }(p)
		select {
		case <-done:
		case <-time.After(5 * time.Second):
			p.cmd.Process.Kill()
		}
	}
}

// selfTest checks that the oracle judges a handful of hand-made documents as the draft says; a
// wrong answer is a harness error.
func (o *oraclePool) selfTest(r *vh.Run) {
	type tc struct {
		name     string
		schema   string
		inst     string
		meta     bool
		dangling int
		instOK   bool
	}
	cases := []tc{
		{"plain-ok", `{"type":"object","properties":{"a":{"type":"integer"}},"required":["a"]}`, `{"a":1}`, true, 0, true},
		{"plain-reject", `{"type":"object","properties":{"a":{"type":"integer"}},"required":["a"]}`, `{"a":"x"}`, true, 0, false},
		{"meta-bad", `{"type":"objekt"}`, `{}`, false, 0, true},
		{"meta-bad-required", `{"type":"object","required":"a"}`, ``, false, 0, true},
		{"defs-ok", `{"type":"object","$ref":"#/$defs/T","$defs":{"T":{"type":"object","properties":{"n":{"$ref":"#/$defs/T"}}}}}`, `{"n":{"n":{}}}`, true, 0, true},
		{"defs-dangling", `{"$ref":"#/$defs/missing","$defs":{}}`, `{}`, true, 1, false},
		{"slash-key-raw", `{"$ref":"#/$defs/a/b","$defs":{"a/b":{"type":"object"}}}`, ``, true, 1, true},
		{"slash-key-escaped", `{"$ref":"#/$defs/a~1b","$defs":{"a/b":{"type":"object"}}}`, `{}`, true, 0, true},
		{"nested-ref", `{"type":"object","properties":{"a":{"type":"object","properties":{"x":{"type":"integer"}}},"b":{"$ref":"#/properties/a"}}}`, `{"a":{"x":1},"b":{"x":"no"}}`, true, 0, false},
		{"root-ref", `{"type":"object","properties":{"next":{"anyOf":[{"$ref":"#"},{"type":"null"}]}}}`, `{"next":{"next":null}}`, true, 0, true},
		{"remote-ref", `{"$ref":"http://example.invalid/x.json"}`, ``, true, 1, true},
		{"base64-string-vs-array", `{"type":"array","items":{"type":"integer"}}`, `"AAEC"`, true, 0, false},
		{"addl-false", `{"type":"object","properties":{"a":{}},"additionalProperties":false}`, `{"b":1}`, true, 0, false},
		{"property-named-ref", `{"type":"object","properties":{"$ref":{"type":"string"}}}`, `{"$ref":"x"}`, true, 0, true},
	}
	for _, c := range cases {
		var inst []json.RawMessage
		if c.inst != "" {
			inst = []json.RawMessage{json.RawMessage(c.inst)}
		}
		a, err := o.Ask(json.RawMessage(c.schema), inst)
		if err != nil {
			r.Fatal("oracle self-test %s: %v", c.name, err)
		}
		if a.MetaOK != c.meta || len(a.DanglingRefs) != c.dangling || (c.inst != "" && c.meta && c.dangling == 0 && a.InstanceOK != c.instOK) {
			r.Fatal("oracle self-test %s: got meta_ok=%v (%s) dangling=%v instance_ok=%v (%s)", c.name, a.MetaOK, a.MetaErr, a.DanglingRefs, a.InstanceOK, a.InstanceErr)
		}
	}
	r.Count("oracle_selftest_cases", int64(len(cases)))
}
