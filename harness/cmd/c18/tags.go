package main

// Stage 2t: the json struct tag is parsed the way encoding/json parses it. A family of tag SHAPES
// (option order permutations, unknown / repeated / empty options, options that only look like
// ",string", names that are empty, "-", "-,", valid and invalid for encoding/json, other keys before
// and after the json key, malformed tag strings, seeded random option lists) is crossed with the
// KINDS the ",string" option applies to (string, integers, floats, bool, named types of these kinds,
// json.Number, unnamed pointers to them) and the kinds where encoding/json ignores it (struct, slice,
// array, map, interface, pointer to pointer, named pointer types, json.Marshaler / TextMarshaler
// types, []byte, time.Time, json.RawMessage). The types are built with reflect.StructOf, so any tag
// text can be written. Nothing about the tag is computed for the verdict: the names are the keys
// json.Marshal writes for the populated value, the instance is that encoding, and the ordinary
// pipeline (eval.go) judges the schema of every style. What encoding/json did with a cell (name from
// the tag / Go name / dropped, value quoted or not) is observed from its output and only counted.

import (
	"encoding/json"
	"fmt"
	"os"
	"sort"
	"strings"

	"verifharness/lib/vh"
)

type tagShape struct {
	Fam   string // options | lookalike | name | keys | malformed | random
	Tmpl  string // the whole struct tag; %N stands for a name unique inside the struct
	Fixed bool   // the tag gives every field the same valid JSON name: one such field per struct
}

func (s *tagShape) label() string {
	l := strings.ReplaceAll(s.Tmpl, "%N", "N")
	l = strings.ReplaceAll(l, "|", "(bar)")
	l = strings.ReplaceAll(l, `"`, "''") // (run_seeded.sh cuts signatures at the first double quote)
	l = strings.ReplaceAll(l, "\t", "(tab)")
	l = strings.ReplaceAll(l, "\n", "(nl)")
	return l
}

func (s *tagShape) tag(i int) string {
	return strings.ReplaceAll(s.Tmpl, "%N", fmt.Sprintf("q%d", i))
}

type tagKind struct {
	Label string
	T     TSpec
	Emb   string // "sval" / "sptr": the field is an embedded struct (by value / through a pointer) carrying the tag
}

// field builds the i-th field of a struct for the cell.
func (c tagCell) field(i int) FSpec {
	f := FSpec{Name: fmt.Sprintf("F%d", i), Mode: "rawtag", RawTag: c.S.tag(i), T: cloneT(c.K.T)}
	if c.K.Emb != "" {
		f.Mode, f.Emb = "tagged", c.K.Emb
	}
	return f
}

func pT(t TSpec) TSpec  { return TSpec{K: "ptr", E: &t} }
func cT(n string) TSpec { return TSpec{K: "corpus:" + n} }

// tagKinds lists the field types of the family. Types with a pointer-receiver marshalling method are
// left out (held by value they have two encodings, see marshal.go); every struct type occurs once, so
// that no style has a reason to share a definition between two fields of one group.
func tagKinds() []tagKind {
	var out []tagKind
	add := func(l string, t TSpec) { out = append(out, tagKind{Label: l, T: t}) }
	for _, k := range primOrder {
		add(k, TSpec{K: k})
	}
	for _, k := range []string{"int", "string", "bool", "float64", "uint8", "int64"} {
		add("*"+k, pT(TSpec{K: k}))
	}
	add("json.Number", TSpec{K: "jsonnumber"})
	add("*json.Number", pT(TSpec{K: "jsonnumber"}))
	for _, n := range []string{"NInt", "NStr", "NBool", "NFloat", "NByte"} {
		add("named:"+n, cT(n))
	}
	add("*named:NInt", pT(cT("NInt")))
	add("*named:NBool", pT(cT("NBool")))
	// kinds where encoding/json ignores the option
	add("struct", TSpec{K: "struct", F: []FSpec{plainField("A", TSpec{K: "int"})}})
	add("*struct", pT(TSpec{K: "struct", F: []FSpec{plainField("B", TSpec{K: "string"})}}))
	add("compiled-struct", cT("Leaf"))
	add("[]int", TSpec{K: "slice", E: &TSpec{K: "int"}})
	add("[]string", TSpec{K: "slice", E: &TSpec{K: "string"}})
	add("[]*int", TSpec{K: "slice", E: ptrTo(pT(TSpec{K: "int"}))})
	add("*[]int", pT(TSpec{K: "slice", E: &TSpec{K: "int"}}))
	add("[2]int", TSpec{K: "array", N: 2, E: &TSpec{K: "int"}})
	add("[2]bool", TSpec{K: "array", N: 2, E: &TSpec{K: "bool"}})
	add("map[string]int", TSpec{K: "map", E: &TSpec{K: "int"}})
	add("map[string]*bool", TSpec{K: "map", E: ptrTo(pT(TSpec{K: "bool"}))})
	add("interface{}", TSpec{K: "iface"})
	add("[]byte", TSpec{K: "bytes"})
	add("time.Time", TSpec{K: "time"})
	add("json.RawMessage", TSpec{K: "raw"})
	add("**int", pT(pT(TSpec{K: "int"})))
	add("**string", pT(pT(TSpec{K: "string"})))
	add("**bool", pT(pT(TSpec{K: "bool"})))
	for _, n := range []string{"PInt", "PStr", "PBool", "PFloat"} {
		add("named-pointer:"+n, cT(n))
	}
	add("json.Marshaler:JM", TSpec{K: "jm"})
	for _, n := range []string{"JVInt", "JVStr", "JVBool", "JVFloat", "BVInt", "JVByte"} {
		add("json.Marshaler:"+n, cT(n))
	}
	add("*json.Marshaler:JVInt", pT(cT("JVInt")))
	add("*json.Marshaler:JVBool", pT(cT("JVBool")))
	for _, n := range []string{"TVInt", "TVStr", "TVBool", "TVFloat", "TVByte"} {
		add("TextMarshaler:"+n, cT(n))
	}
	add("*TextMarshaler:TVInt", pT(cT("TVInt")))
	// an embedded struct carrying the tag: with a name encoding/json accepts it is an ordinary member, otherwise its
	// fields are promoted (and the options mean nothing)
	out = append(out, tagKind{Label: "embedded-struct", Emb: "sval", T: TSpec{K: "struct", F: []FSpec{plainField("EA", TSpec{K: "int"})}}})
	out = append(out, tagKind{Label: "embedded-*struct", Emb: "sptr", T: TSpec{K: "struct", F: []FSpec{plainField("EB", TSpec{K: "string"})}}})
	return out
}

// the option lists written after the name
var tagOptionLists = []string{
	",string", ",omitempty,string", ",string,omitempty",
	",omitzero,string", ",string,omitzero", ",omitempty,omitzero,string", ",string,omitempty,omitzero", ",omitempty,string,omitzero",
	",omitzero,omitempty,string", ",string,omitzero,omitempty", ",omitzero,string,omitempty",
	",foo,string", ",string,foo", ",foo,string,bar", ",foo,bar,string", ",string,foo,bar", ",omitempty,foo,string", ",string,foo,omitempty", ",foo,string,omitempty",
	",string,string", ",string,omitempty,string", ",string,string,omitempty", ",omitempty,string,string",
	",,string", ",string,", ",,string,,", ",,,string", ",string,,omitempty", ",omitempty,,string", ",,omitempty,,string,,",
	",-,string", ",string,-", ",inline,string", ",string,inline",
	"", ",", ",,", ",omitempty", ",omitempty,omitempty", ",omitzero", ",foo", ",omitempty,foo", ",foo,omitempty",
}

// option lists that are NOT the string option although they look like it
var tagLookalikes = []string{
	", string", ",string ", ", string ", ",omitempty, string", ", string,omitempty", ",string ,omitempty", ",omitempty,string ",
	",String", ",STRING", ",sTring", ",omitempty,String", ",String,omitempty",
	",strings", ",xstring", ",string2", ",omitempty,xstring", ",xstring,omitempty", ",stringx,omitempty", ",omitemptystring", ",stringomitempty",
	",string;omitempty", ",omitempty;string", ",string=true", ",string:true", ",str", ",quoted", ",string.", ",.string",
	// ... next to the real one
	",String,string", ",string,String", ", string,string", ",string, string", ",xstring,string", ",string,xstring",
	", omitempty,string", ",string, omitempty", ",Omitempty,string", ",string,OMITEMPTY",
}

// names encoding/json accepts (isValidTag: letters, digits and !#$%&()*+-./:;<=>?@[]^_{|}~ and space)
var tagValidNames = []string{
	"%N", "%N n", " %N", "%N ", "%Nñ", "名前%N", "%N٣", "Ω%N", "%N.n", "%N-n", "%N_n", "%N$n", "%N:n", "%N;n", "%N=n", "%N[0]", "%N{n}", "%N|n", "%N@n",
	"%N#n", "%N?n", "%N&n", "%N<n>", "%N*n", "%N+n", "%N^n", "%N(n)", "%N!n", "%N!#$&()*+-.:;<=>?@[]^_{|} n", "-%N", "%N-", "string%N", "omitempty%N", "%Nstring",
	"9%N", "%N/n", "%N~n", "%N%n",
}

// names it rejects (the field then goes by its Go name; the options still apply). Written the way
// they appear inside the quoted tag value.
var tagInvalidNames = []string{
	`%N'n`, `%N\"n`, `%N\\n`, "%N`n", `%N\tn`, `%N\nn`, "%N\u20acn", "%N\u00a0n", "%N\U0001F600n", "%Ne\u0301", `'%N'`, `\"%N\"`, "%N\u00a7", "%N\u200bn", "%N\u2026", "%N\u2013n",
	"\u00ab%N\u00bb", "%N\u2032", `%N\u0000n`, "%N\u00a9", "%N\u00b0", "%N\u2116",
}

// names every field of a struct would share (one field per struct)
var tagFixedNames = []string{"-,", "--", "- ", " ", "string", "omitempty", "-.", ",-"}

var tagNameSuffixes = []string{"", ",string", ",string,omitempty", ",omitempty", ",omitempty,string"}

func tagShapes() []tagShape {
	var out []tagShape
	for _, o := range tagOptionLists {
		out = append(out, tagShape{Fam: "options", Tmpl: `json:"%N` + o + `"`})
	}
	for _, o := range tagLookalikes {
		out = append(out, tagShape{Fam: "lookalike", Tmpl: `json:"%N` + o + `"`})
	}
	// names: empty with options, "-", valid, invalid
	for _, o := range append([]string{",", ",,string", ",string,", ",foo,string", ",string,foo"}, tagNameSuffixes[1:]...) {
		out = append(out, tagShape{Fam: "name-empty", Tmpl: `json:"` + o + `"`})
	}
	out = append(out, tagShape{Fam: "name-empty", Tmpl: `json:""`})
	out = append(out, tagShape{Fam: "name-dash", Tmpl: `json:"-"`})
	for _, n := range tagFixedNames {
		if n == ",-" {
			continue // (an option "-", not a name: listed with the options)
		}
		for _, sfx := range tagNameSuffixes {
			if n == "-," {
				sfx = strings.TrimPrefix(sfx, ",")
			}
			out = append(out, tagShape{Fam: "name-fixed", Tmpl: `json:"` + n + sfx + `"`, Fixed: true})
		}
	}
	for i, n := range tagValidNames {
		sfxs := tagNameSuffixes
		if i > 3 {
			sfxs = []string{"", ",string,omitempty"} // (the first names with every suffix)
		}
		if n == "%N" {
			continue // the options family
		}
		for _, sfx := range sfxs {
			out = append(out, tagShape{Fam: "name-valid", Tmpl: `json:"` + n + sfx + `"`})
		}
	}
	for i, n := range tagInvalidNames {
		sfxs := tagNameSuffixes
		if i > 3 {
			sfxs = []string{"", ",string,omitempty"}
		}
		for _, sfx := range sfxs {
			out = append(out, tagShape{Fam: "name-invalid", Tmpl: `json:"` + n + sfx + `"`})
		}
	}
	// other keys before / after, repeated keys, separators
	for _, o := range []string{",string", ",string,omitempty", ",omitempty,string", ""} {
		j := `json:"%N` + o + `"`
		for _, t := range []string{
			`xml:"a" ` + j, j + ` xml:"a,attr"`, `yaml:"y" ` + j + ` bson:"b,omitempty"`, `jsonx:"no" ` + j, j + ` jsonx:"no,string"`,
			`xjson:"no,string" ` + j, j + ` json:"other"`, j + ` json:"other,string"`, `xml:"a"` + j, j + `xml:"a"`, `  ` + j, j + `   `, `xml:"a"   ` + j,
			"xml:\"a\"\t" + j, j + "\txml:\"a\"", "\t" + j, "xml:\"a\"\n" + j,
			j + ` jsonschema:"description=some words"`, `jsonschema:"description=some words,required" ` + j, `jsonschema:"title=T" ` + j + ` validate:"required"`,
			`json2:"%Nz,string" ` + j, `_json:"x" ` + j, `json_:"x" ` + j, `protobuf:"varint,1,opt,name=a,json=b,string" ` + j,
		} {
			out = append(out, tagShape{Fam: "keys", Tmpl: t})
		}
	}
	for _, t := range []string{`xjson:"%N,string"`, `JSON:"%N,string"`, `Json:"%N,string,omitempty"`, `jsonx:"%N,string"`, `xml:"%N,string"`, `jsonschema:"description=only this"`,
		`json:"other%N" json:"%N,string"`, `json:"%N" json:"%N,string"`} {
		out = append(out, tagShape{Fam: "keys", Tmpl: t})
	}
	// malformed tag strings (reflect.StructTag.Get finds no json key, or finds it before the damage)
	for _, o := range []string{",string", ",string,omitempty"} {
		for _, t := range []string{
			`json:"%N` + o, `json:%N` + o, `json: "%N` + o + `"`, `json"%N` + o + `"`, `json:'%N` + o + `'`, `:"%N` + o + `"`, `json:"%N` + o + `"x`, `x json:"%N` + o + `"`,
			`%N` + o, `json :"%N` + o + `"`, `json:"%N\q` + o + `"`, `"json":"%N` + o + `"`, `json:"%N` + o + `" xml:"a`, `xml:"a json:"%N` + o + `"`, `xml:a json:"%N` + o + `"`,
			`json:"%N` + o + `",omitempty`, `json=\"%N` + o + `\"`, "json:`%N" + o + "`", `json:"%N"` + o, `json:"%N"` + ` "` + o + `"`, `,string`, `json:`, `json`, `"`, ` `,
		} {
			out = append(out, tagShape{Fam: "malformed", Tmpl: t})
		}
	}
	// no two shapes with one text
	seen := map[string]bool{}
	var uniq []tagShape
	for _, s := range out {
		if !seen[s.Tmpl] {
			seen[s.Tmpl] = true
			uniq = append(uniq, s)
		}
	}
	return uniq
}

// randomTagShapes draws option lists, names and surrounding keys from small alphabets.
func randomTagShapes(r *vh.Run, n int) []tagShape {
	rng := r.Rand("tag-shapes")
	opts := []string{"string", "string", "string", "omitempty", "omitempty", "omitzero", "foo", "", " string", "string ", "String", "xstring", "-", "inline"}
	names := append(append([]string{"%N", "%N", "%N", "%N", "", "", "%N n", "%Nñ", "-%N", "%N.n"}, tagInvalidNames[:6]...), "%N€n")
	before := []string{"", "", "", `xml:"a" `, `yaml:"y,omitempty" bson:"b" `, `jsonschema:"description=some words" `, `jsonx:"x,string" `, ` `}
	after := []string{"", "", "", ` xml:"a"`, ` jsonschema:"title=T"`, ` json:"other,string"`, `  `, ` xml:"a`}
	seen := map[string]bool{}
	var out []tagShape
	for tries := 0; len(out) < n && tries < 50*n; tries++ {
		ni := rng.Intn(len(names))
		fam := "random"
		if ni >= 10 {
			fam = "random-invalid-name" // (what was written, not what encoding/json makes of it)
		}
		t := names[ni]
		for k, no := 0, rng.Intn(5); k < no; k++ {
			t += "," + opts[rng.Intn(len(opts))]
		}
		t = before[rng.Intn(len(before))] + `json:"` + t + `"` + after[rng.Intn(len(after))]
		if seen[t] || t == `json:""` || t == `json:"-"` {
			continue
		}
		seen[t] = true
		out = append(out, tagShape{Fam: fam, Tmpl: t})
	}
	return out
}

type tagCell struct {
	S *tagShape
	K *tagKind
}

type tagGroup struct {
	Cells []tagCell
	Spec  TSpec
}

func tagGroupSpec(cells []tagCell) TSpec {
	root := TSpec{K: "struct"}
	for i, c := range cells {
		root.F = append(root.F, c.field(i+1))
	}
	root.F = append(root.F, FSpec{Name: "Z", Mode: "tagged", JName: "z", T: TSpec{K: "int"}})
	return root
}

// tagObs is what encoding/json did with one cell (observed from json.Marshal of a one-field struct).
type tagObs struct {
	Name   string // tag | go | dropped | promoted (embedded struct: its fields appear instead)
	Quoted bool   // the value is written differently from the value of the same field under a plain tag
	Key    string
	Enc    string
}

func observeTagCell(r *vh.Run, c tagCell, plain map[string]string) tagObs {
	enc := func(tag string) (string, string, bool) {
		f := c.field(1)
		f.RawTag = tag
		sp := TSpec{K: "struct", F: []FSpec{f}}
		rt, berr := buildType(&sp)
		if berr != "" {
			r.Fatal("tag family: type %s cannot be built: %s", goString(&sp), berr)
		}
		p := populate(rt, 0, 2)
		if p.Err != "" {
			r.Fatal("tag family: encoding/json cannot encode %s: %s", goString(&sp), p.Err)
		}
		var m map[string]json.RawMessage
		if err := json.Unmarshal(p.JSON, &m); err != nil || len(m) > 1 {
			r.Fatal("tag family: unexpected encoding %s of %s", p.JSON, goString(&sp))
		}
		for k, v := range m {
			return k, string(v), true
		}
		return "", "", false
	}
	if _, ok := plain[c.K.Label]; !ok {
		_, v, _ := enc(`json:"plain"`)
		plain[c.K.Label] = v
	}
	k, v, ok := enc(c.S.tag(1))
	switch {
	case !ok:
		return tagObs{Name: "dropped"}
	case k == "F1":
		return tagObs{Name: "go", Quoted: v != plain[c.K.Label], Key: k, Enc: v}
	case c.K.Emb != "" && (k == "ea" || k == "eb"):
		return tagObs{Name: "promoted", Key: k, Enc: v} // the fields of the embedded struct, not the struct
	}
	return tagObs{Name: "tag", Quoted: v != plain[c.K.Label], Key: k, Enc: v}
}

// stringNotLast: the tag text writes an option after a ",string" option (evidence only).
func stringNotLast(tmpl string) bool {
	i := strings.Index(tmpl, ",string,")
	return i >= 0
}

func runTagShapes(r *vh.Run, ev *evaluator, sampled map[string]int) {
	kinds := tagKinds()
	shapes := tagShapes()
	r.Count("tag_shapes_fixed_list", int64(len(shapes)))
	shapes = append(shapes, randomTagShapes(r, r.Pick(150, 1000))...)
	r.Count("tag_shapes", int64(len(shapes)))
	r.Count("tag_kinds", int64(len(kinds)))
	for i := range kinds {
		if _, berr := buildType(&kinds[i].T); berr != "" {
			r.Fatal("tag family: kind %s cannot be built: %s", kinds[i].Label, berr)
		}
	}
	per := r.Pick(9, 4)
	if s := envInt("C18_TAG_GROUP", 0); s > 0 {
		per = s
	}
	// observation of every cell by encoding/json alone
	plain := map[string]string{}
	obs := map[string]tagObs{}
	cellKey := func(c tagCell) string { return c.S.Tmpl + "\x00" + c.K.Label }
	effective := map[string]bool{}
	var groups []tagGroup
	rot := int(r.Seed % 21)
	for si := range shapes {
		s := &shapes[si]
		var cells []tagCell
		for ki := range kinds {
			// the option families meet every kind; the others a third of the kinds in the quick tier, the random
			// shapes a seventh (thorough: a third), rotating with seed and shape
			switch {
			case s.Fam == "options" || s.Fam == "lookalike":
			case strings.HasPrefix(s.Fam, "random"):
				if (ki+si+rot)%r.Pick(7, 3) != 0 {
					continue
				}
			case r.Quick() && (ki+si+rot)%3 != 0:
				continue
			}
			c := tagCell{s, &kinds[ki]}
			o := observeTagCell(r, c, plain)
			obs[cellKey(c)] = o
			r.Count("tag_cells_encoding_json_name_"+o.Name, 1)
			if o.Quoted {
				r.Count("tag_cells_encoding_json_quotes_the_value", 1)
				effective[kinds[ki].Label] = true
				if stringNotLast(s.Tmpl) {
					r.Count("tag_cells_quoted_with_an_option_after_string", 1)
				}
			}
			cells = append(cells, c)
		}
		n := per
		if s.Fixed {
			n = 1
		}
		for i := 0; i < len(cells); i += n {
			j := i + n
			if j > len(cells) {
				j = len(cells)
			}
			g := tagGroup{Cells: cells[i:j]}
			g.Spec = tagGroupSpec(g.Cells)
			groups = append(groups, g)
		}
	}
	for k := range effective {
		r.SetAdd("tag_kinds_where_encoding_json_applies_string", k)
	}
	for i := range kinds {
		if !effective[kinds[i].Label] {
			r.SetAdd("tag_kinds_where_encoding_json_ignores_string", kinds[i].Label)
		}
	}
	var ecs []evalCase
	for i := range groups {
		if _, berr := buildType(&groups[i].Spec); berr != "" {
			r.Fatal("tag family: group type %s cannot be built: %s", goString(&groups[i].Spec), berr)
		}
		ecs = append(ecs, evalCase{ID: fmt.Sprintf("tg-%d", i), Spec: groups[i].Spec, Styles: allStyles})
	}
	r.Count("tag_group_types", int64(len(groups)))
	res := ev.Evaluate(ecs, 100)

	type failing struct {
		g      int
		st, ck string
		rs     *evalResult
	}
	var fails []failing
	var singles []evalCase
	singleID := map[string]string{}
	singleSpec := func(c tagCell) TSpec { return tagGroupSpec([]tagCell{c}) }
	judgedQuotedNotLast := 0
	for gi := range groups {
		g := &groups[gi]
		// the group is what its cells are alone: same names, same values (harness self-check, by encoding/json)
		vs := ev.values(&g.Spec)
		var gm map[string]json.RawMessage
		if err := json.Unmarshal(vs.v0.JSON, &gm); err != nil {
			r.Fatal("tag family: %s encodes as %s", goString(&g.Spec), vs.v0.JSON)
		}
		want := 1
		for _, c := range g.Cells {
			if obs[cellKey(c)].Name != "dropped" {
				want++
			}
		}
		if len(gm) != want {
			r.Fatal("tag family: the group %s encodes %d members, its cells alone %d: %s", goString(&g.Spec), len(gm), want, vs.v0.JSON)
		}
		for _, st := range allStyles {
			rs := res[pairKey(ecs[gi].ID, st)]
			r.Eval(len(g.Cells)) // every (tag shape x kind) cell of the group is a case judged in this style
			r.Count("tag_cases", 1)
			if rs == nil || rs.Incon != "" {
				what := "no result"
				if rs != nil {
					what = rs.Incon
				}
				r.Inconclusive(fmt.Sprintf("tag family %s style=%s: %s", goString(&g.Spec), st, what))
				continue
			}
			for _, c := range g.Cells {
				o := obs[cellKey(c)]
				r.Count("tag_cells_judged", 1)
				r.Count("tag_cells_judged_family_"+c.S.Fam, 1)
				q := "plain"
				if o.Quoted {
					q = "quoted"
					if stringNotLast(c.S.Tmpl) {
						judgedQuotedNotLast++
					}
				}
				if strings.HasPrefix(c.S.Fam, "random") {
					r.Distinct(fmt.Sprintf("tags|%s|%s|name=%s|%s|%s", st, c.S.Fam, o.Name, q, c.K.Label))
				} else {
					r.Distinct("tags|" + st + "|" + c.S.label() + "|" + c.K.Label)
				}
			}
			if len(rs.Fails) == 0 {
				r.Count("tag_pass", 1)
				if sampled["tags"] < 1 && st == "defs" && strings.Contains(g.Cells[0].S.Tmpl, ",string,omitempty") && g.Cells[0].S.Fam == "options" {
					sampled["tags"]++
					r.Sample(map[string]interface{}{"stage": "tags", "style": st, "go_type": firstN(goString(&g.Spec), 900), "verdict": "pass",
						"schema": bounded(rs.Schema, 900), "instance": bounded(rs.Instances[0], 400)})
				}
				if sampled["tags-invalid"] < 1 && st == "inline" && g.Cells[0].S.Fam == "malformed" {
					sampled["tags-invalid"]++
					r.Sample(map[string]interface{}{"stage": "tags", "style": st, "go_type": firstN(goString(&g.Spec), 900), "verdict": "pass",
						"schema": bounded(rs.Schema, 600), "instance": bounded(rs.Instances[0], 300)})
				}
				continue
			}
			for _, ck := range allChecks {
				if !rs.failed(ck) {
					continue
				}
				r.Count("fail_"+ck, 1)
				fails = append(fails, failing{gi, st, ck, rs})
				if len(g.Cells) == 1 {
					continue
				}
				for _, c := range g.Cells {
					sp := singleSpec(c)
					cn := canon(&sp)
					if singleID[cn] == "" {
						singleID[cn] = fmt.Sprintf("ts-%d", len(singles))
						singles = append(singles, evalCase{ID: singleID[cn], Spec: sp, Styles: allStyles})
					}
				}
			}
		}
	}
	if judgedQuotedNotLast == 0 {
		r.Fatal("vacuous: the tag family judged no field that encoding/json quotes and whose tag writes an option after ',string'")
	}
	if r.Counter("tag_cells_encoding_json_name_go") == 0 || r.Counter("tag_cells_encoding_json_name_tag") == 0 || r.Counter("tag_cells_encoding_json_name_dropped") == 0 {
		r.Fatal("vacuous: the tag family did not see all of: name from the tag, Go name, field dropped")
	}
	if len(effective) == 0 || len(effective) == len(kinds) {
		r.Fatal("vacuous: encoding/json applies ',string' to %d of the %d kinds of the tag family", len(effective), len(kinds))
	}

	// attribution: the cells of a failing group alone
	sres := ev.Evaluate(singles, 100)
	if os.Getenv("C18_TAG_DEBUG") != "" {
		fmt.Fprintf(os.Stderr, "[c18] tag family: %d groups, %d failing (group, style, check), %d singles\n", len(groups), len(fails), len(singles))
	}
	type agg struct {
		kinds map[string]bool
		n     int
	}
	reported := map[string]*agg{}
	report := func(c tagCell, st, ck string, sp *TSpec, rs *evalResult, found string) {
		o := obs[cellKey(c)]
		sig := fmt.Sprintf("C18|tags|style=%s|family=%s|shape=%s|%s", st, c.S.Fam, c.S.label(), ck)
		if strings.HasPrefix(c.S.Fam, "random") {
			q := "plain"
			if o.Quoted {
				q = "quoted"
			}
			sig = fmt.Sprintf("C18|tags|style=%s|family=%s|encoding/json: name=%s value=%s|%s", st, c.S.Fam, o.Name, q, ck)
		}
		a := reported[sig]
		if a == nil {
			a = &agg{kinds: map[string]bool{}}
			reported[sig] = a
		}
		a.kinds[c.K.Label] = true
		a.n++
		r.Count("tag_cells_failing", 1)
		if a.n > 3 {
			return // three witnesses per signature; the note below lists the field types
		}
		w := witness("2t (tag syntax)", sp, rs, ck, map[string]interface{}{"tag": c.S.tag(1), "field_type": c.K.Label,
			"encoding_json_name": o.Name, "encoding_json_key": o.Key, "encoding_json_value_alone": firstN(o.Enc, 200), "encoding_json_quotes_the_value": o.Quoted})
		if found != "" {
			w["found_in"] = firstN(found, 1200)
		}
		r.Violation(sig, fmt.Sprintf("field of type %s tagged `%s` (encoding/json: name from %s, value %s), style %s: %s: %s", c.K.Label, c.S.tag(1),
			map[string]string{"tag": "the tag", "go": "the Go field name", "dropped": "nowhere - the field is dropped", "promoted": "nowhere - the fields of the embedded struct are promoted"}[o.Name],
			map[bool]string{true: "quoted", false: "not quoted"}[o.Quoted], st, describeCheck(ck), firstN(rs.Fails[ck], 300)), w)
		if sampled["tagsfail"] < 2 {
			sampled["tagsfail"]++
			r.Sample(map[string]interface{}{"stage": "tags", "style": st, "go_type": goString(sp), "verdict": ck, "tag": c.S.tag(1), "field_type": c.K.Label,
				"schema": bounded(rs.Schema, 600), "instance": bounded(rs.Instances[0], 300), "detail": firstN(rs.Fails[ck], 300)})
		}
	}
	for _, f := range fails {
		g := &groups[f.g]
		if len(g.Cells) == 1 {
			report(g.Cells[0], f.st, f.ck, &g.Spec, f.rs, "")
			continue
		}
		attributed := false
		for _, c := range g.Cells {
			sp := singleSpec(c)
			sr := sres[pairKey(singleID[canon(&sp)], f.st)]
			if sr == nil || sr.Incon != "" || !sr.failed(f.ck) {
				continue
			}
			attributed = true
			report(c, f.st, f.ck, &sp, sr, goString(&g.Spec))
		}
		if !attributed {
			r.Violation(fmt.Sprintf("C18|tags|style=%s|family=%s|group-interaction|%s", f.st, g.Cells[0].S.Fam, f.ck),
				fmt.Sprintf("struct of fields with one tag shape each, style %s: %s (no field fails alone): %s", f.st, describeCheck(f.ck), firstN(f.rs.Fails[f.ck], 300)),
				witness("2t (tag syntax, group)", &g.Spec, f.rs, f.ck, nil))
		}
	}
	var sigs []string
	for s := range reported {
		sigs = append(sigs, s)
	}
	sort.Strings(sigs)
	for _, s := range sigs {
		var ks []string
		for k := range reported[s].kinds {
			ks = append(ks, k)
		}
		sort.Strings(ks)
		r.Note(fmt.Sprintf("%s: %d failing cells, field types: %s", s, reported[s].n, strings.Join(ks, ", ")))
	}
}
