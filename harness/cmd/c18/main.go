// C18 — generated schemas describe what encoding/json really produces and accepts.
//
// Parent: builds struct types from a feature grammar (reflect.StructOf) plus a compiled corpus of
// recursive / generic types, has the library generate their schemas in child processes (a crash or
// a runaway generator must not kill the monitor), and judges every document with a Python
// jsonschema oracle (meta-schema, $ref resolution, instance acceptance) and with encoding/json
// itself (field names, typed binding). Stage 3 (history.go) checks that the document for a type does
// not depend on what the process generated before: one child generates a pool of kindred types in
// seeded order, repeatedly and concurrently, and every document is compared with the one of a fresh
// process. Files: spec.go (type grammar, features, tag classes, tree edits), gen.go (stage-1 corpus,
// stage-2 generator), populate.go (values inside / outside the tag zones, names oracle), eval.go
// (pipeline, fresh-process regeneration), collide.go (stage 2d: several fields at different embedding depths
// claiming one JSON name), marshal.go (stage 2m: types with MarshalJSON / MarshalText methods), tags.go (stage 2t: json tag syntax x field kinds), history.go (stage 3), child.go / bind.go (child roles),
// oracle.go + oracle.py (reference oracle), corpus/ (compiled types).
package main

import (
	"bufio"
	"bytes"
	"encoding/json"
	"fmt"
	"os"
	"path/filepath"
	"runtime"
	"sort"
	"strings"
	"time"

	"verifharness/cmd/c18/corpus"
	"verifharness/lib/kit"
	"verifharness/lib/vh"
)

func bounded(b []byte, n int) string {
	if len(b) > n {
		return string(b[:n]) + fmt.Sprintf("...(%d bytes)", len(b))
	}
	return string(b)
}

func witness(stage string, spec *TSpec, res *evalResult, check string, extra map[string]interface{}) map[string]interface{} {
	w := map[string]interface{}{
		"stage": stage, "style": res.Style, "check": check, "go_type": goString(spec),
		"features": labelOf(featuresOf(spec)), "detail": res.Fails[check], "schema": bounded(res.Schema, 1024),
	}
	if len(res.Instances) > 0 {
		w["instance"] = bounded(res.Instances[0], 600)
	}
	for k, v := range extra {
		w[k] = v
	}
	return w
}

func describeCheck(check string) string {
	switch check {
	case ckCrash:
		return "schema generation crashed"
	case ckNonterm:
		return "schema generation did not terminate"
	case ckMeta:
		return "the generated document is not a valid Draft 2020-12 schema"
	case ckRef:
		return "the generated document has a $ref that does not resolve inside the document"
	case ckNames:
		return "the schema's property names differ from the field names encoding/json uses"
	case ckInst:
		return "the schema rejects the JSON encoding of a fully populated value"
	}
	return check
}

func main() {
	kit.MaybeServeStdioChild()
	switch vh.ChildRole() {
	case "gen":
		childGen()
		return
	case "bind":
		childBind()
		return
	case "hist":
		childHist()
		return
	}
	kit.Silence()
	r := vh.NewRun("C18", "exploration")

	// witnesses of an earlier run with the same tier and seed would otherwise linger next to the new ones
	if old, _ := filepath.Glob(filepath.Join(r.OutDir, "violations", fmt.Sprintf("%s-seed%d-*.json", r.Tier, r.Seed))); len(old) > 0 {
		for _, f := range old {
			os.Remove(f)
		}
	}
	t0 := time.Now()
	phase := func(name string) {
		fmt.Fprintf(os.Stderr, "[c18] %-28s at %6.1fs\n", name, time.Since(t0).Seconds())
		r.Max("phase_ms_"+name, time.Since(t0).Milliseconds())
	}
	nProc := runtime.NumCPU() - 2
	if nProc > 14 {
		nProc = 14
	}
	if nProc < 2 {
		nProc = 2
	}
	pool := startOracle(r, nProc)
	defer pool.Close()
	pool.selfTest(r)
	ev := &evaluator{r: r, oracle: pool, cache: map[string]*evalResult{}}

	// ------------------------------------------------------------------ stage 1: every feature alone
	s1 := stage1Corpus()
	var s1cases []evalCase
	for i, c := range s1 {
		if _, berr := buildType(&c.Spec); berr != "" {
			r.Fatal("stage-1 type for feature %s cannot be built: %s", c.Feature, berr)
		}
		if l := labelOf(featuresOf(&c.Spec)); len(l) != 1 || l[0] != c.Feature {
			r.Fatal("stage-1 type for feature %s shows features %v", c.Feature, l)
		}
		s1cases = append(s1cases, evalCase{ID: fmt.Sprintf("s1-%d", i), Spec: c.Spec, Styles: allStyles})
	}
	phase("oracle-ready")
	s1res := ev.Evaluate(s1cases, 40)
	phase("stage1-evaluated")
	failed := map[string]map[string]map[string]bool{} // style -> check -> feature
	for _, st := range allStyles {
		failed[st] = map[string]map[string]bool{}
		for _, ck := range allChecks {
			failed[st][ck] = map[string]bool{}
		}
	}
	unsafeCorpus := map[string]bool{} // compiled types whose generation crashes / hangs: not registered in-process
	sampled := map[string]int{}
	for i, c := range s1 {
		for _, st := range allStyles {
			res := s1res[pairKey(s1cases[i].ID, st)]
			r.Eval(1)
			r.Count("stage1_cases", 1)
			if res.Incon != "" {
				r.Inconclusive(fmt.Sprintf("stage1 feature=%s style=%s: %s", c.Feature, st, res.Incon))
				continue
			}
			r.Distinct("s1|" + st + "|" + c.Feature)
			r.SetAdd("stage1_features", c.Feature)
			if len(res.Fails) == 0 {
				r.Count("stage1_pass", 1)
				if sampled["s1pass"] < 1 && strings.HasPrefix(c.Feature, "corpus:Tree") && st == "nested" {
					sampled["s1pass"]++
					r.Sample(map[string]interface{}{"stage": 1, "feature": c.Feature, "style": st, "go_type": goString(&c.Spec), "verdict": "pass",
						"schema": bounded(res.Schema, 1024), "instance": bounded(res.Instances[0], 400), "instance_judged": res.Judged, "refs": res.Refs})
				}
				continue
			}
			for _, ck := range allChecks {
				if !res.failed(ck) {
					continue
				}
				r.Count("fail_"+ck, 1)
				failed[st][ck][c.Feature] = true
				if (ck == ckCrash || ck == ckNonterm) && strings.HasPrefix(c.Feature, "corpus:") {
					unsafeCorpus[strings.TrimPrefix(c.Feature, "corpus:")] = true
				}
				sig := fmt.Sprintf("C18|stage1|style=%s|feature=%s|%s", st, c.Feature, ck)
				r.Violation(sig, fmt.Sprintf("feature %s alone, style %s: %s: %s", c.Feature, st, describeCheck(ck), firstN(res.Fails[ck], 300)),
					witness("1", &c.Spec, res, ck, nil))
				if sampled["s1fail"] < 1 && ck == ckInst {
					sampled["s1fail"]++
					r.Sample(map[string]interface{}{"stage": 1, "feature": c.Feature, "style": st, "go_type": goString(&c.Spec), "verdict": ck,
						"schema": bounded(res.Schema, 1024), "instance": bounded(res.Instances[0], 400), "detail": res.Fails[ck]})
				}
			}
		}
	}

	// ------------------------------------------------------------------ stage 2: random compositions
	nTypes := r.Pick(300, 5000)
	g := &gen{rng: r.Rand("stage2-types")}
	var s2specs []TSpec
	var s2cases []evalCase
	seenCanon := map[string]bool{}
	var pairOf []*pairCase
	pairs := pairCorpus()
	for i := range pairs {
		cn := canon(&pairs[i].Spec)
		if seenCanon[cn] {
			continue
		}
		seenCanon[cn] = true
		if _, berr := buildType(&pairs[i].Spec); berr != "" {
			r.Fatal("pair type %s x %s cannot be built: %s", pairs[i].A, pairs[i].B, berr)
		}
		s2cases = append(s2cases, evalCase{ID: fmt.Sprintf("s2-%d", len(s2specs)), Spec: pairs[i].Spec, Styles: allStyles})
		s2specs = append(s2specs, pairs[i].Spec)
		pairOf = append(pairOf, &pairs[i])
	}
	r.Count("stage2_pair_types", int64(len(s2specs)))
	for len(s2specs) < len(pairOf)+nTypes {
		spec := g.randomType()
		cn := canon(&spec)
		if seenCanon[cn] {
			continue
		}
		seenCanon[cn] = true
		if _, berr := buildType(&spec); berr != "" {
			r.Fatal("generated type cannot be built (%s): %s", goString(&spec), berr)
		}
		s2cases = append(s2cases, evalCase{ID: fmt.Sprintf("s2-%d", len(s2specs)), Spec: spec, Styles: allStyles})
		s2specs = append(s2specs, spec)
	}
	r.Count("stage2_random_types", int64(len(s2specs)-len(pairOf)))
	// the types of the history sessions (stage 3) are judged alone here, like every other type
	gh := &gen{rng: r.Rand("stage3-types")}
	hrng := r.Rand("stage3-plan")
	var sessions []histSession
	for i := 0; i < r.Pick(2, 10); i++ {
		pool := buildPool(hrng, gh, r.Pick(8, 10), r.Pick(5, 12))
		sessions = append(sessions, planSession(hrng, pool, r.Pick(2, 3), r.Pick(4, 8)))
		for j := range pool {
			cn := canon(&pool[j])
			if seenCanon[cn] {
				continue
			}
			seenCanon[cn] = true
			s2cases = append(s2cases, evalCase{ID: fmt.Sprintf("s2-%d", len(s2specs)), Spec: pool[j], Styles: allStyles})
			s2specs = append(s2specs, pool[j])
			r.Count("stage2_history_pool_types", 1)
		}
	}
	r.Count("types_generated", int64(len(s1)+len(s2specs)))
	s2res := ev.Evaluate(s2cases, 100)
	phase("stage2-evaluated")

	type failure struct {
		idx          int
		style, check string
		res          *evalResult
		known        []string
		stripID      string
	}
	var fails []failure
	var stripCases []evalCase
	for i := range s2specs {
		spec := &s2specs[i]
		feats := featuresOf(spec)
		label := labelOf(feats)
		depth := depthOf(spec)
		for f := range feats {
			r.SetAdd("stage2_features", f)
		}
		r.Max("stage2_depth", int64(depth))
		r.Max("stage2_features_per_type", int64(len(label)))
		for _, st := range allStyles {
			res := s2res[pairKey(s2cases[i].ID, st)]
			r.Eval(1)
			r.Count("stage2_cases", 1)
			if res.Incon != "" {
				r.Inconclusive(fmt.Sprintf("stage2 type=%s style=%s: %s", goString(spec), st, res.Incon))
				continue
			}
			if i < len(pairOf) {
				r.Distinct(fmt.Sprintf("s2pair|%s|%s|%s", st, pairOf[i].A, pairOf[i].B))
			} else {
				r.Distinct(fmt.Sprintf("s2|%s|nf=%d|d=%d", st, len(label), depth))
			}
			if len(res.Fails) == 0 {
				r.Count("stage2_pass", 1)
				if sampled["s2pass"] < 2 && len(label) >= 3 && res.Refs > 0 {
					sampled["s2pass"]++
					r.Sample(map[string]interface{}{"stage": 2, "features": label, "style": st, "go_type": goString(spec), "verdict": "pass",
						"schema": bounded(res.Schema, 1024), "instance": bounded(res.Instances[0], 400), "refs": res.Refs})
				}
				continue
			}
			for _, ck := range allChecks {
				if !res.failed(ck) {
					continue
				}
				r.Count("fail_"+ck, 1)
				f := failure{idx: i, style: st, check: ck, res: res}
				for ft := range feats {
					if failed[st][ck][ft] {
						f.known = append(f.known, ft)
					}
				}
				sort.Strings(f.known)
				if len(f.known) > 0 {
					km := map[string]bool{}
					for _, k := range f.known {
						km[k] = true
					}
					stripped := stripFeatures(spec, km)
					f.stripID = fmt.Sprintf("strip-%d", len(stripCases))
					stripCases = append(stripCases, evalCase{ID: f.stripID, Spec: stripped, Styles: []string{st}})
				}
				fails = append(fails, f)
			}
		}
	}
	stripRes := ev.Evaluate(stripCases, 200)
	phase("stage2-strip-evaluated")
	stripSpec := map[string]*TSpec{}
	for i := range stripCases {
		stripSpec[stripCases[i].ID] = &stripCases[i].Spec
	}

	// attribution: known single features first, delta debugging for whatever remains
	type ddCase struct {
		spec         TSpec
		style, check string
		origin       string
		res          *evalResult
		done         bool
		steps        int
	}
	var dd []*ddCase
	ddSeen := map[string]bool{}
	addDD := func(spec TSpec, style, check, origin string, res *evalResult) {
		k := canon(&spec) + "|" + style + "|" + check
		if ddSeen[k] {
			return
		}
		ddSeen[k] = true
		dd = append(dd, &ddCase{spec: spec, style: style, check: check, origin: origin, res: res})
	}
	for _, f := range fails {
		spec := &s2specs[f.idx]
		if len(f.known) == 0 {
			addDD(cloneT(*spec), f.style, f.check, goString(spec), f.res)
			continue
		}
		for _, ft := range f.known {
			r.Count("stage2_attributed_to_stage1", 1)
			sig := fmt.Sprintf("C18|stage1|style=%s|feature=%s|%s", f.style, ft, f.check)
			r.Violation(sig, fmt.Sprintf("feature %s inside a composed type, style %s: %s", ft, f.style, describeCheck(f.check)),
				witness("2 (attributed to the single feature)", spec, f.res, f.check, nil))
		}
		sr := stripRes[pairKey(f.stripID, f.style)]
		if sr == nil || sr.Incon != "" {
			continue
		}
		if sr.failed(f.check) {
			r.Count("stage2_fails_without_known_features", 1)
			addDD(cloneT(*stripSpec[f.stripID]), f.style, f.check, goString(spec), sr)
		}
	}
	r.Count("ddmin_cases", int64(len(dd)))
	ev.noRecheck = true
	for round := 0; round < 120; round++ {
		var cases []evalCase
		type ref struct{ k, j int }
		idx := map[string]ref{}
		cands := map[int][]TSpec{}
		for k, d := range dd {
			if d.done {
				continue
			}
			// a reduction must build and must not introduce a feature the current type does not show
			have := featuresOf(&d.spec)
			var cs []TSpec
			for _, c := range reductions(&d.spec) {
				if _, berr := buildType(&c); berr != "" {
					continue
				}
				ok := true
				for f := range featuresOf(&c) {
					if !have[f] && !carriers[f] && !standInFeature[f] {
						ok = false
						break
					}
				}
				if ok {
					cs = append(cs, c)
				}
			}
			if len(cs) == 0 {
				d.done = true
				continue
			}
			cands[k] = cs
			for j := range cs {
				id := fmt.Sprintf("dd%d-%d-%d", round, k, j)
				idx[id] = ref{k, j}
				cases = append(cases, evalCase{ID: id, Spec: cs[j], Styles: []string{d.style}})
			}
		}
		if len(cases) == 0 {
			break
		}
		r.Count("ddmin_candidates", int64(len(cases)))
		res := ev.Evaluate(cases, 200)
		for k, d := range dd {
			if d.done || cands[k] == nil {
				continue
			}
			moved := false
			for j := range cands[k] {
				cr := res[pairKey(fmt.Sprintf("dd%d-%d-%d", round, k, j), d.style)]
				if cr != nil && cr.Incon == "" && cr.failed(d.check) {
					// the candidates were generated in batches: the one that is taken has to fail alone as well
					if d.check != ckNonterm {
						cr = ev.Alone(&cands[k][j], d.style)
						if cr.Incon != "" || !cr.failed(d.check) {
							r.Count("ddmin_candidates_not_failing_alone", 1)
							continue
						}
					}
					d.spec, d.res, moved = cands[k][j], cr, true
					d.steps++
					break
				}
			}
			if !moved {
				d.done = true
			}
		}
		r.Max("ddmin_rounds", int64(round+1))
	}
	ev.noRecheck = false
	phase("stage2-minimised")
	for _, d := range dd {
		label := labelOf(featuresOf(&d.spec))
		var sig string
		if len(label) == 1 && failed[d.style][d.check][label[0]] {
			sig = fmt.Sprintf("C18|stage1|style=%s|feature=%s|%s", d.style, label[0], d.check)
		} else {
			sig = fmt.Sprintf("C18|stage2|style=%s|features=%s|%s", d.style, strings.Join(label, "+"), d.check)
			r.Count("stage2_new_failure_classes_hits", 1)
		}
		r.Violation(sig, fmt.Sprintf("composition of %s, style %s: %s: %s", strings.Join(label, "+"), d.style, describeCheck(d.check), firstN(d.res.Fails[d.check], 300)),
			witness("2 (minimised by delta debugging)", &d.spec, d.res, d.check, map[string]interface{}{"found_in": firstN(d.origin, 1500), "reduction_steps": d.steps, "fully_minimised": d.done}))
		if sampled["s2fail"] < 1 {
			sampled["s2fail"]++
			r.Sample(map[string]interface{}{"stage": 2, "features": label, "style": d.style, "go_type": goString(&d.spec), "verdict": d.check,
				"schema": bounded(d.res.Schema, 1024), "instance": bounded(d.res.Instances[0], 400), "detail": d.res.Fails[d.check], "found_in": firstN(d.origin, 600)})
		}
	}

	// ------------------------------------------------------------------ stage 2d: fields claiming one JSON name (collide.go)
	runCollisions(r, ev, sampled)
	phase("collisions-evaluated")

	// ------------------------------------------------------------------ stage 2m: types with custom marshalling (marshal.go)
	runMarshalers(r, ev, sampled)
	phase("marshalers-evaluated")

	// ------------------------------------------------------------------ stage 2t: json tag syntax x kinds (tags.go)
	runTagShapes(r, ev, sampled)
	phase("tag-shapes-evaluated")

	// ------------------------------------------------------------------ batch verdicts a fresh process did not reproduce
	reportBatch := func() {
		ev.histMu.Lock()
		hist := ev.hist
		ev.hist = nil
		ev.histMu.Unlock()
		for _, bf := range hist {
			r.Count("batch_verdicts_not_reproduced_alone", 1)
			var diffs []docDiff
			class := "no-document"
			if bf.Batch.Schema != nil && bf.Alone.Schema != nil {
				_, a := normDoc(bf.Alone.Schema)
				_, b := normDoc(bf.Batch.Schema)
				diffDocs(a, b, "", "", "", &diffs)
				class, _ = diffClass(diffs)
			}
			donors := findDonors(diffs, bf.Before, nil, kinOf(&bf.Spec))
			for _, ck := range allChecks {
				if !bf.Batch.failed(ck) || bf.Alone.failed(ck) {
					continue // fails alone as well: reported by the stage
				}
				r.Count("fail_"+ck, 1)
				w := witness("2 (batch of types in one process)", &bf.Spec, bf.Batch, ck, map[string]interface{}{
					"differences_from_fresh_process": diffs, "came_from": donors, "schema_of_fresh_process": bounded(bf.Alone.Schema, 1024),
					"types_generated_before_in_the_process": len(bf.Before)})
				if len(donors) == 0 {
					var idx []int
					for i := range bf.Before {
						idx = append(idx, i)
					}
					w["generated_before"] = poolStringsIdx(bf.Before, idx, 8)
				}
				from := ""
				if len(donors) > 0 {
					from = fmt.Sprintf("; %s comes from field %s `%s` of a type generated earlier", donors[0].Keyword, donors[0].Field, donors[0].Tag)
				}
				r.Violation(fmt.Sprintf("C18|history|batch|style=%s|%s|%s", bf.Style, class, ck),
					fmt.Sprintf("style %s, generated after other types in the same process: %s (a fresh process generates a different document for the type: %s)%s: %s",
						bf.Style, describeCheck(ck), class, from, firstN(bf.Batch.Fails[ck], 300)), w)
			}
		}
	}
	reportBatch()

	// ------------------------------------------------------------------ stage 3: history runs
	hst := runHistory(r, ev, sessions, sampled)
	reportBatch()
	phase("stage3-history")
	if hst.observed == 0 && hst.flagged == 0 {
		r.Fatal("vacuous: the history sessions observed no document")
	}
	if hst.flagged == 0 && r.Counter("history_obs_after_tagged_kin") == 0 {
		r.Fatal("vacuous: no history observation was made after a type with a tagged field of a shared kind")
	}

	// ------------------------------------------------------------------ binding and tools/list
	var skip []string
	for n := range unsafeCorpus {
		skip = append(skip, n)
	}
	sort.Strings(skip)
	bc := r.SpawnChild("bind", "bind", nil, []string{"VH_SKIP_TYPES=" + strings.Join(skip, ",")}, nil, 6*time.Minute)
	r.Count("children_spawned", 1)
	sawSummary := false
	bindOK, listOK := 0, 0
	sc := bufio.NewScanner(bytes.NewReader(bc.Stdout()))
	sc.Buffer(make([]byte, 1<<20), 256<<20)
	for sc.Scan() {
		var l bindLine
		if json.Unmarshal(sc.Bytes(), &l) != nil {
			continue
		}
		switch l.K {
		case "fatal":
			r.Inconclusive("binding child: " + l.Detail)
		case "summary":
			sawSummary = true
			r.Note("binding child: " + l.Detail)
		case "bind":
			r.Eval(1)
			r.Count("bind_calls", 1)
			if l.OK {
				bindOK++
				r.Distinct("bind|" + l.Type + "|" + l.Case)
				if !l.Deep {
					r.Count("bind_json_equal_but_not_deep_equal", 1)
				}
				if sampled["bind"] < 1 && l.Case == "populated-boundary" && l.Type == "Containers" {
					sampled["bind"]++
					r.Sample(map[string]interface{}{"workload": "binding", "type": l.Type, "case": l.Case, "sent": firstN(l.Sent, 500), "verdict": "handler received the sent value"})
				}
				continue
			}
			r.Count("fail_binding", 1)
			r.Violation(fmt.Sprintf("C18|binding|type=%s|case=%s|%s", l.Type, l.Case, l.Symp),
				fmt.Sprintf("typed handler for %s, value class %s: %s %s", l.Type, l.Case, l.Symp, firstN(l.Detail, 300)), l)
		case "list":
			r.Eval(1)
			r.Count("toolslist_schemas_compared", 1)
			if l.OK {
				listOK++
				r.Distinct("list|" + l.Kind + "|" + l.Style + "|" + l.Which + "|" + l.Type)
				if !l.Deep {
					r.Count("toolslist_parsed_schema_object_differs_from_raw", 1)
				}
				continue
			}
			r.Count("fail_toolslist", 1)
			r.Violation(fmt.Sprintf("C18|toolslist|%s|style=%s|type=%s|%s|%s", l.Kind, l.Style, l.Type, l.Which, l.Symp),
				fmt.Sprintf("tools/list %s schema of tool %s: %s %s", l.Which, l.Tool, l.Symp, firstN(l.Detail, 300)), l)
		}
	}
	if !sawSummary {
		se := bc.Stderr()
		if cl := vh.CrashLine(se); cl != "" && !bc.TimedOut {
			r.Violation("C18|binding|child|crash", "the process running the typed-handler / tools/list workload died: "+cl,
				map[string]interface{}{"crash": cl, "frame": vh.FirstLibFrame(se), "child": bc.Describe()})
		} else {
			r.Inconclusive("binding child did not finish: " + bc.Describe())
		}
	}
	phase("binding-done")
	r.Count("oracle_answers_from_cache", pool.hits.Load())
	r.Count("oracle_processes", int64(nProc))
	r.Count("bind_ok", int64(bindOK))
	r.Count("toolslist_ok", int64(listOK))
	r.Count("corpus_types", int64(len(corpus.Types)))

	// non-vacuity
	if r.Counter("schemas_checked") == 0 || r.Counter("instances_validated") == 0 || r.Counter("refs_seen") == 0 || r.Counter("name_sets_compared") == 0 {
		r.Fatal("vacuous: schemas_checked=%d instances_validated=%d refs_seen=%d name_sets_compared=%d", r.Counter("schemas_checked"),
			r.Counter("instances_validated"), r.Counter("refs_seen"), r.Counter("name_sets_compared"))
	}
	if sawSummary && (bindOK == 0 || listOK == 0) {
		r.Fatal("vacuous: no typed-handler call (%d) or no tools/list comparison (%d) succeeded", bindOK, listOK)
	}

	r.Finish("stage 1: one struct type per feature of the grammar (14 primitive kinds, pointer, slice, array, map, nested/empty/reused struct, 3 embedding forms, []byte, interface{}, time.Time, "+
		"json.RawMessage, json.Number, a json.Marshaler and an encoding.TextMarshaler type, omitempty, ',string' (effective and ignored), json:\"-\", json:\"-,\", untagged, name-less tag, names containing / ~ % space non-ASCII, "+
		"duplicate names, unexported field, 19 jsonschema-tag classes: description (plain, with commas), title, required, enum (strings / numbers / booleans / base64 / date-time), minimum+maximum, minLength+maxLength, "+
		"minItems+maxItems, default, pattern, format, uniqueItems, example, semicolon syntax, and four 'tight' classes whose zone no untagged value falls into) and every compiled corpus type (self/mutual recursion "+
		"through pointer, slice, map; list, tree, forest; a type used twice; generic instantiations) x 4 option sets (default, inline, $defs, nested). stage 2: (a) every pair wrapper x inner type, field-level feature x "+
		"type-level feature, jsonschema-tag class x kind of field type (every kind of the grammar the class can sit on, special kinds and struct / container types included) and two sibling fields of one type "+
		"with the tag on one of them, either order (about 1950 types, deterministic), (b) seeded random compositions of feature subsets (reflect.StructOf, depth <= 5; quick 300 / thorough 5000 types; tags land on fields of any kind), "+
		"(c) the types of the history pools, each x 4 option sets; a failing document is generated once more by a fresh process for that type alone (when the two differ the batch document is reported as history-dependent "+
		"and the stage verdict is the one on the fresh document); a failing composition is re-tested without the fields carrying features that already fail alone and then minimised by delta debugging over fields, "+
		"options and wrappers. Two generated values per type (small; boundary integers +-(2^53-1), non-ASCII strings; inside the zone of the field's own tag, outside every tight zone otherwise), recursion cut at depth 2. "+
		"stage 2m (custom marshalling): a compiled family of about 100 types crossing {json.Marshaler only, encoding.TextMarshaler only, both (also MarshalJSON on the value and MarshalText on the pointer, and the reverse), neither} x "+
		"{value, pointer receiver} x {MarshalJSON writes a string, number, boolean, object, array, null} x underlying kind (struct, integer, string, bool, float, []byte, [16]byte, map, slice, uint8), holders embedding one (promoted methods) and "+
		"standard-library types (*big.Int, *big.Float, *big.Rat, net.IP, netip.Addr/Prefix/AddrPort, *regexp.Regexp, url.URL, slog.Level, time.Duration, time.Month, net.HardwareAddr), each as field, pointer, slice element, map value (quick: plus, for a third of the types rotating with the seed; thorough: "+
		"for all) omitempty, slice of pointers, array, pointer to array, map of pointers / slices, nested struct by value / through a pointer, used twice, ',string' (primitive kinds), map KEY (integer / string kinds and TextMarshaler keys) x 4 option sets; "+
		"plus seeded mixes (quick 60 / thorough 1200 structs of 2-5 family types below seeded wrapper chains next to a recursive compiled type; a failing mix is attributed by judging each field alone). The instances are json.Marshal of the populated value, by value and, where that "+
		"gives another text, through a pointer; distinct by (style, implementation, receiver, JSON form, underlying kind, position). "+
		"stage 2t (json tag syntax): about 420 tag shapes written verbatim into reflect.StructOf fields - option lists in every order with omitempty / omitzero (unknown to go 1.23) / unknown / repeated / empty options, options that only look like "+
		"',string' (leading or trailing space, other letter case, longer words, other separators) alone and next to the real one, names that are empty with options, '-', '-,' and other names every field shares, names encoding/json accepts "+
		"(spaces, non-ASCII letters and digits, each punctuation character of its list) and rejects (quotes, backslash, backquote, control characters, symbols, combining marks: the field goes by its Go name, options still apply), other keys "+
		"before / after the json key, repeated json keys, separators, malformed tag strings - plus seeded random (name, option list, surrounding keys) shapes (quick 150 / thorough 1000) x 68 field types: the kinds ',string' applies to "+
		"(string, 10 integer kinds, 2 float kinds, bool, named types of these kinds, json.Number, unnamed pointers to them) and kinds where encoding/json ignores it (struct, slice, array, map, interface{}, []byte, time.Time, "+
		"json.RawMessage, pointer to pointer, named pointer types, json.Marshaler and TextMarshaler types of primitive kinds, pointers to those, an embedded struct / embedded pointer to struct carrying the tag) x 4 option sets; the two option families meet every kind, the others a third of the kinds "+
		"in the quick tier (rotating with the seed; thorough: all), fields are grouped 9 (thorough 4) to a struct with distinct names and a failing group is attributed by judging each field alone; names and instance are "+
		"json.Marshal of the populated value; what encoding/json did with a cell (name from the tag / Go name / dropped, value quoted) is observed and counted; distinct by (style, tag shape, field type). "+
		"stage 3 (history): per session a seeded pool of types sharing field kinds (tagged / untagged / below a wrapper / sibling), two unnamed nested struct types and compiled recursive types (tagged and untagged "+
		"struct-typed fields, roots) plus random compositions; ONE child process generates every (type, style) of the pool 2 (thorough 3) times in seeded random order (A, B, A again, ...), a second child generates them "+
		"concurrently from 4 (8) goroutines; every document is compared, as JSON with $defs names up to renaming, with the document of a fresh process that generated only that (type, style); a document that "+
		"differs is judged by the ordinary oracle and the differing keywords are traced to the tags of the types generated before (quick 2 sessions / thorough 10). Binding: 22 compiled types x value classes "+
		"through a real Streamable server and library client; tools/list: the same types x 4 option sets (input and output schema) and 4 builder tools. A case is distinct by (stage, style, feature) in stage 1, by "+
		"(style, number of features, struct depth) or (style, pair) in stage 2, by (style, arrangement class) for collisions, by (mode, style, occurrence of the (type, style) in the run, whether a type sharing a kind - tagged or not - came before) in stage 3, by "+
		"(type, value class) for binding, by (tool kind, style, input/output, type) for tools/list, and is non-trivial when a schema was generated and judged.",
		[]string{
			"the reference for meta-schema validity, $ref resolution and instance acceptance is python jsonschema 4.x (Draft 2020-12, format not asserted, same-document references only)",
			"$ref values are resolved leniently: percent-decoding, then RFC 6901; characters that a strict URI parser would refuse in a fragment are accepted",
			"values obey the constraints their own jsonschema tags declare (enum member, minimum/maximum, lengths, pattern, item counts); a keyword that does not apply to the JSON type of the field's encoding constrains nothing",
			"a type whose recursion passes through a pointer that cannot be omitted has no finite fully populated value: instance acceptance is not judged for it",
			"names are compared where the schema describes an object with \"properties\" (and at the root), on nodes whose key set is not affected by the recursion cut",
			"history: a document that differs from the fresh-process document is a violation only when one of the property's own checks fails on it (unresolved reference, names, a generated value rejected, crash); a difference " +
				"in constraining keywords that no generated value refutes is reported as inconclusive, a difference in annotations (description, title, default, example, format) is only noted - the statement does not promise them",
			"history: concurrent generation from several goroutines is part of 'every program'; a crash of that child is a violation, a child that does not finish is inconclusive",
			"typed binding is judged on the JSON encoding of the received value (reflect.DeepEqual differences that are invisible in JSON are only counted)",
			"tools/list fidelity is judged on Tool.RawInputSchema / RawOutputSchema; the re-parsed openapi3 object is only counted",
			"collisions: which claimant of a JSON name wins, or that the name is dropped, is never computed by the harness - names and values come from json.Marshal of the populated value; the arrangement class in the signature only describes what was built (depths, tagged / untagged, options)",
			"custom marshalling: encoding/json calls a pointer-receiver MarshalJSON / MarshalText only on an addressable value, so a type with such a method held BY VALUE (field, array element, nested struct, map value) has two encodings, depending on whether the caller " +
				"marshals the root by value or through a pointer (a map value is never addressable, although decoding always is): the text written through a pointer is judged, the by-value text is only counted (marshal_by_value_text_of_pointer_receiver_type_rejected); " +
				"a struct that embeds a marshaler is judged as a field type, not as the root (the root of tool arguments is a JSON object by protocol)",
			"tag syntax: the harness never parses a tag for the verdict - reflect.StructTag / encoding/json decide what the name is and whether the value is quoted; the go toolchain in use decides whether omitzero is an option; " +
				"a failing cell is reported with at most three witnesses per (style, family, shape, check), the note lists the field types",
			"random compositions, random collision arrangements and history orders are sampled, not enumerated",
		})
}
