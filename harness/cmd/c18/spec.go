package main

import (
	"encoding/json"
	"fmt"
	"reflect"
	"sort"
	"strconv"
	"strings"
	"time"

	"verifharness/cmd/c18/corpus"
)

// TSpec is a serialisable description of a Go type of the grammar. The parent and the generator
// child both turn it into the same reflect.Type.
//
// K: a primitive kind name ("bool", "int", ... "string"), "bytes" ([]byte), "iface" (interface{}),
// "time" (time.Time), "raw" (json.RawMessage), "jsonnumber" (json.Number), "jm" (corpus.JM, a json.Marshaler),
// "tm" (corpus.TM, an encoding.TextMarshaler), "ptr", "slice", "array",
// "map" (map[string]E), "struct" (reflect.StructOf of F) or "corpus:<Name>" (a compiled type).
type TSpec struct {
	K string  `json:"k"`
	E *TSpec  `json:"e,omitempty"`
	// KT is the key type of a "map" (nil: string). encoding/json accepts string and integer kinds and
	// encoding.TextMarshaler types as keys (marshal.go).
	KT *TSpec `json:"kt,omitempty"`
	N int     `json:"n,omitempty"`
	F []FSpec `json:"f,omitempty"`
}

// FSpec is one struct field.
type FSpec struct {
	Name  string `json:"name"`            // Go field name
	Mode  string `json:"mode"`            // tagged | untagged | nameless | dash | dashlit | name-slash | name-tilde | name-percent | name-space | name-unicode
	JName string `json:"jn,omitempty"`    // JSON name written into the tag (modes with a name)
	Omit  bool   `json:"omit,omitempty"`  // ,omitempty
	Str   bool   `json:"str,omitempty"`   // ,string
	ST    string `json:"st,omitempty"`    // jsonschema tag class ("description", "enum", ...)
	Emb   string `json:"emb,omitempty"`   // "", "val" (EmbBase), "ptr" (*EmbOther), "tagged" (Leaf with a json name), "sval" / "sptr" (T embedded by value / through a pointer, collide.go)
	Unexp bool   `json:"unexp,omitempty"` // unexported field
	// RawTag, when set, is the whole struct tag of the field, verbatim (Mode "rawtag"; tags.go: the tag-syntax family).
	RawTag string `json:"rawtag,omitempty"`
	T      TSpec  `json:"t"`
}

var primKinds = map[string]reflect.Type{
	"bool": reflect.TypeOf(false), "int": reflect.TypeOf(int(0)), "int8": reflect.TypeOf(int8(0)),
	"int16": reflect.TypeOf(int16(0)), "int32": reflect.TypeOf(int32(0)), "int64": reflect.TypeOf(int64(0)),
	"uint": reflect.TypeOf(uint(0)), "uint8": reflect.TypeOf(uint8(0)), "uint16": reflect.TypeOf(uint16(0)),
	"uint32": reflect.TypeOf(uint32(0)), "uint64": reflect.TypeOf(uint64(0)),
	"float32": reflect.TypeOf(float32(0)), "float64": reflect.TypeOf(float64(0)), "string": reflect.TypeOf(""),
}

var primOrder = []string{"bool", "int", "int8", "int16", "int32", "int64", "uint", "uint8", "uint16", "uint32", "uint64", "float32", "float64", "string"}

var (
	tBytes  = reflect.TypeOf([]byte(nil))
	tIface  = reflect.TypeOf((*interface{})(nil)).Elem()
	tTime   = reflect.TypeOf(time.Time{})
	tRaw    = reflect.TypeOf(json.RawMessage(nil))
	tNumber = reflect.TypeOf(json.Number(""))
	tString = reflect.TypeOf("")
	tJM     = corpus.JMType
	tTM     = corpus.TMType
)

const pkgPath = "verifharness/cmd/c18"

func isNumericPrim(k string) bool {
	return k != "bool" && k != "string" && primKinds[k] != nil
}

func isIntPrim(k string) bool { return strings.HasPrefix(k, "int") || strings.HasPrefix(k, "uint") }

// Type builds the reflect.Type. It panics on a malformed spec (a harness error).
func (t *TSpec) Type() reflect.Type {
	if p, ok := primKinds[t.K]; ok {
		return p
	}
	switch t.K {
	case "bytes":
		return tBytes
	case "iface":
		return tIface
	case "time":
		return tTime
	case "raw":
		return tRaw
	case "jsonnumber":
		return tNumber
	case "jm":
		return tJM
	case "tm":
		return tTM
	case "ptr":
		return reflect.PointerTo(t.E.Type())
	case "slice":
		return reflect.SliceOf(t.E.Type())
	case "array":
		return reflect.ArrayOf(t.N, t.E.Type())
	case "map":
		if t.KT != nil {
			return reflect.MapOf(t.KT.Type(), t.E.Type())
		}
		return reflect.MapOf(tString, t.E.Type())
	case "struct":
		fields := make([]reflect.StructField, 0, len(t.F))
		for i := range t.F {
			fields = append(fields, t.F[i].structField())
		}
		return reflect.StructOf(fields)
	}
	if strings.HasPrefix(t.K, "corpus:") {
		if ct, ok := corpus.ByName(strings.TrimPrefix(t.K, "corpus:")); ok {
			return ct
		}
	}
	panic("bad type spec kind " + t.K)
}

// buildType builds the reflect.Type and turns a panic of reflect.StructOf into an error text.
func buildType(t *TSpec) (rt reflect.Type, err string) {
	defer func() {
		if p := recover(); p != nil {
			err = fmt.Sprint(p)
		}
	}()
	return t.Type(), ""
}

func (f *FSpec) structField() reflect.StructField {
	switch f.Emb {
	case "val":
		ct, _ := corpus.ByName("EmbBase")
		return reflect.StructField{Name: "EmbBase", Type: ct, Anonymous: true}
	case "ptr":
		ct, _ := corpus.ByName("EmbOther")
		return reflect.StructField{Name: "EmbOther", Type: reflect.PointerTo(ct), Anonymous: true}
	case "tagged":
		ct, _ := corpus.ByName("Leaf")
		return reflect.StructField{Name: "Leaf", Type: ct, Anonymous: true, Tag: `json:"leaf_emb"`}
	case "sval":
		return reflect.StructField{Name: f.Name, Type: f.T.Type(), Anonymous: true, Tag: reflect.StructTag(f.RawTag)}
	case "sptr":
		return reflect.StructField{Name: f.Name, Type: reflect.PointerTo(f.T.Type()), Anonymous: true, Tag: reflect.StructTag(f.RawTag)}
	}
	sf := reflect.StructField{Name: f.Name, Type: f.T.Type(), Tag: reflect.StructTag(f.tag())}
	if f.Unexp {
		sf.PkgPath = pkgPath
	}
	return sf
}

// tag renders the struct tag of the field.
func (f *FSpec) tag() string {
	if f.Mode == "rawtag" {
		return f.RawTag
	}
	var parts []string
	opts := ""
	if f.Omit {
		opts += ",omitempty"
	}
	if f.Str {
		opts += ",string"
	}
	switch f.Mode {
	case "untagged":
	case "nameless":
		parts = append(parts, "json:"+strconv.Quote(opts))
	case "dash":
		parts = append(parts, `json:"-"`)
	case "dashlit":
		parts = append(parts, "json:"+strconv.Quote("-,"+strings.TrimPrefix(opts, ",")))
	default:
		parts = append(parts, "json:"+strconv.Quote(f.JName+opts))
	}
	if f.ST != "" {
		parts = append(parts, "jsonschema:"+strconv.Quote(stTag(f.ST, &f.T)))
	}
	return strings.Join(parts, " ")
}

// effectiveName is only used to detect the duplicate-name feature the generator planted.
func (f *FSpec) effectiveName() string {
	switch f.Mode {
	case "untagged", "nameless":
		return f.Name
	case "rawtag":
		return "" // what the name is, is for encoding/json to say
	case "dash":
		return ""
	case "dashlit":
		return "-"
	}
	return f.JName
}

// stClasses lists the jsonschema-tag classes. The "-tight" classes declare a narrow zone that the
// values of untagged fields never fall into (see populate.go): a constraint that shows up on a field
// it was not written on is then refuted by that field's ordinary values.
var stClasses = []string{"description", "description-comma", "title", "required", "enum", "enum-int", "minmax", "minmaxlen",
	"minmaxitems", "default", "pattern", "format", "unique", "example", "semicolons",
	"len-tight", "pattern-tight", "minmax-tight", "items-tight"}

// derefT follows the pointer chain of a field type.
func derefT(t *TSpec) *TSpec {
	for t.K == "ptr" {
		t = t.E
	}
	return t
}

func isBytesT(t *TSpec) bool { return t.K == "bytes" || (t.K == "slice" && t.E.K == "uint8") }

// jsonClass names the JSON type of the encoding of a (pointer-free) field type: string | number |
// bool | array | object | any.
func jsonClass(t *TSpec) string {
	switch {
	case isBytesT(t), t.K == "string", t.K == "time", t.K == "tm":
		return "string"
	case isNumericPrim(t.K), t.K == "jsonnumber":
		return "number"
	case t.K == "bool":
		return "bool"
	case t.K == "iface", t.K == "raw", t.K == "jm":
		return "any"
	case t.K == "slice", t.K == "array":
		return "array"
	}
	return "object" // map, struct, compiled types
}

// flatElems reports whether the element chain of a slice / array type ends in a leaf without passing a
// struct, a map or a compiled type (the recursion cut never empties such a slice).
func flatElems(t *TSpec) bool {
	for cur := t.E; cur != nil; cur = cur.E {
		if isBytesT(cur) {
			return true
		}
		if cur.K == "struct" || cur.K == "map" || strings.HasPrefix(cur.K, "corpus:") {
			return false
		}
	}
	return true
}

// stApplicable reports whether a jsonschema-tag class can sit on a field of this type such that the
// fully populated value satisfies the declared constraint. A keyword that does not apply to the JSON
// type of the field's encoding (minLength on an object, minimum on a string, ...) constrains nothing
// and may sit anywhere; where it applies, populate.go builds a value inside the declared zone.
func stApplicable(st string, ft *TSpec) bool {
	t := derefT(ft)
	cl := jsonClass(t)
	switch st {
	case "enum":
		return cl == "string" || cl == "any" || cl == "bool"
	case "enum-int":
		return cl == "number"
	case "minmaxitems":
		return cl != "array" || flatElems(t)
	case "items-tight":
		return cl != "array" || (flatElems(t) && (t.K != "array" || t.N == 3))
	case "unique":
		return cl != "array" || (t.K == "slice" && (t.E.K == "int" || t.E.K == "string"))
	}
	return true
}

// stCarrier returns a field type on which the class can sit.
func stCarrier(st string) TSpec {
	switch st {
	case "enum", "minmaxlen", "pattern", "format", "len-tight", "pattern-tight":
		return TSpec{K: "string"}
	case "minmaxitems", "unique", "items-tight":
		return TSpec{K: "slice", E: &TSpec{K: "int"}}
	}
	return TSpec{K: "int"}
}

// the declared zones (populate.go reads them back from the tag text)
const (
	tightTimeText = "2031-05-06T07:08:09Z" // the instant of every time.Time field that carries a constraining tag
)

func stTag(st string, ft *TSpec) string {
	t := derefT(ft)
	cl := jsonClass(t)
	switch st {
	case "description":
		return "description=plain words"
	case "description-comma":
		return "description=first part, second part, third part"
	case "title":
		return "title=A Title"
	case "required":
		return "required"
	case "enum":
		switch {
		case isBytesT(t):
			return "enum=QUJD,enum=REVG" // base64 of "ABC", "DEF"
		case t.K == "time":
			return "enum=" + tightTimeText
		case cl == "bool":
			return "enum=true"
		}
		return "enum=salpha,enum=sbeta"
	case "enum-int":
		return "enum=7,enum=9"
	case "minmax":
		if strings.HasPrefix(t.K, "uint") {
			return "minimum=0,maximum=10000000000000000"
		}
		return "minimum=-10000000000000000,maximum=10000000000000000"
	case "minmax-tight":
		if t.K == "int8" || t.K == "uint8" {
			return "minimum=101,maximum=120"
		}
		return "minimum=2000,maximum=2001"
	case "minmaxlen":
		return "minLength=1,maxLength=200"
	case "len-tight":
		switch {
		case isBytesT(t):
			return "minLength=12,maxLength=16"
		case t.K == "time":
			return "minLength=20,maxLength=20"
		}
		return "minLength=7,maxLength=9"
	case "minmaxitems":
		return "minItems=1,maxItems=16"
	case "items-tight":
		return "minItems=3,maxItems=3"
	case "default":
		switch {
		case cl == "bool":
			return "default=true"
		case t.K == "float64" || t.K == "float32" || t.K == "jsonnumber":
			return "default=1.5"
		case cl == "number":
			return "default=5"
		}
		return "default=sdflt"
	case "pattern":
		switch {
		case isBytesT(t):
			return "pattern=^[A-Za-z0-9+/=]*$"
		case t.K == "time":
			return "pattern=^[0-9]+-"
		}
		return "pattern=^s"
	case "pattern-tight":
		switch {
		case isBytesT(t):
			return "pattern=^QUJD"
		case t.K == "time":
			return "pattern=^2031-"
		}
		return "pattern=^q[0-9]+$"
	case "format":
		if t.K == "time" {
			return "format=date-time"
		}
		return "format=email"
	case "unique":
		return "uniqueItems"
	case "example":
		return "example=sample"
	case "semicolons":
		return "description=semi, colons inside;title=T;required"
	}
	return ""
}

func cloneT(t TSpec) TSpec {
	c := TSpec{K: t.K, N: t.N}
	if t.E != nil {
		e := cloneT(*t.E)
		c.E = &e
	}
	if t.KT != nil {
		k := cloneT(*t.KT)
		c.KT = &k
	}
	if t.F != nil {
		c.F = make([]FSpec, len(t.F))
		for i, f := range t.F {
			c.F[i] = f
			c.F[i].T = cloneT(f.T)
		}
	}
	return c
}

// canon renders a type spec canonically (two specs with the same canon build the same reflect.Type).
func canon(t *TSpec) string {
	b, _ := json.Marshal(t)
	return string(b)
}

// goString renders the type as Go source (for samples and witnesses).
func goString(t *TSpec) string {
	if _, ok := primKinds[t.K]; ok {
		return t.K
	}
	switch t.K {
	case "bytes":
		return "[]byte"
	case "iface":
		return "interface{}"
	case "time":
		return "time.Time"
	case "raw":
		return "json.RawMessage"
	case "jsonnumber":
		return "json.Number"
	case "jm":
		return "corpus.JM"
	case "tm":
		return "corpus.TM"
	case "ptr":
		return "*" + goString(t.E)
	case "slice":
		return "[]" + goString(t.E)
	case "array":
		return fmt.Sprintf("[%d]%s", t.N, goString(t.E))
	case "map":
		if t.KT != nil {
			return "map[" + goString(t.KT) + "]" + goString(t.E)
		}
		return "map[string]" + goString(t.E)
	case "struct":
		var fs []string
		for i := range t.F {
			f := &t.F[i]
			switch f.Emb {
			case "val":
				fs = append(fs, "corpus.EmbBase")
				continue
			case "ptr":
				fs = append(fs, "*corpus.EmbOther")
				continue
			case "tagged":
				fs = append(fs, "corpus.Leaf `json:\"leaf_emb\"`")
				continue
			case "sval", "sptr":
				e := "/*embedded*/ " + goString(&f.T)
				if f.Emb == "sptr" {
					e = "/*embedded*/ *" + goString(&f.T)
				}
				if f.RawTag != "" {
					e += " `" + f.RawTag + "`"
				}
				fs = append(fs, e)
				continue
			}
			s := f.Name + " " + goString(&f.T)
			if tg := f.tag(); tg != "" {
				s += " `" + tg + "`"
			}
			fs = append(fs, s)
		}
		return "struct{ " + strings.Join(fs, "; ") + " }"
	}
	return strings.Replace(t.K, "corpus:", "corpus.", 1)
}

// ---------------------------------------------------------------------------------------------
// features

// carriers are the background features every grammar type is made of; they are left out of a
// label as soon as another feature is present.
var carriers = map[string]bool{"prim:int": true, "prim:string": true}

// implied maps a feature to the features it cannot be shown without.
var implied = map[string][]string{
	"reuse":           {"struct"},
	"st:minmaxitems":  {"slice"},
	"st:unique":       {"slice"},
	"st:items-tight":  {"slice"},
	"nameless":        {"omitempty"},
	"string-opt-noop": {"slice"},
}

// chainFeatures returns the features of the type chain of one field, down to (not into) a nested struct.
func chainFeatures(t *TSpec, seen map[string]bool, out map[string]bool) {
	for cur := t; cur != nil; cur = cur.E {
		switch {
		case cur.K == "slice" && cur.E.K == "uint8":
			out["bytes"] = true // []uint8 is []byte
			return
		case primKinds[cur.K] != nil:
			out["prim:"+cur.K] = true
		case cur.K == "struct":
			if len(cur.F) == 0 {
				out["empty-struct"] = true
			} else {
				out["struct"] = true
			}
			c := canon(cur)
			if seen[c] {
				out["reuse"] = true
			}
			seen[c] = true
		case cur.K == "time" || cur.K == "iface":
			out[cur.K] = true
			if seen[cur.K] {
				out["reuse"] = true // the nested-ref generator treats a second occurrence like a reused struct
			}
			seen[cur.K] = true
		case strings.HasPrefix(cur.K, "corpus:"):
			out[cur.K] = true
			if seen[cur.K] {
				out["reuse"] = true
			}
			seen[cur.K] = true
		default:
			out[cur.K] = true // bytes iface time raw jsonnumber ptr slice array map
		}
		if cur.K == "struct" {
			break
		}
	}
}

func leafOf(t *TSpec) *TSpec {
	cur := t
	for cur.E != nil {
		cur = cur.E
	}
	return cur
}

// fieldOwnFeatures returns the features carried by the field itself (not by the fields of a nested struct).
func fieldOwnFeatures(f *FSpec, seen map[string]bool, sibNames map[string]bool) map[string]bool {
	out := map[string]bool{}
	switch f.Emb {
	case "val":
		out["embedded"] = true
		return out
	case "ptr":
		out["embedded-ptr"] = true
		return out
	case "tagged":
		out["embedded-tagged"] = true
		return out
	case "sval":
		out["embed-struct"] = true
		return out
	case "sptr":
		out["embed-struct-ptr"] = true
		return out
	}
	if f.Unexp {
		out["unexported"] = true
	}
	if f.Mode != "tagged" {
		out[f.Mode] = true
	}
	if f.Mode == "rawtag" {
		chainFeatures(&f.T, seen, out)
		return out
	}
	if f.Omit {
		out["omitempty"] = true
	}
	if f.Str {
		// encoding/json applies ",string" to string, number and boolean fields (and pointers to them) only
		lt := &f.T
		if lt.K == "ptr" {
			lt = lt.E
		}
		if primKinds[lt.K] != nil || lt.K == "jsonnumber" { // json.Number has kind string
			out["string-opt"] = true
		} else {
			out["string-opt-noop"] = true
		}
	}
	if f.ST != "" {
		out["st:"+f.ST] = true
	}
	if n := f.effectiveName(); n != "" && !f.Unexp {
		if sibNames[n] {
			out["dup-name"] = true
		}
		sibNames[n] = true
	}
	chainFeatures(&f.T, seen, out)
	return out
}

// site is one field of the tree in depth-first order with the features it carries itself.
type site struct {
	Own   map[string]bool
	Depth int
}

func walkSites(t *TSpec, depth int, seen map[string]bool, out *[]site) {
	switch {
	case t.K == "struct":
		sib := map[string]bool{}
		for i := range t.F {
			own := fieldOwnFeatures(&t.F[i], seen, sib)
			*out = append(*out, site{Own: own, Depth: depth})
			if t.F[i].Emb == "" {
				walkSites(&t.F[i].T, depth+1, seen, out)
			}
		}
	case t.E != nil:
		walkSites(t.E, depth, seen, out)
	}
}

// sitesOf lists the field sites of a root spec.
func sitesOf(root *TSpec) []site {
	var out []site
	walkSites(root, 1, map[string]bool{}, &out)
	return out
}

// featuresOf returns the feature set of a root spec.
func featuresOf(root *TSpec) map[string]bool {
	out := map[string]bool{}
	if strings.HasPrefix(root.K, "corpus:") {
		out[root.K] = true
		return out
	}
	for _, s := range sitesOf(root) {
		for f := range s.Own {
			out[f] = true
		}
	}
	return out
}

// depthOf returns the struct nesting depth (root struct = 1).
func depthOf(root *TSpec) int {
	d := 1
	for _, s := range sitesOf(root) {
		if s.Depth > d {
			d = s.Depth
		}
	}
	return d
}

// labelOf is the feature set without carriers (unless nothing else is there) and without features
// implied by another feature of the set.
func labelOf(feats map[string]bool) []string {
	drop := map[string]bool{}
	for f := range feats {
		for _, i := range implied[f] {
			drop[i] = true
		}
	}
	var l []string
	for f := range feats {
		if !carriers[f] && !drop[f] {
			l = append(l, f)
		}
	}
	if len(l) == 0 {
		for f := range feats {
			l = append(l, f)
		}
	}
	sort.Strings(l)
	return l
}

// ---------------------------------------------------------------------------------------------
// tree edits (strip for attribution, single-step reductions for delta debugging)

// editSites applies fn to every field site in depth-first order; fn returns (replacement fields, keep walking into it).
// The edit works on the given tree in place.
func editSites(t *TSpec, idx *int, fn func(i int, f *FSpec) (remove bool)) {
	switch {
	case t.K == "struct":
		var kept []FSpec
		for i := range t.F {
			f := t.F[i]
			my := *idx
			*idx++
			if f.Emb == "" {
				editSites(&f.T, idx, fn)
			}
			if fn(my, &f) {
				continue
			}
			kept = append(kept, f)
		}
		t.F = kept
	case t.E != nil:
		editSites(t.E, idx, fn)
	}
}

// stripFeatures returns a copy of root without the fields carrying any of the given features.
func stripFeatures(root *TSpec, feats map[string]bool) TSpec {
	sites := sitesOf(root)
	c := cloneT(*root)
	idx := 0
	editSites(&c, &idx, func(i int, f *FSpec) bool {
		for ft := range sites[i].Own {
			if feats[ft] {
				return true
			}
		}
		return false
	})
	return c
}

// reductions lists every single-step simplification of root: remove a field, drop one option of a
// field, unwrap one wrapper of a field type, replace a field's leaf / nested struct by int.
func reductions(root *TSpec) []TSpec {
	if root.K != "struct" {
		return nil
	}
	n := len(sitesOf(root))
	var out []TSpec
	apply := func(target int, op func(f *FSpec) (remove bool, changed bool)) {
		c := cloneT(*root)
		idx := 0
		ok := false
		editSites(&c, &idx, func(i int, f *FSpec) bool {
			if i != target {
				return false
			}
			rm, ch := op(f)
			ok = rm || ch
			return rm
		})
		if ok {
			out = append(out, c)
		}
	}
	for s := 0; s < n; s++ {
		apply(s, func(f *FSpec) (bool, bool) { return true, false })
	}
	for s := 0; s < n; s++ {
		apply(s, func(f *FSpec) (bool, bool) {
			if f.Emb == "" && f.Omit && f.Mode != "nameless" {
				f.Omit = false
				return false, true
			}
			return false, false
		})
		apply(s, func(f *FSpec) (bool, bool) {
			if f.Emb == "" && f.Str {
				f.Str = false
				return false, true
			}
			return false, false
		})
		apply(s, func(f *FSpec) (bool, bool) {
			if f.Emb == "" && f.ST != "" {
				f.ST = ""
				return false, true
			}
			return false, false
		})
		apply(s, func(f *FSpec) (bool, bool) {
			if f.Emb == "" && f.Mode != "tagged" {
				f.Mode = "tagged"
				f.JName = "r_" + strings.ToLower(f.Name)
				return false, true
			}
			return false, false
		})
		apply(s, func(f *FSpec) (bool, bool) { // an embedded field becomes an ordinary named field
			var tn string
			switch f.Emb {
			case "val":
				tn = "EmbBase"
			case "ptr":
				tn = "EmbOther"
			case "tagged":
				tn = "Leaf"
			default:
				return false, false
			}
			*f = FSpec{Name: "Un" + tn, Mode: "tagged", JName: "un_" + strings.ToLower(tn), T: TSpec{K: "corpus:" + tn}}
			return false, true
		})
		// lift: a struct-typed field is replaced by one of its own fields (tag and all)
		for k := 0; k < 6; k++ {
			k := k
			apply(s, func(f *FSpec) (bool, bool) {
				if f.Emb != "" || f.T.K != "struct" || k >= len(f.T.F) || f.T.F[k].Emb != "" || f.T.F[k].Unexp {
					return false, false
				}
				sub := f.T.F[k]
				sub.T = cloneT(sub.T)
				sub.Name = f.Name // stays unique among the new siblings
				if sub.Mode == "tagged" && f.Mode == "tagged" {
					sub.JName = f.JName
				}
				*f = sub
				return false, true
			})
		}
		// hoist: a struct-typed node of the field's type chain is replaced by the type of one of its fields
		for j := 0; j < 4; j++ {
			for k := 0; k < 6; k++ {
				j, k := j, k
				apply(s, func(f *FSpec) (bool, bool) {
					if f.Emb != "" {
						return false, false
					}
					cur := &f.T
					for n := 0; n < j; n++ {
						if cur.E == nil {
							return false, false
						}
						cur = cur.E
					}
					if cur.K != "struct" || k >= len(cur.F) || cur.F[k].Emb != "" || cur.F[k].Unexp {
						return false, false
					}
					nt := cloneT(cur.F[k].T)
					*cur = nt
					if f.ST != "" && !stApplicable(f.ST, &f.T) {
						f.ST = ""
					}
					return false, true
				})
			}
		}
		// type chain: unwrap wrapper j / replace node j by int
		for j := 0; j < 4; j++ {
			j := j
			apply(s, func(f *FSpec) (bool, bool) {
				if f.Emb != "" {
					return false, false
				}
				cur := &f.T
				for k := 0; k < j; k++ {
					if cur.E == nil {
						return false, false
					}
					cur = cur.E
				}
				if cur.E == nil {
					return false, false
				}
				nt := cloneT(*cur.E)
				*cur = nt
				if f.ST != "" && !stApplicable(f.ST, &f.T) {
					f.ST = ""
				}
				return false, true
			})
			apply(s, func(f *FSpec) (bool, bool) {
				if f.Emb != "" {
					return false, false
				}
				cur := &f.T
				for k := 0; k < j; k++ {
					if cur.E == nil {
						return false, false
					}
					cur = cur.E
				}
				if cur.E != nil || cur.K == "int" {
					return false, false // wrappers are handled by unwrap
				}
				*cur = TSpec{K: "int"}
				if f.ST != "" && !stApplicable(f.ST, &f.T) {
					f.ST = ""
				}
				return false, true
			})
		}
	}
	// whole-tree replacements of a compiled type by simpler stand-ins (keeps "used twice" intact)
	kinds := map[string]bool{}
	var findCorpus func(t *TSpec)
	findCorpus = func(t *TSpec) {
		if k := standInKey(t); k != "" && t != root {
			kinds[k] = true
		}
		if t.E != nil {
			findCorpus(t.E)
		}
		for i := range t.F {
			if t.F[i].Emb == "" {
				findCorpus(&t.F[i].T)
			}
		}
	}
	findCorpus(root)
	standIns := []TSpec{standInStruct, {K: "corpus:Leaf"}, {K: "corpus:SelfPtrOmit"}}
	for _, k := range sortedKeys(kinds) {
		for _, si := range standIns {
			if standInRank(si.K) >= standInRank(k) {
				continue // only ever move towards simpler stand-ins (no cycles)
			}
			c := cloneT(*root)
			var repl func(t *TSpec)
			repl = func(t *TSpec) {
				if t != &c && standInKey(t) == k {
					*t = cloneT(si)
					return
				}
				if t.E != nil {
					repl(t.E)
				}
				for i := range t.F {
					if t.F[i].Emb == "" {
						repl(&t.F[i].T)
					}
				}
			}
			repl(&c)
			out = append(out, c)
		}
	}
	// an edit may have changed the type below a tag: a tag that cannot sit on the new type goes
	for i := range out {
		dropInapplicableTags(&out[i])
	}
	return out
}

func dropInapplicableTags(t *TSpec) {
	if t.E != nil {
		dropInapplicableTags(t.E)
	}
	for i := range t.F {
		f := &t.F[i]
		if f.Emb != "" {
			continue
		}
		if f.ST != "" && !stApplicable(f.ST, &f.T) {
			f.ST = ""
		}
		dropInapplicableTags(&f.T)
	}
}

// standInKey names the nodes a whole-tree replacement may target: compiled types, time.Time,
// interface{} and the empty struct (each is "one type that may occur several times").
func standInKey(t *TSpec) string {
	switch {
	case strings.HasPrefix(t.K, "corpus:"), t.K == "time", t.K == "iface":
		return t.K
	case t.K == "struct" && len(t.F) == 0:
		return "struct{}"
	case t.K == "struct":
		if c := canon(t); c != standInStructCanon {
			return "S:" + c // every copy of one struct type is replaced together, so "used twice" survives
		}
	}
	return ""
}

// standInFeature lists the features a reduction may introduce (the stand-ins themselves).
var standInStruct = TSpec{K: "struct", F: []FSpec{{Name: "A", Mode: "tagged", JName: "a", T: TSpec{K: "int"}}}}
var standInStructCanon = canon(&standInStruct)

var standInFeature = map[string]bool{"reuse": true, "struct": true, "corpus:Leaf": true, "corpus:SelfPtrOmit": true, "corpus:EmbBase": true, "corpus:EmbOther": true}

func standInRank(k string) int {
	switch k {
	case "struct":
		return 0
	case "corpus:Leaf":
		return 1
	case "corpus:SelfPtrOmit":
		return 2
	}
	return 3
}

func sortedKeys(m map[string]bool) []string {
	out := make([]string, 0, len(m))
	for k := range m {
		out = append(out, k)
	}
	sort.Strings(out)
	return out
}
