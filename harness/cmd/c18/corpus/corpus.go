// Package corpus holds the compiled (declared) struct types of the C18 check: recursive types,
// generic instantiations, embedded bases and the flat / nested types used for the binding and
// tools/list workloads. The package path deliberately contains slashes, like every real
// user package does.
package corpus

import (
	"encoding/json"
	"reflect"
	"time"
)

// ---- embedded bases (used as Anonymous fields of reflect.StructOf types) ----

// EmbBase is embedded by value.
type EmbBase struct {
	BaseID   int    `json:"base_id"`
	BaseName string `json:"base_name"`
}

// EmbOther is embedded through a pointer.
type EmbOther struct {
	OtherFlag bool    `json:"other_flag"`
	OtherVal  float64 `json:"other_val"`
}

// ---- recursive types ----

// SelfPtrOmit recurses through an omitempty pointer.
type SelfPtrOmit struct {
	Val  int          `json:"val"`
	Next *SelfPtrOmit `json:"next,omitempty"`
}

// SelfPtrNoOmit recurses through a pointer that cannot be omitted: no finite fully populated value.
type SelfPtrNoOmit struct {
	Val  int            `json:"val"`
	Next *SelfPtrNoOmit `json:"next"`
}

// SelfSlice recurses through a slice.
type SelfSlice struct {
	Name string      `json:"name"`
	Kids []SelfSlice `json:"kids"`
}

// SelfMap recurses through a map.
type SelfMap struct {
	Name string             `json:"name"`
	Sub  map[string]SelfMap `json:"sub"`
}

// MutualA and MutualB recurse through each other.
type MutualA struct {
	A int      `json:"a"`
	B *MutualB `json:"b,omitempty"`
}

// MutualB is the other half of MutualA.
type MutualB struct {
	B  string    `json:"b"`
	As []MutualA `json:"as"`
}

// Leaf is a small non-recursive struct.
type Leaf struct {
	X int    `json:"x"`
	Y string `json:"y"`
}

// UsedTwice uses the same struct type in two fields (and a third time inside a slice).
type UsedTwice struct {
	First  Leaf   `json:"first"`
	Second Leaf   `json:"second"`
	More   []Leaf `json:"more"`
}

// Box is a generic container.
type Box[T any] struct {
	Item  T   `json:"item"`
	Count int `json:"count"`
}

// BoxOfBox nests generic instantiations (a named field type with a generic name).
type BoxOfBox struct {
	Inner Box[Leaf] `json:"inner"`
	Again Box[Leaf] `json:"again"`
}

// LinkedList is the classic list.
type LinkedList struct {
	Value int         `json:"value"`
	Tail  *LinkedList `json:"tail,omitempty"`
}

// Tree recurses through pointers and a slice of pointers.
type Tree struct {
	Label    string  `json:"label"`
	Left     *Tree   `json:"left,omitempty"`
	Right    *Tree   `json:"right,omitempty"`
	Children []*Tree `json:"children,omitempty"`
}

// Forest holds a recursive type below the root (the first occurrence is not at "#").
type Forest struct {
	Name  string          `json:"name"`
	Trees []Tree          `json:"trees"`
	Index map[string]Tree `json:"index"`
	Main  *Tree           `json:"main,omitempty"`
}

// ---- flat / nested types for the binding and tools/list workloads ----

// FlatInts has every integer kind.
type FlatInts struct {
	I   int    `json:"i"`
	I8  int8   `json:"i8"`
	I16 int16  `json:"i16"`
	I32 int32  `json:"i32"`
	I64 int64  `json:"i64"`
	U   uint   `json:"u"`
	U8  uint8  `json:"u8"`
	U16 uint16 `json:"u16"`
	U32 uint32 `json:"u32"`
	U64 uint64 `json:"u64"`
}

// FlatMixed has the other primitive kinds.
type FlatMixed struct {
	S   string  `json:"s"`
	B   bool    `json:"b"`
	F32 float32 `json:"f32"`
	F64 float64 `json:"f64"`
	Opt string  `json:"opt,omitempty"`
	Raw string
}

// Pointers has optional fields.
type Pointers struct {
	PS *string  `json:"ps,omitempty"`
	PI *int64   `json:"pi,omitempty"`
	PF *float64 `json:"pf"`
	PB *bool    `json:"pb"`
	PL *Leaf    `json:"pl,omitempty"`
}

// Containers has slices, arrays and maps.
type Containers struct {
	Strs  []string                  `json:"strs"`
	Ints  []int64                   `json:"ints"`
	Arr   [3]int                    `json:"arr"`
	M     map[string]int64          `json:"m"`
	MM    map[string]map[string]int `json:"mm"`
	MS    map[string][]string       `json:"ms"`
	Leafs []Leaf                    `json:"leafs"`
	ML    map[string]Leaf           `json:"ml"`
}

// Nested nests structs three levels deep.
type Nested struct {
	Name  string `json:"name"`
	Outer struct {
		Tag   string `json:"tag"`
		Inner struct {
			Depth int64   `json:"depth"`
			Leafs []*Leaf `json:"leafs"`
		} `json:"inner"`
	} `json:"outer"`
}

// Dynamic has interface-typed fields.
type Dynamic struct {
	Any  interface{}            `json:"any"`
	Obj  map[string]interface{} `json:"obj"`
	List []interface{}          `json:"list"`
}

// StdTypes has the standard-library-typed fields.
type StdTypes struct {
	When  time.Time       `json:"when"`
	Blob  []byte          `json:"blob"`
	Raw   json.RawMessage `json:"raw"`
	Num   json.Number     `json:"num"`
	Count int64           `json:"count,string"`
}

// Embeds embeds a struct by value.
type Embeds struct {
	EmbBase
	Extra string `json:"extra"`
}

// Tagged uses jsonschema tags.
type Tagged struct {
	City  string   `json:"city" jsonschema:"required,description=City name, with a comma"`
	Units string   `json:"units,omitempty" jsonschema:"description=Units,enum=metric,enum=imperial,default=metric"`
	Days  int      `json:"days" jsonschema:"minimum=1,maximum=14,default=3"`
	Tags  []string `json:"tags,omitempty" jsonschema:"minItems=1,maxItems=8,uniqueItems"`
	Score float64  `json:"score" jsonschema:"title=Score;minimum=-1000000;maximum=1000000"`
}

// ---- marshaler types (field types of the grammar: kinds "jm" and "tm") ----

// JM is a json.Marshaler (value receiver): its encoding is the JSON text it carries.
type JM struct{ J string }

// MarshalJSON implements json.Marshaler.
func (j JM) MarshalJSON() ([]byte, error) {
	if j.J == "" {
		return []byte("null"), nil
	}
	return []byte(j.J), nil
}

// UnmarshalJSON implements json.Unmarshaler.
func (j *JM) UnmarshalJSON(b []byte) error { j.J = string(b); return nil }

// TM is an encoding.TextMarshaler (value receiver): its encoding is a JSON string.
type TM struct{ S string }

// MarshalText implements encoding.TextMarshaler.
func (t TM) MarshalText() ([]byte, error) { return []byte(t.S), nil }

// UnmarshalText implements encoding.TextUnmarshaler.
func (t *TM) UnmarshalText(b []byte) error { t.S = string(b); return nil }

// JMType and TMType are the reflect types of the marshaler kinds.
var (
	JMType = reflect.TypeOf(JM{})
	TMType = reflect.TypeOf(TM{})
)

// Ack is the output type of the binding tools.
type Ack struct {
	OK bool `json:"ok"`
}

// Entry names a compiled type.
type Entry struct {
	Name string
	Type reflect.Type
}

// Types lists the compiled types usable as corpus features (stage 1 alone, stage 2 as field types).
var Types = []Entry{
	{"SelfPtrOmit", reflect.TypeOf(SelfPtrOmit{})},
	{"SelfPtrNoOmit", reflect.TypeOf(SelfPtrNoOmit{})},
	{"SelfSlice", reflect.TypeOf(SelfSlice{})},
	{"SelfMap", reflect.TypeOf(SelfMap{})},
	{"MutualA", reflect.TypeOf(MutualA{})},
	{"MutualB", reflect.TypeOf(MutualB{})},
	{"Leaf", reflect.TypeOf(Leaf{})},
	{"UsedTwice", reflect.TypeOf(UsedTwice{})},
	{"BoxInt", reflect.TypeOf(Box[int]{})},
	{"BoxLeaf", reflect.TypeOf(Box[Leaf]{})},
	{"BoxOfBox", reflect.TypeOf(BoxOfBox{})},
	{"LinkedList", reflect.TypeOf(LinkedList{})},
	{"Tree", reflect.TypeOf(Tree{})},
	{"Forest", reflect.TypeOf(Forest{})},
	{"EmbBase", reflect.TypeOf(EmbBase{})},
	{"EmbOther", reflect.TypeOf(EmbOther{})},
}

// ByName finds a compiled type.
func ByName(name string) (reflect.Type, bool) {
	for _, e := range Types {
		if e.Name == name {
			return e.Type, true
		}
	}
	for _, e := range Colliders {
		if e.Name == name {
			return e.Type, true
		}
	}
	for _, e := range Types2 {
		if e.Name == name {
			return e.Type, true
		}
	}
	return nil, false
}
