package corpus

import "reflect"

// Compiled types in which several fields, at different embedding depths, claim one JSON name
// ("Limit"). The claimants have different Go types, so a schema generated from the wrong claimant
// rejects the real encoding; whether the name is emitted at all is whatever encoding/json does.

// ColT claims the name through a tag (integer).
type ColT struct {
	PageSize int    `json:"Limit"`
	Token    string `json:"col_t"`
}

// ColT2 claims the name through a tag (boolean).
type ColT2 struct {
	Window bool   `json:"Limit"`
	Field  string `json:"col_t2"`
}

// ColU claims the name through its Go field name (array of strings).
type ColU struct {
	Limit []string
	Own   string `json:"col_u"`
}

// ColU2 claims the name through its Go field name (object).
type ColU2 struct {
	Limit Leaf
	Own   string `json:"col_u2"`
}

// ColStrT claims the name through a tag with the string option.
type ColStrT struct {
	N   int    `json:"Limit,string"`
	Own string `json:"col_str_t"`
}

// ColDeepT pushes ColT one level down.
type ColDeepT struct {
	ColT
	Own int `json:"col_deep_t"`
}

// ColMidT reaches ColT by a second path.
type ColMidT struct {
	ColT
	Own int `json:"col_mid_t"`
}

// ColDeepPT pushes ColT2 one level down, through a pointer.
type ColDeepPT struct {
	*ColT2
	Own int `json:"col_deep_pt"`
}

// ColDeepU pushes ColU one level down.
type ColDeepU struct {
	ColU
	Own int `json:"col_deep_u"`
}

// ---- roots ----

// ColRootUoverT: shallow untagged, deeper tagged.
type ColRootUoverT struct {
	Query string `json:"query"`
	Limit string
	ColT
}

// ColRootUoverTT: shallow untagged, two deeper tagged.
type ColRootUoverTT struct {
	Limit string
	ColT
	ColT2
}

// ColRootToverU: shallow tagged, deeper untagged.
type ColRootToverU struct {
	Max string `json:"Limit"`
	ColU
}

// ColRootTvsU: tagged and untagged at equal depth.
type ColRootTvsU struct {
	ColU
	ColT
}

// ColRootTT: two tagged at equal depth.
type ColRootTT struct {
	ColT
	ColT2
	Own string `json:"own"`
}

// ColRootUU: two untagged at equal depth.
type ColRootUU struct {
	ColU
	ColU2
	Own string `json:"own"`
}

// ColRootTTdeepU: a pair at depth 1 and a third claimant at depth 2.
type ColRootTTdeepU struct {
	ColT
	ColT2
	ColDeepU
}

// ColRootUdeepPT: untagged at depth 1, tagged at depth 2 below a pointer.
type ColRootUdeepPT struct {
	ColU
	ColDeepPT
}

// ColRootTwoPaths: one embedded type reachable by two paths.
type ColRootTwoPaths struct {
	ColDeepT
	ColMidT
}

// ColRootTwoPathsU: the same, with a claimant at depth 0.
type ColRootTwoPathsU struct {
	ColDeepT
	ColMidT
	Limit string
}

// ColRootPtrUdeepT: untagged at depth 1 below a pointer, tagged at depth 2.
type ColRootPtrUdeepT struct {
	*ColU
	ColDeepT
}

// ColRootDash: the shallow claimant is excluded with json:"-".
type ColRootDash struct {
	Limit string `json:"-"`
	ColT
}

// ColRootOmit: the shallow claimant has options but no name in its tag.
type ColRootOmit struct {
	Limit string `json:",omitempty"`
	ColT
}

// ColRootStr: the string option on the winner.
type ColRootStr struct {
	ColStrT
	ColU
}

// ColRootStrLoser: the string option on the loser.
type ColRootStrLoser struct {
	Limit []string
	ColStrT
}

// Colliders lists the compiled types of the name-collision family (not part of Types: they are
// judged by their own stage).
var Colliders = []Entry{
	{"ColT", reflect.TypeOf(ColT{})},
	{"ColT2", reflect.TypeOf(ColT2{})},
	{"ColU", reflect.TypeOf(ColU{})},
	{"ColU2", reflect.TypeOf(ColU2{})},
	{"ColStrT", reflect.TypeOf(ColStrT{})},
	{"ColDeepT", reflect.TypeOf(ColDeepT{})},
	{"ColMidT", reflect.TypeOf(ColMidT{})},
	{"ColDeepPT", reflect.TypeOf(ColDeepPT{})},
	{"ColDeepU", reflect.TypeOf(ColDeepU{})},
	{"ColRootUoverT", reflect.TypeOf(ColRootUoverT{})},
	{"ColRootUoverTT", reflect.TypeOf(ColRootUoverTT{})},
	{"ColRootToverU", reflect.TypeOf(ColRootToverU{})},
	{"ColRootTvsU", reflect.TypeOf(ColRootTvsU{})},
	{"ColRootTT", reflect.TypeOf(ColRootTT{})},
	{"ColRootUU", reflect.TypeOf(ColRootUU{})},
	{"ColRootTTdeepU", reflect.TypeOf(ColRootTTdeepU{})},
	{"ColRootUdeepPT", reflect.TypeOf(ColRootUdeepPT{})},
	{"ColRootTwoPaths", reflect.TypeOf(ColRootTwoPaths{})},
	{"ColRootTwoPathsU", reflect.TypeOf(ColRootTwoPathsU{})},
	{"ColRootPtrUdeepT", reflect.TypeOf(ColRootPtrUdeepT{})},
	{"ColRootDash", reflect.TypeOf(ColRootDash{})},
	{"ColRootOmit", reflect.TypeOf(ColRootOmit{})},
	{"ColRootStr", reflect.TypeOf(ColRootStr{})},
	{"ColRootStrLoser", reflect.TypeOf(ColRootStrLoser{})},
}

// ColliderRoots names the compiled roots with the arrangement each one shows.
var ColliderRoots = [][2]string{
	{"ColRootUoverT", "d0u+d1t"},
	{"ColRootUoverTT", "d0u+d1t+d1t"},
	{"ColRootToverU", "d0t+d1u"},
	{"ColRootTvsU", "d1t+d1u"},
	{"ColRootTT", "d1t+d1t"},
	{"ColRootUU", "d1u+d1u"},
	{"ColRootTTdeepU", "d1t+d1t+d2u"},
	{"ColRootUdeepPT", "d1u+d2pt"},
	{"ColRootTwoPaths", "d2&2t"},
	{"ColRootTwoPathsU", "d0u+d2&2t"},
	{"ColRootPtrUdeepT", "d1pu+d2t"},
	{"ColRootDash", "d0dash+d1t"},
	{"ColRootOmit", "d0u.omit+d1t"},
	{"ColRootStr", "d1t.str+d1u"},
	{"ColRootStrLoser", "d0u+d1t.str"},
}
