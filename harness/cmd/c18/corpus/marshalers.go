package corpus

// Types with custom marshalling (stage 2m of the C18 check, marshal.go): the cross product of
// {json.Marshaler only, encoding.TextMarshaler only, both, neither} x {value receiver, pointer
// receiver} x {JSON form written by MarshalJSON: string, number, bool, object, array, null} x
// underlying Go kind, plus standard-library types that carry such methods. encoding/json prefers
// MarshalJSON over MarshalText, calls a pointer-receiver method only on an addressable value and
// writes a MarshalText result as a JSON string whatever the Go kind is.

import (
	"encoding/hex"
	"log/slog"
	"math/big"
	"net"
	"net/netip"
	"net/url"
	"reflect"
	"regexp"
	"strconv"
	"strings"
	"time"
)

// ---- JSON forms ----

type former interface{ render(n int64) string }

// FStr .. FNull are the JSON forms a MarshalJSON method of the family writes.
type (
	FStr  struct{}
	FNum  struct{}
	FBool struct{}
	FObj  struct{}
	FArr  struct{}
	FNull struct{}
)

func (FStr) render(n int64) string  { return strconv.Quote("j" + strconv.FormatInt(n, 10)) }
func (FNum) render(n int64) string  { return strconv.FormatInt(n, 10) + ".5" }
func (FBool) render(n int64) string { return "true" }
func (FObj) render(n int64) string {
	return `{"n":` + strconv.FormatInt(n, 10) + `,"list":["x",null],"N":"shadow"}`
}
func (FArr) render(n int64) string  { return `[` + strconv.FormatInt(n, 10) + `,"x",null,{"k":true}]` }
func (FNull) render(n int64) string { return "null" }

func text(n int64) []byte { return []byte("t" + strconv.FormatInt(n, 10)) }

// ---- struct-kind family (generic over the JSON form) ----

// JV is a json.Marshaler with a value receiver.
type JV[F former] struct{ N int64 }

func (m JV[F]) MarshalJSON() ([]byte, error) { var f F; return []byte(f.render(m.N)), nil }

// JP is a json.Marshaler with a pointer receiver.
type JP[F former] struct{ N int64 }

func (m *JP[F]) MarshalJSON() ([]byte, error) { var f F; return []byte(f.render(m.N)), nil }

// BV implements both interfaces with value receivers.
type BV[F former] struct{ N int64 }

func (m BV[F]) MarshalJSON() ([]byte, error) { var f F; return []byte(f.render(m.N)), nil }
func (m BV[F]) MarshalText() ([]byte, error) { return text(m.N), nil }

// BP implements both interfaces with pointer receivers.
type BP[F former] struct{ N int64 }

func (m *BP[F]) MarshalJSON() ([]byte, error) { var f F; return []byte(f.render(m.N)), nil }
func (m *BP[F]) MarshalText() ([]byte, error) { return text(m.N), nil }

// BJvTp has MarshalJSON on the value and MarshalText on the pointer: MarshalJSON always wins.
type BJvTp[F former] struct{ N int64 }

func (m BJvTp[F]) MarshalJSON() ([]byte, error)  { var f F; return []byte(f.render(m.N)), nil }
func (m *BJvTp[F]) MarshalText() ([]byte, error) { return text(m.N), nil }

// BJpTv has MarshalJSON on the pointer and MarshalText on the value: a value that is not addressable
// is written with MarshalText, an addressable one with MarshalJSON.
type BJpTv[F former] struct{ N int64 }

func (m *BJpTv[F]) MarshalJSON() ([]byte, error) { var f F; return []byte(f.render(m.N)), nil }
func (m BJpTv[F]) MarshalText() ([]byte, error)  { return text(m.N), nil }

// TV / TP are encoding.TextMarshalers only.
type TV struct{ N int64 }

func (m TV) MarshalText() ([]byte, error) { return text(m.N), nil }

type TP struct{ N int64 }

func (m *TP) MarshalText() ([]byte, error) { return text(m.N), nil }

// NS has no methods.
type NS struct {
	N int64 `json:"n"`
}

// ---- other underlying kinds ----

type (
	JVInt   int64          // MarshalJSON -> string
	JPInt   int64          // (*) MarshalJSON -> object
	JVFloat float64        // MarshalJSON -> string
	JVBool  bool           // MarshalJSON -> number
	JVStr   string         // MarshalJSON -> number
	JVBytes []byte         // MarshalJSON -> number
	JV16    [16]byte       // MarshalJSON -> string
	JVMap   map[string]int // MarshalJSON -> array
	JVSlice []int          // MarshalJSON -> object
	JVByte  uint8          // MarshalJSON -> object (element of slices and arrays)
	JPByte  uint8          // (*) MarshalJSON -> string
	BVInt   int            // MarshalJSON -> number, MarshalText -> name (an enumeration)
	BPInt   int            // the same with pointer receivers
	BVStr   string         // MarshalJSON -> array, MarshalText -> the string
	BV16    [16]byte       // MarshalJSON -> object, MarshalText -> hex
	BVBytes []byte         // MarshalJSON -> bool, MarshalText -> hex
	TVInt   int
	TPInt   int
	TVStr   string
	TVBool  bool
	TVFloat float64
	TVBytes []byte
	TPBytes []byte
	TV16    [16]byte // uuid-like
	TP16    [16]byte
	TVMap   map[string]int
	TVSlice []string
	TVByte  uint8
	TPByte  uint8
	NInt    int64
	NStr    string
	NBool   bool
	NFloat  float64
	NBytes  []byte
	N16     [16]byte
	NByte   uint8
	NMap    map[string]int
	NSlice  []string
)

func (m JVInt) MarshalJSON() ([]byte, error)   { return []byte(FStr{}.render(int64(m))), nil }
func (m *JPInt) MarshalJSON() ([]byte, error)  { return []byte(FObj{}.render(int64(*m))), nil }
func (m JVFloat) MarshalJSON() ([]byte, error) { return []byte(FStr{}.render(int64(m))), nil }
func (m JVBool) MarshalJSON() ([]byte, error)  { return []byte("1"), nil }
func (m JVStr) MarshalJSON() ([]byte, error)   { return []byte(strconv.Itoa(len(m))), nil }
func (m JVBytes) MarshalJSON() ([]byte, error) { return []byte(strconv.Itoa(len(m))), nil }
func (m JV16) MarshalJSON() ([]byte, error)    { return []byte(strconv.Quote(hex.EncodeToString(m[:]))), nil }
func (m JVMap) MarshalJSON() ([]byte, error)   { return []byte(FArr{}.render(int64(len(m)))), nil }
func (m JVSlice) MarshalJSON() ([]byte, error) { return []byte(FObj{}.render(int64(len(m)))), nil }
func (m JVByte) MarshalJSON() ([]byte, error)  { return []byte(FObj{}.render(int64(m))), nil }
func (m *JPByte) MarshalJSON() ([]byte, error) { return []byte(FStr{}.render(int64(*m))), nil }

var levelNames = []string{"low", "mid", "high"}

func levelName(n int) string {
	if n >= 0 && n < len(levelNames) {
		return levelNames[n]
	}
	return "level(" + strconv.Itoa(n) + ")" // injective: the type is used as a map key as well
}

func (m BVInt) MarshalJSON() ([]byte, error)   { return []byte(strconv.Itoa(int(m))), nil }
func (m BVInt) MarshalText() ([]byte, error)   { return []byte(levelName(int(m))), nil }
func (m *BPInt) MarshalJSON() ([]byte, error)  { return []byte(strconv.Itoa(int(*m))), nil }
func (m *BPInt) MarshalText() ([]byte, error)  { return []byte(levelName(int(*m))), nil }
func (m BVStr) MarshalJSON() ([]byte, error)   { return []byte("[" + strconv.Quote(string(m)) + "]"), nil }
func (m BVStr) MarshalText() ([]byte, error)   { return []byte(m), nil }
func (m BV16) MarshalJSON() ([]byte, error)    { return []byte(`{"hex":"` + hex.EncodeToString(m[:]) + `"}`), nil }
func (m BV16) MarshalText() ([]byte, error)    { return []byte(hex.EncodeToString(m[:])), nil }
func (m BVBytes) MarshalJSON() ([]byte, error) { return []byte("true"), nil }
func (m BVBytes) MarshalText() ([]byte, error) { return []byte(hex.EncodeToString(m)), nil }

func (m TVInt) MarshalText() ([]byte, error)    { return text(int64(m)), nil }
func (m *TPInt) MarshalText() ([]byte, error)   { return text(int64(*m)), nil }
func (m TVStr) MarshalText() ([]byte, error)    { return []byte("<" + string(m) + ">"), nil }
func (m TVBool) MarshalText() ([]byte, error)   { return []byte("yes"), nil }
func (m TVFloat) MarshalText() ([]byte, error)  { return text(int64(m)), nil }
func (m TVBytes) MarshalText() ([]byte, error)  { return []byte(hex.EncodeToString(m)), nil }
func (m *TPBytes) MarshalText() ([]byte, error) { return []byte(hex.EncodeToString(*m)), nil }
func (m TV16) MarshalText() ([]byte, error)     { return []byte(hex.EncodeToString(m[:])), nil }
func (m *TP16) MarshalText() ([]byte, error)    { return []byte(hex.EncodeToString(m[:])), nil }
func (m TVMap) MarshalText() ([]byte, error)    { return text(int64(len(m))), nil }
func (m TVSlice) MarshalText() ([]byte, error)  { return []byte(strings.Join(m, "+")), nil }
func (m TVByte) MarshalText() ([]byte, error)   { return text(int64(m)), nil }
func (m *TPByte) MarshalText() ([]byte, error)  { return text(int64(*m)), nil }

// ---- holders embedding a marshaler (the methods are promoted: the holder is a marshaler itself) ----

type EmbJVNum struct {
	JV[FNum]
	X int `json:"x"`
}
type EmbJVObj struct {
	JV[FObj]
	X int `json:"x"`
}
type EmbTV struct {
	TV
	X int `json:"x"`
}
type EmbBVNum struct {
	BV[FNum]
	X int `json:"x"`
}
type EmbBVArr struct {
	BV[FArr]
	X int `json:"x"`
}
type EmbPtrBVNum struct {
	*BV[FNum]
	X int `json:"x"`
}
type EmbPtrTV struct {
	*TV
	X int `json:"x"`
}
type EmbJPNum struct { // MarshalJSON is promoted to *EmbJPNum only
	JP[FNum]
	X int `json:"x"`
}
type EmbTP struct { // MarshalText is promoted to *EmbTP only
	TP
	X int `json:"x"`
}
type EmbBVInt struct {
	BVInt
	X int `json:"x"`
}
type EmbTVInt struct {
	TVInt
	X int `json:"x"`
}
type EmbNInt struct { // no methods: an ordinary embedded non-struct field named "NInt"
	NInt
	X int `json:"x"`
}
type EmbNS struct { // no methods: the fields of NS are promoted
	NS
	X int `json:"x"`
}

// MEntry describes one type of the family.
type MEntry struct {
	Name  string
	Type  reflect.Type
	Impl  string // json | text | both | both-jv-tp | both-jp-tv | none | embeds-<impl> | std
	Recv  string // val | ptr | - : the receiver of the method encoding/json uses on an addressable value
	Form  string // JSON type of the encoding of an addressable value: string | number | boolean | object | array | null
	Under string // underlying Go kind
	Key   bool   // usable as a map key by encoding/json
	// Make builds a value where filling the type by kind would not give one encoding/json can encode.
	Make func(variant int, n int64) reflect.Value
}

// Marshalers is the family.
var Marshalers []MEntry

// MarshalerByType finds the entry of a type.
func MarshalerByType(t reflect.Type) *MEntry {
	if i, ok := mIndex[t]; ok {
		return &Marshalers[i]
	}
	return nil
}

var mIndex = map[reflect.Type]int{}

func addM(name string, v interface{}, impl, recv, form string, key bool) {
	t := reflect.TypeOf(v)
	for _, m := range Marshalers {
		if m.Name == name || m.Type == t {
			panic("corpus: marshaler family entry " + name + " is registered twice")
		}
	}
	mIndex[t] = len(Marshalers)
	Marshalers = append(Marshalers, MEntry{Name: name, Type: t, Impl: impl, Recv: recv, Form: form, Under: t.Kind().String(), Key: key})
}

func addStd(name string, v interface{}, recv, form string, key bool, mk func(variant int, n int64) reflect.Value) {
	addM(name, v, "std", recv, form, key)
	Marshalers[len(Marshalers)-1].Make = mk
}

func forms[F former](suffix, form string) {
	addM("JV_"+suffix, JV[F]{}, "json", "val", form, false)
	addM("JP_"+suffix, JP[F]{}, "json", "ptr", form, false)
	addM("BV_"+suffix, BV[F]{}, "both", "val", form, true)
	addM("BP_"+suffix, BP[F]{}, "both", "ptr", form, false)
	addM("BJvTp_"+suffix, BJvTp[F]{}, "both-jv-tp", "val", form, false)
	addM("BJpTv_"+suffix, BJpTv[F]{}, "both-jp-tv", "ptr", form, true)
}

func init() {
	forms[FStr]("Str", "string")
	forms[FNum]("Num", "number")
	forms[FBool]("Bool", "boolean")
	forms[FObj]("Obj", "object")
	forms[FArr]("Arr", "array")
	forms[FNull]("Null", "null")
	addM("TV", TV{}, "text", "val", "string", true)
	addM("TP", TP{}, "text", "ptr", "string", false)
	addM("NS", NS{}, "none", "-", "object", false)

	addM("JVInt", JVInt(0), "json", "val", "string", true) // an integer kind is a valid key kind whatever the methods are
	addM("JPInt", JPInt(0), "json", "ptr", "object", true)
	addM("JVFloat", JVFloat(0), "json", "val", "string", false)
	addM("JVBool", JVBool(false), "json", "val", "number", false)
	addM("JVStr", JVStr(""), "json", "val", "number", true)
	addM("JVBytes", JVBytes(nil), "json", "val", "number", false)
	addM("JV16", JV16{}, "json", "val", "string", false)
	addM("JVMap", JVMap(nil), "json", "val", "array", false)
	addM("JVSlice", JVSlice(nil), "json", "val", "object", false)
	addM("JVByte", JVByte(0), "json", "val", "object", true)
	addM("JPByte", JPByte(0), "json", "ptr", "string", true)
	addM("BVInt", BVInt(0), "both", "val", "number", true)
	addM("BPInt", BPInt(0), "both", "ptr", "number", true)
	addM("BVStr", BVStr(""), "both", "val", "array", true)
	addM("BV16", BV16{}, "both", "val", "object", true)
	addM("BVBytes", BVBytes(nil), "both", "val", "boolean", false)
	addM("TVInt", TVInt(0), "text", "val", "string", true)
	addM("TPInt", TPInt(0), "text", "ptr", "string", true)
	addM("TVStr", TVStr(""), "text", "val", "string", true)
	addM("TVBool", TVBool(false), "text", "val", "string", true)
	addM("TVFloat", TVFloat(0), "text", "val", "string", true)
	addM("TVBytes", TVBytes(nil), "text", "val", "string", false)
	addM("TPBytes", TPBytes(nil), "text", "ptr", "string", false)
	addM("TV16", TV16{}, "text", "val", "string", true)
	addM("TP16", TP16{}, "text", "ptr", "string", false)
	addM("TVMap", TVMap(nil), "text", "val", "string", false)
	addM("TVSlice", TVSlice(nil), "text", "val", "string", false)
	addM("TVByte", TVByte(0), "text", "val", "string", true)
	addM("TPByte", TPByte(0), "text", "ptr", "string", true)
	addM("NInt", NInt(0), "none", "-", "number", true)
	addM("NStr", NStr(""), "none", "-", "string", true)
	addM("NBool", NBool(false), "none", "-", "boolean", false)
	addM("NFloat", NFloat(0), "none", "-", "number", false)
	addM("NBytes", NBytes(nil), "none", "-", "string", false)
	addM("N16", N16{}, "none", "-", "array", false)
	addM("NByte", NByte(0), "none", "-", "number", true)
	addM("NMap", NMap(nil), "none", "-", "object", false)
	addM("NSlice", NSlice(nil), "none", "-", "array", false)

	addM("EmbJVNum", EmbJVNum{}, "embeds-json", "val", "number", false)
	addM("EmbJVObj", EmbJVObj{}, "embeds-json", "val", "object", false)
	addM("EmbTV", EmbTV{}, "embeds-text", "val", "string", true)
	addM("EmbBVNum", EmbBVNum{}, "embeds-both", "val", "number", true)
	addM("EmbBVArr", EmbBVArr{}, "embeds-both", "val", "array", true)
	addM("EmbPtrBVNum", EmbPtrBVNum{}, "embeds-both", "val", "number", false)
	addM("EmbPtrTV", EmbPtrTV{}, "embeds-text", "val", "string", false)
	addM("EmbJPNum", EmbJPNum{}, "embeds-json", "ptr", "number", false)
	addM("EmbTP", EmbTP{}, "embeds-text", "ptr", "string", false)
	addM("EmbBVInt", EmbBVInt{}, "embeds-both", "val", "number", true)
	addM("EmbTVInt", EmbTVInt{}, "embeds-text", "val", "string", true)
	addM("EmbNInt", EmbNInt{}, "embeds-none", "-", "object", false)
	addM("EmbNS", EmbNS{}, "embeds-none", "-", "object", false)

	// standard library
	addStd("BigInt", big.Int{}, "ptr", "number", false, func(v int, n int64) reflect.Value {
		x := new(big.Int).Lsh(big.NewInt(n+1), uint(70*v)) // variant 1: beyond 2^64
		return reflect.ValueOf(x).Elem()
	})
	addStd("BigFloat", big.Float{}, "ptr", "string", false, func(v int, n int64) reflect.Value {
		return reflect.ValueOf(big.NewFloat(float64(n) + 0.25)).Elem()
	})
	addStd("BigRat", big.Rat{}, "ptr", "string", false, func(v int, n int64) reflect.Value {
		return reflect.ValueOf(big.NewRat(n+1, 7)).Elem()
	})
	addStd("NetIP", net.IP(nil), "val", "string", false, func(v int, n int64) reflect.Value {
		if v == 0 {
			return reflect.ValueOf(net.IPv4(10, 0, byte(n>>8), byte(n)))
		}
		return reflect.ValueOf(net.ParseIP("2001:db8::" + strconv.FormatInt(n%0xffff+1, 16)))
	})
	addStd("NetipAddr", netip.Addr{}, "val", "string", true, func(v int, n int64) reflect.Value {
		if v == 0 {
			return reflect.ValueOf(netip.AddrFrom4([4]byte{10, 1, byte(n >> 8), byte(n)}))
		}
		return reflect.ValueOf(netip.MustParseAddr("2001:db8::" + strconv.FormatInt(n%0xffff+1, 16)))
	})
	addStd("NetipPrefix", netip.Prefix{}, "val", "string", true, func(v int, n int64) reflect.Value {
		return reflect.ValueOf(netip.PrefixFrom(netip.AddrFrom4([4]byte{10, byte(n), 0, 0}), 16))
	})
	addStd("NetipAddrPort", netip.AddrPort{}, "val", "string", true, func(v int, n int64) reflect.Value {
		return reflect.ValueOf(netip.AddrPortFrom(netip.AddrFrom4([4]byte{10, 1, 2, byte(n)}), uint16(1000+n)))
	})
	addStd("Regexp", regexp.Regexp{}, "ptr", "string", false, func(v int, n int64) reflect.Value {
		return reflect.ValueOf(regexp.MustCompile("^a{" + strconv.FormatInt(n%9+1, 10) + "}[b-d]+$")).Elem()
	})
	addStd("URL", url.URL{}, "-", "object", false, func(v int, n int64) reflect.Value {
		u, _ := url.Parse("https://user:pw@example.org:8443/p/" + strconv.FormatInt(n, 10) + "?q=1#frag")
		u.ForceQuery, u.OmitHost, u.Opaque, u.RawPath, u.RawFragment = true, true, "opaque", "/p", "frag"
		return reflect.ValueOf(u).Elem()
	})
	addStd("SlogLevel", slog.Level(0), "val", "string", true, nil)
	addStd("Duration", time.Duration(0), "-", "number", true, nil)
	addStd("Month", time.Month(0), "-", "number", true, nil)
	addStd("HardwareAddr", net.HardwareAddr(nil), "-", "string", false, nil)

	for _, m := range Marshalers {
		Types2 = append(Types2, Entry{m.Name, m.Type})
	}
}

// Types2 lists the family as named compiled types (resolved by ByName, not part of Types: the family
// has its own stage).
var Types2 []Entry
