package corpus

import "reflect"

// Named pointer types: encoding/json applies the ",string" option of a json tag to string, number and
// boolean fields and to UNNAMED pointers to them; a field of a named pointer type keeps its plain
// encoding (tags.go, the tag-syntax family).

// PInt is a named pointer to int.
type PInt *int

// PStr is a named pointer to string.
type PStr *string

// PBool is a named pointer to bool.
type PBool *bool

// PFloat is a named pointer to float64.
type PFloat *float64

// TagKinds lists the compiled types only the tag-syntax family uses.
var TagKinds = []Entry{
	{"PInt", reflect.TypeOf(PInt(nil))},
	{"PStr", reflect.TypeOf(PStr(nil))},
	{"PBool", reflect.TypeOf(PBool(nil))},
	{"PFloat", reflect.TypeOf(PFloat(nil))},
}

func init() {
	Types2 = append(Types2, TagKinds...)
}
