package main

import (
	"fmt"
	"math/rand"
	"strings"

	"verifharness/cmd/c18/corpus"
)

// ---------------------------------------------------------------------------------------------
// stage 1: every feature alone

type stage1Case struct {
	Feature string
	Spec    TSpec
}

func plainField(name string, t TSpec) FSpec {
	return FSpec{Name: name, Mode: "tagged", JName: strings.ToLower(name), T: t}
}

func oneField(f FSpec) TSpec { return TSpec{K: "struct", F: []FSpec{f}} }

func ptrTo(t TSpec) *TSpec { return &t }

var leafSpecials = []string{"bytes", "iface", "time", "raw", "jsonnumber", "jm", "tm"}
var wrapperKinds = []string{"ptr", "slice", "array", "map", "struct"}
var structuralFeatures = []string{"reuse", "empty-struct", "embedded", "embedded-ptr", "embedded-tagged", "unexported", "dup-name"}
var optionFeatures = []string{"omitempty", "string-opt"}
var modeFeatures = []string{"untagged", "nameless", "dash", "dashlit", "name-slash", "name-tilde", "name-percent", "name-space", "name-unicode"}

// corpusFieldTypes are the compiled types stage 2 may use as field types.
var corpusFieldTypes = []string{"SelfPtrOmit", "SelfSlice", "SelfMap", "MutualA", "Leaf", "UsedTwice", "BoxInt", "BoxLeaf", "BoxOfBox", "LinkedList", "Tree", "Forest"}

func modeName(mode string, seq int) string {
	switch mode {
	case "name-slash":
		return fmt.Sprintf("a/b%d", seq)
	case "name-tilde":
		return fmt.Sprintf("t~1x%d", seq)
	case "name-percent":
		return fmt.Sprintf("p%%41x%d", seq)
	case "name-space":
		return fmt.Sprintf("sp ace%d", seq)
	case "name-unicode":
		return fmt.Sprintf("名前%d", seq)
	}
	return fmt.Sprintf("f%d", seq)
}

func stage1Corpus() []stage1Case {
	var out []stage1Case
	add := func(feature string, spec TSpec) { out = append(out, stage1Case{feature, spec}) }
	for _, k := range primOrder {
		add("prim:"+k, oneField(plainField("F", TSpec{K: k})))
	}
	for _, k := range leafSpecials {
		add(k, oneField(plainField("F", TSpec{K: k})))
	}
	add("ptr", oneField(plainField("F", TSpec{K: "ptr", E: ptrTo(TSpec{K: "int"})})))
	add("slice", oneField(plainField("F", TSpec{K: "slice", E: ptrTo(TSpec{K: "int"})})))
	add("array", oneField(plainField("F", TSpec{K: "array", N: 3, E: ptrTo(TSpec{K: "int"})})))
	add("map", oneField(plainField("F", TSpec{K: "map", E: ptrTo(TSpec{K: "int"})})))
	inner := oneField(plainField("A", TSpec{K: "int"}))
	add("struct", oneField(plainField("F", inner)))
	add("empty-struct", oneField(plainField("F", TSpec{K: "struct"})))
	add("reuse", TSpec{K: "struct", F: []FSpec{plainField("F", cloneT(inner)), plainField("G", cloneT(inner))}})
	add("embedded", oneField(FSpec{Emb: "val"}))
	add("embedded-ptr", oneField(FSpec{Emb: "ptr"}))
	add("embedded-tagged", oneField(FSpec{Emb: "tagged"}))
	add("unexported", oneField(FSpec{Name: "hidden", Unexp: true, Mode: "tagged", JName: "hidden", T: TSpec{K: "int"}}))
	add("dup-name", TSpec{K: "struct", F: []FSpec{
		{Name: "F", Mode: "tagged", JName: "same", T: TSpec{K: "int"}},
		{Name: "G", Mode: "tagged", JName: "same", T: TSpec{K: "int"}}}})
	add("omitempty", oneField(FSpec{Name: "F", Mode: "tagged", JName: "f", Omit: true, T: TSpec{K: "int"}}))
	add("string-opt", oneField(FSpec{Name: "F", Mode: "tagged", JName: "f", Str: true, T: TSpec{K: "int"}}))
	add("string-opt-noop", oneField(FSpec{Name: "F", Mode: "tagged", JName: "f", Str: true, T: TSpec{K: "slice", E: ptrTo(TSpec{K: "int"})}}))
	for _, m := range modeFeatures {
		f := FSpec{Name: "Plain", Mode: m, JName: modeName(m, 1), T: TSpec{K: "int"}}
		if m == "nameless" {
			f.Omit = true
		}
		add(m, oneField(f))
	}
	for _, st := range stClasses {
		add("st:"+st, oneField(FSpec{Name: "F", Mode: "tagged", JName: "f", ST: st, T: stCarrier(st)}))
	}
	for _, e := range corpus.Types {
		add("corpus:"+e.Name, TSpec{K: "corpus:" + e.Name})
	}
	return out
}

// ---------------------------------------------------------------------------------------------
// stage 2, deterministic part: pairs of features (field-level x type-level, wrapper x inner type)

type pairCase struct {
	A, B string
	Spec TSpec
}

func pairCorpus() []pairCase {
	type tl struct {
		name string
		t    TSpec
	}
	var types []tl
	for _, k := range primOrder {
		types = append(types, tl{"prim:" + k, TSpec{K: k}})
	}
	for _, k := range leafSpecials {
		types = append(types, tl{k, TSpec{K: k}})
	}
	inner := oneField(plainField("A", TSpec{K: "int"}))
	types = append(types, tl{"struct", inner}, tl{"empty-struct", TSpec{K: "struct"}})
	for _, e := range corpus.Types {
		types = append(types, tl{"corpus:" + e.Name, TSpec{K: "corpus:" + e.Name}})
	}
	wrap := func(w string, t TSpec) TSpec {
		if w == "array" {
			return TSpec{K: "array", N: 2, E: ptrTo(cloneT(t))}
		}
		return TSpec{K: w, E: ptrTo(cloneT(t))}
	}
	wrappers := []string{"ptr", "slice", "array", "map"}
	var out []pairCase
	// wrapper x inner
	for _, w := range wrappers {
		for _, t := range types {
			out = append(out, pairCase{w, t.name, oneField(plainField("F1", wrap(w, t.t)))})
		}
		for _, w2 := range wrappers {
			out = append(out, pairCase{w, w2, oneField(plainField("F1", wrap(w, wrap(w2, TSpec{K: "int"}))))})
		}
	}
	// field-level x type-level
	all := append([]tl{}, types...)
	for _, w := range wrappers {
		all = append(all, tl{w, wrap(w, TSpec{K: "int"})})
	}
	fieldLevel := append(append([]string{}, modeFeatures...), "omitempty", "string-opt", "st:required", "st:description")
	apply := func(fl string, f *FSpec) {
		switch {
		case fl == "omitempty":
			f.Omit = true
		case fl == "string-opt":
			f.Str = true
		case strings.HasPrefix(fl, "st:"):
			f.ST = strings.TrimPrefix(fl, "st:")
		case fl == "nameless":
			f.Mode, f.Omit = fl, true
		default:
			f.Mode = fl
			f.JName = modeName(fl, 1)
		}
	}
	for _, fl := range fieldLevel {
		for _, t := range all {
			f := plainField("F1", cloneT(t.t))
			apply(fl, &f)
			out = append(out, pairCase{fl, t.name, oneField(f)})
		}
		// the same struct type used twice, the first occurrence under the field-level feature
		f := plainField("F1", cloneT(inner))
		apply(fl, &f)
		out = append(out, pairCase{fl, "reuse", TSpec{K: "struct", F: []FSpec{f, plainField("F2", cloneT(inner))}}})
	}
	// every jsonschema-tag class x every kind of field type it can sit on (compiled types: three of them)
	var tagTargets []tl
	for _, t := range all {
		if !strings.HasPrefix(t.name, "corpus:") || t.name == "corpus:Leaf" || t.name == "corpus:Tree" || t.name == "corpus:UsedTwice" {
			tagTargets = append(tagTargets, t)
		}
	}
	for _, st := range stClasses {
		if st == "required" || st == "description" {
			continue // part of fieldLevel above
		}
		for _, t := range tagTargets {
			if !stApplicable(st, &t.t) {
				continue
			}
			f := plainField("F1", cloneT(t.t))
			f.ST = st
			out = append(out, pairCase{"st:" + st, t.name, oneField(f)})
		}
	}
	// siblings: two fields of one type, one of them tagged (either order) - what is written on one field
	// must not show on the other
	for _, st := range stClasses {
		for _, t := range all {
			if strings.HasPrefix(t.name, "prim:") && t.name != "prim:string" && t.name != "prim:int" && t.name != "prim:float64" && t.name != "prim:bool" && t.name != "prim:uint8" {
				continue
			}
			if strings.HasPrefix(t.name, "corpus:") && t.name != "corpus:Leaf" && t.name != "corpus:Tree" {
				continue
			}
			if !stApplicable(st, &t.t) || t.name == "empty-struct" {
				continue
			}
			for order := 0; order < 2; order++ {
				a, b := plainField("F1", cloneT(t.t)), plainField("F2", cloneT(t.t))
				if order == 0 {
					a.ST = st
				} else {
					b.ST = st
				}
				out = append(out, pairCase{"st:" + st, fmt.Sprintf("sibling%d:%s", order+1, t.name), TSpec{K: "struct", F: []FSpec{a, b}}})
			}
		}
	}
	return out
}

// ---------------------------------------------------------------------------------------------
// stage 2, random part: seeded compositions

type gen struct {
	rng *rand.Rand
	seq int
	en  map[string]bool
}

func (g *gen) pickN(pool []string, n int) {
	if n > len(pool) {
		n = len(pool)
	}
	for _, i := range g.rng.Perm(len(pool))[:n] {
		g.en[pool[i]] = true
	}
}

func (g *gen) newField(t TSpec) FSpec {
	g.seq++
	return FSpec{Name: fmt.Sprintf("F%d", g.seq), Mode: "tagged", JName: fmt.Sprintf("f%d", g.seq), T: t}
}

func (g *gen) leaf() TSpec {
	pool := []string{"int", "string"}
	for _, k := range primOrder {
		if g.en["prim:"+k] {
			pool = append(pool, k, k)
		}
	}
	for _, k := range leafSpecials {
		if g.en[k] {
			pool = append(pool, k, k)
		}
	}
	for _, c := range corpusFieldTypes {
		if g.en["corpus:"+c] {
			pool = append(pool, "corpus:"+c, "corpus:"+c)
		}
	}
	return TSpec{K: pool[g.rng.Intn(len(pool))]}
}

func (g *gen) randType(depth, chain int) TSpec {
	opts := []string{"leaf", "leaf", "leaf"}
	if chain < 3 {
		for _, w := range []string{"ptr", "slice", "array", "map"} {
			if g.en[w] {
				opts = append(opts, w)
			}
		}
	}
	if g.en["struct"] && depth < 5 {
		opts = append(opts, "struct", "struct")
	}
	switch k := opts[g.rng.Intn(len(opts))]; k {
	case "leaf":
		return g.leaf()
	case "struct":
		return g.randStruct(depth+1, 1+g.rng.Intn(3))
	case "array":
		e := g.randType(depth, chain+1)
		return TSpec{K: "array", N: 1 + g.rng.Intn(3), E: &e}
	default:
		e := g.randType(depth, chain+1)
		return TSpec{K: k, E: &e}
	}
}

func (g *gen) randStruct(depth, nf int) TSpec {
	s := TSpec{K: "struct"}
	for i := 0; i < nf; i++ {
		s.F = append(s.F, g.newField(g.randType(depth, 0)))
	}
	return s
}

// collect gathers the plain fields, the struct nodes and the reusable nodes (nested structs with
// fields, compiled types) of a tree. The pointers stay valid until a field slice is appended to.
func collect(t *TSpec, isRoot bool, fields *[]*FSpec, structs *[]*TSpec, reusable *[]*TSpec) {
	switch {
	case t.K == "struct":
		*structs = append(*structs, t)
		if !isRoot && len(t.F) > 0 {
			*reusable = append(*reusable, t)
		}
		for i := range t.F {
			f := &t.F[i]
			if f.Emb == "" && !f.Unexp {
				*fields = append(*fields, f)
				collect(&f.T, false, fields, structs, reusable)
			}
		}
	case strings.HasPrefix(t.K, "corpus:"):
		*reusable = append(*reusable, t)
	case t.E != nil:
		collect(t.E, false, fields, structs, reusable)
	}
}

func hasStructural(t *TSpec) bool {
	for cur := t; cur != nil; cur = cur.E {
		if cur.K == "struct" || strings.HasPrefix(cur.K, "corpus:") {
			return true
		}
	}
	return false
}

func (g *gen) pickField(fields []*FSpec, pred func(*FSpec) bool) *FSpec {
	var c []*FSpec
	for _, f := range fields {
		if pred(f) {
			c = append(c, f)
		}
	}
	if len(c) == 0 {
		return nil
	}
	return c[g.rng.Intn(len(c))]
}

func hasEmb(s *TSpec, emb string) bool {
	for i := range s.F {
		if s.F[i].Emb == emb {
			return true
		}
	}
	return false
}

// randomType draws a feature subset and builds a struct type showing (most of) it.
func (g *gen) randomType() TSpec {
	g.en = map[string]bool{}
	g.seq = 0
	var leafPool []string
	for _, k := range primOrder {
		leafPool = append(leafPool, "prim:"+k)
	}
	leafPool = append(leafPool, leafSpecials...)
	g.pickN(leafPool, g.rng.Intn(4))
	g.pickN(wrapperKinds, g.rng.Intn(4))
	g.pickN(structuralFeatures, []int{0, 0, 1, 1, 2}[g.rng.Intn(5)])
	g.pickN(optionFeatures, g.rng.Intn(3))
	g.pickN(modeFeatures, []int{0, 0, 1, 1, 2}[g.rng.Intn(5)])
	var stPool []string
	for _, st := range stClasses {
		stPool = append(stPool, "st:"+st)
	}
	g.pickN(stPool, []int{0, 0, 1, 2}[g.rng.Intn(4)])
	var cPool []string
	for _, c := range corpusFieldTypes {
		cPool = append(cPool, "corpus:"+c)
	}
	g.pickN(cPool, []int{0, 0, 0, 1, 1, 2}[g.rng.Intn(6)])

	root := g.randStruct(1, 1+g.rng.Intn(5))

	gather := func() (fields []*FSpec, structs []*TSpec, reusable []*TSpec) {
		collect(&root, true, &fields, &structs, &reusable)
		return
	}
	// structural features (they append fields, so they run one at a time on fresh pointers)
	for _, sf := range structuralFeatures {
		if !g.en[sf] {
			continue
		}
		_, structs, reusable := gather()
		host := structs[g.rng.Intn(len(structs))]
		switch sf {
		case "embedded":
			if !hasEmb(host, "val") {
				host.F = append(host.F, FSpec{Emb: "val"})
			}
		case "embedded-ptr":
			if !hasEmb(host, "ptr") {
				host.F = append(host.F, FSpec{Emb: "ptr"})
			}
		case "embedded-tagged":
			if !hasEmb(host, "tagged") {
				host.F = append(host.F, FSpec{Emb: "tagged"})
			}
		case "unexported":
			g.seq++
			host.F = append(host.F, FSpec{Name: fmt.Sprintf("hidden%d", g.seq), Unexp: true, Mode: "tagged", JName: fmt.Sprintf("hidden%d", g.seq), T: TSpec{K: "int"}})
		case "dup-name":
			a, b := g.newField(TSpec{K: "int"}), g.newField(g.leaf())
			b.JName = a.JName
			host.F = append(host.F, a, b)
		case "empty-struct":
			host = structs[0] // the root: a struct added at the deepest level would exceed depth 5
			t := TSpec{K: "struct"}
			if g.en["ptr"] && g.rng.Intn(2) == 0 {
				t = TSpec{K: "ptr", E: ptrTo(t)}
			}
			host.F = append(host.F, g.newField(t))
		case "reuse":
			var src TSpec
			if len(reusable) > 0 {
				src = cloneT(*reusable[g.rng.Intn(len(reusable))])
			} else {
				src = oneField(plainField("A", TSpec{K: "int"}))
				root.F = append(root.F, g.newField(cloneT(src)))
			}
			t := src
			switch g.rng.Intn(4) {
			case 0:
				if g.en["slice"] {
					t = TSpec{K: "slice", E: ptrTo(src)}
				}
			case 1:
				if g.en["ptr"] {
					t = TSpec{K: "ptr", E: ptrTo(src)}
				}
			case 2:
				if g.en["map"] {
					t = TSpec{K: "map", E: ptrTo(src)}
				}
			}
			root.F = append(root.F, g.newField(t)) // appended to the root: never inside the copied struct
		}
	}
	// jsonschema tags
	for _, st := range stClasses {
		if !g.en["st:"+st] {
			continue
		}
		fields, structs, _ := gather()
		if f := g.pickField(fields, func(f *FSpec) bool { return f.ST == "" && stApplicable(st, &f.T) }); f != nil {
			f.ST = st
			continue
		}
		host := structs[g.rng.Intn(len(structs))]
		nf := g.newField(stCarrier(st))
		nf.ST = st
		host.F = append(host.F, nf)
	}
	// tag modes
	for _, m := range modeFeatures {
		if !g.en[m] {
			continue
		}
		fields, _, _ := gather()
		plain := func(f *FSpec) bool { return f.Mode == "tagged" }
		var f *FSpec
		if strings.HasPrefix(m, "name-") && g.rng.Intn(10) < 7 {
			f = g.pickField(fields, func(f *FSpec) bool { return plain(f) && hasStructural(&f.T) })
		}
		if f == nil {
			f = g.pickField(fields, plain)
		}
		if f == nil {
			continue
		}
		g.seq++
		f.Mode = m
		switch m {
		case "untagged":
			f.Omit, f.Str = false, false
		case "nameless":
			f.Omit = true
		case "dash", "dashlit":
		default:
			f.JName = modeName(m, g.seq)
		}
	}
	// options
	if g.en["omitempty"] {
		fields, _, _ := gather()
		for n := 1 + g.rng.Intn(2); n > 0; n-- {
			if f := g.pickField(fields, func(f *FSpec) bool { return f.Mode != "untagged" && f.Mode != "dash" }); f != nil {
				f.Omit = true
			}
		}
	}
	if g.en["string-opt"] {
		fields, _, _ := gather()
		ok := func(f *FSpec) bool { return f.Mode != "untagged" && f.Mode != "dash" }
		var f *FSpec
		if g.rng.Intn(4) != 0 {
			f = g.pickField(fields, func(f *FSpec) bool {
				lt := &f.T
				if lt.K == "ptr" {
					lt = lt.E
				}
				return ok(f) && primKinds[lt.K] != nil
			})
		}
		if f == nil {
			f = g.pickField(fields, ok)
		}
		if f != nil {
			f.Str = true
		}
	}
	return root
}
