package main

import (
	"encoding/base64"
	"encoding/json"
	"fmt"
	"math"
	"reflect"
	"sort"
	"strings"
	"time"

	"verifharness/cmd/c18/corpus"
)

// populator builds fully populated values by reflection: every pointer non-nil, every slice / map
// with two elements, strings non-empty, numbers non-zero (integers within +-2^53), time.Time a fixed
// instant, json.RawMessage {"k":1}, interface{} a string or a number. Recursion is cut once a struct
// type would occur more than `limit` times on the path: with an empty slice / map, or with a nil
// pointer field. nullCut records that a cut needed a nil in a place where it cannot be omitted
// (the type has no finite fully populated value).
type populator struct {
	variant int
	limit   int
	seq     int64
	onPath  map[reflect.Type]int
	nullCut bool
}

var fixedInstant = time.Date(2024, 2, 29, 12, 34, 56, 789000000, time.UTC)

const maxSafe = int64(1)<<53 - 1

func (p *populator) next() int64 { p.seq++; return p.seq }

func (p *populator) intFor(bits int, signed bool) int64 {
	n := p.next()
	if p.variant == 0 {
		return n%100 + 1
	}
	// variant 1: boundary values
	var hi int64
	switch bits {
	case 8:
		hi = math.MaxInt8
	case 16:
		hi = math.MaxInt16
	case 32:
		hi = math.MaxInt32
	default:
		hi = maxSafe
	}
	if !signed {
		switch bits {
		case 8:
			hi = math.MaxUint8
		case 16:
			hi = math.MaxUint16
		case 32:
			hi = math.MaxUint32
		}
		if n%2 == 0 {
			return hi
		}
		return n%1000 + 1
	}
	switch n % 3 {
	case 0:
		return hi
	case 1:
		if bits >= 64 {
			return -maxSafe
		}
		return -hi - 1
	}
	return -(n%1000 + 1)
}

func (p *populator) str() string {
	n := p.next()
	if p.variant == 0 {
		return fmt.Sprintf("s%d", n)
	}
	return fmt.Sprintf("s%d é✓ \"q\" \\ <&>   日本", n)
}

// cons are the constraints a field's own jsonschema tag declares (read back from the tag text the
// grammar wrote, see stTag; compiled types use the same keywords).
type cons struct {
	enum               []string
	minLen, maxLen     int // -1: not declared
	pattern            string
	min, max           *float64
	minItems, maxItems int // -1: not declared
}

func (c *cons) stringy() bool { return c.minLen >= 0 || c.maxLen >= 0 || c.pattern != "" }
func (c *cons) any() bool {
	return len(c.enum) > 0 || c.stringy() || c.min != nil || c.max != nil || c.minItems >= 0 || c.maxItems >= 0
}

func parseCons(tag reflect.StructTag) cons {
	c := cons{minLen: -1, maxLen: -1, minItems: -1, maxItems: -1}
	js := tag.Get("jsonschema")
	if js == "" {
		return c
	}
	for _, d := range strings.FieldsFunc(js, func(r rune) bool { return r == ',' || r == ';' }) {
		d = strings.TrimSpace(d)
		i := strings.Index(d, "=")
		if i < 0 {
			continue
		}
		k, v := d[:i], d[i+1:]
		num := func() *float64 {
			var f float64
			if _, err := fmt.Sscan(v, &f); err != nil {
				panic("harness: bad number in jsonschema tag: " + d)
			}
			return &f
		}
		switch k {
		case "enum":
			c.enum = append(c.enum, v)
		case "pattern":
			c.pattern = v
		case "minLength":
			c.minLen = int(*num())
		case "maxLength":
			c.maxLen = int(*num())
		case "minimum":
			c.min = num()
		case "maximum":
			c.max = num()
		case "minItems":
			c.minItems = int(*num())
		case "maxItems":
			c.maxItems = int(*num())
		}
	}
	return c
}

// fitString returns a string inside the declared zone: the pattern's fixed prefix, then filler up to
// minLength / cut down to maxLength (lengths in code points, as JSON Schema counts them).
func fitString(s string, c *cons) string {
	filler := 'x'
	switch c.pattern {
	case "":
	case "^s":
		if !strings.HasPrefix(s, "s") {
			s = "s" + s
		}
	case "^q[0-9]+$":
		digits := ""
		for _, r := range s {
			if r >= '0' && r <= '9' {
				digits += string(r)
			}
		}
		s, filler = "q"+digits+"0", '0'
	default:
		panic("harness: no value generator for pattern " + c.pattern)
	}
	r := []rune(s)
	for c.minLen >= 0 && len(r) < c.minLen {
		r = append(r, filler)
	}
	if c.maxLen >= 0 && len(r) > c.maxLen {
		r = r[:c.maxLen]
	}
	return string(r)
}

func (c *cons) fitFloat(f float64) float64 {
	if (c.min != nil && f < *c.min) || (c.max != nil && f > *c.max) {
		switch {
		case c.min != nil && c.max != nil:
			return (*c.min + *c.max) / 2
		case c.min != nil:
			return *c.min + 1
		default:
			return *c.max - 1
		}
	}
	return f
}

func (c *cons) fitInt(n int64, seq int64) int64 {
	f := float64(n)
	if (c.min != nil && f < *c.min) || (c.max != nil && f > *c.max) {
		switch {
		case c.min != nil && c.max != nil:
			lo, hi := int64(math.Ceil(*c.min)), int64(math.Floor(*c.max))
			return lo + seq%(hi-lo+1)
		case c.min != nil:
			return int64(math.Ceil(*c.min)) + 1
		default:
			return int64(math.Floor(*c.max)) - 1
		}
	}
	return n
}

// anyJSON builds the JSON text of a value of an "any JSON" kind (interface{}, json.RawMessage,
// json.Marshaler): an enum member, else a string or a number inside the declared zone; without a
// constraint it varies over object / string (text kinds) or string / number (interface{}).
func (p *populator) anyJSON(c *cons, untagged [2]string) string {
	q := func(s string) string { b, _ := json.Marshal(s); return string(b) }
	num := func() string {
		b, _ := json.Marshal(c.fitFloat(float64(p.next()) + 0.25))
		return string(b)
	}
	switch {
	case len(c.enum) > 0:
		return q(c.enum[p.variant%len(c.enum)])
	case !c.any():
		return untagged[p.variant]
	}
	// one value of each JSON type the constraints speak about, both inside the zone (a keyword of the
	// other JSON type constrains nothing)
	firstIsString := c.stringy() || (c.min == nil && c.max == nil)
	if firstIsString == (p.variant == 0) {
		return q(fitString(p.str(), c))
	}
	return num()
}

var tightInstant = time.Date(2031, 5, 6, 7, 8, 9, 0, time.UTC)

// value returns a populated value of type t; ok=false means the recursion limit was reached below a
// pointer / array chain and the caller has to cut. tag is the struct tag of the field the value is
// for: the value obeys the constraints the field's own jsonschema tag declares. Values of fields
// without constraints stay OUTSIDE the zones the "-tight" tag classes declare (short and long strings,
// small and huge numbers, two-element slices), so that a constraint leaking from another field or
// another type is refuted by them.
func (p *populator) value(t reflect.Type, tag reflect.StructTag) (reflect.Value, bool) {
	c := parseCons(tag)
	switch t {
	case tTime:
		if len(c.enum) > 0 || c.stringy() {
			if len(c.enum) > 0 && c.enum[0] != tightTimeText {
				panic("harness: no time value for enum " + c.enum[0])
			}
			return reflect.ValueOf(tightInstant), true // "2031-05-06T07:08:09Z", 20 characters
		}
		if p.variant == 0 {
			return reflect.ValueOf(fixedInstant), true // 24 characters
		}
		return reflect.ValueOf(fixedInstant.Add(time.Hour).In(time.FixedZone("", 5*3600+1800))), true // 29 characters
	case tRaw:
		return reflect.ValueOf(json.RawMessage(p.anyJSON(&c, [2]string{`{"k":1}`, `"a raw string value, rather long"`}))), true
	case tJM:
		v := reflect.New(t).Elem()
		v.Field(0).SetString(p.anyJSON(&c, [2]string{`{"jm":[1,"two",null]}`, `"a marshaled string, rather long"`}))
		return v, true
	case tTM:
		v := reflect.New(t).Elem()
		if len(c.enum) > 0 {
			v.Field(0).SetString(c.enum[p.variant%len(c.enum)])
		} else {
			v.Field(0).SetString(fitString(p.str(), &c))
		}
		return v, true
	case tNumber:
		switch {
		case len(c.enum) > 0:
			return reflect.ValueOf(json.Number(c.enum[p.variant%len(c.enum)])), true
		case p.variant == 0:
			b, _ := json.Marshal(c.fitFloat(12345))
			return reflect.ValueOf(json.Number(b)), true
		}
		if f := c.fitFloat(-12.5e3); f != -12.5e3 {
			b, _ := json.Marshal(f)
			return reflect.ValueOf(json.Number(b)), true
		}
		return reflect.ValueOf(json.Number("-12.5e3")), true
	case tBytes:
		if len(c.enum) > 0 {
			b, err := base64.StdEncoding.DecodeString(c.enum[p.variant%len(c.enum)])
			if err != nil {
				panic("harness: []byte enum value is not base64: " + err.Error())
			}
			return reflect.ValueOf(b), true
		}
		var b []byte
		switch c.pattern {
		case "", "^[A-Za-z0-9+/=]*$":
		case "^QUJD":
			b = []byte("ABC")
		default:
			panic("harness: no []byte value generator for pattern " + c.pattern)
		}
		n := 2 // untagged, small: 4 base64 characters
		if p.variant == 1 {
			n = 30 // untagged, large: 40 base64 characters
		}
		if c.minLen >= 0 && 4*((n+2)/3) < c.minLen {
			n = 3 * ((c.minLen + 3) / 4)
		}
		if c.maxLen >= 0 && 4*((n+2)/3) > c.maxLen {
			n = 3 * (c.maxLen / 4)
		}
		if n < len(b) {
			n = len(b)
		}
		for i := 0; len(b) < n; i++ {
			b = append(b, []byte{0x00, 0xff, byte('a' + p.next()%26)}[i%3])
		}
		return reflect.ValueOf(b[:n]), true
	}
	if me := corpus.MarshalerByType(t); me != nil && me.Make != nil {
		return me.Make(p.variant, p.next()), true // a standard-library type that cannot be filled by kind
	}
	v := reflect.New(t).Elem()
	switch t.Kind() {
	case reflect.Bool:
		v.SetBool(true)
	case reflect.Int, reflect.Int8, reflect.Int16, reflect.Int32, reflect.Int64:
		if len(c.enum) > 0 {
			var n int64
			fmt.Sscan(c.enum[p.variant%len(c.enum)], &n)
			v.SetInt(n)
			break
		}
		v.SetInt(c.fitInt(p.intFor(t.Bits(), true), p.seq))
	case reflect.Uint, reflect.Uint8, reflect.Uint16, reflect.Uint32, reflect.Uint64, reflect.Uintptr:
		if len(c.enum) > 0 {
			var n uint64
			fmt.Sscan(c.enum[p.variant%len(c.enum)], &n)
			v.SetUint(n)
			break
		}
		v.SetUint(uint64(c.fitInt(p.intFor(t.Bits(), false), p.seq)))
	case reflect.Float32, reflect.Float64:
		if len(c.enum) > 0 {
			var f float64
			fmt.Sscan(c.enum[p.variant%len(c.enum)], &f)
			v.SetFloat(f)
			break
		}
		f := float64(p.next()%1000) + 0.5
		if p.variant == 1 && p.seq%2 == 0 {
			f = -f * 1024
		}
		v.SetFloat(c.fitFloat(f))
	case reflect.String:
		if len(c.enum) > 0 {
			v.SetString(c.enum[p.variant%len(c.enum)])
		} else {
			v.SetString(fitString(p.str(), &c))
		}
	case reflect.Interface:
		if t.NumMethod() != 0 {
			return v, true
		}
		var x interface{}
		if err := json.Unmarshal([]byte(p.anyJSON(&c, [2]string{"", ""})), &x); err != nil {
			// no constraint: a short string or a small number
			if p.variant == 0 {
				x = p.str()
			} else {
				x = float64(p.next()) + 0.25
			}
		}
		v.Set(reflect.ValueOf(x))
	case reflect.Pointer:
		ev, ok := p.value(t.Elem(), tag)
		if !ok {
			return v, false
		}
		pv := reflect.New(t.Elem())
		pv.Elem().Set(ev)
		v.Set(pv)
	case reflect.Slice:
		n := 2
		if c.minItems > n {
			n = c.minItems
		}
		if c.maxItems >= 0 && c.maxItems < n {
			n = c.maxItems
		}
		s := reflect.MakeSlice(t, 0, n)
		for i := 0; i < n; i++ {
			ev, ok := p.value(t.Elem(), "")
			if !ok {
				s = reflect.MakeSlice(t, 0, 0) // cut: empty slice
				break
			}
			s = reflect.Append(s, ev)
		}
		v.Set(s)
	case reflect.Array:
		for i := 0; i < t.Len(); i++ {
			ev, ok := p.value(t.Elem(), "")
			if !ok {
				return v, false
			}
			v.Index(i).Set(ev)
		}
	case reflect.Map:
		m := reflect.MakeMap(t)
		if t.Key().Kind() == reflect.String {
			for _, k := range []string{"k1", "k ü/~2"} {
				ev, ok := p.value(t.Elem(), "")
				if !ok {
					m = reflect.MakeMap(t) // cut: empty map
					break
				}
				m.SetMapIndex(reflect.ValueOf(k).Convert(t.Key()), ev)
			}
		} else {
			// keys of another kind (integers, encoding.TextMarshaler types): two generated keys
			for i := 0; i < 2; i++ {
				kv, kok := p.value(t.Key(), "")
				ev, ok := p.value(t.Elem(), "")
				if !ok || !kok {
					m = reflect.MakeMap(t)
					break
				}
				m.SetMapIndex(kv, ev)
			}
		}
		v.Set(m)
	case reflect.Struct:
		if p.onPath[t] >= p.limit {
			return v, false
		}
		p.onPath[t]++
		for i := 0; i < t.NumField(); i++ {
			sf := t.Field(i)
			fv := v.Field(i)
			if !fv.CanSet() {
				continue
			}
			ev, ok := p.value(sf.Type, sf.Tag)
			if !ok {
				// cut here: the field stays nil / zero
				omit := false
				if parts := strings.Split(sf.Tag.Get("json"), ","); len(parts) > 1 {
					for _, o := range parts[1:] {
						if o == "omitempty" {
							omit = true
						}
					}
				}
				if !(omit && sf.Type.Kind() == reflect.Pointer) {
					p.nullCut = true
				}
				continue
			}
			fv.Set(ev)
		}
		p.onPath[t]--
	}
	return v, true
}

// populated is the JSON encoding of one generated value.
type populated struct {
	JSON    []byte
	Err     string
	NullCut bool
	Go      reflect.Value
}

func populate(t reflect.Type, variant, limit int) populated {
	p := &populator{variant: variant, limit: limit, onPath: map[reflect.Type]int{}}
	v, _ := p.value(t, "")
	b, err := json.Marshal(v.Interface())
	out := populated{JSON: b, NullCut: p.nullCut, Go: v}
	if err != nil {
		out.Err = err.Error()
	}
	return out
}

// ---------------------------------------------------------------------------------------------
// names oracle

type nameDiff struct {
	Path    string   `json:"path"`
	Missing []string `json:"missing_in_schema,omitempty"` // names encoding/json emits, absent from "properties"
	Extra   []string `json:"extra_in_schema,omitempty"`   // "properties" keys encoding/json never emits
}

func resolvePointer(root interface{}, ref string) (interface{}, bool) {
	if !strings.HasPrefix(ref, "#") {
		return nil, false
	}
	frag := ref[1:]
	if frag == "" {
		return root, true
	}
	if !strings.HasPrefix(frag, "/") {
		return nil, false
	}
	cur := root
	for _, tok := range strings.Split(frag[1:], "/") {
		tok = strings.ReplaceAll(strings.ReplaceAll(tok, "~1", "/"), "~0", "~")
		switch c := cur.(type) {
		case map[string]interface{}:
			n, ok := c[tok]
			if !ok {
				return nil, false
			}
			cur = n
		case []interface{}:
			var i int
			if _, err := fmt.Sscan(tok, &i); err != nil || i < 0 || i >= len(c) {
				return nil, false
			}
			cur = c[i]
		default:
			return nil, false
		}
	}
	return cur, true
}

// describing follows $ref and single non-null anyOf/oneOf/allOf branches to the schema node that
// describes the value; nil when it cannot be determined.
func describing(root interface{}, node interface{}) map[string]interface{} {
	for hop := 0; hop < 64; hop++ {
		m, ok := node.(map[string]interface{})
		if !ok {
			return nil
		}
		if _, has := m["properties"]; has {
			return m
		}
		if ref, ok := m["$ref"].(string); ok {
			n, ok := resolvePointer(root, ref)
			if !ok {
				return nil
			}
			node = n
			continue
		}
		next := interface{}(nil)
		for _, kw := range []string{"anyOf", "oneOf", "allOf"} {
			if l, ok := m[kw].([]interface{}); ok {
				var cands []interface{}
				for _, b := range l {
					if bm, ok := b.(map[string]interface{}); ok {
						if ty, _ := bm["type"].(string); ty == "null" {
							continue
						}
					}
					cands = append(cands, b)
				}
				if len(cands) == 1 {
					next = cands[0]
				}
			}
		}
		if next == nil {
			return m
		}
		node = next
	}
	return nil
}

func keysOf(m map[string]interface{}) []string {
	out := make([]string, 0, len(m))
	for k := range m {
		out = append(out, k)
	}
	sort.Strings(out)
	return out
}

func sameKeys(a, b map[string]interface{}) bool {
	if len(a) != len(b) {
		return false
	}
	for k := range a {
		if _, ok := b[k]; !ok {
			return false
		}
	}
	return true
}

// compareNames walks the schema along the instance. i1 is the judged instance, i2 the same value
// built with a deeper recursion cut: an object node whose key set differs between the two is a node
// where the cut removed keys, and is not compared. Object nodes are compared where the schema
// describes them with "properties" (and at the root, which always is a struct).
func compareNames(root, node, i1, i2 interface{}, path string, isRoot bool, out *[]nameDiff, budget *int) {
	if *budget <= 0 || len(*out) >= 8 {
		return
	}
	*budget--
	d := describing(root, node)
	if d == nil {
		return
	}
	switch v1 := i1.(type) {
	case map[string]interface{}:
		v2, _ := i2.(map[string]interface{})
		props, hasProps := d["properties"].(map[string]interface{})
		if hasProps || isRoot {
			complete := v2 != nil && sameKeys(v1, v2)
			if complete {
				var missing, extra []string
				for k := range v1 {
					if _, ok := props[k]; !ok {
						missing = append(missing, k)
					}
				}
				for k := range props {
					if _, ok := v1[k]; !ok {
						extra = append(extra, k)
					}
				}
				if len(missing)+len(extra) > 0 {
					sort.Strings(missing)
					sort.Strings(extra)
					p := path
					if p == "" {
						p = "/"
					}
					*out = append(*out, nameDiff{Path: p, Missing: missing, Extra: extra})
				}
			}
			for _, k := range keysOf(v1) {
				if ps, ok := props[k]; ok {
					var n2 interface{}
					if v2 != nil {
						n2 = v2[k]
					}
					compareNames(root, ps, v1[k], n2, path+"/"+k, false, out, budget)
				}
			}
			return
		}
		if ap, ok := d["additionalProperties"].(map[string]interface{}); ok {
			for _, k := range keysOf(v1) {
				var n2 interface{}
				if v2 != nil {
					n2 = v2[k]
				}
				compareNames(root, ap, v1[k], n2, path+"/"+k, false, out, budget)
			}
		}
	case []interface{}:
		items, ok := d["items"]
		if !ok {
			return
		}
		v2, _ := i2.([]interface{})
		for i, e := range v1 {
			var n2 interface{}
			if i < len(v2) {
				n2 = v2[i]
			}
			compareNames(root, items, e, n2, fmt.Sprintf("%s/%d", path, i), false, out, budget)
			if i >= 1 {
				break
			}
		}
	}
}
