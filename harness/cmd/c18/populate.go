package main

import (
	"encoding/json"
	"fmt"
	"math"
	"reflect"
	"sort"
	"strings"
	"time"
)

// populator builds fully populated values by reflection: every pointer non-nil, every slice / map
// with two elements, strings non-empty, numbers non-zero (integers within +-2^53), time.Time a fixed
// instant, json.RawMessage {"k":1}, interface{} a string or a number. Recursion is cut once a struct
// type would occur more than `limit` times on the path: with an empty slice / map, or with a nil
// pointer field. nullCut records that a cut needed a nil in a place where it cannot be omitted
// (the type has no finite fully populated value).
type populator struct {
	variant int
	limit   int
	seq     int64
	onPath  map[reflect.Type]int
	nullCut bool
}

var fixedInstant = time.Date(2024, 2, 29, 12, 34, 56, 789000000, time.UTC)

const maxSafe = int64(1)<<53 - 1

func (p *populator) next() int64 { p.seq++; return p.seq }

func (p *populator) intFor(bits int, signed bool) int64 {
	n := p.next()
	if p.variant == 0 {
		return n%100 + 1
	}
	// variant 1: boundary values
	var hi int64
	switch bits {
	case 8:
		hi = math.MaxInt8
	case 16:
		hi = math.MaxInt16
	case 32:
		hi = math.MaxInt32
	default:
		hi = maxSafe
	}
	if !signed {
		switch bits {
		case 8:
			hi = math.MaxUint8
		case 16:
			hi = math.MaxUint16
		case 32:
			hi = math.MaxUint32
		}
		if n%2 == 0 {
			return hi
		}
		return n%1000 + 1
	}
	switch n % 3 {
	case 0:
		return hi
	case 1:
		if bits >= 64 {
			return -maxSafe
		}
		return -hi - 1
	}
	return -(n%1000 + 1)
}

func (p *populator) str() string {
	n := p.next()
	if p.variant == 0 {
		return fmt.Sprintf("s%d", n)
	}
	return fmt.Sprintf("s%d é✓ \"q\" \\ <&>   日本", n)
}

func tagEnumFirst(tag reflect.StructTag) (string, bool) {
	js := tag.Get("jsonschema")
	i := strings.Index(js, "enum=")
	if i < 0 {
		return "", false
	}
	v := js[i+len("enum="):]
	if j := strings.IndexAny(v, ",;"); j >= 0 {
		v = v[:j]
	}
	return v, true
}

// value returns a populated value of type t; ok=false means the recursion limit was reached below a
// pointer / array chain and the caller has to cut.
func (p *populator) value(t reflect.Type, tag reflect.StructTag) (reflect.Value, bool) {
	switch t {
	case tTime:
		return reflect.ValueOf(fixedInstant.Add(time.Duration(p.variant) * time.Hour)), true
	case tRaw:
		return reflect.ValueOf(json.RawMessage(`{"k":1}`)), true
	case tNumber:
		if p.variant == 0 {
			return reflect.ValueOf(json.Number("12345")), true
		}
		return reflect.ValueOf(json.Number("-12.5e3")), true
	case tBytes:
		return reflect.ValueOf([]byte(fmt.Sprintf("bytes\x00\xff%d", p.next()))), true
	}
	v := reflect.New(t).Elem()
	switch t.Kind() {
	case reflect.Bool:
		v.SetBool(true)
	case reflect.Int, reflect.Int8, reflect.Int16, reflect.Int32, reflect.Int64:
		if e, ok := tagEnumFirst(tag); ok {
			var n int64
			fmt.Sscan(e, &n)
			v.SetInt(n)
			break
		}
		bits := t.Bits()
		v.SetInt(p.intFor(bits, true))
	case reflect.Uint, reflect.Uint8, reflect.Uint16, reflect.Uint32, reflect.Uint64, reflect.Uintptr:
		v.SetUint(uint64(p.intFor(t.Bits(), false)))
	case reflect.Float32, reflect.Float64:
		f := float64(p.next()%1000) + 0.5
		if p.variant == 1 && p.seq%2 == 0 {
			f = -f * 1024
		}
		v.SetFloat(f)
	case reflect.String:
		if e, ok := tagEnumFirst(tag); ok {
			v.SetString(e)
		} else {
			v.SetString(p.str())
		}
	case reflect.Interface:
		if t.NumMethod() != 0 {
			return v, true
		}
		if p.variant == 0 {
			v.Set(reflect.ValueOf(p.str()))
		} else {
			v.Set(reflect.ValueOf(float64(p.next()) + 0.25))
		}
	case reflect.Pointer:
		ev, ok := p.value(t.Elem(), tag)
		if !ok {
			return v, false
		}
		pv := reflect.New(t.Elem())
		pv.Elem().Set(ev)
		v.Set(pv)
	case reflect.Slice:
		s := reflect.MakeSlice(t, 0, 2)
		for i := 0; i < 2; i++ {
			ev, ok := p.value(t.Elem(), "")
			if !ok {
				s = reflect.MakeSlice(t, 0, 0) // cut: empty slice
				break
			}
			s = reflect.Append(s, ev)
		}
		v.Set(s)
	case reflect.Array:
		for i := 0; i < t.Len(); i++ {
			ev, ok := p.value(t.Elem(), "")
			if !ok {
				return v, false
			}
			v.Index(i).Set(ev)
		}
	case reflect.Map:
		m := reflect.MakeMap(t)
		if t.Key().Kind() == reflect.String {
			for _, k := range []string{"k1", "k ü/~2"} {
				ev, ok := p.value(t.Elem(), "")
				if !ok {
					m = reflect.MakeMap(t) // cut: empty map
					break
				}
				m.SetMapIndex(reflect.ValueOf(k).Convert(t.Key()), ev)
			}
		}
		v.Set(m)
	case reflect.Struct:
		if p.onPath[t] >= p.limit {
			return v, false
		}
		p.onPath[t]++
		for i := 0; i < t.NumField(); i++ {
			sf := t.Field(i)
			fv := v.Field(i)
			if !fv.CanSet() {
				continue
			}
			ev, ok := p.value(sf.Type, sf.Tag)
			if !ok {
				// cut here: the field stays nil / zero
				omit := false
				if parts := strings.Split(sf.Tag.Get("json"), ","); len(parts) > 1 {
					for _, o := range parts[1:] {
						if o == "omitempty" {
							omit = true
						}
					}
				}
				if !(omit && sf.Type.Kind() == reflect.Pointer) {
					p.nullCut = true
				}
				continue
			}
			fv.Set(ev)
		}
		p.onPath[t]--
	}
	return v, true
}

// populated is the JSON encoding of one generated value.
type populated struct {
	JSON    []byte
	Err     string
	NullCut bool
	Go      reflect.Value
}

func populate(t reflect.Type, variant, limit int) populated {
	p := &populator{variant: variant, limit: limit, onPath: map[reflect.Type]int{}}
	v, _ := p.value(t, "")
	b, err := json.Marshal(v.Interface())
	out := populated{JSON: b, NullCut: p.nullCut, Go: v}
	if err != nil {
		out.Err = err.Error()
	}
	return out
}

// ---------------------------------------------------------------------------------------------
// names oracle

type nameDiff struct {
	Path    string   `json:"path"`
	Missing []string `json:"missing_in_schema,omitempty"` // names encoding/json emits, absent from "properties"
	Extra   []string `json:"extra_in_schema,omitempty"`   // "properties" keys encoding/json never emits
}

func resolvePointer(root interface{}, ref string) (interface{}, bool) {
	if !strings.HasPrefix(ref, "#") {
		return nil, false
	}
	frag := ref[1:]
	if frag == "" {
		return root, true
	}
	if !strings.HasPrefix(frag, "/") {
		return nil, false
	}
	cur := root
	for _, tok := range strings.Split(frag[1:], "/") {
		tok = strings.ReplaceAll(strings.ReplaceAll(tok, "~1", "/"), "~0", "~")
		switch c := cur.(type) {
		case map[string]interface{}:
			n, ok := c[tok]
			if !ok {
				return nil, false
			}
			cur = n
		case []interface{}:
			var i int
			if _, err := fmt.Sscan(tok, &i); err != nil || i < 0 || i >= len(c) {
				return nil, false
			}
			cur = c[i]
		default:
			return nil, false
		}
	}
	return cur, true
}

// describing follows $ref and single non-null anyOf/oneOf/allOf branches to the schema node that
// describes the value; nil when it cannot be determined.
func describing(root interface{}, node interface{}) map[string]interface{} {
	for hop := 0; hop < 64; hop++ {
		m, ok := node.(map[string]interface{})
		if !ok {
			return nil
		}
		if _, has := m["properties"]; has {
			return m
		}
		if ref, ok := m["$ref"].(string); ok {
			n, ok := resolvePointer(root, ref)
			if !ok {
				return nil
			}
			node = n
			continue
		}
		next := interface{}(nil)
		for _, kw := range []string{"anyOf", "oneOf", "allOf"} {
			if l, ok := m[kw].([]interface{}); ok {
				var cands []interface{}
				for _, b := range l {
					if bm, ok := b.(map[string]interface{}); ok {
						if ty, _ := bm["type"].(string); ty == "null" {
							continue
						}
					}
					cands = append(cands, b)
				}
				if len(cands) == 1 {
					next = cands[0]
				}
			}
		}
		if next == nil {
			return m
		}
		node = next
	}
	return nil
}

func keysOf(m map[string]interface{}) []string {
	out := make([]string, 0, len(m))
	for k := range m {
		out = append(out, k)
	}
	sort.Strings(out)
	return out
}

func sameKeys(a, b map[string]interface{}) bool {
	if len(a) != len(b) {
		return false
	}
	for k := range a {
		if _, ok := b[k]; !ok {
			return false
		}
	}
	return true
}

// compareNames walks the schema along the instance. i1 is the judged instance, i2 the same value
// built with a deeper recursion cut: an object node whose key set differs between the two is a node
// where the cut removed keys, and is not compared. Object nodes are compared where the schema
// describes them with "properties" (and at the root, which always is a struct).
func compareNames(root, node, i1, i2 interface{}, path string, isRoot bool, out *[]nameDiff, budget *int) {
	if *budget <= 0 || len(*out) >= 8 {
		return
	}
	*budget--
	d := describing(root, node)
	if d == nil {
		return
	}
	switch v1 := i1.(type) {
	case map[string]interface{}:
		v2, _ := i2.(map[string]interface{})
		props, hasProps := d["properties"].(map[string]interface{})
		if hasProps || isRoot {
			complete := v2 != nil && sameKeys(v1, v2)
			if complete {
				var missing, extra []string
				for k := range v1 {
					if _, ok := props[k]; !ok {
						missing = append(missing, k)
					}
				}
				for k := range props {
					if _, ok := v1[k]; !ok {
						extra = append(extra, k)
					}
				}
				if len(missing)+len(extra) > 0 {
					sort.Strings(missing)
					sort.Strings(extra)
					p := path
					if p == "" {
						p = "/"
					}
					*out = append(*out, nameDiff{Path: p, Missing: missing, Extra: extra})
				}
			}
			for _, k := range keysOf(v1) {
				if ps, ok := props[k]; ok {
					var n2 interface{}
					if v2 != nil {
						n2 = v2[k]
					}
					compareNames(root, ps, v1[k], n2, path+"/"+k, false, out, budget)
				}
			}
			return
		}
		if ap, ok := d["additionalProperties"].(map[string]interface{}); ok {
			for _, k := range keysOf(v1) {
				var n2 interface{}
				if v2 != nil {
					n2 = v2[k]
				}
				compareNames(root, ap, v1[k], n2, path+"/"+k, false, out, budget)
			}
		}
	case []interface{}:
		items, ok := d["items"]
		if !ok {
			return
		}
		v2, _ := i2.([]interface{})
		for i, e := range v1 {
			var n2 interface{}
			if i < len(v2) {
				n2 = v2[i]
			}
			compareNames(root, items, e, n2, fmt.Sprintf("%s/%d", path, i), false, out, budget)
			if i >= 1 {
				break
			}
		}
	}
}
