package main

// Stage 3 — schema generation is a function of the TYPE (and the style) alone.
//
// The property quantifies over every type: whatever the process generated before, the document
// obtained for a type has to resolve its references, name the JSON field names and accept the type's
// fully populated values. Everything the generators cache, pool or share between calls (per-kind
// schema objects, definition tables, path slices, visited maps) is only exercised when a later
// generation can be compared with an earlier one, so this stage generates, inside ONE process, the
// schemas of a seeded pool of types that share field kinds and nested struct types - tagged and
// untagged, in all styles, interleaved and repeated, then concurrently from several goroutines - and
// compares every document with the one a FRESH process generates for that type alone. A document that
// differs is judged by the ordinary oracle (meta-schema, references, names, the type's values); the
// difference itself tells which keyword came from where.

import (
	"bufio"
	"bytes"
	"encoding/json"
	"fmt"
	"math/rand"
	"net/url"
	"os"
	"runtime/debug"
	"runtime/pprof"
	"sort"
	"strings"
	"sync"
	"time"

	mcp "trpc.group/trpc-go/trpc-mcp-go"

	"verifharness/lib/vh"
)

// ---------------------------------------------------------------------------------------------
// documents as values: normal form and difference

func decodeDoc(b []byte) (interface{}, error) {
	d := json.NewDecoder(bytes.NewReader(b))
	d.UseNumber()
	var v interface{}
	err := d.Decode(&v)
	return v, err
}

func defsNameOfRef(ref string) (string, bool) {
	const pre = "#/$defs/"
	if !strings.HasPrefix(ref, pre) {
		return "", false
	}
	tok := ref[len(pre):]
	if strings.Contains(tok, "/") {
		return "", false
	}
	if u, err := url.PathUnescape(tok); err == nil {
		tok = u
	}
	return strings.ReplaceAll(strings.ReplaceAll(tok, "~1", "/"), "~0", "~"), true
}

// normDoc returns the normal form of a schema document: the JSON value with the entries of "$defs"
// renamed in the order a walk from the root meets their references (the names the $defs generator
// gives to unnamed struct types contain an address, which differs from process to process) and the
// "required" lists sorted (their order carries no meaning).
func normDoc(b []byte) (string, interface{}) {
	doc, err := decodeDoc(b)
	if err != nil {
		return "unparsable:" + string(b), nil
	}
	root, ok := doc.(map[string]interface{})
	if !ok {
		return string(b), doc
	}
	defs, _ := root["$defs"].(map[string]interface{})
	rename := map[string]string{}
	var queue []string
	var walk func(n interface{})
	walk = func(n interface{}) {
		switch v := n.(type) {
		case map[string]interface{}:
			for _, k := range keysOf(v) {
				if s, ok := v[k].(string); ok && k == "$ref" {
					if name, ok := defsNameOfRef(s); ok && defs != nil {
						if _, has := defs[name]; has {
							if _, done := rename[name]; !done {
								rename[name] = fmt.Sprintf("D%d", len(rename)+1)
								queue = append(queue, name)
							}
							v[k] = "#/$defs/" + rename[name]
						}
					}
					continue
				}
				if l, ok := v[k].([]interface{}); ok && k == "required" {
					sort.SliceStable(l, func(i, j int) bool { return fmt.Sprint(l[i]) < fmt.Sprint(l[j]) })
					continue
				}
				walk(v[k])
			}
		case []interface{}:
			for _, e := range v {
				walk(e)
			}
		}
	}
	if defs != nil {
		delete(root, "$defs")
	}
	walk(root)
	if defs != nil {
		for i := 0; i < len(queue); i++ {
			walk(defs[queue[i]])
		}
		// entries no reference leads to: ordered by their content
		var rest []string
		for k := range defs {
			if _, done := rename[k]; !done {
				rest = append(rest, k)
			}
		}
		sort.Slice(rest, func(i, j int) bool {
			a, _ := json.Marshal(defs[rest[i]])
			b, _ := json.Marshal(defs[rest[j]])
			return string(a) < string(b)
		})
		for _, k := range rest {
			rename[k] = fmt.Sprintf("U%d", len(rename)+1)
			walk(defs[k])
		}
		nd := map[string]interface{}{}
		for k, v := range defs {
			nd[rename[k]] = v
		}
		root["$defs"] = nd
	}
	out, _ := json.Marshal(root)
	return string(out), root
}

// docDiff is one difference between the document obtained in a history run and the reference.
type docDiff struct {
	Path    string      `json:"path"`
	Kind    string      `json:"kind"` // extra | missing | changed (in the history document, relative to the fresh one)
	Keyword string      `json:"keyword"`
	Got     interface{} `json:"got,omitempty"`
	Want    interface{} `json:"want,omitempty"`
}

func diffKeyword(parent, key string) string {
	switch parent {
	case "properties", "$defs", "definitions", "patternProperties":
		return parent + "/*"
	}
	return key
}

func diffDocs(want, got interface{}, path, parent, key string, out *[]docDiff) {
	if len(*out) >= 24 {
		return
	}
	switch w := want.(type) {
	case map[string]interface{}:
		g, ok := got.(map[string]interface{})
		if !ok {
			break
		}
		for _, k := range keysOf(w) {
			if gv, has := g[k]; has {
				diffDocs(w[k], gv, path+"/"+k, key, k, out)
			} else {
				*out = append(*out, docDiff{Path: path + "/" + k, Kind: "missing", Keyword: diffKeyword(key, k), Want: w[k]})
			}
		}
		for _, k := range keysOf(g) {
			if _, has := w[k]; !has {
				*out = append(*out, docDiff{Path: path + "/" + k, Kind: "extra", Keyword: diffKeyword(key, k), Got: g[k]})
			}
		}
		return
	case []interface{}:
		g, ok := got.([]interface{})
		if !ok {
			break
		}
		if key == "enum" || key == "required" || key == "type" || len(g) != len(w) {
			a, _ := json.Marshal(w)
			b, _ := json.Marshal(g)
			if string(a) != string(b) {
				*out = append(*out, docDiff{Path: path, Kind: "changed", Keyword: diffKeyword(parent, key), Got: got, Want: want})
			}
			return
		}
		for i := range w {
			diffDocs(w[i], g[i], fmt.Sprintf("%s/%d", path, i), parent, key, out)
		}
		return
	}
	a, _ := json.Marshal(want)
	b, _ := json.Marshal(got)
	if string(a) != string(b) {
		*out = append(*out, docDiff{Path: path, Kind: "changed", Keyword: diffKeyword(parent, key), Got: got, Want: want})
	}
}

// annotationKeywords do not constrain instances.
var annotationKeywords = map[string]bool{"description": true, "title": true, "default": true, "example": true, "examples": true, "format": true,
	"$comment": true, "deprecated": true, "readOnly": true, "writeOnly": true}

// diffClass names a set of differences for a signature (coarse: which part of the document is
// affected and in which direction; the keywords themselves are in the witness). constraining reports
// that more than annotations differ.
func diffClass(diffs []docDiff) (class string, constraining bool) {
	cats := map[string]bool{}
	for _, d := range diffs {
		switch {
		case d.Keyword == "properties/*" || d.Keyword == "patternProperties/*" || d.Keyword == "required" || d.Keyword == "additionalProperties":
			cats["property-set"] = true
		case d.Keyword == "$defs/*" || d.Keyword == "definitions/*":
			cats["definition-table"] = true
		case d.Keyword == "$ref":
			cats["reference"] = true
		case annotationKeywords[d.Keyword]:
			cats["annotation"] = true
		default:
			cats[d.Kind+"-constraint"] = true
		}
	}
	if len(cats) == 0 {
		return "same-document", false
	}
	if len(cats) > 1 {
		delete(cats, "annotation")
	}
	ks := sortedKeys(cats)
	return strings.Join(ks, "+"), !(len(ks) == 1 && ks[0] == "annotation")
}

// tagPairs lists the key=value directives of the jsonschema tag the grammar writes for a field.
func tagPairs(tag string) [][2]string {
	var out [][2]string
	for _, d := range strings.FieldsFunc(tag, func(r rune) bool { return r == ',' || r == ';' }) {
		d = strings.TrimSpace(d)
		if i := strings.Index(d, "="); i > 0 {
			out = append(out, [2]string{d[:i], d[i+1:]})
		}
	}
	return out
}

type donor struct {
	SameKind bool   `json:"field_of_a_kind_the_type_has"`
	Step     int    `json:"step,omitempty"` // index in the sequence (0 when unknown)
	Type     string `json:"type"`
	Field    string `json:"field"`
	Tag      string `json:"tag"`
	Keyword  string `json:"keyword"`
}

func sameTagValue(v interface{}, text string) bool {
	switch x := v.(type) {
	case string:
		return x == text
	case json.Number:
		var a, b float64
		if _, err := fmt.Sscan(x.String(), &a); err != nil {
			return false
		}
		if _, err := fmt.Sscan(text, &b); err != nil {
			return false
		}
		return a == b
	case float64:
		var b float64
		if _, err := fmt.Sscan(text, &b); err != nil {
			return false
		}
		return x == b
	case bool:
		return fmt.Sprint(x) == text
	case []interface{}:
		for _, e := range x {
			if sameTagValue(e, text) {
				return true
			}
		}
	}
	return false
}

// findDonors looks for the fields of the earlier types whose own tag declares a keyword = value that
// the history document has and the reference has not.
func findDonors(diffs []docDiff, earlier []TSpec, steps []int, prefer map[string]bool) []donor {
	var out []donor
	defer func() {
		sort.SliceStable(out, func(i, j int) bool { return out[i].SameKind && !out[j].SameKind })
		if len(out) > 6 {
			out = out[:6]
		}
	}()
	seen := map[string]bool{}
	for _, d := range diffs {
		if d.Kind == "missing" {
			continue
		}
		for ti := range earlier {
			var walk func(t *TSpec)
			walk = func(t *TSpec) {
				if t.E != nil {
					walk(t.E)
				}
				for i := range t.F {
					f := &t.F[i]
					if f.Emb != "" {
						continue
					}
					if f.ST != "" {
						tag := stTag(f.ST, &f.T)
						for _, kv := range tagPairs(tag) {
							if kv[0] != d.Keyword || !sameTagValue(d.Got, kv[1]) {
								continue
							}
							k := fmt.Sprintf("%d|%s|%s", ti, f.Name, d.Keyword)
							if seen[k] || len(out) >= 24 {
								continue
							}
							seen[k] = true
							one := TSpec{K: "struct", F: []FSpec{{Name: "X", Mode: "tagged", JName: "x", T: f.T}}}
							same := false
							for kk := range kinOf(&one) {
								if prefer[kk] {
									same = true
								}
							}
							dn := donor{SameKind: same, Type: firstN(goString(&earlier[ti]), 400), Field: f.Name + " " + goString(&f.T), Tag: tag, Keyword: d.Keyword}
							if ti < len(steps) {
								dn.Step = steps[ti]
							}
							out = append(out, dn)
						}
					}
					walk(&f.T)
				}
			}
			walk(&earlier[ti])
		}
	}
	return out
}

// ---------------------------------------------------------------------------------------------
// pool of types of one session

// kinOf returns what a type is made of that other types can share: field kinds other than the plain
// carriers, nested struct types, compiled types.
func kinOf(spec *TSpec) map[string]bool {
	out := map[string]bool{}
	var walk func(t *TSpec)
	walk = func(t *TSpec) {
		switch {
		case isBytesT(t):
			out["bytes"] = true
			return
		case t.K == "struct":
			if len(t.F) > 0 {
				out["S:"+canon(t)] = true
			}
		case strings.HasPrefix(t.K, "corpus:"):
			out[t.K] = true
		case primKinds[t.K] != nil:
			out["prim:"+t.K] = true
		case t.E == nil:
			out[t.K] = true
		}
		if t.E != nil {
			walk(t.E)
		}
		for i := range t.F {
			if t.F[i].Emb == "" {
				walk(&t.F[i].T)
			}
		}
	}
	if spec.K == "struct" {
		for i := range spec.F {
			if spec.F[i].Emb == "" {
				walk(&spec.F[i].T)
			}
		}
	} else {
		out[spec.K] = true
	}
	return out
}

// taggedKinOf returns the kinds / struct types of the fields of spec that carry a jsonschema tag.
func taggedKinOf(spec *TSpec) map[string]bool {
	out := map[string]bool{}
	var walk func(t *TSpec)
	walk = func(t *TSpec) {
		if t.E != nil {
			walk(t.E)
		}
		for i := range t.F {
			f := &t.F[i]
			if f.Emb != "" {
				continue
			}
			if f.ST != "" {
				one := TSpec{K: "struct", F: []FSpec{{Name: "X", Mode: "tagged", JName: "x", T: f.T}}}
				for k := range kinOf(&one) {
					out[k] = true
				}
			}
			walk(&f.T)
		}
	}
	walk(spec)
	return out
}

// effectiveClasses lists the tag classes that constrain (or annotate) the encoding of a field of the
// given leaf type, the constraining ones first.
func effectiveClasses(t *TSpec) []string {
	var out []string
	switch jsonClass(derefT(t)) {
	case "string":
		out = []string{"len-tight", "pattern-tight", "enum", "minmaxlen", "pattern"}
	case "number":
		out = []string{"minmax-tight", "enum-int", "minmax"}
	case "bool":
		out = []string{"enum"}
	case "any":
		out = []string{"len-tight", "pattern-tight", "enum", "minmax-tight"}
	case "array":
		out = []string{"items-tight", "minmaxitems", "unique"}
	}
	out = append(out, "description", "default", "title", "format", "semicolons")
	var ok []string
	for _, st := range out {
		if stApplicable(st, t) {
			ok = append(ok, st)
		}
	}
	return ok
}

// buildPool draws the types of one history session: for a handful of field kinds a type with a tagged
// field, one with an untagged field and one with the kind below a wrapper; types that share two
// unnamed nested struct types and compiled (recursive) types in different positions, with and without
// tags on the struct-typed field; compiled types as roots; random compositions of the whole grammar.
func buildPool(rng *rand.Rand, g *gen, nKinds, nRandom int) []TSpec {
	seq := 0
	field := func(t TSpec) FSpec {
		seq++
		return FSpec{Name: fmt.Sprintf("H%d", seq), Mode: "tagged", JName: fmt.Sprintf("h%d", seq), T: t}
	}
	tagged := func(t TSpec, st string) FSpec {
		f := field(t)
		f.ST = st
		return f
	}
	pick := func(l []string) string { return l[rng.Intn(len(l))] }
	wrap := func(t TSpec) TSpec {
		switch rng.Intn(4) {
		case 0:
			return TSpec{K: "slice", E: ptrTo(cloneT(t))}
		case 1:
			return TSpec{K: "map", E: ptrTo(cloneT(t))}
		case 2:
			return TSpec{K: "array", N: 2, E: ptrTo(cloneT(t))}
		}
		return TSpec{K: "ptr", E: ptrTo(cloneT(t))}
	}
	var pool []TSpec
	seen := map[string]bool{}
	add := func(t TSpec) {
		if _, berr := buildType(&t); berr != "" {
			panic("harness: history pool type cannot be built: " + berr)
		}
		if c := canon(&t); !seen[c] {
			seen[c] = true
			pool = append(pool, t)
		}
	}
	kinds := append([]string{}, leafSpecials...)
	kinds = append(kinds, "string", "int", "float64", "bool", "uint8", "int64")
	rng.Shuffle(len(kinds), func(i, j int) { kinds[i], kinds[j] = kinds[j], kinds[i] })
	// the special kinds come first in every session; the primitive ones fill up
	sort.SliceStable(kinds, func(i, j int) bool { return primKinds[kinds[i]] == nil && primKinds[kinds[j]] != nil })
	if nKinds > len(kinds) {
		nKinds = len(kinds)
	}
	for _, k := range kinds[:nKinds] {
		t := TSpec{K: k}
		cls := effectiveClasses(&t)
		st := cls[rng.Intn(len(cls))]
		if rng.Intn(3) != 0 {
			st = cls[0:minInt(len(cls), 4)][rng.Intn(minInt(len(cls), 4))] // mostly a constraining class
		}
		add(TSpec{K: "struct", F: []FSpec{tagged(t, st)}})
		add(TSpec{K: "struct", F: []FSpec{field(t)}})
		add(TSpec{K: "struct", F: []FSpec{field(wrap(t)), field(TSpec{K: "int"})}})
		if rng.Intn(2) == 0 {
			add(TSpec{K: "struct", F: []FSpec{field(t), tagged(t, pick(cls))}})
		}
	}
	// shared unnamed struct types
	k1, k2 := TSpec{K: kinds[0]}, TSpec{K: kinds[1%len(kinds)]}
	inner1 := TSpec{K: "struct", F: []FSpec{{Name: "A", Mode: "tagged", JName: "a", T: TSpec{K: "int"}}, {Name: "B", Mode: "tagged", JName: "b", T: k1}}}
	c2 := effectiveClasses(&k2)
	inner2 := TSpec{K: "struct", F: []FSpec{{Name: "C", Mode: "tagged", JName: "c", ST: c2[0], T: k2}, {Name: "D", Mode: "tagged", JName: "d", T: TSpec{K: "string"}}}}
	objTags := []string{"description", "title", "default", "len-tight", "minmax-tight", "semicolons", "required"}
	add(TSpec{K: "struct", F: []FSpec{tagged(cloneT(inner1), pick(objTags)), field(cloneT(inner1))}})
	add(TSpec{K: "struct", F: []FSpec{field(cloneT(inner1)), tagged(cloneT(inner1), pick(objTags))}})
	add(TSpec{K: "struct", F: []FSpec{field(TSpec{K: "slice", E: ptrTo(cloneT(inner1))})}})
	mp := field(TSpec{K: "ptr", E: ptrTo(cloneT(inner1))})
	mp.Omit = true
	add(TSpec{K: "struct", F: []FSpec{field(TSpec{K: "map", E: ptrTo(cloneT(inner1))}), mp}})
	add(TSpec{K: "struct", F: []FSpec{field(cloneT(inner2))}})
	add(TSpec{K: "struct", F: []FSpec{field(cloneT(inner2)), field(cloneT(inner1)), tagged(cloneT(inner2), pick(objTags))}})
	// compiled types below a field and as roots
	cts := []string{"Leaf", "Tree", "LinkedList", "MutualA", "UsedTwice", "Forest", "SelfSlice", "BoxLeaf"}
	rng.Shuffle(len(cts), func(i, j int) { cts[i], cts[j] = cts[j], cts[i] })
	for _, c := range cts[:3] {
		ct := TSpec{K: "corpus:" + c}
		add(TSpec{K: "struct", F: []FSpec{tagged(ct, pick(objTags))}})
		add(TSpec{K: "struct", F: []FSpec{field(ct), field(wrap(ct))}})
		add(ct)
	}
	for i := 0; i < nRandom; i++ {
		add(g.randomType())
	}
	return pool
}

// ---------------------------------------------------------------------------------------------
// the child

type histStep struct {
	T int    `json:"t"`
	S string `json:"s"`
}

type histReq struct {
	Pool []TSpec      `json:"pool"`
	Seq  []histStep   `json:"seq,omitempty"`
	Conc [][]histStep `json:"conc,omitempty"`
}

type histLine struct {
	Ev         string          `json:"ev"` // step | end | builderr | watchdog
	Phase      string          `json:"phase,omitempty"`
	G          int             `json:"g,omitempty"`
	I          int             `json:"i"`
	T          int             `json:"t"`
	S          string          `json:"s,omitempty"`
	Schema     json.RawMessage `json:"schema,omitempty"`
	MarshalErr string          `json:"marshal_err,omitempty"`
	Panic      string          `json:"panic,omitempty"`
	Stack      string          `json:"stack,omitempty"`
}

// childHist generates, in this one process, the schemas the request lists: the sequence first, then the
// goroutines' lists concurrently.
func childHist() {
	debug.SetMaxStack(256 << 20)
	var wmu sync.Mutex
	write := func(l histLine) {
		b, _ := json.Marshal(l)
		wmu.Lock()
		os.Stdout.Write(append(b, '\n'))
		wmu.Unlock()
	}
	var req histReq
	d := json.NewDecoder(os.Stdin)
	if err := d.Decode(&req); err != nil {
		write(histLine{Ev: "builderr", Panic: "bad request: " + err.Error()})
		os.Exit(6)
	}
	rts := make([]func(style string) (json.RawMessage, string), len(req.Pool))
	for i := range req.Pool {
		rt, berr := buildType(&req.Pool[i])
		if berr != "" {
			write(histLine{Ev: "builderr", T: i, Panic: berr})
			os.Exit(6)
		}
		rts[i] = func(style string) (json.RawMessage, string) {
			s := mcp.VerifSchemaForType(rt, style)
			b, err := json.Marshal(s)
			if err != nil {
				return nil, err.Error()
			}
			return b, ""
		}
	}
	limit := time.Duration(envInt("VH_HIST_TIMEOUT", 120)) * time.Second
	var cur sync.Map
	cur.Store("at", "start")
	go func() {
		time.Sleep(limit)
		at, _ := cur.Load("at")
		write(histLine{Ev: "watchdog", Panic: fmt.Sprint(at)})
		pprof.Lookup("goroutine").WriteTo(os.Stderr, 2)
		os.Exit(4)
	}()
	one := func(phase string, g, i int, st histStep) histLine {
		l := histLine{Ev: "step", Phase: phase, G: g, I: i, T: st.T, S: st.S}
		func() {
			defer func() {
				if p := recover(); p != nil {
					l.Panic = fmt.Sprint(p)
					l.Stack = firstN(string(debug.Stack()), 3000)
				}
			}()
			l.Schema, l.MarshalErr = rts[st.T](st.S)
		}()
		return l
	}
	for i, st := range req.Seq {
		cur.Store("at", fmt.Sprintf("seq step %d (type %d, style %s)", i, st.T, st.S))
		write(one("seq", 0, i, st))
	}
	if len(req.Conc) > 0 {
		cur.Store("at", "concurrent phase")
		start := make(chan struct{})
		var wg sync.WaitGroup
		outs := make([][]histLine, len(req.Conc))
		for g := range req.Conc {
			wg.Add(1)
			go func(g int) {
				defer wg.Done()
				<-start
				for i, st := range req.Conc[g] {
					outs[g] = append(outs[g], one("conc", g, i, st))
				}
			}(g)
		}
		close(start)
		wg.Wait()
		for g := range outs {
			for _, l := range outs[g] {
				write(l)
			}
		}
	}
	write(histLine{Ev: "end"})
	os.Exit(0)
}

// ---------------------------------------------------------------------------------------------
// the parent

type histSession struct {
	Pool []TSpec
	Seq  []histStep
	Conc [][]histStep
}

// planSession draws the sequence (every (type, style) `repeats` times, one random permutation after
// the other: A, B, A again, C, B again ...) and the goroutines' lists.
func planSession(rng *rand.Rand, pool []TSpec, repeats, goroutines int) histSession {
	var pairs []histStep
	for t := range pool {
		for _, s := range allStyles {
			pairs = append(pairs, histStep{t, s})
		}
	}
	hs := histSession{Pool: pool}
	for rep := 0; rep < repeats; rep++ {
		for _, i := range rng.Perm(len(pairs)) {
			hs.Seq = append(hs.Seq, pairs[i])
		}
	}
	for g := 0; g < goroutines; g++ {
		var l []histStep
		for _, i := range rng.Perm(len(pairs)) {
			l = append(l, pairs[i])
		}
		hs.Conc = append(hs.Conc, l)
	}
	return hs
}

type histStats struct {
	observed int
	flagged  int // violations + inconclusive outcomes of this stage
}

// runHistory runs the sessions and judges every observation.
func runHistory(r *vh.Run, ev *evaluator, sessions []histSession, sampled map[string]int) histStats {
	var st histStats
	for si := range sessions {
		hs := &sessions[si]
		r.Count("history_sessions", 1)
		r.Count("history_pool_types", int64(len(hs.Pool)))
		// references: one fresh process per (type, style)
		type refT struct {
			out  *genOut
			norm string
			doc  interface{}
		}
		refs := make([]map[string]*refT, len(hs.Pool))
		var wg sync.WaitGroup
		var mu sync.Mutex
		for t := range hs.Pool {
			refs[t] = map[string]*refT{}
			for _, s := range allStyles {
				wg.Add(1)
				go func(t int, s string) {
					defer wg.Done()
					o := ev.Fresh(&hs.Pool[t], s)
					rf := &refT{out: o}
					if o.Schema != nil {
						rf.norm, rf.doc = normDoc(o.Schema)
					}
					mu.Lock()
					refs[t][s] = rf
					mu.Unlock()
				}(t, s)
			}
		}
		wg.Wait()
		kin := make([]map[string]bool, len(hs.Pool))
		tkin := make([]map[string]bool, len(hs.Pool))
		vals := make([]*valueSet, len(hs.Pool))
		for t := range hs.Pool {
			kin[t], tkin[t] = kinOf(&hs.Pool[t]), taggedKinOf(&hs.Pool[t])
		}

		type childRun struct {
			mode string
			req  histReq
		}
		runs := []childRun{{"seq", histReq{Pool: hs.Pool, Seq: hs.Seq}}, {"conc", histReq{Pool: hs.Pool, Conc: hs.Conc}}}
		for _, cr := range runs {
			in, _ := json.Marshal(cr.req)
			r.Count("children_spawned", 1)
			res := r.SpawnChild("hist", fmt.Sprintf("hist-%d-%s", si, cr.mode), nil, nil, in, 5*time.Minute)
			var lines []histLine
			ended, watchdog := false, ""
			sc := newLineScanner(res.Stdout())
			for sc.Scan() {
				var l histLine
				if json.Unmarshal(sc.Bytes(), &l) != nil {
					continue
				}
				switch l.Ev {
				case "step":
					lines = append(lines, l)
				case "end":
					ended = true
				case "watchdog":
					watchdog = l.Panic
				case "builderr":
					r.Fatal("history child could not build type %d: %s", l.T, l.Panic)
				}
			}
			if !ended {
				se := res.Stderr()
				cl := vh.CrashLine(se)
				switch {
				case watchdog != "" || res.TimedOut:
					st.flagged++
					r.Inconclusive(fmt.Sprintf("history session %d (%s): the child did not finish (at %s; library frames: %s): %s", si, cr.mode, watchdog, firstN(libFrames(se), 300), res.Describe()))
				case cl != "":
					st.flagged++
					r.Count("fail_"+ckCrash, 1)
					frame := vh.FirstLibFrame(se)
					r.Violation(fmt.Sprintf("C18|history|%s|crash", cr.mode),
						fmt.Sprintf("generating the schemas of %d types one after the other (%s) in one process killed it: %s at %s", len(hs.Pool), cr.mode, cl, frame),
						map[string]interface{}{"mode": cr.mode, "crash": cl, "frame": frame, "steps_done": len(lines), "child": res.Describe(),
							"pool": poolStrings(hs.Pool, 12)})
				default:
					st.flagged++
					r.Inconclusive(fmt.Sprintf("history session %d (%s): the child ended without a result: %s", si, cr.mode, res.Describe()))
				}
			}
			// judge the observations in the order they were made
			occ := map[string]int{}
			seenKin, seenTagged := map[string]bool{}, map[string]bool{}
			firstStep := map[int]int{}
			var order []int // pool indices in order of first appearance
			if cr.mode == "conc" {
				// any type may have been generated before any other
				for t := range hs.Pool {
					order = append(order, t)
				}
			}
			for n, l := range lines {
				r.Eval(1)
				r.Count("history_"+cr.mode+"_steps", 1)
				k := fmt.Sprintf("%d|%s", l.T, l.S)
				occ[k]++
				rel := "no-kin-before"
				if cr.mode == "seq" {
					for f := range kin[l.T] {
						if seenTagged[f] {
							rel = "tagged-kin-before"
							break
						}
						if seenKin[f] {
							rel = "kin-before"
						}
					}
				} else {
					rel = "concurrent"
				}
				earlierOrder := append([]int{}, order...)
				if cr.mode == "seq" {
					if _, ok := firstStep[l.T]; !ok {
						firstStep[l.T] = n
						order = append(order, l.T)
					}
					for f := range kin[l.T] {
						seenKin[f] = true
					}
					for f := range tkin[l.T] {
						seenTagged[f] = true
					}
				}
				rf := refs[l.T][l.S]
				if rf == nil || rf.out.Incon != "" || rf.out.Schema == nil {
					r.Count("history_obs_without_reference_document", 1)
					continue // the type alone does not yield a document: judged by stage 2
				}
				st.observed++
				if rel == "tagged-kin-before" {
					r.Count("history_obs_after_tagged_kin", 1)
				}
				r.Distinct(fmt.Sprintf("hist|%s|%s|occ=%d|%s", cr.mode, l.S, minInt(occ[k], 3), rel))
				spec := &hs.Pool[l.T]
				base := map[string]interface{}{"stage": "3 (history)", "mode": cr.mode, "style": l.S, "go_type": firstN(goString(spec), 1500),
					"step": n, "occurrence_of_this_type_and_style": occ[k], "session": si}
				if l.Panic != "" || l.MarshalErr != "" {
					st.flagged++
					r.Count("history_obs_differ", 1)
					r.Count("fail_"+ckCrash, 1)
					base["panic"], base["marshal_error"], base["frames"] = l.Panic, l.MarshalErr, firstN(libFrames(l.Stack), 400)
					base["generated_before"] = poolStringsIdx(hs.Pool, earlierOrder, 10)
					r.Violation(fmt.Sprintf("C18|history|%s|style=%s|panic-not-seen-alone|%s", cr.mode, l.S, ckCrash),
						fmt.Sprintf("style %s, %s: generation panics (%s%s) for a type a fresh process generates a schema for", l.S, cr.mode, firstN(l.Panic, 200), l.MarshalErr), base)
					continue
				}
				norm, doc := normDoc(l.Schema)
				if norm == rf.norm {
					r.Count("history_obs_identical", 1)
					if sampled["hist-ok"] < 1 && rel == "tagged-kin-before" && occ[k] >= 2 {
						sampled["hist-ok"]++
						r.Sample(map[string]interface{}{"stage": 3, "mode": cr.mode, "style": l.S, "go_type": firstN(goString(spec), 600), "step": n,
							"occurrence": occ[k], "generated_before": poolStringsIdx(hs.Pool, earlierOrder, 4), "verdict": "identical to the document of a fresh process",
							"schema": bounded(l.Schema, 600)})
					}
					continue
				}
				r.Count("history_obs_differ", 1)
				var diffs []docDiff
				diffDocs(rf.doc, doc, "", "", "", &diffs)
				class, constraining := diffClass(diffs)
				var earlier []TSpec
				var steps []int
				for _, t := range earlierOrder {
					if t != l.T {
						earlier = append(earlier, hs.Pool[t])
						steps = append(steps, firstStep[t])
					}
				}
				donors := findDonors(diffs, earlier, steps, kin[l.T])
				base["differences_from_fresh_process"] = diffs
				base["came_from"] = donors
				base["schema"] = bounded(l.Schema, 1500)
				base["schema_of_fresh_process"] = bounded(rf.out.Schema, 1500)
				if len(donors) == 0 {
					base["generated_before"] = poolStringsIdx(hs.Pool, earlierOrder, 10)
				}
				if vals[l.T] == nil {
					vals[l.T] = ev.values(spec)
				}
				res, _ := fromGen(fmt.Sprintf("hist-%d-%s-%d", si, cr.mode, n), l.S, &genOut{Schema: l.Schema}, vals[l.T])
				if f := ev.judge(res); f != "" {
					r.Fatal("%s", f)
				}
				// a check that fails on the fresh-process document as well is a verdict about the type (stage 2 reports it)
				alone := ev.Alone(spec, l.S)
				for ck := range res.Fails {
					if alone.Incon != "" || alone.failed(ck) {
						delete(res.Fails, ck)
						r.Count("history_failures_that_fail_alone_too", 1)
					}
				}
				if len(res.Fails) > 0 {
					st.flagged++
					for _, ck := range allChecks {
						if !res.failed(ck) {
							continue
						}
						r.Count("fail_"+ck, 1)
						base["check"], base["detail"] = ck, res.Fails[ck]
						if len(res.Instances) > 0 {
							base["instance"] = bounded(res.Instances[0], 600)
						}
						from := ""
						if len(donors) > 0 {
							from = fmt.Sprintf("; %s comes from field %s `%s` of a type generated earlier (step %d)", donors[0].Keyword, donors[0].Field, donors[0].Tag, donors[0].Step)
						}
						r.Violation(fmt.Sprintf("C18|history|%s|style=%s|%s|%s", cr.mode, l.S, class, ck),
							fmt.Sprintf("style %s, %s generation after other types in the same process: %s (a fresh process generates a different document that passes: %s)%s: %s",
								l.S, cr.mode, describeCheck(ck), class, from, firstN(res.Fails[ck], 300)), copyMap(base))
						if sampled["hist-fail"] < 1 {
							sampled["hist-fail"]++
							r.Sample(copyMap(base))
						}
					}
					continue
				}
				if constraining {
					st.flagged++
					r.Inconclusive(fmt.Sprintf("history (%s, style %s): the document for %s differs from the one of a fresh process in constraining keywords (%s), but every check passes on the generated values",
						cr.mode, l.S, firstN(goString(spec), 200), class))
				} else {
					r.Count("history_obs_differ_in_annotations_only", 1)
					if sampled["hist-note"] < 3 {
						sampled["hist-note"]++
						b, _ := json.Marshal(diffs)
						r.Note(fmt.Sprintf("history (%s, style %s): the document for %s differs from the one of a fresh process in annotations only (%s) - not covered by the statement: %s",
							cr.mode, l.S, firstN(goString(spec), 200), class, firstN(string(b), 400)))
					}
				}
			}
		}
	}
	return st
}

func newLineScanner(b []byte) *bufio.Scanner {
	sc := bufio.NewScanner(bytes.NewReader(b))
	sc.Buffer(make([]byte, 1<<20), 512<<20)
	return sc
}

func minInt(a, b int) int {
	if a < b {
		return a
	}
	return b
}

func copyMap(m map[string]interface{}) map[string]interface{} {
	c := make(map[string]interface{}, len(m))
	for k, v := range m {
		c[k] = v
	}
	return c
}

func poolStrings(pool []TSpec, n int) []string {
	var out []string
	for i := range pool {
		if len(out) >= n {
			out = append(out, fmt.Sprintf("... (%d types)", len(pool)))
			break
		}
		out = append(out, firstN(goString(&pool[i]), 300))
	}
	return out
}

func poolStringsIdx(pool []TSpec, idx []int, n int) []string {
	var out []string
	for j := len(idx) - 1; j >= 0; j-- { // the most recent first
		if len(out) >= n {
			out = append(out, fmt.Sprintf("... (%d types)", len(idx)))
			break
		}
		out = append(out, firstN(goString(&pool[idx[j]]), 300))
	}
	return out
}
