package main

import (
	"bufio"
	"encoding/json"
	"fmt"
	"os"
	"runtime"
	"runtime/debug"
	"runtime/pprof"
	"strconv"
	"sync"
	"sync/atomic"
	"time"

	mcp "trpc.group/trpc-go/trpc-mcp-go"
)

// genCase is one type sent to the generator child.
type genCase struct {
	ID     string   `json:"id"`
	Spec   TSpec    `json:"spec"`
	Styles []string `json:"styles"`
}

// genLine is one NDJSON line written by the generator child.
type genLine struct {
	ID         string          `json:"id"`
	Style      string          `json:"style"`
	Ev         string          `json:"ev"` // begin | done | panic | watchdog | oom | builderr
	Schema     json.RawMessage `json:"schema,omitempty"`
	MarshalErr string          `json:"marshal_err,omitempty"`
	Panic      string          `json:"panic,omitempty"`
	Stack      string          `json:"stack,omitempty"`
	Micros     int64           `json:"us,omitempty"`
}

// childGen runs the schema generators for every (type, style) read from stdin. A panic is recovered
// and reported; a stack overflow or a runaway generator ends the process, and the parent reads the
// last "begin" line without a matching result.
func childGen() {
	debug.SetMaxStack(256 << 20)
	caseTimeout := 20 * time.Second
	if s := os.Getenv("VH_CASE_TIMEOUT"); s != "" {
		if n, err := strconv.Atoi(s); err == nil && n > 0 {
			caseTimeout = time.Duration(n) * time.Second
		}
	}
	var wmu sync.Mutex
	write := func(l genLine) {
		b, _ := json.Marshal(l)
		wmu.Lock()
		os.Stdout.Write(append(b, '\n'))
		wmu.Unlock()
	}
	var deadline atomic.Int64
	var cur atomic.Value
	cur.Store([2]string{})
	go func() {
		tick := 0
		for {
			time.Sleep(100 * time.Millisecond)
			tick++
			c := cur.Load().([2]string)
			if d := deadline.Load(); d != 0 && time.Now().UnixNano() > d {
				write(genLine{ID: c[0], Style: c[1], Ev: "watchdog"})
				pprof.Lookup("goroutine").WriteTo(os.Stderr, 2)
				os.Exit(4)
			}
			if tick%5 == 0 {
				var ms runtime.MemStats
				runtime.ReadMemStats(&ms)
				if ms.HeapAlloc > 3<<30 {
					write(genLine{ID: c[0], Style: c[1], Ev: "oom"})
					os.Exit(5)
				}
			}
		}
	}()
	sc := bufio.NewScanner(os.Stdin)
	sc.Buffer(make([]byte, 1<<20), 256<<20)
	for sc.Scan() {
		var gc genCase
		if err := json.Unmarshal(sc.Bytes(), &gc); err != nil {
			write(genLine{Ev: "builderr", Panic: "bad request: " + err.Error()})
			os.Exit(6)
		}
		rt, berr := buildType(&gc.Spec)
		if berr != "" {
			write(genLine{ID: gc.ID, Ev: "builderr", Panic: berr})
			os.Exit(6)
		}
		for _, style := range gc.Styles {
			cur.Store([2]string{gc.ID, style})
			write(genLine{ID: gc.ID, Style: style, Ev: "begin"})
			deadline.Store(time.Now().Add(caseTimeout).UnixNano())
			start := time.Now()
			func() {
				defer func() {
					if p := recover(); p != nil {
						deadline.Store(0)
						write(genLine{ID: gc.ID, Style: style, Ev: "panic", Panic: fmt.Sprint(p), Stack: firstN(string(debug.Stack()), 3000)})
					}
				}()
				s := mcp.VerifSchemaForType(rt, style)
				b, err := json.Marshal(s)
				deadline.Store(0)
				l := genLine{ID: gc.ID, Style: style, Ev: "done", Micros: time.Since(start).Microseconds()}
				if err != nil {
					l.MarshalErr = err.Error()
				} else {
					l.Schema = b
				}
				write(l)
			}()
		}
	}
	os.Exit(0)
}

func firstN(s string, n int) string {
	if len(s) > n {
		return s[:n]
	}
	return s
}
