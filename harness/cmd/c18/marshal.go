package main

// Stage 2m: types with custom marshalling. For every type of the family in corpus/marshalers.go
// (json.Marshaler only / encoding.TextMarshaler only / both / neither x value / pointer receiver x
// JSON form x underlying kind, holders that embed one, standard-library types) and every position a
// field type can put it in (field, pointer, slice element, array element, map value, map key, nested
// struct, used twice, omitempty, ",string"), the generated schema has to accept what encoding/json
// writes for a populated value. Nothing about the encoding is computed here: the instances are
// json.Marshal of the populated value, by value and - where that gives another text - through a
// pointer (pointer-receiver methods are only called on addressable values).

import (
	"bytes"
	"encoding/json"
	"fmt"
	"os"
	"reflect"
	"strings"

	"verifharness/cmd/c18/corpus"
	"verifharness/lib/vh"
)

type mCase struct {
	M    *corpus.MEntry
	Pos  string
	Spec TSpec
	// ByValueOpen: the position holds the type by value and the method encoding/json would use has a
	// pointer receiver. What is written then depends on whether the caller marshals the root by value or
	// through a pointer (and a map value is never addressable, although decoding always is): the by-value
	// text is not "the" encoding of the type, its rejection is counted and not reported.
	ByValueOpen bool
}

func mSpec(m *corpus.MEntry) TSpec { return TSpec{K: "corpus:" + m.Name} }

func wrapT(k string, t TSpec) TSpec {
	if k == "array" {
		return TSpec{K: "array", N: 2, E: &t}
	}
	return TSpec{K: k, E: &t}
}

func primitiveKind(k reflect.Kind) bool {
	switch k {
	case reflect.Bool, reflect.String, reflect.Float32, reflect.Float64, reflect.Int, reflect.Int8, reflect.Int16, reflect.Int32, reflect.Int64,
		reflect.Uint, reflect.Uint8, reflect.Uint16, reflect.Uint32, reflect.Uint64:
		return true
	}
	return false
}

// marshalCorpus enumerates type x position. quick keeps every type in the positions "field", "ptr",
// "slice", "mapval" and the remaining positions for a third of the types (rotating with the seed);
// thorough keeps everything.
func marshalCorpus(quick bool, rot int) []mCase {
	var out []mCase
	for i := range corpus.Marshalers {
		m := &corpus.Marshalers[i]
		t := mSpec(m)
		ptrRecv := m.Recv == "ptr"
		add := func(pos string, byValue bool, spec TSpec) {
			out = append(out, mCase{M: m, Pos: pos, Spec: spec, ByValueOpen: byValue && ptrRecv})
		}
		f := func(t TSpec) FSpec { return plainField("F", t) }
		add("field", true, oneField(f(t)))
		add("ptr", false, oneField(f(wrapT("ptr", t))))
		add("slice", false, oneField(f(wrapT("slice", t))))
		add("mapval", true, oneField(f(wrapT("map", t))))
		if quick && (i+rot)%3 != 0 {
			continue
		}
		po := f(wrapT("ptr", t))
		po.Omit = true
		add("ptr-omitempty", false, oneField(po))
		fo := f(t)
		fo.Omit = true
		add("omitempty", true, oneField(fo))
		add("sliceptr", false, oneField(f(wrapT("slice", wrapT("ptr", t)))))
		add("array", true, oneField(f(wrapT("array", t))))
		add("ptrarray", false, oneField(f(wrapT("ptr", wrapT("array", t)))))
		add("mapvalptr", false, oneField(f(wrapT("map", wrapT("ptr", t)))))
		add("mapslice", false, oneField(f(wrapT("map", wrapT("slice", t)))))
		add("nested", true, oneField(f(TSpec{K: "struct", F: []FSpec{plainField("G", t), plainField("H", TSpec{K: "int"})}})))
		add("nestedptr", false, oneField(f(wrapT("ptr", TSpec{K: "struct", F: []FSpec{plainField("G", t), plainField("H", TSpec{K: "int"})}}))))
		add("twice", true, TSpec{K: "struct", F: []FSpec{plainField("F", t), plainField("G", t), plainField("H", wrapT("slice", t))}})
		add("twiceptr", false, TSpec{K: "struct", F: []FSpec{plainField("F", wrapT("ptr", t)), plainField("G", wrapT("ptr", t)), plainField("H", wrapT("slice", t))}})
		if primitiveKind(m.Type.Kind()) {
			fs := f(t)
			fs.Str = true
			add("string-opt", true, oneField(fs))
			fps := f(wrapT("ptr", t))
			fps.Str = true
			add("ptr-string-opt", false, oneField(fps))
		}
		if m.Key {
			add("mapkey", true, oneField(f(TSpec{K: "map", KT: &t, E: &TSpec{K: "int"}})))
			add("mapkeyval", true, oneField(f(TSpec{K: "map", KT: &t, E: &t})))
		}
	}
	return out
}

// fieldForm returns the JSON type of the first value found where the family type sits in an instance
// (below the root's "f", through arrays and objects).
func fieldForm(inst []byte) string {
	var root map[string]json.RawMessage
	if json.Unmarshal(inst, &root) != nil {
		return "?"
	}
	return jsonKind(root["f"])
}

func runMarshalers(r *vh.Run, ev *evaluator, sampled map[string]int) {
	cases := marshalCorpus(r.Quick() && os.Getenv("C18_MARSHAL_FULL") == "", int(r.Seed%3))
	r.Count("marshal_types", int64(len(corpus.Marshalers)))
	var ecs []evalCase
	for i := range cases {
		if _, berr := buildType(&cases[i].Spec); berr != "" {
			r.Fatal("marshal family type %s/%s cannot be built: %s", cases[i].M.Name, cases[i].Pos, berr)
		}
		ecs = append(ecs, evalCase{ID: fmt.Sprintf("m-%d", i), Spec: cases[i].Spec, Styles: allStyles})
	}
	// harness self-check: the declared JSON form of every type is what encoding/json writes for an addressable value
	for i := range corpus.Marshalers {
		m := &corpus.Marshalers[i]
		p := populate(reflect.StructOf([]reflect.StructField{{Name: "F", Type: reflect.PointerTo(m.Type), Tag: `json:"f"`}}), 0, 2)
		if p.Err != "" {
			r.Fatal("marshal family: encoding/json cannot encode %s: %s", m.Name, p.Err)
		}
		if got := fieldForm(p.JSON); got != m.Form {
			r.Fatal("marshal family: %s is declared to encode as %s, encoding/json writes %s (%s)", m.Name, m.Form, got, p.JSON)
		}
		r.SetAdd("marshal_forms_observed", m.Impl+"/"+m.Recv+"->"+m.Form)
	}
	res := ev.Evaluate(ecs, 100)
	type addrJob struct {
		i  int
		st string
	}
	bothNonString := 0
	for i := range cases {
		c := &cases[i]
		vs := ev.values(&c.Spec)
		// the encodings through a pointer to the root (every field addressable)
		var addr [][]byte
		differs := false
		for _, pv := range []populated{vs.v0, vs.v1} {
			root := reflect.New(pv.Go.Type())
			root.Elem().Set(pv.Go)
			b, err := json.Marshal(root.Interface())
			if err != nil {
				r.Fatal("marshal family: encoding/json cannot encode a pointer to %s: %v", goString(&c.Spec), err)
			}
			addr = append(addr, b)
			if !bytes.Equal(b, pv.JSON) {
				differs = true
			}
		}
		if differs && !c.ByValueOpen {
			r.Fatal("marshal family: %s at %s is classified as unambiguous but json.Marshal(v) = %s and json.Marshal(&v) = %s", c.M.Name, c.Pos, vs.v0.JSON, addr[0])
		}
		if differs {
			r.Count("marshal_cases_encoding_depends_on_addressability", 1)
		}
		cell := fmt.Sprintf("impl=%s|recv=%s|json=%s|under=%s|pos=%s", c.M.Impl, c.M.Recv, c.M.Form, c.M.Under, c.Pos)
		if c.M.Impl == "std" {
			cell = fmt.Sprintf("impl=std:%s|recv=%s|json=%s|under=%s|pos=%s", c.M.Name, c.M.Recv, c.M.Form, c.M.Under, c.Pos)
		}
		for _, st := range allStyles {
			rs := res[pairKey(ecs[i].ID, st)]
			r.Eval(1)
			r.Count("marshal_cases", 1)
			if rs == nil || rs.Incon != "" {
				what := "no result"
				if rs != nil {
					what = rs.Incon
				}
				r.Inconclusive(fmt.Sprintf("marshal family %s style=%s: %s", cell, st, what))
				continue
			}
			r.Distinct("marshal|" + st + "|" + cell)
			r.SetAdd("marshal_positions", c.Pos)
			if strings.HasPrefix(c.M.Impl, "both") && c.M.Form != "string" && !c.ByValueOpen {
				bothNonString++
			}
			fails := map[string]string{}
			for ck, d := range rs.Fails {
				fails[ck] = d
			}
			// the by-value text of a pointer-receiver type held by value is not judged (see mCase.ByValueOpen)
			if d, ok := fails[ckInst]; ok && c.ByValueOpen {
				delete(fails, ckInst)
				r.Count("marshal_by_value_text_of_pointer_receiver_type_rejected", 1)
				method := "MarshalText"
				if c.M.Name == "BigInt" || strings.Contains(c.M.Impl, "json") || strings.Contains(c.M.Impl, "both") {
					method = "MarshalJSON"
				}
				r.SetAdd("marshal_by_value_rejected_cells", fmt.Sprintf("(*T).%s, T held by value at %s", method, c.Pos))
				if sampled["marshalopen"] < 1 {
					sampled["marshalopen"]++
					r.Sample(map[string]interface{}{"stage": "marshal", "cell": cell, "style": st, "go_type": goString(&c.Spec), "verdict": "not judged: the by-value text of a pointer-receiver type held by value is rejected (counted only)",
						"schema": bounded(rs.Schema, 400), "instance": bounded(rs.Instances[0], 200), "detail": firstN(d, 200)})
				}
			}
			// ... but where marshalling through a pointer gives another text, that one is what the type's
			// methods write, and it is judged
			if differs && rs.Schema != nil && rs.Judged && !rs.failed(ckMeta) && !rs.failed(ckRef) {
				a, err := ev.oracle.Ask(rs.Schema, []json.RawMessage{addr[0], addr[1]})
				if err != nil {
					r.Fatal("oracle failed on marshal family %s: %v", cell, err)
				}
				r.Count("marshal_addressable_texts_judged", int64(len(a.InstanceResults)))
				for k, ir := range a.InstanceResults {
					if !ir.OK && !strings.HasPrefix(ir.Err, "validator error") {
						fails[ckInst] = fmt.Sprintf("value %d marshalled through a pointer (%s): %s", k, firstN(string(addr[k]), 200), ir.Err)
						break
					}
				}
			}
			if len(fails) == 0 {
				r.Count("marshal_pass", 1)
				if sampled["marshal"] < 1 && st == "defs" && c.M.Name == "BVInt" && c.Pos == "slice" {
					sampled["marshal"]++
					r.Sample(map[string]interface{}{"stage": "marshal", "cell": cell, "style": st, "go_type": goString(&c.Spec), "verdict": "pass",
						"schema": bounded(rs.Schema, 600), "instance": bounded(rs.Instances[0], 300)})
				}
				continue
			}
			for _, ck := range allChecks {
				d, ok := fails[ck]
				if !ok {
					continue
				}
				r.Count("fail_"+ck, 1)
				w := witness("2m (custom marshalling)", &c.Spec, rs, ck, map[string]interface{}{"cell": cell, "type": c.M.Type.String(), "detail": d})
				if differs {
					w["instance_through_pointer"] = bounded(addr[0], 600)
				}
				r.Violation(fmt.Sprintf("C18|marshal|style=%s|%s|%s", st, cell, ck),
					fmt.Sprintf("type with custom marshalling (%s, %s), style %s: %s: %s", c.M.Type.String(), cell, st, describeCheck(ck), firstN(d, 300)), w)
				if sampled["marshalfail"] < 1 {
					sampled["marshalfail"]++
					r.Sample(map[string]interface{}{"stage": "marshal", "cell": cell, "style": st, "go_type": goString(&c.Spec), "verdict": ck,
						"schema": bounded(rs.Schema, 600), "instance": bounded(rs.Instances[0], 300), "detail": d})
				}
			}
		}
	}
	if bothNonString == 0 {
		r.Fatal("vacuous: the marshal family judged no type that implements both interfaces with a non-string JSON form")
	}
	runMarshalMixes(r, ev, sampled)
}

// ---------------------------------------------------------------------------------------------
// mixes: several family types in one struct, each below a seeded chain of wrappers, next to a
// recursive compiled type (so that $defs / nested references are in play)

var mixChains = [][]string{{}, {"ptr"}, {"slice"}, {"array"}, {"map"}, {"struct"}, {"slice", "ptr"}, {"ptr", "slice"}, {"map", "slice"}, {"map", "ptr"},
	{"slice", "slice"}, {"array", "ptr"}, {"ptr", "array"}, {"ptr", "struct"}, {"slice", "struct"}, {"map", "struct"}, {"slice", "map"}, {"array", "array"},
	{"struct", "slice"}, {"struct", "ptr"}, {"struct", "map"}, {"map", "map"}, {"ptr", "map", "slice"}, {"slice", "array", "ptr"}}

// addressableBelow reports whether the value below the chain is addressable when the root is marshalled by value.
func addressableBelow(chain []string) bool {
	a := false
	for _, w := range chain {
		switch w {
		case "ptr", "slice":
			a = true
		case "map":
			a = false
		}
	}
	return a
}

func chainSpec(chain []string, t TSpec) TSpec {
	for i := len(chain) - 1; i >= 0; i-- {
		if chain[i] == "struct" {
			t = TSpec{K: "struct", F: []FSpec{plainField("G", t), plainField("H", TSpec{K: "int"})}}
		} else {
			t = wrapT(chain[i], t)
		}
	}
	return t
}

type mixField struct {
	M     *corpus.MEntry
	Chain []string
}

type mixCase struct {
	Fields []mixField
	Spec   TSpec
}

func (f *mixField) cell() string {
	pos := "mix:" + strings.Join(f.Chain, ">")
	if len(f.Chain) == 0 {
		pos = "mix:field"
	}
	impl := f.M.Impl
	if impl == "std" {
		impl = "std:" + f.M.Name
	}
	return fmt.Sprintf("impl=%s|recv=%s|json=%s|under=%s|pos=%s", impl, f.M.Recv, f.M.Form, f.M.Under, pos)
}

func runMarshalMixes(r *vh.Run, ev *evaluator, sampled map[string]int) {
	rng := r.Rand("marshal-mixes")
	recursive := []string{"Tree", "SelfSlice", "Leaf", "UsedTwice", "MutualA", "Forest"}
	var mixes []mixCase
	var ecs []evalCase
	seen := map[string]bool{}
	for n := r.Pick(60, 1200); len(mixes) < n; {
		var mc mixCase
		root := TSpec{K: "struct"}
		for i, nf := 0, 2+rng.Intn(4); i < nf; i++ {
			m := &corpus.Marshalers[rng.Intn(len(corpus.Marshalers))]
			chain := mixChains[rng.Intn(len(mixChains))]
			for m.Recv == "ptr" && !addressableBelow(chain) {
				chain = mixChains[rng.Intn(len(mixChains))] // a pointer-receiver type only where it is addressable: one encoding
			}
			mc.Fields = append(mc.Fields, mixField{M: m, Chain: chain})
			root.F = append(root.F, plainField(fmt.Sprintf("F%d", i+1), chainSpec(chain, mSpec(m))))
		}
		if rng.Intn(2) == 0 {
			root.F = append(root.F, plainField("R", TSpec{K: "corpus:" + recursive[rng.Intn(len(recursive))]}))
		}
		mc.Spec = root
		if cn := canon(&root); seen[cn] {
			continue
		} else {
			seen[cn] = true
		}
		if _, berr := buildType(&mc.Spec); berr != "" {
			r.Fatal("marshal mix %s cannot be built: %s", goString(&mc.Spec), berr)
		}
		ecs = append(ecs, evalCase{ID: fmt.Sprintf("mm-%d", len(mixes)), Spec: mc.Spec, Styles: allStyles})
		mixes = append(mixes, mc)
	}
	r.Count("marshal_mix_types", int64(len(mixes)))
	res := ev.Evaluate(ecs, 100)
	type failing struct {
		i      int
		st, ck string
		rs     *evalResult
	}
	var fails []failing
	var singles []evalCase
	singleID := map[string]string{}
	for i := range mixes {
		mc := &mixes[i]
		vs := ev.values(&mc.Spec)
		root := reflect.New(vs.v0.Go.Type())
		root.Elem().Set(vs.v0.Go)
		if b, err := json.Marshal(root.Interface()); err != nil || !bytes.Equal(b, vs.v0.JSON) {
			r.Fatal("marshal mix %s: json.Marshal(v) = %s, json.Marshal(&v) = %s (%v)", goString(&mc.Spec), vs.v0.JSON, b, err)
		}
		for _, st := range allStyles {
			rs := res[pairKey(ecs[i].ID, st)]
			r.Eval(1)
			r.Count("marshal_mix_cases", 1)
			if rs == nil || rs.Incon != "" {
				what := "no result"
				if rs != nil {
					what = rs.Incon
				}
				r.Inconclusive(fmt.Sprintf("marshal mix %s style=%s: %s", goString(&mc.Spec), st, what))
				continue
			}
			impls := map[string]bool{}
			for _, f := range mc.Fields {
				impls[f.M.Impl] = true
			}
			r.Distinct(fmt.Sprintf("marshal-mix|%s|fields=%d|impls=%d|refs=%v", st, len(mc.Fields), len(impls), rs.Refs > 0))
			if len(rs.Fails) == 0 {
				r.Count("marshal_mix_pass", 1)
				if sampled["marshalmix"] < 1 && st == "nested" && rs.Refs > 0 {
					sampled["marshalmix"]++
					r.Sample(map[string]interface{}{"stage": "marshal mix", "style": st, "go_type": goString(&mc.Spec), "verdict": "pass",
						"schema": bounded(rs.Schema, 800), "instance": bounded(rs.Instances[0], 400), "refs": rs.Refs})
				}
				continue
			}
			for _, ck := range allChecks {
				if !rs.failed(ck) {
					continue
				}
				r.Count("fail_"+ck, 1)
				fails = append(fails, failing{i, st, ck, rs})
				for k := range mc.Fields {
					f := &mc.Fields[k]
					sp := oneField(plainField("F", chainSpec(f.Chain, mSpec(f.M))))
					cn := canon(&sp)
					if singleID[cn] == "" {
						singleID[cn] = fmt.Sprintf("ms-%d", len(singles))
						singles = append(singles, evalCase{ID: singleID[cn], Spec: sp, Styles: allStyles})
					}
				}
			}
		}
	}
	// attribution: every field of a failing mix alone; what does not fail alone is an interaction
	sres := ev.Evaluate(singles, 100)
	for _, f := range fails {
		mc := &mixes[f.i]
		attributed := false
		for k := range mc.Fields {
			mf := &mc.Fields[k]
			sp := oneField(plainField("F", chainSpec(mf.Chain, mSpec(mf.M))))
			sr := sres[pairKey(singleID[canon(&sp)], f.st)]
			if sr == nil || sr.Incon != "" || !sr.failed(f.ck) {
				continue
			}
			attributed = true
			r.Violation(fmt.Sprintf("C18|marshal|style=%s|%s|%s", f.st, mf.cell(), f.ck),
				fmt.Sprintf("type with custom marshalling (%s, %s), style %s: %s: %s", mf.M.Type.String(), mf.cell(), f.st, describeCheck(f.ck), firstN(sr.Fails[f.ck], 300)),
				witness("2m (custom marshalling, field of a failing mix alone)", &sp, sr, f.ck, map[string]interface{}{"cell": mf.cell(), "found_in": firstN(goString(&mc.Spec), 1200)}))
		}
		if !attributed {
			r.Violation(fmt.Sprintf("C18|marshal|style=%s|mix-interaction|%s", f.st, f.ck),
				fmt.Sprintf("struct mixing types with custom marshalling, style %s: %s (no field fails alone): %s", f.st, describeCheck(f.ck), firstN(f.rs.Fails[f.ck], 300)),
				witness("2m (custom marshalling, mix)", &mc.Spec, f.rs, f.ck, nil))
		}
	}
}
