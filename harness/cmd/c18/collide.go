package main

// Name collisions: several fields of one struct type, at different embedding depths, claim ONE JSON
// name. encoding/json resolves such a group by depth first, then by "named through a tag", and drops
// the name when no claimant dominates. This file builds every arrangement of two or three claimants
// (and seeded random ones with up to four) as struct types - reflect.StructOf nodes embedded by value
// or through a pointer, compiled types from corpus/colliders.go, and both mixed - and has them judged
// by the ordinary pipeline. What the expected field set is, is never computed here: it is read from
// the encoding of a fully populated value (names oracle of populate.go), and the claimants have
// different Go types so that a schema generated from the wrong claimant rejects that encoding.

import (
	"encoding/json"
	"fmt"
	"math/rand"
	"sort"
	"strings"

	"verifharness/cmd/c18/corpus"
	"verifharness/lib/vh"
)

const collName = "Limit" // the disputed JSON name

// cClaim is one field claiming the name.
type cClaim struct {
	Tagged bool   // named through a json tag (Go name differs); otherwise the Go field name is the JSON name
	Kind   string // string | int | bool | slice | struct (the Go type of the field)
	Omit   bool
	Str    bool
	Dash   bool // Go name = the disputed name, tag json:"-"
}

type cKid struct {
	Label string
	Ptr   bool // embedded through a pointer
}

// cNode is one struct type of the arrangement. A label listed as kid of two nodes is ONE type
// reachable by two paths.
type cNode struct {
	Claims []cClaim
	Kids   []cKid
}

type arrangement struct {
	Nodes       map[string]*cNode // "R" is the root
	EmbedsFirst bool              // embedded fields are declared before the node's own fields
}

func newArr() *arrangement { return &arrangement{Nodes: map[string]*cNode{"R": {}}} }

func (a *arrangement) node(label string) *cNode {
	n := a.Nodes[label]
	if n == nil {
		n = &cNode{}
		a.Nodes[label] = n
	}
	return n
}

// at returns the node at the end of a path like "A.B" ("" is the root), creating the chain.
func (a *arrangement) at(path string, ptr bool) *cNode {
	cur := "R"
	a.node(cur)
	if path == "" {
		return a.Nodes[cur]
	}
	for _, l := range strings.Split(path, ".") {
		a.link(cur, l, ptr)
		cur = l
	}
	return a.Nodes[cur]
}

func (a *arrangement) link(parent, kid string, ptr bool) {
	p := a.node(parent)
	a.node(kid)
	for _, k := range p.Kids {
		if k.Label == kid {
			return
		}
	}
	p.Kids = append(p.Kids, cKid{kid, ptr})
}

func (a *arrangement) claim(path string, ptr bool, c cClaim) *arrangement {
	n := a.at(path, ptr)
	n.Claims = append(n.Claims, c)
	return a
}

// valid: at most one field with the disputed Go name per struct, no cycles (labels form a DAG by construction).
func (a *arrangement) valid() bool {
	for _, n := range a.Nodes {
		plain := 0
		for _, c := range n.Claims {
			if !c.Tagged || c.Dash {
				plain++
			}
		}
		if plain > 1 {
			return false
		}
	}
	return true
}

// paths lists, per node label, the (depth, passes-a-pointer) of every path from the root.
type cPath struct {
	Depth int
	Ptr   bool
}

func (a *arrangement) paths() map[string][]cPath {
	out := map[string][]cPath{}
	var walk func(label string, depth int, ptr bool)
	walk = func(label string, depth int, ptr bool) {
		out[label] = append(out[label], cPath{depth, ptr})
		for _, k := range a.Nodes[label].Kids {
			walk(k.Label, depth+1, ptr || k.Ptr)
		}
	}
	walk("R", 0, false)
	return out
}

// assignKinds gives every claimant its own Go type (rot rotates which one gets which).
func (a *arrangement) assignKinds(rot int) {
	pool := []string{"string", "int", "bool", "slice", "struct"}
	var cs []*cClaim
	for _, l := range a.labels() {
		n := a.Nodes[l]
		for i := range n.Claims {
			cs = append(cs, &n.Claims[i])
		}
	}
	anyStr := false
	for i, c := range cs {
		c.Kind = pool[(i+rot)%len(pool)]
		anyStr = anyStr || c.Str
	}
	for _, c := range cs {
		// ",string" only changes the encoding of strings, numbers and booleans
		if c.Str && c.Kind != "int" && c.Kind != "bool" {
			for _, o := range cs {
				if o.Kind == "int" && !o.Str {
					o.Kind = c.Kind
					break
				}
			}
			c.Kind = "int"
		}
	}
	if anyStr {
		// a ",string" number is encoded as a JSON string: no other claimant may be a string
		for _, c := range cs {
			if !c.Str && c.Kind == "string" {
				c.Kind = "struct"
			}
		}
	}
}

func (a *arrangement) labels() []string {
	var l []string
	for k := range a.Nodes {
		l = append(l, k)
	}
	sort.Strings(l)
	return l
}

func kindSpec(k string) TSpec {
	switch k {
	case "slice":
		return TSpec{K: "slice", E: &TSpec{K: "string"}}
	case "struct":
		return cloneT(standInStruct)
	}
	return TSpec{K: k}
}

// spec builds the struct type of the arrangement.
func (a *arrangement) spec() TSpec { return a.build("R") }

func (a *arrangement) build(label string) TSpec {
	n := a.Nodes[label]
	own := []FSpec{{Name: "P" + label, Mode: "tagged", JName: "p_" + strings.ToLower(label), T: TSpec{K: "int"}}}
	for i, c := range n.Claims {
		f := FSpec{T: kindSpec(c.Kind), Omit: c.Omit, Str: c.Str}
		switch {
		case c.Dash:
			f.Name, f.Mode, f.Omit, f.Str = collName, "dash", false, false
		case c.Tagged:
			f.Name, f.Mode, f.JName = fmt.Sprintf("T%s%d", label, i), "tagged", collName
		case c.Omit || c.Str:
			f.Name, f.Mode = collName, "nameless" // json:",omitempty": options without a name - still "untagged" for encoding/json
		default:
			f.Name, f.Mode = collName, "untagged"
		}
		own = append(own, f)
	}
	var emb []FSpec
	for _, k := range n.Kids {
		f := FSpec{Name: "E" + k.Label, Emb: "sval", T: a.build(k.Label)}
		if k.Ptr {
			f.Emb = "sptr"
		}
		emb = append(emb, f)
	}
	if a.EmbedsFirst {
		return TSpec{K: "struct", F: append(emb, own...)}
	}
	return TSpec{K: "struct", F: append(own, emb...)}
}

// class names the arrangement: per claimant d<depth of every path>[p = below a pointer]<t|u|dash>[.omit][.str]
// (x: a struct without a claimant that is reachable by several paths), sorted; then the layout marks (claimants in one struct, one claimant's struct embedded in another's,
// embedded fields declared first). It describes what was built, not how it resolves.
func (a *arrangement) class() string {
	ps := a.paths()
	var parts []string
	sibs := false
	for _, l := range a.labels() {
		n := a.Nodes[l]
		if len(n.Claims) > 1 {
			sibs = true
		}
		var ds []string
		ptr := false
		pl := append([]cPath{}, ps[l]...)
		sort.Slice(pl, func(i, j int) bool { return pl[i].Depth < pl[j].Depth })
		for _, p := range pl {
			ds = append(ds, fmt.Sprint(p.Depth))
			ptr = ptr || p.Ptr
		}
		if len(n.Claims) == 0 && len(pl) > 1 {
			// a struct without a claimant that is reachable by several paths (its own fields collide with themselves)
			s := "d" + strings.Join(ds, "&")
			if ptr {
				s += "p"
			}
			parts = append(parts, s+"x")
		}
		for _, c := range n.Claims {
			s := "d" + strings.Join(ds, "&")
			if ptr {
				s += "p"
			}
			switch {
			case c.Dash:
				s += "dash"
			case c.Tagged:
				s += "t"
			default:
				s += "u"
			}
			if c.Omit && !c.Dash {
				s += ".omit"
			}
			if c.Str && !c.Dash {
				s += ".str"
			}
			parts = append(parts, s)
		}
	}
	sort.Strings(parts)
	out := strings.Join(parts, "+")
	// nested: a claimant's struct lies below another claimant's struct
	nested := false
	var below func(label string, underClaim bool)
	below = func(label string, underClaim bool) {
		n := a.Nodes[label]
		if underClaim && len(n.Claims) > 0 {
			nested = true
		}
		for _, k := range n.Kids {
			below(k.Label, underClaim || (len(n.Claims) > 0 && label != "R"))
		}
	}
	below("R", false)
	if sibs {
		out += "|one-struct"
	}
	if nested {
		out += "|nested"
	}
	if a.EmbedsFirst {
		out += "|embeds-first"
	}
	return out
}

// collCase is one type of the family.
type collCase struct {
	Class  string
	Origin string // enumerated | options | dash | two-paths | compiled | mixed | random
	Spec   TSpec
}

// chains for claimants that live in separate embedded structs
var collChains = [][2]string{{"A", "A.B"}, {"C", "C.D"}, {"F", "F.G"}, {"H", "H.J"}}

func chainPath(chain, depth int) string {
	switch depth {
	case 0:
		return ""
	case 1:
		return collChains[chain][0]
	}
	return collChains[chain][1]
}

// collisionCorpus enumerates the family (deterministic part).
func collisionCorpus() []collCase {
	var out []collCase
	seq := 0
	add := func(origin string, a *arrangement) {
		if !a.valid() {
			return
		}
		a.assignKinds(seq)
		seq++
		out = append(out, collCase{Class: a.class(), Origin: origin, Spec: a.spec()})
	}
	tu := []bool{false, true}

	// two claimants: depth of each x tagged/untagged of each x layout x value/pointer embedding x declaration order
	for d1 := 0; d1 <= 2; d1++ {
		for d2 := d1; d2 <= 2; d2++ {
			for _, t1 := range tu {
				for _, t2 := range tu {
					type layout struct{ p1, p2 string }
					layouts := []layout{{chainPath(0, d1), chainPath(1, d2)}} // separate chains
					if d1 >= 1 && d2 > d1 {
						layouts = append(layouts, layout{chainPath(0, d1), chainPath(0, d2)}) // the deeper one below the shallower one's struct
					}
					if d1 == d2 && d1 >= 1 {
						layouts = append(layouts, layout{chainPath(0, d1), chainPath(0, d1)}) // in one struct
					}
					if d1 == 2 && d2 == 2 {
						layouts = append(layouts, layout{"A.B", "A.D"}) // common parent
					}
					for _, l := range layouts {
						for _, ptr := range tu {
							for _, ef := range tu {
								if d2 == 0 && (ptr || ef) {
									continue
								}
								a := newArr()
								a.EmbedsFirst = ef
								a.claim(l.p1, ptr, cClaim{Tagged: t1})
								a.claim(l.p2, ptr, cClaim{Tagged: t2})
								add("enumerated", a)
							}
						}
					}
				}
			}
		}
	}
	// three claimants in separate chains: every non-decreasing depth triple x every tag triple
	n3 := 0
	for d1 := 0; d1 <= 2; d1++ {
		for d2 := d1; d2 <= 2; d2++ {
			for d3 := d2; d3 <= 2; d3++ {
				for m := 0; m < 8; m++ {
					a := newArr()
					n3++
					a.EmbedsFirst = n3%2 == 0
					ptr := n3%3 == 0
					a.claim(chainPath(0, d1), ptr, cClaim{Tagged: m&1 != 0})
					a.claim(chainPath(1, d2), ptr, cClaim{Tagged: m&2 != 0})
					a.claim(chainPath(2, d3), ptr, cClaim{Tagged: m&4 != 0})
					add("enumerated", a)
				}
			}
		}
	}
	// three claimants, a pair in ONE struct (tagged + tagged, tagged + untagged) and a third above / beside / below
	for dp := 0; dp <= 2; dp++ {
		for d3 := 0; d3 <= 2; d3++ {
			for _, pairU := range tu {
				for _, t3 := range tu {
					a := newArr()
					a.claim(chainPath(0, dp), false, cClaim{Tagged: true})
					a.claim(chainPath(0, dp), false, cClaim{Tagged: !pairU})
					a.claim(chainPath(1, d3), false, cClaim{Tagged: t3})
					add("enumerated", a)
				}
			}
		}
	}
	// options on the winner or on the loser (two claimants of which one dominates by depth or by tag)
	type opt struct{ o1, s1, o2, s2 bool }
	opts := []opt{{o1: true}, {s1: true}, {o2: true}, {s2: true}, {o1: true, o2: true}, {o1: true, s1: true}}
	for d1 := 0; d1 <= 2; d1++ {
		for d2 := d1; d2 <= 2; d2++ {
			for _, t1 := range tu {
				for _, t2 := range tu {
					if d1 == d2 && t1 == t2 {
						continue // covered below: options on a dropped pair
					}
					for _, o := range opts {
						a := newArr()
						a.claim(chainPath(0, d1), false, cClaim{Tagged: t1, Omit: o.o1, Str: o.s1})
						a.claim(chainPath(1, d2), false, cClaim{Tagged: t2, Omit: o.o2, Str: o.s2})
						add("options", a)
					}
				}
			}
		}
	}
	for d := 1; d <= 2; d++ {
		for _, t := range tu {
			for _, o := range opts[:4] {
				a := newArr()
				a.claim(chainPath(0, d), false, cClaim{Tagged: t, Omit: o.o1, Str: o.s1})
				a.claim(chainPath(1, d), false, cClaim{Tagged: t, Omit: o.o2, Str: o.s2})
				add("options", a)
			}
		}
	}
	// json:"-" on one claimant: it does not take part
	for d1 := 0; d1 <= 2; d1++ {
		for d2 := 0; d2 <= 2; d2++ {
			for _, t2 := range tu {
				a := newArr()
				a.claim(chainPath(0, d1), false, cClaim{Dash: true})
				a.claim(chainPath(1, d2), false, cClaim{Tagged: t2})
				add("dash", a)
				// ... and a third one that would have tied with / lost to / beaten the excluded one
				for d3 := 0; d3 <= 2; d3++ {
					b := newArr()
					b.claim(chainPath(0, d1), false, cClaim{Dash: true})
					b.claim(chainPath(1, d2), false, cClaim{Tagged: t2})
					b.claim(chainPath(2, d3), false, cClaim{Tagged: !t2})
					add("dash", b)
				}
			}
		}
	}
	// one embedded type reachable by two paths (equal or different depths), alone and against another claimant
	for _, ts := range tu {
		for _, shape := range []string{"2&2", "1&2", "2&3"} {
			for _, ptrS := range tu {
				base := func() *arrangement {
					a := newArr()
					switch shape {
					case "2&2":
						a.link("R", "A", false)
						a.link("R", "C", false)
						a.link("A", "S", ptrS)
						a.link("C", "S", false)
					case "1&2":
						a.link("R", "S", ptrS)
						a.link("R", "C", false)
						a.link("C", "S", false)
					case "2&3":
						a.link("R", "A", false)
						a.link("A", "S", ptrS)
						a.link("R", "C", false)
						a.link("C", "D", false)
						a.link("D", "S", false)
					}
					a.Nodes["S"].Claims = append(a.Nodes["S"].Claims, cClaim{Tagged: ts})
					return a
				}
				add("two-paths", base())
				for d := 0; d <= 2; d++ {
					for _, t := range tu {
						a := base()
						a.claim(chainPath(2, d), false, cClaim{Tagged: t})
						add("two-paths", a)
					}
				}
				a := base()
				a.at("F.G", false)
				a.link("G", "K", false)
				a.Nodes["K"].Claims = append(a.Nodes["K"].Claims, cClaim{Tagged: !ts}) // depth 3
				add("two-paths", a)
			}
		}
	}
	// compiled roots
	for _, cr := range corpus.ColliderRoots {
		out = append(out, collCase{Class: cr[1] + "|compiled", Origin: "compiled", Spec: TSpec{K: "corpus:" + cr[0]}})
	}
	// reflect.StructOf roots that embed compiled types
	type embSet struct {
		names []string
		class string
	}
	sets := []embSet{
		{[]string{"ColT"}, "d1t"}, {[]string{"ColU"}, "d1u"}, {[]string{"ColDeepT"}, "d2t"}, {[]string{"ColDeepU"}, "d2u"}, {[]string{"ColDeepPT"}, "d2pt"},
		{[]string{"ColT", "ColT2"}, "d1t+d1t"}, {[]string{"ColU", "ColU2"}, "d1u+d1u"}, {[]string{"ColT", "ColU"}, "d1t+d1u"},
		{[]string{"ColU", "ColDeepT"}, "d1u+d2t"}, {[]string{"ColT", "ColDeepU"}, "d1t+d2u"}, {[]string{"ColDeepT", "ColDeepU"}, "d2t+d2u"},
		{[]string{"ColU", "ColDeepPT"}, "d1u+d2pt"}, {[]string{"ColDeepT", "ColMidT"}, "d2&2t"}, {[]string{"ColT", "ColT2", "ColDeepU"}, "d1t+d1t+d2u"},
		{[]string{"ColU", "ColU2", "ColDeepT"}, "d1u+d1u+d2t"}, {[]string{"ColStrT", "ColU"}, "d1t.str+d1u"}, {[]string{"ColDeepT", "ColDeepPT"}, "d2t+d2pt"},
		{[]string{"ColU", "ColDeepT", "ColDeepPT"}, "d1u+d2t+d2pt"},
	}
	for _, rootClaim := range []string{"", "u", "t"} {
		for _, s := range sets {
			for _, ptr := range tu {
				for _, ef := range tu {
					var own, emb []FSpec
					own = append(own, FSpec{Name: "PR", Mode: "tagged", JName: "p_r", T: TSpec{K: "int"}})
					class := s.class
					switch rootClaim {
					case "u":
						own = append(own, FSpec{Name: collName, Mode: "untagged", T: TSpec{K: "string"}})
						class = "d0u+" + class
					case "t":
						own = append(own, FSpec{Name: "TR0", Mode: "tagged", JName: collName, T: TSpec{K: "string"}})
						class = "d0t+" + class
					}
					for _, n := range s.names {
						f := FSpec{Name: n, Emb: "sval", T: TSpec{K: "corpus:" + n}}
						if ptr {
							f.Emb = "sptr"
						}
						emb = append(emb, f)
					}
					class += "|compiled-embeds"
					if ptr {
						class += "|ptr"
					}
					fs := append(append([]FSpec{}, own...), emb...)
					if ef {
						fs = append(append([]FSpec{}, emb...), own...)
						class += "|embeds-first"
					}
					out = append(out, collCase{Class: class, Origin: "mixed", Spec: TSpec{K: "struct", F: fs}})
				}
			}
		}
	}
	return out
}

// randomArrangement draws 2-4 claimants over a random tree of embedded structs (depth <= 3), with
// random tags, options, pointer edges, declaration order, and sometimes one struct linked from a
// second parent.
func randomArrangement(rng *rand.Rand) *arrangement {
	for {
		a := newArr()
		a.EmbedsFirst = rng.Intn(2) == 0
		labels := []string{"R"}
		depth := map[string]int{"R": 0}
		for i, n := 0, 1+rng.Intn(6); i < n; i++ {
			parent := labels[rng.Intn(len(labels))]
			if depth[parent] >= 3 {
				continue
			}
			l := string(rune('A' + len(labels) - 1))
			a.link(parent, l, rng.Intn(3) == 0)
			depth[l] = depth[parent] + 1
			labels = append(labels, l)
		}
		if rng.Intn(4) == 0 && len(labels) > 2 {
			// a leaf struct gets a second parent
			var leaves []string
			for _, l := range labels[1:] {
				if len(a.Nodes[l].Kids) == 0 {
					leaves = append(leaves, l)
				}
			}
			if len(leaves) > 0 {
				leaf := leaves[rng.Intn(len(leaves))]
				p := labels[rng.Intn(len(labels))]
				if p != leaf && depth[p] < 3 {
					a.link(p, leaf, rng.Intn(3) == 0)
				}
			}
		}
		for i, n := 0, 2+rng.Intn(3); i < n; i++ {
			c := cClaim{Tagged: rng.Intn(2) == 0}
			switch rng.Intn(8) {
			case 0:
				c.Omit = true
			case 1:
				c.Str = true
			case 2:
				c.Dash = true
			}
			nd := a.Nodes[labels[rng.Intn(len(labels))]]
			nd.Claims = append(nd.Claims, c)
		}
		if !a.valid() {
			continue
		}
		a.assignKinds(rng.Intn(5))
		return a
	}
}

// runCollisions judges the family. The verdicts are the property's own checks on each (type, style).
func runCollisions(r *vh.Run, ev *evaluator, sampled map[string]int) {
	cases := collisionCorpus()
	r.Count("collision_enumerated_types", int64(len(cases)))
	rng := r.Rand("collisions")
	for i, n := 0, r.Pick(150, 2000); i < n; i++ {
		a := randomArrangement(rng)
		cases = append(cases, collCase{Class: a.class(), Origin: "random", Spec: a.spec()})
	}
	var ecs []evalCase
	var kept []collCase
	seen := map[string]bool{}
	for _, c := range cases {
		cn := canon(&c.Spec)
		if seen[cn] {
			continue
		}
		seen[cn] = true
		if _, berr := buildType(&c.Spec); berr != "" {
			r.Fatal("collision type %s (%s) cannot be built: %s", c.Class, goString(&c.Spec), berr)
		}
		ecs = append(ecs, evalCase{ID: fmt.Sprintf("col-%d", len(kept)), Spec: c.Spec, Styles: allStyles})
		kept = append(kept, c)
	}
	r.Count("collision_types", int64(len(kept)))
	res := ev.Evaluate(ecs, 100)
	judged := 0
	for i := range kept {
		c := &kept[i]
		// what encoding/json did with the name (observation only: which JSON type, or dropped)
		outcome := "?"
		var inst map[string]json.RawMessage
		for _, st := range allStyles {
			rs := res[pairKey(ecs[i].ID, st)]
			r.Eval(1)
			r.Count("collision_cases", 1)
			if rs == nil || rs.Incon != "" {
				what := "no result"
				if rs != nil {
					what = rs.Incon
				}
				r.Inconclusive(fmt.Sprintf("collision class=%s style=%s: %s", c.Class, st, what))
				continue
			}
			judged++
			if outcome == "?" && len(rs.Instances) > 0 && json.Unmarshal(rs.Instances[0], &inst) == nil {
				if v, ok := inst[collName]; ok {
					outcome = "emitted:" + jsonKind(v)
					r.Count("collision_name_emitted", 1)
				} else {
					outcome = "dropped"
					r.Count("collision_name_dropped", 1)
				}
				r.SetAdd("collision_outcomes", outcome)
				r.Count("collision_origin_"+c.Origin, 1)
			}
			r.Distinct("collide|" + st + "|" + c.Class)
			r.SetAdd("collision_classes", c.Class)
			if len(rs.Fails) == 0 {
				r.Count("collision_pass", 1)
				if sampled["collide"] < 2 && st == "nested" && (c.Origin == "enumerated" && strings.Contains(c.Class, "d0u+d1t+d1t") || c.Origin == "two-paths" && sampled["collide"] == 1) {
					sampled["collide"]++
					r.Sample(map[string]interface{}{"stage": "collision", "class": c.Class, "origin": c.Origin, "style": st, "go_type": goString(&c.Spec), "verdict": "pass",
						"encoding_json_did": outcome, "schema": bounded(rs.Schema, 1024), "instance": bounded(rs.Instances[0], 400)})
				}
				continue
			}
			for _, ck := range allChecks {
				if !rs.failed(ck) {
					continue
				}
				r.Count("fail_"+ck, 1)
				r.Violation(fmt.Sprintf("C18|collision|style=%s|%s|%s", st, sigClass(c.Class), ck),
					fmt.Sprintf("fields claiming one JSON name (%s; encoding/json: %s), style %s: %s: %s", c.Class, outcome, st, describeCheck(ck), firstN(rs.Fails[ck], 300)),
					witness("collision ("+c.Origin+")", &c.Spec, rs, ck, map[string]interface{}{"class": c.Class, "encoding_json_did": outcome}))
				if sampled["collidefail"] < 1 {
					sampled["collidefail"]++
					r.Sample(map[string]interface{}{"stage": "collision", "class": c.Class, "style": st, "go_type": goString(&c.Spec), "verdict": ck,
						"encoding_json_did": outcome, "schema": bounded(rs.Schema, 1024), "instance": bounded(rs.Instances[0], 400), "detail": rs.Fails[ck]})
				}
			}
		}
	}
	if judged > 0 && (r.Counter("collision_name_emitted") == 0 || r.Counter("collision_name_dropped") == 0) {
		r.Fatal("vacuous: the collision family never saw the name emitted (%d) or never saw it dropped (%d)", r.Counter("collision_name_emitted"), r.Counter("collision_name_dropped"))
	}
}

// sigClass is the class without the layout marks (they stay in the witness): the claimants only.
func sigClass(class string) string {
	if i := strings.Index(class, "|"); i >= 0 {
		class = class[:i]
	}
	return class
}

func jsonKind(v json.RawMessage) string {
	s := strings.TrimSpace(string(v))
	if s == "" {
		return "?"
	}
	switch s[0] {
	case '"':
		return "string"
	case '{':
		return "object"
	case '[':
		return "array"
	case 't', 'f':
		return "boolean"
	case 'n':
		return "null"
	}
	return "number"
}
