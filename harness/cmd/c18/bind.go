package main

import (
	"context"
	"encoding/json"
	"fmt"
	"os"
	"reflect"
	"strings"
	"sync"
	"time"

	mcp "trpc.group/trpc-go/trpc-mcp-go"

	"verifharness/cmd/c18/corpus"
	"verifharness/lib/kit"
)

// bindLine is one NDJSON record written by the "bind" child.
type bindLine struct {
	K      string `json:"k"` // bind | list | fatal | summary
	Type   string `json:"type,omitempty"`
	Case   string `json:"case,omitempty"`
	Tool   string `json:"tool,omitempty"`
	Kind   string `json:"kind,omitempty"`  // list: struct | builder
	Style  string `json:"style,omitempty"` // list
	Which  string `json:"which,omitempty"` // list: input | output
	OK     bool   `json:"ok"`
	Deep   bool   `json:"deep_equal,omitempty"`
	Symp   string `json:"symptom,omitempty"`
	Detail string `json:"detail,omitempty"`
	Sent   string `json:"sent,omitempty"`
	Got    string `json:"got,omitempty"`
	Want   string `json:"want,omitempty"`
}

type recorder struct {
	mu   sync.Mutex
	last map[string]interface{}
	n    map[string]int
}

func (r *recorder) put(name string, v interface{}) {
	r.mu.Lock()
	r.last[name] = v
	r.n[name]++
	r.mu.Unlock()
}

func (r *recorder) take(name string) (interface{}, int) {
	r.mu.Lock()
	defer r.mu.Unlock()
	v, n := r.last[name], r.n[name]
	delete(r.last, name)
	r.n[name] = 0
	return v, n
}

type bindEntry struct {
	Name     string
	Type     reflect.Type
	Register func(in *kit.Instance, rec *recorder)
	ListTool func(style string) *mcp.Tool
}

func styleOpts(style string) []mcp.SchemaOption {
	switch style {
	case "inline":
		return []mcp.SchemaOption{mcp.WithInlineStyle()}
	case "defs":
		return []mcp.SchemaOption{mcp.WithRefStyle()}
	case "nested":
		return []mcp.SchemaOption{mcp.WithNestedRefStyle()}
	}
	return nil
}

func entry[T any](name string) bindEntry {
	return bindEntry{
		Name: name,
		Type: reflect.TypeOf((*T)(nil)).Elem(),
		Register: func(in *kit.Instance, rec *recorder) {
			tool := mcp.NewTool("bind_"+name, mcp.WithDescription("binding probe"), mcp.WithInputStruct[T](), mcp.WithOutputStruct[corpus.Ack]())
			in.RegisterTool(tool, mcp.NewTypedToolHandler(func(ctx context.Context, req *mcp.CallToolRequest, v T) (corpus.Ack, error) {
				rec.put(name, v)
				return corpus.Ack{OK: true}, nil
			}))
		},
		ListTool: func(style string) *mcp.Tool {
			o := styleOpts(style)
			return mcp.NewTool("tl_"+name+"_"+style, mcp.WithDescription("tools/list probe "+name), mcp.WithInputStruct[T](o...), mcp.WithOutputStruct[T](o...))
		},
	}
}

func bindEntries() []bindEntry {
	return []bindEntry{
		entry[corpus.FlatInts]("FlatInts"), entry[corpus.FlatMixed]("FlatMixed"), entry[corpus.Pointers]("Pointers"),
		entry[corpus.Containers]("Containers"), entry[corpus.Nested]("Nested"), entry[corpus.Dynamic]("Dynamic"),
		entry[corpus.StdTypes]("StdTypes"), entry[corpus.Embeds]("Embeds"), entry[corpus.Tagged]("Tagged"), entry[corpus.Leaf]("Leaf"),
		entry[corpus.SelfPtrOmit]("SelfPtrOmit"), entry[corpus.SelfPtrNoOmit]("SelfPtrNoOmit"), entry[corpus.SelfSlice]("SelfSlice"),
		entry[corpus.SelfMap]("SelfMap"), entry[corpus.MutualA]("MutualA"), entry[corpus.UsedTwice]("UsedTwice"),
		entry[corpus.Box[int]]("BoxInt"), entry[corpus.Box[corpus.Leaf]]("BoxLeaf"), entry[corpus.BoxOfBox]("BoxOfBox"),
		entry[corpus.LinkedList]("LinkedList"), entry[corpus.Tree]("Tree"), entry[corpus.Forest]("Forest"),
	}
}

type valueCase struct {
	Class string
	JSON  []byte
}

func strp(s string) *string         { return &s }
func i64p(i int64) *int64           { return &i }
func f64p(f float64) *float64       { return &f }
func boolp(b bool) *bool            { return &b }
func mustJSON(v interface{}) []byte { b, _ := json.Marshal(v); return b }

// valueCases lists the values sent for a type: the two generated fully populated values, the zero
// value, and hand-written boundary values.
func valueCases(e bindEntry) []valueCase {
	out := []valueCase{
		{"populated-small", populate(e.Type, 0, 2).JSON},
		{"populated-boundary", populate(e.Type, 1, 2).JSON},
		{"zero", mustJSON(reflect.New(e.Type).Elem().Interface())},
	}
	const m = int64(1)<<53 - 1
	switch e.Name {
	case "FlatInts":
		out = append(out,
			valueCase{"max-safe", mustJSON(corpus.FlatInts{I: int(m), I64: m, U: uint(m), U64: uint64(m), I32: 2147483647, U32: 4294967295, I8: 127, U8: 255, I16: 32767, U16: 65535})},
			valueCase{"min-safe", mustJSON(corpus.FlatInts{I: int(-m), I64: -m, I32: -2147483648, I8: -128, I16: -32768})},
			valueCase{"around-1e6", mustJSON(corpus.FlatInts{I: 1000000, I64: 1000001, U: 999999, U64: 10000000, I32: 1000000})})
	case "FlatMixed":
		out = append(out,
			valueCase{"unicode", mustJSON(corpus.FlatMixed{S: "héllo wörld ✓ 日本語 \U0001F600   \"quoted\" \\ </script>", B: true, F32: -0.5, F64: 1e-7, Opt: "ü", Raw: "\t\n"})},
			valueCase{"float-extremes", mustJSON(corpus.FlatMixed{S: "x", F32: 3.4028234e38, F64: 1.7976931348623157e308})},
			valueCase{"float-tiny", mustJSON(corpus.FlatMixed{S: "x", F32: 1e-45, F64: 5e-324})},
			valueCase{"float-integral-large", mustJSON(corpus.FlatMixed{S: "x", F64: 1e21})})
	case "Pointers":
		out = append(out,
			valueCase{"pointers-to-zero", mustJSON(corpus.Pointers{PS: strp(""), PI: i64p(0), PF: f64p(0), PB: boolp(false), PL: &corpus.Leaf{}})},
			valueCase{"pointers-boundary", mustJSON(corpus.Pointers{PS: strp("ß"), PI: i64p(-m), PF: f64p(-2.5), PB: boolp(true)})})
	case "Containers":
		out = append(out,
			valueCase{"nested-maps", mustJSON(corpus.Containers{Strs: []string{"", "a", "ü"}, Ints: []int64{0, -1, m, -m}, Arr: [3]int{-1, 0, 1},
				M: map[string]int64{"": 0, "k": m, "日本": -m}, MM: map[string]map[string]int{"a": {"b": 1, "c": -2}, "empty": {}},
				MS: map[string][]string{"x": {"1", "2"}, "none": nil}, Leafs: []corpus.Leaf{{X: 1, Y: "a"}, {}}, ML: map[string]corpus.Leaf{"l": {X: -5, Y: "y"}}})},
			valueCase{"empty-containers", mustJSON(corpus.Containers{Strs: []string{}, Ints: []int64{}, M: map[string]int64{}, MM: map[string]map[string]int{}, MS: map[string][]string{}, Leafs: []corpus.Leaf{}, ML: map[string]corpus.Leaf{}})})
	case "Dynamic":
		out = append(out,
			valueCase{"dynamic-nested", mustJSON(corpus.Dynamic{Any: map[string]interface{}{"a": []interface{}{1.0, "x", nil, true, map[string]interface{}{"deep": []interface{}{}}}},
				Obj: map[string]interface{}{"n": float64(m), "neg": float64(-m), "s": "ü", "null": nil, "o": map[string]interface{}{"k": 1.5}}, List: []interface{}{0.0, "", false, nil, []interface{}{1.0}}})},
			valueCase{"dynamic-scalars", mustJSON(corpus.Dynamic{Any: 12345678.0, Obj: map[string]interface{}{}, List: []interface{}{}})})
	case "StdTypes":
		out = append(out,
			valueCase{"std-other-zone", mustJSON(corpus.StdTypes{When: time.Date(1999, 12, 31, 23, 59, 59, 1, time.FixedZone("", -5*3600)), Blob: []byte{}, Raw: json.RawMessage(`[1,"a",null]`), Num: "0", Count: -m})})
	case "Tree":
		out = append(out,
			valueCase{"tree-deep", mustJSON(corpus.Tree{Label: "r", Left: &corpus.Tree{Label: "l", Left: &corpus.Tree{Label: "ll", Children: []*corpus.Tree{{Label: "c"}, nil}}}, Right: &corpus.Tree{Label: "ü"}})})
	}
	return out
}

// builderTools are tools whose schema comes from NewTool + With* builders.
func builderTools() []*mcp.Tool {
	strSchema := mcp.VerifSchemaForType(reflect.TypeOf(""), "inline")
	intSchema := mcp.VerifSchemaForType(reflect.TypeOf(int(0)), "inline")
	return []*mcp.Tool{
		mcp.NewTool("tl_builder_empty"),
		mcp.NewTool("tl_builder_all", mcp.WithDescription("every builder, ünïcode description ✓"),
			mcp.WithString("s", mcp.Description("a string, with comma"), mcp.Required(), mcp.Enum("a", "b", "ü"), mcp.Default("a"), mcp.Title("S title")),
			mcp.WithNumber("n", mcp.Description("a number"), mcp.Default(1.5)),
			mcp.WithInteger("i", mcp.Required(), mcp.Default(3)),
			mcp.WithBoolean("b", mcp.Default(true)),
			mcp.WithObject("o", mcp.Description("an object")),
			mcp.WithArray("a", mcp.Items(strSchema), mcp.MinItems(1), mcp.MaxItems(5), mcp.UniqueItems(true), mcp.Required())),
		mcp.NewTool("tl_builder_numbers",
			mcp.WithInteger("max_safe", mcp.Default(int64(1)<<53-1)),
			mcp.WithInteger("min_safe", mcp.Default(-(int64(1)<<53-1))),
			mcp.WithNumber("tiny", mcp.Default(1e-7)),
			mcp.WithNumber("huge", mcp.Default(1e21)),
			mcp.WithNumber("million", mcp.Default(1000000)),
			mcp.WithNumber("negzero", mcp.Default(0.0)),
			mcp.WithArray("ints", mcp.Items(intSchema), mcp.MinItems(0), mcp.MaxItems(1000000))),
		mcp.NewTool("tl_builder_names",
			mcp.WithString("a/b", mcp.Description("slash")), mcp.WithString("t~x", mcp.Description("tilde")), mcp.WithString("名前", mcp.Description("unicode")),
			mcp.WithString("$ref", mcp.Description("a property that is called $ref")), mcp.WithString("", mcp.Description("empty name")),
			mcp.WithString("<html>&", mcp.Description("<b>html</b> & \"quotes\""))),
	}
}

func normJSON(b []byte) (interface{}, error) {
	var v interface{}
	err := json.Unmarshal(b, &v)
	return v, err
}

// childBind runs the binding and tools/list workloads against a real in-process server and writes
// one NDJSON record per judged case.
func childBind() {
	kit.Silence()
	emit := func(l bindLine) {
		b, _ := json.Marshal(l)
		os.Stdout.Write(append(b, '\n'))
	}
	skip := map[string]bool{}
	for _, s := range strings.Split(os.Getenv("VH_SKIP_TYPES"), ",") {
		if s != "" {
			skip[s] = true
		}
	}
	in := kit.Start(kit.SJSON, kit.Opts{})
	rec := &recorder{last: map[string]interface{}{}, n: map[string]int{}}
	var entries []bindEntry
	for _, e := range bindEntries() {
		if !skip[e.Name] {
			entries = append(entries, e)
		}
	}
	type regd struct {
		tool        *mcp.Tool
		kind, style string
		typ         string
	}
	var listed []regd
	noop := func(ctx context.Context, req *mcp.CallToolRequest) (*mcp.CallToolResult, error) {
		return mcp.NewTextResult("ok"), nil
	}
	for _, e := range entries {
		e.Register(in, rec)
		for _, st := range allStyles {
			t := e.ListTool(st)
			in.RegisterTool(t, noop)
			listed = append(listed, regd{t, "struct", st, e.Name})
		}
	}
	for _, t := range builderTools() {
		in.RegisterTool(t, noop)
		listed = append(listed, regd{t, "builder", "-", strings.TrimPrefix(t.Name, "tl_builder_")})
	}
	ctx, cancel := context.WithTimeout(context.Background(), 5*time.Minute)
	defer cancel()
	c, err := in.NewClient()
	if err != nil {
		emit(bindLine{K: "fatal", Detail: "client: " + err.Error()})
		os.Exit(1)
	}
	if _, err := c.Initialize(ctx, &mcp.InitializeRequest{}); err != nil {
		emit(bindLine{K: "fatal", Detail: "initialize: " + err.Error()})
		os.Exit(1)
	}
	// binding
	for _, e := range entries {
		for _, vc := range valueCases(e) {
			l := bindLine{K: "bind", Type: e.Name, Case: vc.Class, Sent: firstN(string(vc.JSON), 1500)}
			var args map[string]interface{}
			if err := json.Unmarshal(vc.JSON, &args); err != nil {
				emit(bindLine{K: "fatal", Detail: fmt.Sprintf("value of %s is not a JSON object: %v", e.Name, err)})
				continue
			}
			want := reflect.New(e.Type)
			if err := json.Unmarshal(vc.JSON, want.Interface()); err != nil {
				emit(bindLine{K: "fatal", Detail: fmt.Sprintf("encoding/json cannot decode its own encoding of %s: %v", e.Name, err)})
				continue
			}
			rec.take(e.Name)
			req := &mcp.CallToolRequest{}
			req.Params.Name = "bind_" + e.Name
			req.Params.Arguments = args
			cctx, ccancel := context.WithTimeout(ctx, 20*time.Second)
			res, err := c.CallTool(cctx, req)
			ccancel()
			got, n := rec.take(e.Name)
			switch {
			case err != nil:
				l.Symp, l.Detail = "call-failed", err.Error()
			case res.IsError:
				l.Symp = "bind-error"
				if len(res.Content) > 0 {
					if tc, ok := res.Content[0].(mcp.TextContent); ok {
						l.Detail = tc.Text
					}
				}
			case n != 1:
				l.Symp, l.Detail = "handler-count", fmt.Sprintf("handler ran %d times", n)
			default:
				wv := want.Elem().Interface()
				l.Deep = reflect.DeepEqual(got, wv)
				gj, wj := mustJSON(got), mustJSON(wv)
				gn, _ := normJSON(gj)
				wn, _ := normJSON(wj)
				if reflect.DeepEqual(gn, wn) { // equal as JSON values (a json.Number literal may be respelled)
					l.OK = true
				} else {
					l.Symp = "value-differs"
					l.Got, l.Want = firstN(string(gj), 1500), firstN(string(wj), 1500)
				}
			}
			emit(l)
		}
	}
	// tools/list
	lr, err := c.ListTools(ctx, &mcp.ListToolsRequest{})
	if err != nil {
		emit(bindLine{K: "fatal", Detail: "tools/list: " + err.Error()})
		os.Exit(1)
	}
	byName := map[string]*mcp.Tool{}
	for i := range lr.Tools {
		byName[lr.Tools[i].Name] = &lr.Tools[i]
	}
	for _, rg := range listed {
		got := byName[rg.tool.Name]
		for _, which := range []string{"input", "output"} {
			l := bindLine{K: "list", Tool: rg.tool.Name, Kind: rg.kind, Style: rg.style, Type: rg.typ, Which: which}
			var regBytes []byte
			var rerr error
			if which == "input" {
				regBytes, rerr = json.Marshal(rg.tool.InputSchema)
			} else {
				if rg.tool.OutputSchema == nil {
					continue
				}
				regBytes, rerr = json.Marshal(rg.tool.OutputSchema)
			}
			if rerr != nil {
				l.Symp, l.Detail = "registered-schema-unmarshallable", rerr.Error()
				emit(l)
				continue
			}
			if got == nil {
				l.Symp, l.Detail = "tool-dropped", "the registered tool is missing from the client's ListTools result"
				l.Want = firstN(string(regBytes), 1200)
				emit(l)
				continue
			}
			raw := got.RawInputSchema
			if which == "output" {
				raw = got.RawOutputSchema
			}
			if raw == nil {
				l.Symp, l.Detail = "schema-missing", "the client has no raw "+which+" schema for the tool"
				l.Want = firstN(string(regBytes), 1200)
				emit(l)
				continue
			}
			a, e1 := normJSON(regBytes)
			b, e2 := normJSON(raw)
			if e1 != nil || e2 != nil {
				l.Symp, l.Detail = "schema-not-json", fmt.Sprint(e1, e2)
				emit(l)
				continue
			}
			if reflect.DeepEqual(a, b) {
				l.OK = true
				// secondary observation (not judged): the parsed schema object, re-encoded
				var parsed []byte
				if which == "input" && got.InputSchema != nil {
					parsed, _ = json.Marshal(got.InputSchema)
				} else if which == "output" && got.OutputSchema != nil {
					parsed, _ = json.Marshal(got.OutputSchema)
				}
				if p, err := normJSON(parsed); err == nil && parsed != nil {
					l.Deep = reflect.DeepEqual(a, p)
				}
			} else {
				l.Symp = "schema-differs"
				l.Want, l.Got = firstN(string(regBytes), 1200), firstN(string(raw), 1200)
			}
			emit(l)
		}
	}
	emit(bindLine{K: "summary", OK: true, Detail: fmt.Sprintf("tools registered %d, listed %d", len(listed)+len(entries), len(lr.Tools))})
	c.Close()
	in.Close()
	os.Exit(0)
}
