package main

import (
	"bufio"
	"bytes"
	"encoding/json"
	"fmt"
	"os"
	"strconv"
	"strings"
	"sync"
	"sync/atomic"
	"time"

	"verifharness/lib/vh"
)

var allStyles = []string{"default", "inline", "defs", "nested"}

// the checks, in the order they are judged
const (
	ckCrash   = "crash"
	ckNonterm = "nonterminating"
	ckMeta    = "meta-invalid"
	ckRef     = "dangling-ref"
	ckNames   = "names-differ"
	ckInst    = "instance-rejected"
)

var allChecks = []string{ckCrash, ckNonterm, ckMeta, ckRef, ckNames, ckInst}

// evalCase is one type to judge in the given styles.
type evalCase struct {
	ID     string
	Spec   TSpec
	Styles []string
}

// evalResult is the verdict for one (type, style).
type evalResult struct {
	ID        string
	Style     string
	Fails     map[string]string // check -> detail
	Schema    []byte
	Instances [][]byte
	Judged    bool // instance acceptance was judged (the type has a finite fully populated value)
	Refs      int
	NameDiffs []nameDiff
	Incon     string
}

func (e *evalResult) failed(check string) bool { _, ok := e.Fails[check]; return ok }

type evaluator struct {
	r       *vh.Run
	oracle  *oraclePool
	spawnN  atomic.Int64
	cacheMu sync.Mutex
	cache   map[string]*evalResult // canon|style

	freshMu  sync.Mutex
	fresh    map[string]*freshEntry // canon|style -> what a fresh process generates for the type alone
	freshSem chan struct{}
	histMu   sync.Mutex
	hist     []batchFinding // batch verdicts that a fresh process did not reproduce

	// noRecheck: Evaluate leaves failing batch verdicts as they are (the caller confirms the ones it
	// uses with Alone) - the delta-debugging rounds judge thousands of candidates and use one per round.
	noRecheck bool
	laneOnce  sync.Once
	lanes     chan int
	aloneMu   sync.Mutex
	alone     map[string]*evalResult
}

// takeLane hands out the number of a free child lane (returned through ev.lanes).
func (ev *evaluator) takeLane() int {
	ev.laneOnce.Do(func() {
		ev.lanes = make(chan int, 64)
		for i := 0; i < 64; i++ {
			ev.lanes <- i
		}
	})
	return <-ev.lanes
}

// Alone returns the verdict on the document a fresh process generates for the type alone.
func (ev *evaluator) Alone(spec *TSpec, style string) *evalResult {
	k := canon(spec) + "|" + style
	ev.aloneMu.Lock()
	if ev.alone == nil {
		ev.alone = map[string]*evalResult{}
	}
	if res, ok := ev.alone[k]; ok {
		ev.aloneMu.Unlock()
		return res
	}
	ev.aloneMu.Unlock()
	fg := ev.Fresh(spec, style)
	res, ask := fromGen("alone", style, fg, ev.values(spec))
	if ask {
		if f := ev.judge(res); f != "" {
			ev.r.Fatal("%s", f)
		}
	}
	ev.aloneMu.Lock()
	ev.alone[k] = res
	ev.aloneMu.Unlock()
	return res
}

type freshEntry struct {
	once sync.Once
	out  *genOut
}

// batchFinding is a failing verdict on a document generated in a batch child (many types one after
// the other in one process) that differs from what a fresh process generates for the same type alone.
type batchFinding struct {
	Spec   TSpec
	Style  string
	Batch  *evalResult // the failing verdict on the batch document
	Alone  *evalResult // the verdict on the document of the fresh process
	Before []TSpec     // the types the batch child had generated before
}

// Fresh returns what a fresh process generates for (type, style) with nothing generated before.
func (ev *evaluator) Fresh(spec *TSpec, style string) *genOut {
	k := canon(spec) + "|" + style
	ev.freshMu.Lock()
	if ev.fresh == nil {
		ev.fresh = map[string]*freshEntry{}
		ev.freshSem = make(chan struct{}, 8)
	}
	e := ev.fresh[k]
	if e == nil {
		e = &freshEntry{}
		ev.fresh[k] = e
	}
	ev.freshMu.Unlock()
	e.once.Do(func() {
		ev.freshSem <- struct{}{}
		defer func() { <-ev.freshSem }()
		ev.r.Count("fresh_process_generations", 1)
		e.out = ev.runGenChunk([]genCase{{ID: "fresh", Spec: *spec, Styles: []string{style}}}, envInt("C18_CONFIRM_TIMEOUT_S", 60))[pairKey("fresh", style)]
		if e.out == nil {
			e.out = &genOut{Incon: "no outcome from the fresh generator process"}
		} else if e.out.Watchdog {
			e.out = &genOut{Incon: "generation watchdog fired in the fresh generator process"}
		}
	})
	return e.out
}

// sameOutcome reports whether two generator outcomes are the same observation (documents are compared
// as JSON values, $defs names up to renaming).
func sameOutcome(a, b *genOut) bool {
	switch {
	case a.Schema != nil && b.Schema != nil:
		na, _ := normDoc(a.Schema)
		nb, _ := normDoc(b.Schema)
		return na == nb
	case a.Schema != nil || b.Schema != nil:
		return false
	}
	return (a.Panic != "") == (b.Panic != "") && (a.Crash != "") == (b.Crash != "") && (a.MarshalErr != "") == (b.MarshalErr != "")
}

// valueSet holds the generated values of one type.
type valueSet struct{ v0, v1, deep populated }

func (ev *evaluator) values(spec *TSpec) *valueSet {
	rt, berr := buildType(spec)
	if berr != "" {
		ev.r.Fatal("cannot build type %s: %s", goString(spec), berr)
	}
	vs := &valueSet{populate(rt, 0, 2), populate(rt, 1, 2), populate(rt, 0, 3)}
	if vs.v0.Err != "" || vs.v1.Err != "" || vs.deep.Err != "" {
		ev.r.Fatal("encoding/json cannot encode the populated value of %s: %s %s", goString(spec), vs.v0.Err, vs.v1.Err)
	}
	return vs
}

// fromGen turns a generator outcome into a result; ask reports that a document was obtained and the
// oracle has to be asked.
func fromGen(id, style string, g *genOut, vs *valueSet) (res *evalResult, ask bool) {
	res = &evalResult{ID: id, Style: style, Fails: map[string]string{}, Instances: [][]byte{vs.v0.JSON, vs.v1.JSON}, Judged: !vs.v0.NullCut && !vs.v1.NullCut}
	switch {
	case g.Incon != "":
		res.Incon = g.Incon
	case g.Panic != "":
		res.Fails[ckCrash] = "panic: " + g.Panic + " | " + firstN(libFrames(g.Stack), 400)
	case g.Crash != "":
		res.Fails[ckCrash] = g.Crash
	case g.Watchdog:
		res.Fails[ckNonterm] = g.Dump
	case g.MarshalErr != "":
		res.Fails[ckMeta] = "the generated schema cannot be marshalled to JSON: " + g.MarshalErr
	default:
		res.Schema = g.Schema
		res.Instances = append(res.Instances, vs.deep.JSON) // index 2: names only, never judged
		return res, true
	}
	return res, false
}

// judge asks the oracle about the document of res and compares the names; the returned text is a
// harness failure.
func (ev *evaluator) judge(res *evalResult) string {
	r := ev.r
	var insts []json.RawMessage
	if res.Judged {
		insts = []json.RawMessage{res.Instances[0], res.Instances[1]}
	}
	a, err := ev.oracle.Ask(res.Schema, insts)
	if err != nil {
		return fmt.Sprintf("oracle failed on %s/%s: %v", res.ID, res.Style, err)
	}
	r.Count("schemas_checked", 1)
	r.Count("refs_seen", int64(a.RefsTotal))
	res.Refs = a.RefsTotal
	if !a.MetaOK {
		res.Fails[ckMeta] = a.MetaErr
	}
	if len(a.DanglingRefs) > 0 {
		res.Fails[ckRef] = "unresolvable inside the document: " + strings.Join(a.DanglingRefs, " , ")
	}
	if res.Judged {
		r.Count("instances_validated", int64(len(insts)))
		for i, ir := range a.InstanceResults {
			if ir.OK {
				continue
			}
			if ir.RefError && len(a.DanglingRefs) > 0 {
				continue // already reported as a dangling reference
			}
			if strings.HasPrefix(ir.Err, "validator error") {
				continue // the document is not a usable schema (reported as meta-invalid)
			}
			res.Fails[ckInst] = fmt.Sprintf("value %d: %s", i, ir.Err)
			break
		}
	} else {
		r.Count("instance_checks_skipped_no_finite_value", 1)
	}
	// names
	var doc, i1, i2 interface{}
	if json.Unmarshal(res.Schema, &doc) != nil || json.Unmarshal(res.Instances[0], &i1) != nil || json.Unmarshal(res.Instances[2], &i2) != nil {
		return ""
	}
	var diffs []nameDiff
	budget := 4000
	compareNames(doc, doc, i1, i2, "", true, &diffs, &budget)
	if len(diffs) > 0 {
		res.NameDiffs = diffs
		b, _ := json.Marshal(diffs)
		res.Fails[ckNames] = firstN(string(b), 600)
	}
	r.Count("name_sets_compared", 1)
	return ""
}

type genOut struct {
	Schema     json.RawMessage
	MarshalErr string
	Panic      string
	Stack      string
	Crash      string
	Watchdog   bool
	Dump       string
	Incon      string
}

func pairKey(id, style string) string { return id + "|" + style }

// runGenChunk runs one chunk of cases through generator children, restarting after a child died.
func (ev *evaluator) runGenChunk(cases []genCase, caseTimeoutS int) map[string]*genOut {
	r := ev.r
	out := map[string]*genOut{}
	remaining := map[string]bool{}
	total := 0
	for _, c := range cases {
		for _, s := range c.Styles {
			remaining[pairKey(c.ID, s)] = true
			total++
		}
	}
	for iter := 0; len(remaining) > 0; iter++ {
		if iter > total+2 {
			r.Fatal("generator child loop does not make progress")
		}
		var in bytes.Buffer
		for _, c := range cases {
			var styles []string
			for _, s := range c.Styles {
				if remaining[pairKey(c.ID, s)] {
					styles = append(styles, s)
				}
			}
			if len(styles) == 0 {
				continue
			}
			b, _ := json.Marshal(genCase{ID: c.ID, Spec: c.Spec, Styles: styles})
			in.Write(b)
			in.WriteByte('\n')
		}
		n := ev.spawnN.Add(1)
		r.Count("children_spawned", 1)
		env := []string{}
		if caseTimeoutS > 0 {
			env = append(env, fmt.Sprintf("VH_CASE_TIMEOUT=%d", caseTimeoutS))
		}
		_ = n
		lane := ev.takeLane() // the output files are named after the lane: never two running children on one lane
		res := r.SpawnChild("gen", fmt.Sprintf("gen-%d", lane), nil, env, in.Bytes(), 10*time.Minute)
		var open *genLine
		progressed := false
		sc := bufio.NewScanner(bytes.NewReader(res.Stdout()))
		sc.Buffer(make([]byte, 1<<20), 512<<20)
		for sc.Scan() {
			var l genLine
			if json.Unmarshal(sc.Bytes(), &l) != nil {
				continue
			}
			k := pairKey(l.ID, l.Style)
			switch l.Ev {
			case "begin":
				ll := l
				open = &ll
			case "done":
				out[k] = &genOut{Schema: l.Schema, MarshalErr: l.MarshalErr}
				delete(remaining, k)
				open = nil
				progressed = true
			case "panic":
				out[k] = &genOut{Panic: l.Panic, Stack: l.Stack}
				delete(remaining, k)
				open = nil
				progressed = true
			case "watchdog":
				out[k] = &genOut{Watchdog: true, Dump: libFrames(res.Stderr())}
				delete(remaining, k)
				open = nil
				progressed = true
			case "oom":
				out[k] = &genOut{Crash: "generator exceeded the 3 GiB heap guard"}
				delete(remaining, k)
				open = nil
				progressed = true
			case "builderr":
				r.Fatal("generator child could not build type %s: %s", l.ID, l.Panic)
			}
		}
		if open != nil {
			k := pairKey(open.ID, open.Style)
			se := res.Stderr()
			g := &genOut{}
			switch {
			case res.TimedOut:
				g.Incon = "child watchdog: " + res.Describe()
			default:
				g.Crash = vh.CrashLine(se)
				if g.Crash == "" {
					g.Crash = "generator process died: " + res.Describe()
				}
				if fr := vh.FirstLibFrame(se); fr != "" {
					g.Crash += " at " + fr
				}
			}
			out[k] = g
			delete(remaining, k)
			progressed = true
		}
		stderrText := ""
		if !progressed {
			stderrText = firstN(res.Stderr(), 600)
		}
		ev.lanes <- lane
		if !progressed {
			r.Fatal("generator child produced nothing: %s; stderr: %s", res.Describe(), stderrText)
		}
	}
	return out
}

func envInt(name string, def int) int {
	if v, err := strconv.Atoi(os.Getenv(name)); err == nil && v > 0 {
		return v
	}
	return def
}

// libFrames extracts the library frames of a goroutine dump (bounded).
func libFrames(dump string) string {
	var fr []string
	for _, l := range strings.Split(dump, "\n") {
		if strings.HasPrefix(l, "trpc.group/trpc-go/trpc-mcp-go") {
			fr = append(fr, strings.TrimPrefix(l, "trpc.group/trpc-go/trpc-mcp-go"))
			if len(fr) >= 8 {
				break
			}
		}
	}
	return strings.Join(fr, " <- ")
}

// Evaluate judges every (case, style): generation in child processes, meta-schema / $ref / instance
// judgements by the Python oracle, names by encoding/json.
func (ev *evaluator) Evaluate(cases []evalCase, chunk int) map[string]*evalResult {
	r := ev.r
	results := map[string]*evalResult{}
	// answer repeated questions from the cache
	var todo []evalCase
	ev.cacheMu.Lock()
	canons := map[string]string{}
	for _, c := range cases {
		cn := canon(&c.Spec)
		canons[c.ID] = cn
		var need []string
		for _, s := range c.Styles {
			if hit, ok := ev.cache[cn+"|"+s]; ok {
				cp := *hit
				cp.ID = c.ID
				results[pairKey(c.ID, s)] = &cp
			} else {
				need = append(need, s)
			}
		}
		if len(need) > 0 {
			todo = append(todo, evalCase{ID: c.ID, Spec: c.Spec, Styles: need})
		}
	}
	ev.cacheMu.Unlock()

	tStart := time.Now()
	// 1. generation
	gens := map[string]*genOut{}
	var gmu sync.Mutex
	var wg sync.WaitGroup
	sem := make(chan struct{}, 8)
	for i := 0; i < len(todo); i += chunk {
		j := i + chunk
		if j > len(todo) {
			j = len(todo)
		}
		var gc []genCase
		for _, c := range todo[i:j] {
			gc = append(gc, genCase{ID: c.ID, Spec: c.Spec, Styles: c.Styles})
		}
		wg.Add(1)
		sem <- struct{}{}
		go func(gc []genCase) {
			defer wg.Done()
			defer func() { <-sem }()
			o := ev.runGenChunk(gc, envInt("C18_BATCH_TIMEOUT_S", 20))
			gmu.Lock()
			for k, v := range o {
				gens[k] = v
			}
			gmu.Unlock()
		}(gc)
	}
	wg.Wait()
	tGen := time.Now()
	// a watchdog alone is not a verdict: run the case again on its own with a longer limit
	confirmS := envInt("C18_CONFIRM_TIMEOUT_S", 60)
	var cwg sync.WaitGroup
	type wd struct {
		c    evalCase
		s, k string
	}
	var wds []wd
	for _, c := range todo {
		for _, s := range c.Styles {
			k := pairKey(c.ID, s)
			if g := gens[k]; g != nil && g.Watchdog {
				wds = append(wds, wd{c, s, k})
			}
		}
	}
	for _, w := range wds {
		{
			c, s, k := w.c, w.s, w.k
			cwg.Add(1)
			sem <- struct{}{}
			go func(c evalCase, s, k string) {
				defer cwg.Done()
				defer func() { <-sem }()
				again := ev.runGenChunk([]genCase{{ID: c.ID, Spec: c.Spec, Styles: []string{s}}}, confirmS)[k]
				gmu.Lock()
				defer gmu.Unlock()
				switch {
				case again != nil && again.Watchdog && strings.Contains(again.Dump, "internal/schema"):
					again.Dump = fmt.Sprintf("did not return within %d s in a batch nor within %d s alone; goroutine dump: %s", envInt("C18_BATCH_TIMEOUT_S", 20), confirmS, again.Dump)
					gens[k] = again
				case again != nil && !again.Watchdog:
					gens[k] = again
					r.Count("watchdog_not_reproduced", 1)
				default:
					gens[k] = &genOut{Incon: "generation watchdog fired without library frames in the dump"}
				}
			}(c, s, k)
		}
	}
	cwg.Wait()

	// 2. values and oracle questions
	type job struct {
		c     evalCase
		style string
		res   *evalResult
	}
	var jobs []job
	valsOf := map[string]*valueSet{}
	for _, c := range todo {
		c := c
		vs := ev.values(&c.Spec)
		valsOf[c.ID] = vs
		for _, s := range c.Styles {
			k := pairKey(c.ID, s)
			g := gens[k]
			if g == nil {
				r.Fatal("no generator outcome for %s", k)
			}
			res, ask := fromGen(c.ID, s, g, vs)
			results[k] = res
			if ask {
				jobs = append(jobs, job{c: c, style: s, res: res})
			}
		}
	}
	tPop := time.Now()
	var jwg sync.WaitGroup
	jsem := make(chan struct{}, 2*len(ev.oracle.procs))
	var fatalMu sync.Mutex
	var fatal string
	for _, jb := range jobs {
		jwg.Add(1)
		jsem <- struct{}{}
		go func(jb job) {
			defer jwg.Done()
			defer func() { <-jsem }()
			if f := ev.judge(jb.res); f != "" {
				fatalMu.Lock()
				fatal = f
				fatalMu.Unlock()
			}
		}(jb)
	}
	jwg.Wait()
	if fatal != "" {
		r.Fatal("%s", fatal)
	}

	// 3. a verdict has to be a verdict about the TYPE. The batch children generate many types one after
	// the other in one process; a failing document is therefore generated once more by a fresh process
	// for that type alone. When the two differ, the stage verdict is the one on the fresh document, and
	// the batch document is kept as a finding of its own (generation depends on what was generated before).
	posOf := map[string]int{}
	for i, c := range todo {
		posOf[c.ID] = i
	}
	var rwg sync.WaitGroup
	for _, c := range todo {
		for _, s := range c.Styles {
			k := pairKey(c.ID, s)
			res := results[k]
			if ev.noRecheck || res == nil || res.Incon != "" || len(res.Fails) == 0 || res.failed(ckNonterm) {
				continue // (a watchdog verdict has been confirmed alone above)
			}
			rwg.Add(1)
			go func(c evalCase, s, k string, res *evalResult) {
				defer rwg.Done()
				fg := ev.Fresh(&c.Spec, s)
				r.Count("failing_verdicts_regenerated_alone", 1)
				if fg.Incon != "" || sameOutcome(fg, gens[k]) {
					return
				}
				alone, ask := fromGen(c.ID, s, fg, valsOf[c.ID])
				if ask {
					if f := ev.judge(alone); f != "" {
						fatalMu.Lock()
						fatal = f
						fatalMu.Unlock()
						return
					}
				}
				pos := posOf[c.ID]
				lo := pos - pos%chunk
				var before []TSpec
				for _, p := range todo[lo:pos] {
					before = append(before, p.Spec)
				}
				before = append(before, c.Spec) // its own other styles
				ev.histMu.Lock()
				ev.hist = append(ev.hist, batchFinding{Spec: c.Spec, Style: s, Batch: res, Alone: alone, Before: before})
				ev.histMu.Unlock()
				gmu.Lock()
				results[k] = alone
				gmu.Unlock()
			}(c, s, k, res)
		}
	}
	rwg.Wait()
	if len(todo) > 50 {
		fmt.Fprintf(os.Stderr, "[c18] evaluate %d cases: gen %.1fs populate %.1fs oracle+names %.1fs\n", len(todo), tGen.Sub(tStart).Seconds(), tPop.Sub(tGen).Seconds(), time.Since(tPop).Seconds())
	}
	if fatal != "" {
		r.Fatal("%s", fatal)
	}
	ev.cacheMu.Lock()
	for _, c := range todo {
		for _, s := range c.Styles {
			if res := results[pairKey(c.ID, s)]; res != nil && res.Incon == "" {
				ev.cache[canons[c.ID]+"|"+s] = res
			}
		}
	}
	ev.cacheMu.Unlock()
	return results
}
