package main

// Workloads "lifecycle:<kind>": the library's OWN lifecycle entry points, called from different goroutines.
//
// The older workloads mount every server as an http.Handler under httptest; Start / Shutdown of the library are
// never executed there. Here, per round, a fresh server object is driven like an application does it:
//
//	goroutine A   calls the blocking Start (SSEServer.Start(addr), Server.Start()),
//	goroutine B   after a PRNG-chosen tiny delay and WITHOUT any harness synchronisation that would order it after
//	              A's writes (the port is polled with a dial loop; the channel carrying Start's result is only
//	              looked at without blocking) runs a few raw HTTP requests against the address and then calls the
//	              stop entry point (SSEServer.Shutdown; Streamable has none of its own: the caller-owned
//	              http.Server given with WithCustomServer is shut down, as applications do),
//	goroutine C   registers / unregisters tools, prompts and sends notifications the whole time.
//
// Schedules: serve-shutdown, shutdown-at-once (Shutdown racing Start before the listener is up, then a second
// Shutdown), shutdown-x2 (two concurrent Shutdowns), restart (Start again after Shutdown on the same object),
// two-starts (two Starts of one object overlapping). Variants: SSEServer with / without WithHTTPServer, Server with
// WithServerAddress only / with WithCustomServer. "lifecycle:stdio" runs StdioServer.StartWithContext on the real
// stdin / stdout of a child process while other goroutines of that process cancel the context and register tools,
// and a library client on the other side overlaps Close / RestartProcess with its own calls. "lifecycle:clients"
// overlaps Initialize / TerminateSession / Close (+ RestartProcess for stdio) of one client from several goroutines.
//
// Oracle: the race detector only (the property is about data races). Behavioural observations (Shutdown returned
// nil but the listener still accepts, Start did not return after Shutdown, ...) are COUNTED notes, never
// violations. A bind failure or a watchdog expiry makes that round inconclusive. Ports: the entry points take an
// address and give no way to learn a kernel-chosen port, so a free port is found by listening on 127.0.0.1:0 and
// closing again. Listeners the library gives no means to stop (http.ListenAndServe inside Start) end with the
// child process.

import (
	"bufio"
	"context"
	"fmt"
	"hash/fnv"
	"io"
	"math/rand"
	"net"
	"net/http"
	"os"
	"runtime"
	"strconv"
	"strings"
	"sync"
	"sync/atomic"
	"time"

	mcp "trpc.group/trpc-go/trpc-mcp-go"

	"verifharness/lib/kit"
	"verifharness/lib/vh"
)

type lifeCounts struct {
	mu sync.Mutex
	m  map[string]int64
}

func (c *lifeCounts) add(k string, n int64) {
	c.mu.Lock()
	c.m[k] += n
	c.mu.Unlock()
}

func freeAddr() (string, bool) {
	ln, err := net.Listen("tcp", "127.0.0.1:0")
	if err != nil {
		return "", false
	}
	a := ln.Addr().String()
	ln.Close()
	return a, true
}

// accepting: does anything accept on addr right now?
func accepting(addr string) bool {
	c, err := net.DialTimeout("tcp", addr, 200*time.Millisecond)
	if err != nil {
		return false
	}
	c.Close()
	return true
}

// lifeServer is one server object with its lifecycle entry points.
type lifeServer struct {
	kind, variant string
	start         func(addr string) error
	shutdown      func(ctx context.Context) error // nil: the library offers no stop entry point for this variant
	mutate        func(i int, sid string)         // goroutine C
	requests      func(ctx context.Context, addr string, keepStream bool) (sid string, ok int, closeStream func())
	teardown      func()
	addrFixed     bool // the address is part of the construction (Streamable)
}

func newLifeSSE(variant string) *lifeServer {
	opts := []mcp.SSEOption{mcp.WithSSEServerLogger(kit.Quiet{}), mcp.WithKeepAliveInterval(3 * time.Millisecond)}
	var hs *http.Server
	if variant == "WithHTTPServer" {
		hs = &http.Server{}
		opts = append(opts, mcp.WithHTTPServer(hs))
	}
	s := mcp.NewSSEServer("life", "1.0", opts...)
	s.RegisterTool(mcp.NewTool("t0"), func(ctx context.Context, req *mcp.CallToolRequest) (*mcp.CallToolResult, error) {
		return mcp.NewTextResult("t0"), nil
	})
	ls := &lifeServer{kind: "sse", variant: variant}
	ls.start = s.Start
	ls.shutdown = s.Shutdown
	ls.mutate = func(i int, sid string) {
		n := fmt.Sprintf("life-%d", i%4)
		s.RegisterTool(mcp.NewTool(n), func(ctx context.Context, req *mcp.CallToolRequest) (*mcp.CallToolResult, error) {
			return mcp.NewTextResult(n), nil
		})
		s.RegisterPrompt(&mcp.Prompt{Name: n}, func(ctx context.Context, req *mcp.GetPromptRequest) (*mcp.GetPromptResult, error) {
			return &mcp.GetPromptResult{}, nil
		})
		s.GetTools()
		if sid != "" {
			guard(func() { s.SendNotification(sid, "notifications/verif", map[string]interface{}{"a": i}) })
		}
		s.UnregisterTools(n)
	}
	ls.requests = sseRequests
	ls.teardown = func() {
		if hs != nil {
			hs.Close()
		}
	}
	return ls
}

func newLifeStreamable(variant, addr string) *lifeServer {
	so := []mcp.ServerOption{mcp.WithServerLogger(kit.Quiet{}), mcp.WithServerPath("/mcp"), mcp.WithServerAddress(addr)}
	var hs *http.Server
	if variant == "WithCustomServer" {
		hs = &http.Server{Addr: addr}
		so = append(so, mcp.WithCustomServer(hs))
	}
	s := mcp.NewServer("life", "1.0", so...)
	s.RegisterTool(mcp.NewTool("t0"), func(ctx context.Context, req *mcp.CallToolRequest) (*mcp.CallToolResult, error) {
		return mcp.NewTextResult("t0"), nil
	})
	ls := &lifeServer{kind: "streamable", variant: variant, addrFixed: true}
	ls.start = func(string) error { return s.Start() }
	if hs != nil {
		ls.shutdown = hs.Shutdown
	}
	ls.mutate = func(i int, sid string) {
		n := fmt.Sprintf("life-%d", i%4)
		s.RegisterTool(mcp.NewTool(n), func(ctx context.Context, req *mcp.CallToolRequest) (*mcp.CallToolResult, error) {
			return mcp.NewTextResult(n), nil
		})
		s.RegisterPrompt(&mcp.Prompt{Name: n}, func(ctx context.Context, req *mcp.GetPromptRequest) (*mcp.GetPromptResult, error) {
			return &mcp.GetPromptResult{}, nil
		})
		s.GetTools()
		guard(func() { s.BroadcastNotification("notifications/b", map[string]interface{}{"b": i}) })
		guard(func() { s.GetActiveSessions() })
		if sid != "" {
			guard(func() { s.SendNotification(sid, "notifications/verif", map[string]interface{}{"a": i}) })
		}
		s.UnregisterTools(n)
	}
	ls.requests = streamableRequests
	ls.teardown = func() {
		if hs != nil {
			hs.Close()
		}
	}
	return ls
}

func lifeHTTPClient() (*http.Client, func()) {
	tr := &http.Transport{DisableKeepAlives: false, MaxIdleConnsPerHost: 4}
	return &http.Client{Transport: tr}, tr.CloseIdleConnections
}

const lifeInit = `{"jsonrpc":"2.0","id":1,"method":"initialize","params":{"protocolVersion":"2025-03-26","capabilities":{},"clientInfo":{"name":"life","version":"1"}}}`

// sseRequests: GET /sse, read the endpoint event, POST initialize, initialized, tools/list, tools/call.
func sseRequests(ctx context.Context, addr string, keepStream bool) (string, int, func()) {
	hc, closeIdle := lifeHTTPClient()
	sctx, cancel := context.WithCancel(ctx)
	closeStream := func() { cancel(); closeIdle() }
	req, _ := http.NewRequestWithContext(sctx, "GET", "http://"+addr+"/sse", nil)
	req.Header.Set("Accept", "text/event-stream")
	resp, err := hc.Do(req)
	if err != nil {
		closeStream()
		return "", 0, func() {}
	}
	epCh := make(chan string, 1)
	go func() {
		defer resp.Body.Close()
		rd := bufio.NewReader(resp.Body)
		sent := false
		ev := ""
		for {
			line, err := rd.ReadString('\n')
			if err != nil {
				if !sent {
					close(epCh)
				}
				return
			}
			line = strings.TrimRight(line, "\r\n")
			if strings.HasPrefix(line, "event:") {
				ev = strings.TrimSpace(line[6:])
			} else if strings.HasPrefix(line, "data:") && ev == "endpoint" && !sent {
				epCh <- strings.TrimSpace(line[5:])
				sent = true
			}
		}
	}()
	var ep string
	select {
	case ep = <-epCh:
	case <-time.After(3 * time.Second):
	}
	if ep == "" {
		closeStream()
		return "", 0, func() {}
	}
	if !strings.HasPrefix(ep, "http") {
		ep = "http://" + addr + ep
	}
	sid := ""
	if i := strings.Index(ep, "sessionId="); i >= 0 {
		sid = ep[i+len("sessionId="):]
		if j := strings.IndexByte(sid, '&'); j >= 0 {
			sid = sid[:j]
		}
	}
	ok := 0
	for _, body := range []string{lifeInit, `{"jsonrpc":"2.0","method":"notifications/initialized"}`, `{"jsonrpc":"2.0","id":2,"method":"tools/list"}`,
		`{"jsonrpc":"2.0","id":3,"method":"tools/call","params":{"name":"t0","arguments":{}}}`} {
		pctx, pc := context.WithTimeout(ctx, 3*time.Second)
		rq, _ := http.NewRequestWithContext(pctx, "POST", ep, strings.NewReader(body))
		rq.Header.Set("Content-Type", "application/json")
		if r, err := hc.Do(rq); err == nil {
			io.Copy(io.Discard, r.Body)
			r.Body.Close()
			if r.StatusCode/100 == 2 {
				ok++
			}
		}
		pc()
	}
	if !keepStream {
		closeStream()
		return sid, ok, func() {}
	}
	return sid, ok, closeStream
}

// streamableRequests: POST initialize, initialized, tools/list, tools/call; optionally a GET listening stream.
func streamableRequests(ctx context.Context, addr string, keepStream bool) (string, int, func()) {
	hc, closeIdle := lifeHTTPClient()
	url := "http://" + addr + "/mcp"
	sid := ""
	ok := 0
	post := func(body string) {
		pctx, pc := context.WithTimeout(ctx, 3*time.Second)
		defer pc()
		rq, _ := http.NewRequestWithContext(pctx, "POST", url, strings.NewReader(body))
		rq.Header.Set("Content-Type", "application/json")
		rq.Header.Set("Accept", "application/json, text/event-stream")
		if sid != "" {
			rq.Header.Set("Mcp-Session-Id", sid)
		}
		r, err := hc.Do(rq)
		if err != nil {
			return
		}
		io.Copy(io.Discard, r.Body)
		r.Body.Close()
		if r.StatusCode/100 == 2 {
			ok++
			if v := r.Header.Get("Mcp-Session-Id"); v != "" {
				sid = v
			}
		}
	}
	post(lifeInit)
	post(`{"jsonrpc":"2.0","method":"notifications/initialized"}`)
	closeStream := func() { closeIdle() }
	if keepStream && sid != "" {
		sctx, cancel := context.WithCancel(ctx)
		rq, _ := http.NewRequestWithContext(sctx, "GET", url, nil)
		rq.Header.Set("Accept", "text/event-stream")
		rq.Header.Set("Mcp-Session-Id", sid)
		if r, err := hc.Do(rq); err == nil {
			go func() { io.Copy(io.Discard, r.Body); r.Body.Close() }()
		}
		closeStream = func() { cancel(); closeIdle() }
	}
	post(`{"jsonrpc":"2.0","id":2,"method":"tools/list"}`)
	post(`{"jsonrpc":"2.0","id":3,"method":"tools/call","params":{"name":"t0","arguments":{}}}`)
	return sid, ok, closeStream
}

// pickDelay: 0 .. ~400 us, often nothing at all (drawn now, executed by whoever calls the result).
func pickDelay(rng *rand.Rand) func() {
	switch rng.Intn(4) {
	case 0:
		return func() {}
	case 1:
		return runtime.Gosched
	default:
		d := time.Duration(rng.Intn(400)) * time.Microsecond
		return func() { time.Sleep(d) }
	}
}

func tinyDelay(rng *rand.Rand) { pickDelay(rng)() }

// awaitUp polls the port; it looks at Start's result channel only without blocking (a failed non-blocking receive
// does not synchronise with anything).
func awaitUp(addr string, started chan error) (up bool, startErr error, returned bool) {
	for i := 0; i < 300; i++ {
		if accepting(addr) {
			return true, nil, false
		}
		select {
		case err := <-started:
			return false, err, true
		default:
		}
		time.Sleep(5 * time.Millisecond)
	}
	return false, nil, false
}

func waitReturn(ch chan error, d time.Duration) (error, bool) {
	select {
	case err := <-ch:
		return err, true
	case <-time.After(d):
		return nil, false
	}
}

var lifeSchedules = []string{"serve-shutdown", "shutdown-at-once", "shutdown-x2", "restart", "two-starts"}

// lifeRound runs one (server, schedule) round. It returns "ok", or the reason the round is inconclusive.
func lifeRound(ls *lifeServer, addr, schedule string, rng *rand.Rand, cnt *lifeCounts) string {
	ctx, cancelAll := context.WithTimeout(context.Background(), 25*time.Second)
	defer cancelAll()
	defer ls.teardown()
	var sidV atomic.Value
	sidV.Store("")
	stopC := make(chan struct{})
	var cwg sync.WaitGroup
	cwg.Add(1)
	go func() { // goroutine C
		defer cwg.Done()
		for i := 0; !stopped(stopC); i++ {
			ls.mutate(i, sidV.Load().(string))
			cnt.add("life_mutator_cycles", 1)
			time.Sleep(150 * time.Microsecond)
		}
	}()
	defer func() { close(stopC); cwg.Wait() }()

	shutdown := func(tag string) {
		if ls.shutdown == nil {
			return
		}
		sctx, sc := context.WithTimeout(ctx, 3*time.Second)
		err := ls.shutdown(sctx)
		sc()
		cnt.add("life_shutdown_calls", 1)
		if err != nil {
			cnt.add("life_note_shutdown_returned_error", 1)
		} else {
			cnt.add("life_shutdown_returned_nil", 1)
		}
		_ = tag
	}
	// after the stop entry point returned nil: did Start return, does the port still accept? (notes only)
	aftermath := func(addr string, started chan error) {
		if ls.shutdown == nil {
			return
		}
		if _, ret := waitReturn(started, 300*time.Millisecond); ret {
			cnt.add("life_note_start_returned_after_shutdown", 1)
		} else {
			cnt.add("life_note_start_still_blocked_after_shutdown", 1)
		}
		if accepting(addr) {
			cnt.add("life_note_listener_still_accepting_after_shutdown_returned", 1)
		} else {
			cnt.add("life_note_listener_gone_after_shutdown", 1)
		}
	}
	serve := func(addr string) (func(), bool) {
		keep := rng.Intn(2) == 0
		sid, ok, closeStream := ls.requests(ctx, addr, keep)
		sidV.Store(sid)
		cnt.add("life_requests_answered_2xx", int64(ok))
		// let C push to the session a little while the stream is open
		time.Sleep(time.Duration(200+rng.Intn(800)) * time.Microsecond)
		return closeStream, ok > 0
	}

	started := make(chan error, 2)
	switch schedule {
	case "serve-shutdown", "shutdown-x2", "restart":
		go func() { started <- ls.start(addr) }() // goroutine A
		tinyDelay(rng)
		up, err, returned := awaitUp(addr, started)
		if !up {
			if returned {
				return fmt.Sprintf("Start returned before the port accepted (%v)", err)
			}
			return "port never accepted"
		}
		closeStream, served := serve(addr)
		if !served {
			closeStream()
			return "no request was answered"
		}
		if schedule == "shutdown-x2" {
			var wg sync.WaitGroup
			for k := 0; k < 2; k++ {
				wg.Add(1)
				go func(k int) { defer wg.Done(); shutdown(fmt.Sprintf("b%d", k)) }(k)
			}
			wg.Wait()
		} else {
			shutdown("b")
		}
		closeStream()
		aftermath(addr, started)
		if schedule == "restart" {
			addr2 := addr
			if !ls.addrFixed {
				var ok bool
				if addr2, ok = freeAddr(); !ok {
					return "no free port for the restart"
				}
			}
			started2 := make(chan error, 1)
			go func() { started2 <- ls.start(addr2) }() // Start after Shutdown, same object
			tinyDelay(rng)
			up, _, returned := awaitUp(addr2, started2)
			if returned {
				cnt.add("life_note_second_start_returned_at_once", 1)
			} else if up && !(ls.addrFixed && ls.shutdown == nil) {
				cs, _ := serve(addr2)
				shutdown("b2")
				cs()
				aftermath(addr2, started2)
			}
		}
	case "shutdown-at-once":
		go func() { started <- ls.start(addr) }()
		tinyDelay(rng)
		shutdown("early") // before (or while) the listener comes up
		up, _, returned := awaitUp(addr, started)
		switch {
		case returned:
			cnt.add("life_note_start_returned_after_early_shutdown", 1)
		case up:
			cnt.add("life_note_listener_came_up_after_early_shutdown_returned", 1)
			cs, _ := serve(addr)
			shutdown("late")
			cs()
			aftermath(addr, started)
		default:
			return "port never accepted"
		}
	case "two-starts":
		addr2 := addr
		if !ls.addrFixed {
			var ok bool
			if addr2, ok = freeAddr(); !ok {
				return "no free port for the second Start"
			}
		}
		started2 := make(chan error, 1)
		go func() { started <- ls.start(addr) }()
		d2 := pickDelay(rng)
		go func() { d2(); started2 <- ls.start(addr2) }()
		tinyDelay(rng)
		up, err, returned := awaitUp(addr, started)
		if !up && !(ls.addrFixed && returned) {
			return fmt.Sprintf("port never accepted (%v)", err)
		}
		if ls.addrFixed {
			// same address: one of the two Starts must fail to bind, the other serves
			if !accepting(addr) {
				return "neither Start serves"
			}
			cnt.add("life_note_two_starts_same_address", 1)
		} else if up2, _, _ := awaitUp(addr2, started2); up2 {
			cs2, _ := serve(addr2)
			defer cs2()
		}
		closeStream, served := serve(addr)
		if !served {
			closeStream()
			return "no request was answered"
		}
		shutdown("b")
		closeStream()
		aftermath(addr, started)
	}
	return "ok"
}

func lifecycleWorkload(kind string, iters int, seed int64) {
	rep := vh.NewReporter()
	h := fnv.New32a()
	h.Write([]byte(kind))
	rng := rand.New(rand.NewSource(seed*104729 + int64(h.Sum32())))
	cnt := &lifeCounts{m: map[string]int64{}}
	procs := os.Getenv("GOMAXPROCS")
	switch kind {
	case "sse", "streamable":
		variants := []string{"plain", "WithHTTPServer"}
		if kind == "streamable" {
			variants = []string{"WithServerAddress", "WithCustomServer"}
		}
		for it := 0; it < iters; it++ {
			for _, v := range variants {
				for _, sch := range lifeSchedules {
					if kind == "streamable" && v == "WithCustomServer" && sch == "two-starts" {
						continue // see the assumptions: two overlapping Start calls both assign the caller's http.Server.Handler
					}
					if kind == "streamable" && v == "WithServerAddress" && sch != "serve-shutdown" && sch != "two-starts" {
						continue // no stop entry point exists for this variant
					}
					addr, ok := freeAddr()
					if !ok {
						cnt.add("life_rounds_inconclusive", 1)
						continue
					}
					var ls *lifeServer
					if kind == "sse" {
						ls = newLifeSSE(v)
					} else {
						ls = newLifeStreamable(v, addr)
					}
					res := make(chan string, 1)
					go func() { res <- lifeRound(ls, addr, sch, rng, cnt) }()
					var out string
					select {
					case out = <-res:
					case <-time.After(40 * time.Second):
						out = "watchdog"
					}
					cnt.add("life_rounds", 1)
					rep.Eval(1) // every lifecycle round is an execution of its own
					if out == "ok" {
						cnt.add("life_rounds_completed_"+kind+"_"+v+"_"+sch, 1)
						rep.Distinct(fmt.Sprintf("lifecycle:%s|%s|%s|GOMAXPROCS=%s", kind, v, sch, procs))
					} else {
						cnt.add("life_rounds_inconclusive", 1)
						cnt.add("life_inconclusive_"+kind+"_"+v+"_"+sch, 1)
						if out == "watchdog" {
							rep.Inconclusive(fmt.Sprintf("lifecycle:%s %s %s: round hit the watchdog", kind, v, sch))
							// the PRNG is still in use by the stuck round: do not share it any further
							rng = rand.New(rand.NewSource(seed*7 + int64(it)))
						}
					}
					opsDone.Add(1)
				}
			}
		}
	case "stdio":
		lifeStdio(iters, rng, cnt, rep, procs)
	case "clients":
		lifeClients(iters, rng, cnt, rep, procs)
	}
	cnt.mu.Lock()
	for k, n := range cnt.m {
		rep.Count(k, n)
	}
	completed := int64(0)
	for k, n := range cnt.m {
		if strings.HasPrefix(k, "life_rounds_completed_") {
			completed += n
		}
	}
	cnt.mu.Unlock()
	if completed == 0 {
		rep.Inconclusive("lifecycle:" + kind + ": no round completed")
	}
	if procs == "4" {
		cnt.mu.Lock()
		s := map[string]interface{}{"workload": "lifecycle:" + kind, "gomaxprocs": procs}
		for k, n := range cnt.m {
			if strings.HasPrefix(k, "life_note_") || k == "life_rounds" || k == "life_rounds_inconclusive" || k == "life_requests_answered_2xx" {
				s[k] = n
			}
		}
		cnt.mu.Unlock()
		rep.Sample(s)
	}
}

// ---- stdio: StdioServer.StartWithContext in a child process of its own ----

// maybeLifeStdioServer: role of the stdio server child. Goroutine A runs StartWithContext on the real stdin/stdout,
// goroutine C registers / unregisters tools, and the tool "stop" makes goroutine B cancel the context after a tiny
// delay while requests are still being served; afterwards Start is called once more on the same object.
func maybeLifeStdioServer() {
	if os.Getenv("C20_LIFE_STDIO") == "" {
		return
	}
	kit.Silence()
	s := mcp.NewStdioServer("life", "1.0", mcp.WithStdioServerLogger(kit.Quiet{}))
	ctx, cancel := context.WithCancel(context.Background())
	stopReq := make(chan struct{}, 8)
	s.RegisterTool(mcp.NewTool("t0"), func(ctx context.Context, req *mcp.CallToolRequest) (*mcp.CallToolResult, error) {
		return mcp.NewTextResult("t0"), nil
	})
	s.RegisterTool(mcp.NewTool("stop"), func(ctx context.Context, req *mcp.CallToolRequest) (*mcp.CallToolResult, error) {
		select {
		case stopReq <- struct{}{}:
		default:
		}
		return mcp.NewTextResult("stopping"), nil
	})
	go func() { // C
		for i := 0; ; i++ {
			n := fmt.Sprintf("life-%d", i%4)
			s.RegisterTool(mcp.NewTool(n), func(ctx context.Context, req *mcp.CallToolRequest) (*mcp.CallToolResult, error) {
				return mcp.NewTextResult(n), nil
			})
			s.GetTools()
			s.UnregisterTools(n)
			time.Sleep(200 * time.Microsecond)
		}
	}()
	go func() { // B
		<-stopReq
		us, _ := strconv.Atoi(os.Getenv("C20_LIFE_DELAY_US"))
		time.Sleep(time.Duration(us) * time.Microsecond)
		cancel()
	}()
	done := make(chan error, 2)
	go func() { done <- s.StartWithContext(ctx) }() // A
	<-done
	// Start after the stop, same object (the context is already cancelled or stdin is at EOF: returns at once or
	// serves what is left)
	c2, cc := context.WithTimeout(context.Background(), 300*time.Millisecond)
	s.StartWithContext(c2)
	cc()
	os.Exit(0)
}

func lifeStdio(iters int, rng *rand.Rand, cnt *lifeCounts, rep *vh.Reporter, procs string) {
	self, err := os.Executable()
	if err != nil {
		rep.Inconclusive("lifecycle:stdio: no executable path")
		return
	}
	schedules := []string{"stop-tool", "close-under-calls", "restart-under-calls", "close-x2"}
	for it := 0; it < iters; it++ {
		for _, sch := range schedules {
			res := make(chan string, 1)
			d1 := time.Duration(rng.Intn(1500)) * time.Microsecond
			d2us := rng.Intn(300)
			go func() {
				c, err := mcp.NewStdioClient(mcp.StdioTransportConfig{
					ServerParams: mcp.StdioServerParameters{Command: self, Env: map[string]string{"C20_LIFE_STDIO": "one", "VH_CHILD": "c20-life-stdio", "C20_LIFE_DELAY_US": strconv.Itoa(d2us)}},
					Timeout:      5 * time.Second,
				}, kit.ClientInfo, mcp.WithStdioLogger(kit.Quiet{}))
				if err != nil {
					res <- "client could not be created"
					return
				}
				ctx, cancel := context.WithTimeout(context.Background(), 20*time.Second)
				defer cancel()
				if _, err := c.Initialize(ctx, &mcp.InitializeRequest{}); err != nil {
					c.Close()
					res <- "initialize failed"
					return
				}
				call := func(name string) bool {
					cctx, cc := context.WithTimeout(ctx, 2*time.Second)
					defer cc()
					rq := &mcp.CallToolRequest{}
					rq.Params.Name = name
					var err error
					guard(func() { _, err = c.CallTool(cctx, rq) })
					return err == nil
				}
				var wg sync.WaitGroup
				var okCalls atomic.Int64
				for g := 0; g < 3; g++ {
					wg.Add(1)
					go func() {
						defer wg.Done()
						for j := 0; j < 8; j++ {
							if call("t0") {
								okCalls.Add(1)
							}
							guard(func() { c.ListTools(ctx, &mcp.ListToolsRequest{}) })
						}
					}()
				}
				time.Sleep(d1)
				switch sch {
				case "stop-tool":
					call("stop") // the server cancels its own context from another goroutine
				case "close-under-calls":
					guard(func() { c.Close() })
				case "restart-under-calls":
					guard(func() { c.RestartProcess(ctx) })
				case "close-x2":
					var cw sync.WaitGroup
					for k := 0; k < 2; k++ {
						cw.Add(1)
						go func() { defer cw.Done(); guard(func() { c.Close() }) }()
					}
					cw.Wait()
				}
				wg.Wait()
				guard(func() { c.Close() })
				cnt.add("life_stdio_calls_answered", okCalls.Load())
				res <- "ok"
			}()
			var out string
			select {
			case out = <-res:
			case <-time.After(60 * time.Second):
				out = "watchdog"
			}
			cnt.add("life_rounds", 1)
			rep.Eval(1) // every lifecycle round is an execution of its own
			if out == "ok" {
				cnt.add("life_rounds_completed_stdio_"+sch, 1)
				rep.Distinct(fmt.Sprintf("lifecycle:stdio|%s|GOMAXPROCS=%s", sch, procs))
			} else {
				cnt.add("life_rounds_inconclusive", 1)
				if out == "watchdog" {
					rep.Inconclusive("lifecycle:stdio " + sch + ": round hit the watchdog")
				}
			}
			opsDone.Add(1)
		}
	}
}

// ---- clients: lifecycle calls of ONE client object from several goroutines ----

func lifeClients(iters int, rng *rand.Rand, cnt *lifeCounts, rep *vh.Reporter, procs string) {
	schedules := []string{"initialize|terminate", "initialize|close", "close|close", "terminate|close", "terminate|terminate"}
	for _, kind := range []kit.Kind{kit.SJSON, kit.SSSE, kit.LSSE} {
		in := kit.Start(kind, kit.Opts{KeepAlive: 3 * time.Millisecond})
		kit.StdFixture(in)
		for it := 0; it < iters; it++ {
			for _, sch := range schedules {
				if kind == kit.LSSE && strings.Contains(sch, "terminate") {
					continue
				}
				d := time.Duration(rng.Intn(1200)) * time.Microsecond
				res := make(chan string, 1)
				go func() {
					c, err := in.NewClient()
					if err != nil {
						res <- "client could not be created"
						return
					}
					ctx, cancel := context.WithTimeout(context.Background(), 15*time.Second)
					defer cancel()
					ops := strings.Split(sch, "|")
					do := func(op string) {
						switch op {
						case "close":
							guard(func() { c.Close() })
						case "terminate":
							guard(func() { c.HTTP.TerminateSession(ctx) })
						}
					}
					if ops[0] == "initialize" {
						var wg sync.WaitGroup
						wg.Add(1)
						go func() { defer wg.Done(); time.Sleep(d); do(ops[1]) }()
						guard(func() { c.Initialize(ctx, &mcp.InitializeRequest{}) })
						wg.Wait()
					} else {
						if _, err := c.Initialize(ctx, &mcp.InitializeRequest{}); err != nil {
							c.Close()
							res <- "initialize failed"
							return
						}
						var wg sync.WaitGroup
						// calls in flight
						for g := 0; g < 2; g++ {
							wg.Add(1)
							go func() {
								defer wg.Done()
								for j := 0; j < 4; j++ {
									cctx, cc := context.WithTimeout(ctx, 2*time.Second)
									guard(func() { c.ListTools(cctx, &mcp.ListToolsRequest{}) })
									cc()
								}
							}()
						}
						time.Sleep(d)
						for _, op := range ops {
							wg.Add(1)
							go func(op string) { defer wg.Done(); do(op) }(op)
						}
						wg.Wait()
					}
					guard(func() { c.Close() })
					res <- "ok"
				}()
				var out string
				select {
				case out = <-res:
				case <-time.After(40 * time.Second):
					out = "watchdog"
				}
				cnt.add("life_rounds", 1)
				rep.Eval(1) // every lifecycle round is an execution of its own
				if out == "ok" {
					cnt.add("life_rounds_completed_client_"+string(kind)+"_"+sch, 1)
					rep.Distinct(fmt.Sprintf("lifecycle:clients|%s|%s|GOMAXPROCS=%s", kind, sch, procs))
				} else {
					cnt.add("life_rounds_inconclusive", 1)
					if out == "watchdog" {
						rep.Inconclusive(fmt.Sprintf("lifecycle:clients %s %s: round hit the watchdog", kind, sch))
					}
				}
				opsDone.Add(1)
			}
		}
		in.Close()
	}
}
