// capflip:* — the ADVERTISED CAPABILITY SET changes while sessions are inside the initialize handshake.
//
// Per round a fresh server of one kind with NOTHING registered; 8 raw sessions are connected (legacy SSE: event
// stream open, stdio: transport loop running) and wait at a spin barrier; when it opens all of them run
// initialize + notifications/initialized, and keep opening new sessions and handshaking until the round ends.
// Meanwhile the application goroutine registers the server's first prompt / resource (single and multi content) /
// resource template / tool, unregisters the last tool and registers it again (the library has no entry point to
// unregister prompts or resources), in a PRNG-chosen order, paced by the number of handshakes that have begun
// (never by the clock alone). The oracle is the race detector (GORACE log of this child, parsed by the parent);
// a crash of the child is a process-death violation in the parent. What is counted here is evidence only:
// rounds in which a registration call overlapped a handshake in flight, and rounds in which the sessions of
// one round were told different capability sets.
package main

import (
	"context"
	"encoding/json"
	"fmt"
	"hash/fnv"
	"math/rand"
	"os"
	"runtime"
	"sort"
	"strings"
	"sync"
	"sync/atomic"
	"time"

	mcp "trpc.group/trpc-go/trpc-mcp-go"

	"verifharness/lib/kit"
	"verifharness/lib/vh"
)

const capFlipWorkers = 8

var capFlipGroups = map[string][]kit.Kind{
	"stateful":  {kit.SJSON, kit.SSSE},
	"stateless": {kit.SLJSON, kit.SLSSE, kit.SNoSess},
	"L-sse":     {kit.LSSE},
	"stdio":     {kit.Stdio},
}

type capSpan struct{ a, b time.Time }

func (s capSpan) overlaps(o capSpan) bool { return !s.b.Before(o.a) && !o.b.Before(s.a) }

// capRegisterTemplate: lib/kit has no wrapper for templates.
func capRegisterTemplate(in *kit.Instance, name string) {
	t := mcp.NewResourceTemplate("tmpl://"+name+"/{id}", name)
	h := func(ctx context.Context, req *mcp.ReadResourceRequest) ([]mcp.ResourceContents, error) {
		return []mcp.ResourceContents{mcp.TextResourceContents{URI: req.Params.URI, Text: name}}, nil
	}
	switch {
	case in.Server != nil:
		in.Server.RegisterResourceTemplate(t, h)
	case in.SSE != nil:
		in.SSE.RegisterResourceTemplate(t, h)
	case in.Stdio != nil:
		in.Stdio.RegisterResourceTemplate(t, h)
	}
}

type capOp struct {
	name string
	f    func(in *kit.Instance)
}

func capOps(rng *rand.Rand) []capOp {
	tool := func(n string) []capOp {
		return []capOp{
			{"first-tool", func(in *kit.Instance) {
				in.RegisterTool(mcp.NewTool(n), func(ctx context.Context, req *mcp.CallToolRequest) (*mcp.CallToolResult, error) {
					return mcp.NewTextResult(n), nil
				})
			}},
			{"last-tool-unregistered", func(in *kit.Instance) { in.UnregisterTools(n) }},
		}
	}
	groups := [][]capOp{
		tool("t0"), tool("t0"), tool("t1"),
		{{"first-prompt", func(in *kit.Instance) {
			in.RegisterPrompt(&mcp.Prompt{Name: "p0"}, func(ctx context.Context, req *mcp.GetPromptRequest) (*mcp.GetPromptResult, error) {
				return &mcp.GetPromptResult{}, nil
			})
		}}},
		{{"second-prompt", func(in *kit.Instance) {
			in.RegisterPrompt(&mcp.Prompt{Name: "p1"}, func(ctx context.Context, req *mcp.GetPromptRequest) (*mcp.GetPromptResult, error) {
				return &mcp.GetPromptResult{}, nil
			})
		}}},
		{{"resource", func(in *kit.Instance) {
			in.RegisterResource(&mcp.Resource{URI: "res://r0", Name: "r0"}, func(ctx context.Context, req *mcp.ReadResourceRequest) (mcp.ResourceContents, error) {
				return mcp.TextResourceContents{URI: "res://r0", Text: "r0"}, nil
			})
		}}},
		{{"resources", func(in *kit.Instance) {
			in.RegisterResources(&mcp.Resource{URI: "res://r1", Name: "r1"}, func(ctx context.Context, req *mcp.ReadResourceRequest) ([]mcp.ResourceContents, error) {
				return []mcp.ResourceContents{mcp.TextResourceContents{URI: "res://r1", Text: "r1"}}, nil
			})
		}}},
		{{"resource-template", func(in *kit.Instance) { capRegisterTemplate(in, "tp0") }}},
	}
	rng.Shuffle(len(groups), func(i, j int) { groups[i], groups[j] = groups[j], groups[i] })
	var out []capOp
	for _, g := range groups {
		out = append(out, g...)
	}
	return out
}

// capHandshake is kit.RawConn.Handshake that also returns the capability names the server advertised.
func capHandshake(ctx context.Context, c *kit.RawConn) (string, bool) {
	ex := c.Post(ctx, kit.InitBody(`"init-0"`, ""), kit.PostOpts{WantID: `"init-0"`, NoSessionID: true})
	if len(ex.Frames) == 0 {
		return "", false
	}
	var m struct {
		Result *struct {
			Capabilities map[string]json.RawMessage `json:"capabilities"`
		} `json:"result"`
	}
	if json.Unmarshal([]byte(ex.Frames[len(ex.Frames)-1]), &m) != nil || m.Result == nil {
		return "", false
	}
	if c.In.Kind.IsStreamable() && ex.HTTP != nil && ex.HTTP.Sess != "" {
		c.SessionID = ex.HTTP.Sess
	}
	c.Post(ctx, []byte(kit.InitializedBody), kit.PostOpts{NoWait: true})
	var keys []string
	for k := range m.Result.Capabilities {
		keys = append(keys, k)
	}
	sort.Strings(keys)
	return strings.Join(keys, "+"), true
}

type capRound struct {
	handshakes, failed   int64
	opsDone              int
	opsOverlapped        int // registration calls during which at least one handshake was in flight
	changingOverlapped   int // of these: calls that change what a server with this history advertises
	capSets              map[string]bool
	barrierOK, completed bool
}

func capFlipRound(kind kit.Kind, rng *rand.Rand) capRound {
	res := capRound{capSets: map[string]bool{}}
	in := kit.Start(kind, kit.Opts{KeepAlive: 3 * time.Millisecond})
	defer in.Close()
	ctx, cancel := context.WithTimeout(context.Background(), 60*time.Second)
	defer cancel()
	ops := capOps(rng)

	var ready, started, finished, failed atomic.Int64
	var goFlag, stop atomic.Bool
	var mu sync.Mutex
	var spans []capSpan
	var wg sync.WaitGroup
	for w := 0; w < capFlipWorkers; w++ {
		wg.Add(1)
		go func() {
			defer wg.Done()
			c, err := in.Dial(ctx)
			ready.Add(1)
			if err != nil {
				failed.Add(1)
				return
			}
			for !goFlag.Load() {
				runtime.Gosched()
			}
			for {
				t0 := time.Now()
				started.Add(1)
				set, ok := capHandshake(ctx, c)
				t1 := time.Now()
				finished.Add(1)
				mu.Lock()
				spans = append(spans, capSpan{t0, t1})
				if ok {
					res.capSets[set] = true
				}
				mu.Unlock()
				if !ok {
					failed.Add(1)
				}
				c.Close()
				if stop.Load() || ctx.Err() != nil {
					return
				}
				if c, err = in.Dial(ctx); err != nil {
					failed.Add(1)
					return
				}
			}
		}()
	}
	// pacing only: none of these waits decides anything
	waitFor := func(cond func() bool, max time.Duration) bool {
		end := time.Now().Add(max)
		for !cond() {
			if time.Now().After(end) {
				return false
			}
			runtime.Gosched()
		}
		return true
	}
	res.barrierOK = waitFor(func() bool { return ready.Load() == capFlipWorkers }, 20*time.Second)
	goFlag.Store(true)
	type opSpan struct {
		capSpan
		changing bool
	}
	var opSpans []opSpan
	seenPrompt, seenRes := false, false
	for _, op := range ops {
		base := started.Load()
		need := int64(1 + rng.Intn(3))
		waitFor(func() bool { return started.Load() >= base+need }, 3*time.Millisecond)
		for k := rng.Intn(40); k > 0; k-- {
			runtime.Gosched()
		}
		changing := false
		switch op.name {
		case "first-prompt", "second-prompt":
			changing, seenPrompt = !seenPrompt, true
		case "resource", "resources":
			changing, seenRes = !seenRes, true
		}
		t0 := time.Now()
		op.f(in)
		t1 := time.Now()
		opSpans = append(opSpans, opSpan{capSpan{t0, t1}, changing})
		res.opsDone++
	}
	base := finished.Load()
	waitFor(func() bool { return finished.Load() >= base+capFlipWorkers }, 50*time.Millisecond)
	stop.Store(true)
	done := make(chan struct{})
	go func() { wg.Wait(); close(done) }()
	select {
	case <-done:
		res.completed = true
	case <-time.After(45 * time.Second):
		cancel()
		return res
	}
	res.handshakes, res.failed = finished.Load(), failed.Load()
	for _, o := range opSpans {
		for _, h := range spans {
			if o.overlaps(h) {
				res.opsOverlapped++
				if o.changing {
					res.changingOverlapped++
				}
				break
			}
		}
	}
	return res
}

func capFlipWorkload(group string, iters int, seed int64) {
	rep := vh.NewReporter()
	kinds := capFlipGroups[group]
	if len(kinds) == 0 {
		rep.Inconclusive("capflip: unknown group " + group)
		return
	}
	h := fnv.New32a()
	h.Write([]byte("capflip:" + group))
	rng := rand.New(rand.NewSource(seed*7919 + int64(h.Sum32())))
	procs := os.Getenv("GOMAXPROCS")
	rounds := iters * 3
	var tot struct{ rounds, completed, overlapRounds, changingOverlapRounds, mixedRounds, handshakes, failed, ops, opsOverlapped int64 }
	perKind := map[kit.Kind]int64{}
	for i := 0; i < rounds; i++ {
		kind := kinds[i%len(kinds)]
		r := capFlipRound(kind, rng)
		tot.rounds++
		if !r.completed || !r.barrierOK {
			continue
		}
		tot.completed++
		tot.handshakes += r.handshakes
		tot.failed += r.failed
		tot.ops += int64(r.opsDone)
		tot.opsOverlapped += int64(r.opsOverlapped)
		if r.opsOverlapped > 0 {
			tot.overlapRounds++
		}
		if r.changingOverlapped > 0 {
			tot.changingOverlapRounds++
			perKind[kind]++
		}
		if len(r.capSets) > 1 {
			tot.mixedRounds++
		}
		opsDone.Add(r.handshakes)
	}
	rep.Eval(int(tot.completed)) // every round is an execution of its own (fresh server)
	rep.Count("capflip_rounds", tot.rounds)
	rep.Count("capflip_rounds_completed", tot.completed)
	rep.Count("capflip_handshakes", tot.handshakes)
	rep.Count("capflip_handshakes_failed", tot.failed)
	rep.Count("capflip_registration_calls", tot.ops)
	rep.Count("capflip_registration_calls_overlapping_a_handshake", tot.opsOverlapped)
	rep.Count("capflip_rounds_with_overlap", tot.overlapRounds)
	rep.Count("capflip_rounds_capability_changing_registration_overlapped_a_handshake", tot.changingOverlapRounds)
	rep.Count("capflip_rounds_sessions_saw_different_capability_sets", tot.mixedRounds)
	if tot.changingOverlapRounds == 0 {
		rep.Inconclusive(fmt.Sprintf("capflip:%s: no round in which a capability-changing registration overlapped a handshake (%d rounds, %d completed)", group, tot.rounds, tot.completed))
	}
	for k, n := range perKind {
		if n > 0 {
			rep.Distinct(fmt.Sprintf("capflip:%s|registration-overlapped-handshake|GOMAXPROCS=%s", k, procs))
		}
	}
	if procs == "4" {
		rep.Sample(map[string]interface{}{"workload": "capflip:" + group, "gomaxprocs": procs, "rounds": tot.rounds, "completed": tot.completed,
			"handshakes": tot.handshakes, "handshakes_failed": tot.failed, "registration_calls": tot.ops, "calls_overlapping_handshake": tot.opsOverlapped,
			"rounds_changing_registration_overlapped": tot.changingOverlapRounds, "rounds_with_different_capability_sets": tot.mixedRounds})
	}
}
