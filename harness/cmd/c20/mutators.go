package main

// Workloads "clientmut:<kind>": application-facing mutable objects that the library reads from its own goroutines.
//
// A library client of every kind (Streamable JSON / SSE, legacy SSE, stdio) holds a DefaultRootsProvider. While the
// server keeps issuing roots/list requests (tool "rootsprobe" calls ListRoots and returns the URIs it was given) and
// pushes notifications, application goroutines of the client
//   - AddRoot / RemoveRoot on the provider (pure mutators: no I/O, no shared atomics, no locks of ours — anything of
//     that kind would order them after the transport goroutine's GetRoots and hide a race from the detector),
//   - SetRootsProvider (the provider itself and two delegating wrappers, all answering from the same root list),
//   - RegisterNotificationHandler / UnregisterNotificationHandler for the methods that are arriving,
//   - SendRootsListChangedNotification,
//   - read the public getters (state, session id, stdio process info);
// and on the server side (in-process for the HTTP kinds, inside the stdio server child for stdio) goroutines register
// and unregister notification handlers (all three server kinds), resource templates, resources lists and tools and
// read GetTools / GetTool / GetActiveSessions / SendFilteredNotification while the requests are served.
//
// Oracles: (1) the race detector (parent: GORACE log → pairs of innermost library frames);
// (2) a value oracle for roots snapshots. URIs are unique per AddRoot and never re-added; every mutation is stamped
// with the process' monotonic clock before and after the call (goroutine-local logs, merged after the round), every
// observation (provider level: one GetRoots call seen by the delegating wrapper; server level: one rootsprobe call,
// stamped around CallTool, which encloses the roots/list exchange) has a window [t0,t1]. An observation must
//   (a) list no URI twice, (b) list only URIs whose AddRoot began before t1, (c) list every URI whose AddRoot returned
//   before t0 and whose RemoveRoot (if any) began after t1, (d) list no URI whose RemoveRoot returned before t0.
// Stamps closer than clockSlack count as concurrent (conservative in the direction of silence).

import (
	"context"
	"encoding/json"
	"fmt"
	"math/rand"
	"os"
	"sort"
	"strconv"
	"sync"
	"sync/atomic"
	"time"

	mcp "trpc.group/trpc-go/trpc-mcp-go"

	"verifharness/lib/kit"
	"verifharness/lib/vh"
)

const (
	mutFixtureName = "c20mut"
	clockSlack     = int64(20 * time.Microsecond)
	never          = int64(-1)
)

func init() { kit.Fixtures[mutFixtureName] = mutFixture }

var (
	mutBase    = time.Now()
	srvMutStop = make(chan struct{})
	srvMutOps  atomic.Int64
	restarts   atomic.Int64
)

func mono() int64 { return int64(time.Since(mutBase)) }

func stopped(ch chan struct{}) bool {
	select {
	case <-ch:
		return true
	default:
		return false
	}
}

// mutFixture: standard fixture + rootsprobe + server-side mutators (runs in the stdio server child as well).
func mutFixture(in *kit.Instance) {
	kit.StdFixture(in)
	in.RegisterTool(mcp.NewTool("rootsprobe", mcp.WithString("nonce")), func(ctx context.Context, req *mcp.CallToolRequest) (*mcp.CallToolResult, error) {
		rctx, cancel := context.WithTimeout(ctx, 20*time.Second)
		defer cancel()
		if sender, ok := mcp.GetNotificationSender(ctx); ok {
			sender.SendCustomNotification("notifications/verif", map[string]interface{}{"a": 1})
			sender.SendProgress(0.5, "p")
		}
		var res *mcp.ListRootsResult
		var err error
		switch {
		case in.Server != nil:
			res, err = in.Server.ListRoots(rctx)
		case in.SSE != nil:
			res, err = in.SSE.ListRoots(rctx)
		default:
			res, err = in.Stdio.ListRoots(rctx)
		}
		if sender, ok := mcp.GetNotificationSender(ctx); ok {
			sender.SendLogMessage("info", "m")
		}
		out := map[string]interface{}{}
		if err != nil {
			out["err"] = err.Error()
		} else {
			uris := make([]string, 0, len(res.Roots))
			for _, r := range res.Roots {
				uris = append(uris, r.URI)
			}
			out["uris"] = uris
		}
		b, _ := json.Marshal(out)
		return mcp.NewTextResult(string(b)), nil
	})
	go serverSideMutators(in)
}

// serverSideMutators: public mutators / readers of a serving server that the older server workloads do not drive.
func serverSideMutators(in *kit.Instance) {
	nh := func(ctx context.Context, n *mcp.JSONRPCNotification) error { return nil }
	tplH := func(ctx context.Context, req *mcp.ReadResourceRequest) ([]mcp.ResourceContents, error) {
		return []mcp.ResourceContents{mcp.TextResourceContents{URI: req.Params.URI, Text: "t"}}, nil
	}
	for i := 0; !stopped(srvMutStop); i++ {
		n := fmt.Sprintf("mut-%d", i%4)
		guard(func() {
			switch {
			case in.Server != nil:
				in.Server.RegisterNotificationHandler("notifications/roots/list_changed", nh)
				in.Server.RegisterResourceTemplate(mcp.NewResourceTemplate("tpl://"+n+"/{id}", n), tplH)
				in.Server.GetTools()
				in.Server.GetTool("rootsprobe")
				in.Server.GetActiveSessions()
				in.Server.SendFilteredNotification("notifications/verif", map[string]interface{}{"f": 1}, func(string) bool { return i%2 == 0 })
				in.Server.GetServerInfo()
				in.Server.UnregisterNotificationHandler("notifications/roots/list_changed")
			case in.SSE != nil:
				in.SSE.RegisterNotificationHandler("notifications/roots/list_changed", nh)
				in.SSE.RegisterResourceTemplate(mcp.NewResourceTemplate("tpl://"+n+"/{id}", n), tplH)
				in.SSE.GetTools()
				in.SSE.GetTool("rootsprobe")
				in.SSE.GetServerInfo()
				in.SSE.UnregisterNotificationHandler("notifications/roots/list_changed")
			default:
				in.Stdio.RegisterNotificationHandler("notifications/roots/list_changed", nh)
				in.Stdio.RegisterResourceTemplate(mcp.NewResourceTemplate("tpl://"+n+"/{id}", n), tplH)
				in.Stdio.GetTools()
				in.Stdio.GetTool("rootsprobe")
				in.Stdio.GetServerInfo()
				in.Stdio.UnregisterNotificationHandler("notifications/roots/list_changed")
			}
			in.RegisterResources(&mcp.Resource{URI: "res://" + n, Name: n}, func(ctx context.Context, req *mcp.ReadResourceRequest) ([]mcp.ResourceContents, error) {
				return []mcp.ResourceContents{mcp.TextResourceContents{URI: "res://" + n, Text: n}}, nil
			})
			in.RegisterTool(mcp.NewTool(n), func(ctx context.Context, req *mcp.CallToolRequest) (*mcp.CallToolResult, error) {
				return mcp.NewTextResult(n), nil
			})
			in.UnregisterTools(n)
		})
		srvMutOps.Add(1)
		time.Sleep(250 * time.Microsecond)
	}
}

// ---- history and observations ----

type mutEv struct {
	uri    string
	add    bool
	t0, t1 int64
}

type rootsObs struct {
	level  string // "provider" | "server"
	t0, t1 int64
	uris   []string
}

type uriHist struct{ addS, addE, remS, remE int64 }

// obsProvider delegates to the shared DefaultRootsProvider and records what GetRoots returned and when. Its mutex is
// only ever taken by GetRoots callers (library goroutines), never by the mutators.
type obsProvider struct {
	p   *mcp.DefaultRootsProvider
	mu  sync.Mutex
	obs []rootsObs
}

func (w *obsProvider) GetRoots() []mcp.Root {
	t0 := mono()
	rs := w.p.GetRoots()
	t1 := mono()
	uris := make([]string, len(rs))
	for i, r := range rs {
		uris[i] = r.URI
	}
	w.mu.Lock()
	w.obs = append(w.obs, rootsObs{"provider", t0, t1, uris})
	w.mu.Unlock()
	return rs
}

// plainWrap is a second provider type answering from the same list (SetRootsProvider swaps between three values).
type plainWrap struct{ p *mcp.DefaultRootsProvider }

func (w plainWrap) GetRoots() []mcp.Root { return w.p.GetRoots() }

type mutTotals struct {
	rounds, ready, probes, probeErr             int64
	judgedServer, judgedProvider                int64
	adds, removes, swaps, handlerOps, rootNotes int64
	overlapProvider, overlapServer              int64
	notifHandled                                int64
	maxListed                                   int64
	viol                                        map[string]int
}

func judgeObs(kind string, o rootsObs, hist map[string]*uriHist, rep *vh.Reporter, tot *mutTotals) {
	fail := func(symptom, uri, detail string) {
		sig := fmt.Sprintf("C20|roots-snapshot|%s|%s|%s", kind, o.level, symptom)
		tot.viol[sig]++
		if tot.viol[sig] > 3 {
			return
		}
		w := map[string]interface{}{"uri": uri, "window_ns": []int64{o.t0, o.t1}, "listed": len(o.uris), "detail": detail}
		if h := hist[uri]; h != nil {
			w["uri_history_ns"] = map[string]int64{"add_begin": h.addS, "add_end": h.addE, "remove_begin": h.remS, "remove_end": h.remE}
		}
		rep.Violation(sig, fmt.Sprintf("%s client, roots snapshot (%s level): %s — %s", kind, o.level, symptom, detail), w)
	}
	seen := make(map[string]bool, len(o.uris))
	for _, u := range o.uris {
		if seen[u] {
			fail("duplicate-uri", u, "the same root is listed twice in one roots/list answer although every AddRoot used a fresh URI")
			continue
		}
		seen[u] = true
		h := hist[u]
		switch {
		case h == nil:
			fail("unknown-uri", u, "a URI that was never added is listed")
		case h.addS != never && h.addS > o.t1+clockSlack:
			fail("listed-before-added", u, "a URI whose AddRoot began after the answer had been received is listed")
		case h.remE != never && h.remE+clockSlack < o.t0:
			fail("removed-uri-listed", u, "a URI whose RemoveRoot had returned before the request was issued is listed")
		}
	}
	for u, h := range hist {
		if seen[u] {
			continue
		}
		addedBefore := h.addE == never || h.addE+clockSlack < o.t0 // never = present since construction
		notRemoved := h.remS == never || h.remS > o.t1+clockSlack
		if addedBefore && notRemoved {
			fail("present-uri-missing", u, "a URI added before the request was issued and not removed before the answer was received is not listed")
		}
	}
	if int64(len(o.uris)) > tot.maxListed {
		tot.maxListed = int64(len(o.uris))
	}
}

func overlaps(o rootsObs, evs []mutEv) bool {
	// evs sorted by t0
	i := sort.Search(len(evs), func(i int) bool { return evs[i].t0 >= o.t1 })
	for j := i - 1; j >= 0 && j >= i-64; j-- {
		if evs[j].t1 > o.t0 {
			return true
		}
	}
	return false
}

// ---- the workload ----

func clientMutWorkload(kind kit.Kind, iters int, seed int64) {
	rep := vh.NewReporter()
	tot := &mutTotals{viol: map[string]int{}}
	var in *kit.Instance
	if kind != kit.Stdio {
		in = kit.Start(kind, kit.Opts{KeepAlive: 3 * time.Millisecond})
		defer in.Close()
		mutFixture(in)
	}
	defer close(srvMutStop)
	ctx, cancel := context.WithTimeout(context.Background(), 4*time.Minute)
	defer cancel()
	var notifHandled atomic.Int64
	for round := 0; round < iters; round++ {
		tot.rounds++
		var c *kit.LibClient
		var err error
		if kind == kit.Stdio {
			c, err = kit.NewStdioClient(mutFixtureName, nil, 20*time.Second)
		} else {
			c, err = in.NewClient()
		}
		if err != nil {
			rep.Inconclusive(fmt.Sprintf("clientmut %s: client could not be created: %v", kind, err))
			return
		}
		// the root list: nInit roots present from construction, then unique URIs per add
		const nMut, nInit = 3, 24
		hist := map[string]*uriHist{}
		var init []mcp.Root
		for i := 0; i < nInit; i++ {
			u := fmt.Sprintf("file:///c20/r%d/init/%03d", round, i)
			init = append(init, mcp.Root{URI: u, Name: fmt.Sprint(i)})
			hist[u] = &uriHist{never, never, never, never}
		}
		p := mcp.NewDefaultRootsProvider(init...)
		ow := &obsProvider{p: p}
		if round%2 == 0 {
			c.SetRootsProvider(ow)
		} else {
			c.SetRootsProvider(p)
		}
		stop := make(chan struct{})
		var bg sync.WaitGroup
		// (5) the server pushes notifications on its own, from before the handshake on (the listening stream is being
		// opened, possibly with a Last-Event-ID, while senders are already looking for it)
		if in != nil {
			bg.Add(1)
			go func() {
				defer bg.Done()
				for !stopped(stop) {
					sid := c.HTTP.GetSessionID()
					guard(func() {
						if in.Server != nil {
							in.Server.BroadcastNotification("notifications/b", map[string]interface{}{"b": 1})
							if sid != "" {
								in.Server.SendNotification(sid, "notifications/verif", map[string]interface{}{"x": 1})
							}
						} else if sid != "" {
							in.SSE.SendNotification(sid, "notifications/verif", map[string]interface{}{"x": 1})
						}
					})
					time.Sleep(300 * time.Microsecond)
				}
			}()
		}
		if _, err := c.Initialize(ctx, &mcp.InitializeRequest{}); err != nil {
			rep.Inconclusive(fmt.Sprintf("clientmut %s: initialize failed: %v", kind, err))
			close(stop)
			bg.Wait()
			c.Close()
			continue
		}
		probe := func(to time.Duration) ([]string, bool) {
			cctx, cc := context.WithTimeout(ctx, to)
			defer cc()
			rq := &mcp.CallToolRequest{}
			rq.Params.Name = "rootsprobe"
			rq.Params.Arguments = map[string]interface{}{"nonce": "n"}
			var res *mcp.CallToolResult
			var err error
			guard(func() { res, err = c.CallTool(cctx, rq) })
			if err != nil || res == nil || len(res.Content) == 0 {
				return nil, false
			}
			tc, ok := res.Content[0].(mcp.TextContent)
			if !ok {
				return nil, false
			}
			var out struct {
				Err  string    `json:"err"`
				URIs *[]string `json:"uris"`
			}
			if json.Unmarshal([]byte(tc.Text), &out) != nil || out.URIs == nil {
				return nil, false
			}
			return *out.URIs, true
		}
		// the Streamable listening stream is opened in the background: wait until roots/list works
		ready := false
		for i := 0; i < 300 && !ready; i++ {
			if _, ok := probe(2 * time.Second); ok {
				ready = true
			} else {
				time.Sleep(10 * time.Millisecond)
			}
		}
		if !ready {
			rep.Inconclusive(fmt.Sprintf("clientmut %s: roots/list never worked in round %d", kind, round))
			close(stop)
			bg.Wait()
			c.Close()
			continue
		}
		tot.ready++
		if round%2 == 0 {
			ow.mu.Lock()
			ow.obs = nil // warm-up answers: the initial list, judged below like the others would be pointless
			ow.mu.Unlock()
		}

		// (1) pure root mutators
		evLogs := make([][]mutEv, nMut)
		for g := 0; g < nMut; g++ {
			bg.Add(1)
			go func(g int) {
				defer bg.Done()
				rng := rand.New(rand.NewSource(seed*7919 + int64(round)*131 + int64(g)))
				var live []string
				var log []mutEv
				next := 0
				lo, hi := 40+rng.Intn(30), 90+rng.Intn(40)
				growing := true
				for len(log) < 30000 && !stopped(stop) {
					burst := 1 + rng.Intn(8)
					for b := 0; b < burst; b++ {
						if len(live) >= hi {
							growing = false
						} else if len(live) <= lo {
							growing = true
						}
						add := len(live) == 0 || (growing && rng.Intn(4) != 0) || (!growing && rng.Intn(4) == 0)
						if add {
							u := fmt.Sprintf("file:///c20/r%d/g%d/%06d", round, g, next)
							next++
							t0 := mono()
							p.AddRoot(u, "n")
							t1 := mono()
							log = append(log, mutEv{u, true, t0, t1})
							live = append(live, u)
						} else {
							// mostly near the front of this goroutine's roots: the tail has to move
							k := rng.Intn(len(live))
							if rng.Intn(2) == 0 {
								k = rng.Intn(1 + len(live)/8)
							}
							u := live[k]
							live = append(live[:k], live[k+1:]...)
							t0 := mono()
							p.RemoveRoot(u)
							t1 := mono()
							log = append(log, mutEv{u, false, t0, t1})
						}
					}
					time.Sleep(time.Duration(rng.Intn(120)) * time.Microsecond)
				}
				evLogs[g] = log
			}(g)
		}
		// (2) provider swaps
		var swaps, handlerOps, rootNotes int64
		bg.Add(1)
		go func() {
			defer bg.Done()
			for i := 0; !stopped(stop); i++ {
				switch i % 3 {
				case 0:
					c.SetRootsProvider(ow)
				case 1:
					c.SetRootsProvider(p)
				default:
					c.SetRootsProvider(plainWrap{p})
				}
				swaps++
				time.Sleep(150 * time.Microsecond)
			}
		}()
		// (3) notification handlers come and go while their notifications arrive
		bg.Add(1)
		go func() {
			defer bg.Done()
			h := func(n *mcp.JSONRPCNotification) error { notifHandled.Add(1); return nil }
			methods := []string{"notifications/verif", "notifications/progress", "notifications/message", "notifications/b"}
			for i := 0; !stopped(stop); i++ {
				m := methods[i%len(methods)]
				c.RegisterNotificationHandler(m, h)
				if i%3 == 0 {
					c.UnregisterNotificationHandler(methods[(i+1)%len(methods)])
				}
				handlerOps++
				time.Sleep(120 * time.Microsecond)
			}
		}()
		// (4) roots/list_changed notifications + public getters
		bg.Add(1)
		go func() {
			defer bg.Done()
			for !stopped(stop) {
				cctx, cc := context.WithTimeout(ctx, 5*time.Second)
				guard(func() { c.SendRootsListChangedNotification(cctx) })
				cc()
				rootNotes++
				_ = c.GetState()
				if c.HTTP != nil {
					_ = c.HTTP.GetSessionID()
				}
				if c.Std != nil {
					_ = c.Std.IsProcessRunning()
					_ = c.Std.GetProcessID()
					_ = c.Std.GetCommandLine()
					_ = c.Std.GetTransportInfo()
				}
				time.Sleep(400 * time.Microsecond)
			}
		}()
		// probers: the server asks for the roots again and again
		nProbers, nProbes := 4, 12
		srvObs := make([][]rootsObs, nProbers)
		var probeErr atomic.Int64
		var wg sync.WaitGroup
		for k := 0; k < nProbers; k++ {
			wg.Add(1)
			go func(k int) {
				defer wg.Done()
				for j := 0; j < nProbes; j++ {
					t0 := mono()
					uris, ok := probe(20 * time.Second)
					t1 := mono()
					if !ok {
						probeErr.Add(1)
						continue
					}
					srvObs[k] = append(srvObs[k], rootsObs{"server", t0, t1, uris})
					if j%3 == 2 {
						cctx, cc := context.WithTimeout(ctx, 5*time.Second)
						guard(func() { c.ListTools(cctx, &mcp.ListToolsRequest{}) })
						cc()
					}
					opsDone.Add(1)
				}
			}(k)
		}
		wg.Wait()
		// stdio, every other round: RestartProcess (a public mutator of the process / state fields) while the
		// getters, the notifier, the handler and provider mutators above are still running and two calls are issued
		if c.Std != nil && round%2 == 1 {
			var rw sync.WaitGroup
			for k := 0; k < 2; k++ {
				rw.Add(1)
				go func() {
					defer rw.Done()
					cctx, cc := context.WithTimeout(ctx, 2*time.Second)
					defer cc()
					guard(func() { c.ListTools(cctx, &mcp.ListToolsRequest{}) })
				}()
			}
			guard(func() { c.Std.RestartProcess(ctx) })
			rw.Wait()
			restarts.Add(1)
		}
		close(stop)
		bg.Wait()
		guard(func() { c.Close() })

		// ---- judge the round ----
		var evs []mutEv
		for _, l := range evLogs {
			evs = append(evs, l...)
		}
		for _, e := range evs {
			h := hist[e.uri]
			if h == nil {
				h = &uriHist{never, never, never, never}
				hist[e.uri] = h
			}
			if e.add {
				h.addS, h.addE = e.t0, e.t1
				tot.adds++
			} else {
				h.remS, h.remE = e.t0, e.t1
				tot.removes++
			}
		}
		sort.Slice(evs, func(i, j int) bool { return evs[i].t0 < evs[j].t0 })
		ow.mu.Lock()
		provObs := ow.obs
		ow.mu.Unlock()
		for _, o := range provObs {
			judgeObs(string(kind), o, hist, rep, tot)
			tot.judgedProvider++
			if overlaps(o, evs) {
				tot.overlapProvider++
			}
		}
		for _, l := range srvObs {
			for _, o := range l {
				judgeObs(string(kind), o, hist, rep, tot)
				tot.judgedServer++
				if overlaps(o, evs) {
					tot.overlapServer++
				}
			}
		}
		tot.probes += int64(nProbers * nProbes)
		tot.probeErr += probeErr.Load()
		tot.swaps += swaps
		tot.handlerOps += handlerOps
		tot.rootNotes += rootNotes
	}
	tot.notifHandled = notifHandled.Load()
	rep.Eval(int(tot.rounds)) // every mutator round is an execution of its own
	rep.Count("mut_rounds", tot.rounds)
	rep.Count("mut_rounds_with_working_roots_list", tot.ready)
	rep.Count("mut_roots_probes", tot.probes)
	rep.Count("mut_roots_probes_failed", tot.probeErr)
	rep.Count("mut_roots_answers_judged_server_level", tot.judgedServer)
	rep.Count("mut_roots_answers_judged_provider_level", tot.judgedProvider)
	rep.Count("mut_getroots_overlapping_a_mutation", tot.overlapProvider)
	rep.Count("mut_probe_windows_overlapping_a_mutation", tot.overlapServer)
	rep.Count("mut_addroot_calls", tot.adds)
	rep.Count("mut_removeroot_calls", tot.removes)
	rep.Count("mut_setrootsprovider_calls", tot.swaps)
	rep.Count("mut_notification_handler_changes", tot.handlerOps)
	rep.Count("mut_roots_list_changed_sent", tot.rootNotes)
	rep.Count("mut_notifications_handled_by_client", tot.notifHandled)
	if in != nil {
		rep.Count("mut_server_side_mutator_cycles", srvMutOps.Load())
	}
	if kind == kit.Stdio {
		rep.Count("mut_stdio_restartprocess_calls", restarts.Load())
	}
	rep.Max("mut_max_roots_listed", tot.maxListed)
	if tot.judgedServer == 0 {
		rep.Inconclusive(fmt.Sprintf("clientmut %s: no roots/list answer could be judged (%d probes, %d failed)", kind, tot.probes, tot.probeErr))
	} else {
		rep.Distinct(fmt.Sprintf("clientmut:%s|roots-answers-judged|GOMAXPROCS=%s", kind, os.Getenv("GOMAXPROCS")))
		if tot.adds > 0 && tot.removes > 0 && tot.overlapServer > 0 {
			rep.Distinct(fmt.Sprintf("clientmut:%s|answers-overlapping-mutations", kind))
		}
	}
	if os.Getenv("GOMAXPROCS") == "4" && (kind == kit.SJSON || kind == kit.Stdio) {
		rep.Sample(map[string]interface{}{"workload": "clientmut:" + string(kind), "gomaxprocs": os.Getenv("GOMAXPROCS"), "rounds": tot.rounds,
			"answers_judged_server": tot.judgedServer, "answers_judged_provider": tot.judgedProvider, "addroot": tot.adds, "removeroot": tot.removes,
			"getroots_overlapping_mutation": tot.overlapProvider, "setrootsprovider": tot.swaps, "max_listed": tot.maxListed, "seed": strconv.FormatInt(seed, 10)})
	}
}
