// C20 — safe for concurrent use: no data races in servers or clients (Go race detector as the sanitizer).
package main

import (
	"context"
	"os/exec"
	"encoding/json"
	"fmt"
	"os"
	"path/filepath"
	"strconv"
	"strings"
	"sync"
	"sync/atomic"
	"time"

	mcp "trpc.group/trpc-go/trpc-mcp-go"

	"verifharness/lib/kit"
	"verifharness/lib/peer"
	"verifharness/lib/racelog"
	"verifharness/lib/vh"
)

var opsDone atomic.Int64
var resumedStreams atomic.Int64

func guard(f func()) {
	defer func() { recover() }()
	f()
}

// ---- server workloads (raw peers + in-process API calls) ----
func serverWorkload(kind kit.Kind, seed int64, iters int) {
	in := kit.Start(kind, kit.Opts{KeepAlive: 3 * time.Millisecond})
	defer in.Close()
	kit.StdFixture(in)
	in.RegisterTool(mcp.NewTool("sess", mcp.WithString("nonce")), func(ctx context.Context, req *mcp.CallToolRequest) (*mcp.CallToolResult, error) {
		// user code touching the session object it was handed, concurrently with the library
		if s, ok := mcp.GetSessionFromContext(ctx); ok && s != nil {
			s.SetData("k", time.Now().UnixNano())
			s.GetData("k")
			s.UpdateActivity()
			_ = s.GetLastActivity()
			_ = s.GetCreatedAt()
		}
		if s := mcp.ClientSessionFromContext(ctx); s != nil {
			_ = s.GetLastActivity()
			s.SetData("k2", 1)
		}
		if sender, ok := mcp.GetNotificationSender(ctx); ok {
			var wg sync.WaitGroup
			for g := 0; g < 2; g++ {
				wg.Add(1)
				go func() { defer wg.Done(); sender.SendProgress(0.5, "p") }()
			}
			wg.Wait()
		}
		return mcp.NewTextResult("ok"), nil
	})
	in.RegisterTool(mcp.NewTool("askroots"), func(ctx context.Context, req *mcp.CallToolRequest) (*mcp.CallToolResult, error) {
		rctx, cancel := context.WithTimeout(ctx, 300*time.Millisecond)
		defer cancel()
		switch {
		case in.Server != nil:
			in.Server.ListRoots(rctx)
		case in.SSE != nil:
			in.SSE.ListRoots(rctx)
		default:
			in.Stdio.ListRoots(rctx)
		}
		return mcp.NewTextResult("asked"), nil
	})
	ctx := context.Background()
	stop := make(chan struct{})
	var bg sync.WaitGroup
	var sessMu sync.Mutex
	var sessIDs []string
	// registrations changing under load
	bg.Add(1)
	go func() {
		defer bg.Done()
		i := 0
		for {
			select {
			case <-stop:
				return
			default:
			}
			i++
			n := fmt.Sprintf("dyn-%d", i%5)
			in.RegisterTool(mcp.NewTool(n), func(ctx context.Context, req *mcp.CallToolRequest) (*mcp.CallToolResult, error) { return mcp.NewTextResult(n), nil })
			in.RegisterPrompt(&mcp.Prompt{Name: n}, func(ctx context.Context, req *mcp.GetPromptRequest) (*mcp.GetPromptResult, error) { return &mcp.GetPromptResult{}, nil })
			in.RegisterResource(&mcp.Resource{URI: "res://" + n, Name: n}, func(ctx context.Context, req *mcp.ReadResourceRequest) (mcp.ResourceContents, error) {
				return mcp.TextResourceContents{URI: "res://" + n, Text: n}, nil
			})
			in.UnregisterTools(n)
			if in.Server != nil {
				in.Server.RegisterNotificationHandler("notifications/x", func(ctx context.Context, n *mcp.JSONRPCNotification) error { return nil })
				in.Server.UnregisterNotificationHandler("notifications/x")
			}
			time.Sleep(200 * time.Microsecond)
		}
	}()
	// server-initiated traffic
	if in.Server != nil || in.SSE != nil {
		for s := 0; s < 2; s++ {
			bg.Add(1)
			go func() {
				defer bg.Done()
				for {
					select {
					case <-stop:
						return
					default:
					}
					sessMu.Lock()
					ids := append([]string{}, sessIDs...)
					sessMu.Unlock()
					for _, id := range ids {
						guard(func() {
							if in.Server != nil {
								in.Server.SendNotification(id, "notifications/verif", map[string]interface{}{"a": 1})
							} else {
								in.SSE.SendNotification(id, "notifications/verif", map[string]interface{}{"a": 1})
							}
						})
					}
					if in.Server != nil {
						guard(func() { in.Server.BroadcastNotification("notifications/b", map[string]interface{}{"b": 1}) })
						guard(func() { in.Server.GetActiveSessions() })
					}
					time.Sleep(300 * time.Microsecond)
				}
			}()
		}
	}
	// sessions coming and going, each issuing concurrent calls
	var wg sync.WaitGroup
	nSess := 6
	if kind == kit.Stdio {
		nSess = 2
	}
	for p := 0; p < nSess; p++ {
		wg.Add(1)
		go func(p int) {
			defer wg.Done()
			for round := 0; round < iters; round++ {
				c, err := in.Dial(ctx)
				if err != nil {
					return
				}
				if c.Handshake(ctx) != nil {
					c.Close()
					continue
				}
				sessMu.Lock()
				sessIDs = append(sessIDs, c.SessionID)
				sessMu.Unlock()
				var resumed []*peer.Stream
				if kind.IsStreamable() && kind.Stateful() {
					// listening streams that RESUME (Last-Event-ID) are opened while the senders above are already
					// pushing to this session; each supersedes its predecessor, the plain stream comes last
					for k := 0; k < 2; k++ {
						hdr := map[string]string{"Accept": "text/event-stream", "Mcp-Session-Id": c.SessionID, "Last-Event-ID": strconv.Itoa(k + 1)}
						if rs, _ := c.HP.OpenStream(ctx, "GET", in.URL(), hdr, 256); rs != nil {
							go func() {
								for range rs.Events {
								}
							}()
							resumed = append(resumed, rs)
							resumedStreams.Add(1)
						}
					}
					c.OpenGet(ctx)
				}
				var cw sync.WaitGroup
				for k := 0; k < 4; k++ {
					cw.Add(1)
					go func(k int) {
						defer cw.Done()
						for j := 0; j < 6; j++ {
							id := fmt.Sprintf(`"r-%d-%d-%d-%d"`, p, round, k, j)
							tool := []string{"echo", "sess", "askroots", "notify"}[(k+j)%4]
							args := `{"nonce":"n","payload":"p","n":3}`
							c.Post(ctx, []byte(fmt.Sprintf(`{"jsonrpc":"2.0","id":%s,"method":"tools/call","params":{"name":"%s","arguments":%s}}`, id, tool, args)), kit.PostOpts{WantID: id, Wait: 5 * time.Second})
							lid := fmt.Sprintf(`"l-%d-%d-%d-%d"`, p, round, k, j)
							m := []string{"tools/list", "prompts/list", "resources/list", "ping"}[j%4]
							c.Post(ctx, []byte(fmt.Sprintf(`{"jsonrpc":"2.0","id":%s,"method":"%s"}`, lid, m)), kit.PostOpts{WantID: lid, Wait: 5 * time.Second})
							opsDone.Add(2)
						}
					}(k)
				}
				// answer server-issued requests a little
				go func() {
					f, ok := c.Log.WaitFor(0, 200*time.Millisecond, func(f kit.Frame) bool { return strings.Contains(f.Data, `"roots/list"`) })
					if ok {
						var m struct {
							ID json.RawMessage `json:"id"`
						}
						json.Unmarshal([]byte(f.Data), &m)
						c.Post(ctx, []byte(fmt.Sprintf(`{"jsonrpc":"2.0","id":%s,"result":{"roots":[]}}`, m.ID)), kit.PostOpts{NoWait: true})
					}
				}()
				cw.Wait()
				if kind.IsStreamable() && kind.Stateful() && round%2 == 0 {
					c.HP.Do(ctx, "DELETE", in.URL(), map[string]string{"Mcp-Session-Id": c.SessionID}, nil)
				}
				sessMu.Lock()
				for i, id := range sessIDs {
					if id == c.SessionID {
						sessIDs = append(sessIDs[:i:i], sessIDs[i+1:]...)
						break
					}
				}
				sessMu.Unlock()
				for _, rs := range resumed {
					rs.Close()
				}
				c.Close()
			}
		}(p)
	}
	wg.Wait()
	close(stop)
	bg.Wait()
	_ = seed
}

// ---- client workloads (library clients used from many goroutines) ----
func clientWorkload(kind kit.Kind, iters int) {
	var in *kit.Instance
	if kind != kit.Stdio {
		in = kit.Start(kind, kit.Opts{KeepAlive: 3 * time.Millisecond})
		defer in.Close()
		kit.StdFixture(in)
	}
	ctx, cancel := context.WithTimeout(context.Background(), 3*time.Minute)
	defer cancel()
	for round := 0; round < iters; round++ {
		var c *kit.LibClient
		var err error
		if kind == kit.Stdio {
			c, err = kit.NewStdioClient("std", nil, 10*time.Second)
		} else {
			c, err = in.NewClient()
		}
		if err != nil {
			return
		}
		// state readers run from the start (GetState / GetSessionID are documented getters)
		stop := make(chan struct{})
		var bg sync.WaitGroup
		bg.Add(1)
		go func() {
			defer bg.Done()
			for {
				select {
				case <-stop:
					return
				default:
				}
				_ = c.GetState()
				if c.HTTP != nil {
					_ = c.HTTP.GetSessionID()
				}
				time.Sleep(100 * time.Microsecond)
			}
		}()
		// every fourth round: Close overlaps the handshake itself (connection / stream / child process being
		// set up while the transport is torn down)
		var early sync.WaitGroup
		if round%4 == 2 {
			early.Add(1)
			go func(d time.Duration) {
				defer early.Done()
				time.Sleep(d)
				guard(func() { c.Close() })
			}(time.Duration(round*137%1500) * time.Microsecond)
		}
		if _, err := c.Initialize(ctx, &mcp.InitializeRequest{}); err != nil {
			early.Wait()
			close(stop)
			bg.Wait()
			c.Close()
			continue
		}
		early.Wait()
		c.RegisterNotificationHandler("notifications/verif", func(n *mcp.JSONRPCNotification) error { return nil })
		bg.Add(1)
		go func() {
			defer bg.Done()
			i := 0
			for {
				select {
				case <-stop:
					return
				default:
				}
				i++
				c.SetRootsProvider(mcp.NewDefaultRootsProvider(mcp.Root{URI: "file:///r", Name: fmt.Sprint(i)}))
				c.RegisterNotificationHandler("notifications/progress", func(n *mcp.JSONRPCNotification) error { return nil })
				c.UnregisterNotificationHandler("notifications/progress")
				guard(func() { c.SendRootsListChangedNotification(ctx) })
				time.Sleep(300 * time.Microsecond)
			}
		}()
		// the server pushes notifications / roots requests to this client meanwhile
		if in != nil && in.Server != nil {
			bg.Add(1)
			go func() {
				defer bg.Done()
				for {
					select {
					case <-stop:
						return
					default:
					}
					if sid := c.HTTP.GetSessionID(); sid != "" {
						guard(func() { in.Server.SendNotification(sid, "notifications/verif", map[string]interface{}{"x": 1}) })
					}
					time.Sleep(300 * time.Microsecond)
				}
			}()
		}
		var wg sync.WaitGroup
		for g := 0; g < 6; g++ {
			wg.Add(1)
			go func(g int) {
				defer wg.Done()
				for j := 0; j < 8; j++ {
					cctx, cc := context.WithTimeout(ctx, 5*time.Second)
					rq := &mcp.CallToolRequest{}
					rq.Params.Name = []string{"echo", "notify", "askroots"}[(g+j)%2]
					rq.Params.Arguments = map[string]interface{}{"nonce": "n", "payload": "p", "n": 3}
					guard(func() { c.CallTool(cctx, rq) })
					guard(func() { c.ListTools(cctx, &mcp.ListToolsRequest{}) })
					cc()
					opsDone.Add(2)
				}
			}(g)
		}
		// session termination / Close while calls may still be in flight (every other round)
		if round%2 == 1 {
			time.Sleep(2 * time.Millisecond)
			if c.HTTP != nil && kind.IsStreamable() {
				guard(func() { c.HTTP.TerminateSession(ctx) })
			}
			guard(func() { c.Close() })
		}
		wg.Wait()
		close(stop)
		bg.Wait()
		guard(func() { c.Close() })
	}
}

func child() {
	kit.Silence()
	w := os.Getenv("C20_WORKLOAD")
	iters, _ := strconv.Atoi(os.Getenv("C20_ITERS"))
	seed, _ := strconv.ParseInt(os.Getenv("VERIF_SEED"), 10, 64)
	parts := strings.SplitN(w, ":", 2)
	kind := kit.Kind(parts[1])
	if w == "client:stdio-scripted" {
		scriptedStdioClientWorkload(iters)
	} else if parts[0] == "lifecycle" {
		lifecycleWorkload(parts[1], iters, seed)
	} else if parts[0] == "capflip" {
		capFlipWorkload(parts[1], iters, seed)
	} else if parts[0] == "clientmut" {
		clientMutWorkload(kind, iters, seed)
	} else if parts[0] == "server" {
		serverWorkload(kind, seed, iters)
	} else {
		clientWorkload(kind, iters)
	}
	rep := vh.NewReporter()
	rep.Count("operations", opsDone.Load())
	if n := resumedStreams.Load(); n > 0 {
		rep.Count("server_resumed_listening_streams_opened_under_push", n)
	}
	rep.Done()
}

func main() {
	maybeScriptServer()
	maybeLifeStdioServer()
	kit.MaybeServeStdioChild()
	if vh.ChildRole() == "c20" {
		child()
		return
	}
	r := vh.NewRun("C20", "exploration")
	raceBin := os.Getenv("VH_RACE_BIN")
	if _, err := os.Stat(raceBin); err != nil {
		r.Fatal("race-detector flavour of the check binary not found (%s)", raceBin)
	}
	workloads := []string{"server:S-json", "server:S-sse", "server:L-sse", "server:stdio", "client:S-json", "client:S-sse", "client:L-sse", "client:stdio", "client:stdio-scripted",
		"clientmut:S-json", "clientmut:S-sse", "clientmut:L-sse", "clientmut:stdio",
		"lifecycle:sse", "lifecycle:streamable", "lifecycle:stdio", "lifecycle:clients",
		"capflip:stateful", "capflip:stateless", "capflip:L-sse", "capflip:stdio"}
	procs := []int{2, 4, 16}
	reps := r.Pick(2, 5)
	r.Sample(map[string]interface{}{"workloads": workloads, "gomaxprocs": procs, "repetitions": reps})
	type job struct {
		w     string
		procs int
		rep   int
	}
	var jobs []job
	for rep := 0; rep < reps; rep++ {
		for _, w := range workloads {
			for _, p := range procs {
				jobs = append(jobs, job{w, p, rep})
			}
		}
	}
	sem := make(chan struct{}, 6)
	var wg sync.WaitGroup
	var mu sync.Mutex
	all := map[string][]racelog.Report{}
	harnessOnly := map[string]int{}
	for i, j := range jobs {
		wg.Add(1)
		sem <- struct{}{}
		go func(i int, j job) {
			defer wg.Done()
			defer func() { <-sem }()
			tag := fmt.Sprintf("%s-p%d-r%d", strings.ReplaceAll(j.w, ":", "-"), j.procs, j.rep)
			logPrefix := filepath.Join(r.OutDir, "race", tag)
			os.MkdirAll(filepath.Dir(logPrefix), 0o755)
			old, _ := filepath.Glob(logPrefix + ".*")
			for _, f := range old {
				os.Remove(f)
			}
			iters := r.Pick(5, 12)
			env := []string{"C20_WORKLOAD=" + j.w, "C20_ITERS=" + strconv.Itoa(iters), "GOMAXPROCS=" + strconv.Itoa(j.procs),
				"VERIF_SEED=" + strconv.FormatInt(r.Seed+int64(j.rep), 10), "GORACE=halt_on_error=0 log_path=" + logPrefix}
			res := r.SpawnChildBin(raceBin, "c20", tag, nil, env, nil, 10*time.Minute)
			cr := r.Merge(res.Stdout())
			r.Eval(1)
			stderr := res.Stderr()
			if !cr.Done {
				if res.TimedOut {
					r.Inconclusive("workload " + tag + " hit the watchdog")
				} else {
					r.Violation(fmt.Sprintf("C20|%s|process-death|%s", j.w, vh.FirstLibFrame(stderr)), fmt.Sprintf("%s: process died under the concurrent workload: %s", j.w, vh.CrashLine(stderr)),
						map[string]interface{}{"crash": vh.CrashLine(stderr), "stderr_head": head(stderr)})
				}
			} else {
				r.Distinct(fmt.Sprintf("%s|GOMAXPROCS=%d", j.w, j.procs))
			}
			reps := racelog.ParseGlob(logPrefix)
			mu.Lock()
			for _, rp := range reps {
				if rp.InLib {
					all[rp.Pair] = append(all[rp.Pair], rp)
				} else {
					harnessOnly[rp.Pair]++
				}
			}
			mu.Unlock()
			r.Count("race_reports", int64(len(reps)))
		}(i, j)
	}
	wg.Wait()
	if r.Counter("mut_roots_answers_judged_server_level") == 0 {
		r.Inconclusive("clientmut workloads: no roots/list answer was judged at all")
	}
	if r.Counter("life_shutdown_calls") == 0 || r.Counter("life_requests_answered_2xx") == 0 {
		r.Inconclusive("lifecycle workloads: no Start / Shutdown round served a request and reached the stop entry point")
	}
	if r.Counter("capflip_rounds_capability_changing_registration_overlapped_a_handshake") == 0 {
		r.Inconclusive("capflip workloads: no round in which a capability-changing registration overlapped an initialize handshake")
	}
	if !r.Quick() {
		suiteUnderRace(r, all, harnessOnly)
	}
	for pair, rs := range all {
		r.Violation("C20|"+pair, fmt.Sprintf("data race (%d reports): %s", len(rs), pair), map[string]interface{}{"reports": len(rs), "first_report": head(rs[0].Text)})
	}
	for pair, n := range harnessOnly {
		r.Inconclusive(fmt.Sprintf("race report without any library frame (harness or runtime): %s x%d", pair, n))
	}
	r.Count("distinct_race_pairs_in_library", int64(len(all)))
	r.Finish("race-detector build of the harness; per child one workload x GOMAXPROCS in {2,4,16}: servers (Streamable JSON / SSE, legacy SSE with 3 ms keep-alives, stdio) serving 6 sessions x 4 goroutines of calls while entries are registered and unregistered, notifications are sent and broadcast, roots requests are issued, listening streams (plain and resuming with Last-Event-ID while senders are pushing to the session) and sessions come and go, and handlers read and write the Session object they were handed; clients (Streamable JSON / SSE, legacy SSE, stdio) used from 6 calling goroutines while notification handlers and the roots provider change, state getters are read, the server pushes notifications, and TerminateSession / Close run with calls in flight; clients of the same four kinds holding a DefaultRootsProvider (clientmut:*, mutators.go) whose application goroutines AddRoot / RemoveRoot (unique URIs, no I/O or shared atomics in those goroutines), swap SetRootsProvider between the provider and two delegating wrappers, register / unregister notification handlers for the methods that are arriving, send roots/list_changed, read the getters (stdio: process info, RestartProcess every other round) while 4 goroutines x 12 calls make the server issue roots/list (tool rootsprobe returns the URIs ListRoots gave it) and the server pushes notifications, and server-side goroutines register / unregister notification handlers on all three server kinds, resource templates, resources lists, tools and read GetTools / GetTool / GetActiveSessions / SendFilteredNotification. Value oracle for roots snapshots (provider level: each GetRoots seen by the delegating wrapper; server level: each rootsprobe answer, window = around CallTool): no URI twice, only URIs whose AddRoot began before the answer was received, every URI whose AddRoot returned before the request was issued and whose RemoveRoot had not begun when the answer was received, no URI whose RemoveRoot returned before the request was issued (monotonic-clock stamps, 20 us slack counted as concurrent). Lifecycle entry points (lifecycle:*, lifecycle.go): per round a fresh SSEServer (plain / WithHTTPServer) or Server (WithServerAddress / WithCustomServer) on a free loopback port; goroutine A runs the blocking Start, goroutine B (PRNG-chosen 0-400 us delay, port found by a dial loop, no harness synchronisation after A) sends raw HTTP requests (handshake, tools/list, tools/call, optionally an open event stream) and calls the stop entry point (SSEServer.Shutdown; the caller-owned http.Server for WithCustomServer), goroutine C registers / unregisters tools and prompts and sends / broadcasts notifications throughout; schedules serve-shutdown, shutdown-at-once (before the listener is up, then again), shutdown-x2 (two concurrent), restart (Start after Shutdown, same object), two-starts; StdioServer.StartWithContext on the real stdin/stdout of its own race-built process with the context cancelled from another goroutine while tools are registered and a library client overlaps Close / Close x2 / RestartProcess with calls; one client object of each HTTP kind with Initialize | TerminateSession, Initialize | Close, Close | Close, TerminateSession | Close, TerminateSession x2 from different goroutines. Rounds are counted per (server kind x variant x schedule); a bind failure or watchdog expiry makes the round inconclusive; behavioural observations (Shutdown returned nil but the port still accepts, Start still blocked) are counted notes only. Capability set changing under handshakes (capflip:*, capflip.go): per round a fresh server with nothing registered (Streamable stateful JSON / SSE, stateless JSON / SSE, sessions disabled, legacy SSE, stdio over in-memory pipes); 8 connected raw sessions leave a spin barrier together and run initialize + notifications/initialized, then keep opening sessions and handshaking until the round ends, while the application goroutine registers the first and second prompt, the first resource (single / multi content), a resource template, the first tool, unregisters the last tool and registers it again, in a PRNG-chosen order paced by the number of handshakes begun; counted: registration calls during which a handshake was in flight, rounds in which a capability-changing registration overlapped a handshake, rounds whose sessions were told different capability sets (no value judgement on the advertised set: the statement promises none). Every 'WARNING: DATA RACE' block is parsed from the GORACE log; reports are de-duplicated by the pair of innermost library functions. Distinct = (workload, GOMAXPROCS) that completed; for clientmut additionally (kind, GOMAXPROCS) with at least one roots/list answer judged and (kind) with answers whose window overlapped an AddRoot / RemoveRoot call.",
		[]string{"the race detector only sees races on paths the workload drives and interleavings that occur", "reports without any library frame are harness/runtime noise and are listed as inconclusive", "roots value oracle: the process' monotonic clock orders an event that returned before another one began (stamps closer than 20 us are treated as concurrent)", "Server.SetMethodNameModifier is taken to be a set-up call (plain field write) and is not driven while serving", "lifecycle: two OVERLAPPING Start calls on a Server built WithCustomServer are not driven (both assign the caller's http.Server.Handler; starting one server object twice at the same time is taken to be outside 'one server used from many goroutines'); listeners the library offers no way to stop (http.ListenAndServe inside Start) live until the workload process ends", "lifecycle: the property speaks about data races only, so a Shutdown that returns nil while the listener keeps accepting is counted (life_note_*), not judged"})
}

func head(s string) string {
	if len(s) > 3000 {
		return s[:3000]
	}
	return s
}

// suiteUnderRace runs the repository's own e2e and root-package tests under the race detector (thorough tier):
// only the race reports are used, test verdicts are not.
func suiteUnderRace(r *vh.Run, all map[string][]racelog.Report, harnessOnly map[string]int) {
	logPrefix := filepath.Join(r.OutDir, "race", "repo-suite")
	old, _ := filepath.Glob(logPrefix + ".*")
	for _, f := range old {
		os.Remove(f)
	}
	cmd := exec.Command("go", "test", "-race", "-vet=off", "-count=1", "-timeout", "20m", ".", "./e2e/...")
	cmd.Dir = "/repo"
	cmd.Env = append(os.Environ(), "GORACE=halt_on_error=0 log_path="+logPrefix)
	out, err := cmd.CombinedOutput()
	if err != nil && len(out) == 0 {
		r.Inconclusive("repository suite under -race could not be run: " + err.Error())
		return
	}
	reps := racelog.ParseGlob(logPrefix)
	// reports printed to the test output instead of the log
	reps = append(reps, racelog.ParseText(string(out))...)
	for _, rp := range reps {
		if rp.InLib {
			all[rp.Pair] = append(all[rp.Pair], rp)
		} else {
			harnessOnly[rp.Pair]++
		}
	}
	r.Count("race_reports_repo_suite", int64(len(reps)))
	r.Eval(1)
	r.Distinct("repo-suite-under-race")
}
