package main

// A scripted stdio server for the client workload "client:stdio-scripted": it answers every request generically and,
// for every message it reads, issues several requests of its own (roots/list, sampling, an unknown method, ping) so
// that the client's reader goroutine keeps WRITING answers (results and method-not-found errors) while application
// goroutines write requests and notifications. After a configured number of messages it exits without notice, so the
// client's concurrent writers all run into a broken pipe at the same time.

import (
	"bufio"
	"context"
	"encoding/json"
	"fmt"
	"os"
	"strconv"
	"sync"
	"time"

	mcp "trpc.group/trpc-go/trpc-mcp-go"

	"verifharness/lib/kit"
)

func maybeScriptServer() {
	if os.Getenv("C20_SCRIPT_SERVER") == "" {
		return
	}
	dieAfter, _ := strconv.Atoi(os.Getenv("C20_SCRIPT_DIE_AFTER"))
	rd := bufio.NewReaderSize(os.Stdin, 1<<20)
	// the writer is a goroutine of its own behind an unbounded queue: the reader never waits for the client to
	// drain stdout, so the two pipes cannot deadlock against each other
	out := &outQueue{}
	out.cond = sync.NewCond(&out.mu)
	go out.run()
	w := out
	n, sid := 0, 0
	for {
		line, err := rd.ReadBytes('\n')
		if err != nil {
			os.Exit(0)
		}
		var m struct {
			ID     json.RawMessage `json:"id"`
			Method string          `json:"method"`
		}
		_ = json.Unmarshal(line, &m)
		if m.Method != "" && m.ID != nil {
			res := `{}`
			switch m.Method {
			case "initialize":
				res = `{"protocolVersion":"2025-03-26","capabilities":{"tools":{}},"serverInfo":{"name":"script","version":"1"}}`
			case "tools/list":
				res = `{"tools":[]}`
			case "tools/call":
				res = `{"content":[{"type":"text","text":"x"}]}`
			}
			fmt.Fprintf(w, `{"jsonrpc":"2.0","id":%s,"result":%s}`+"\n", m.ID, res)
		}
		if m.Method != "initialize" {
			for k := 0; k < 4; k++ {
				sid++
				method := []string{"roots/list", "sampling/createMessage", "x/unknown", "ping"}[sid%4]
				fmt.Fprintf(w, `{"jsonrpc":"2.0","id":%d,"method":"%s"}`+"\n", 900000+sid, method)
			}
		}
		n++
		if dieAfter > 0 && n >= dieAfter {
			os.Exit(0)
		}
	}
}

func scriptedStdioClientWorkload(iters int) {
	ctx, cancel := context.WithTimeout(context.Background(), 3*time.Minute)
	defer cancel()
	for round := 0; round < iters; round++ {
		die := []string{"0", "40", "150", "400"}[round%4]
		c, err := kit.NewStdioClient("", map[string]string{"C20_SCRIPT_SERVER": "1", "C20_SCRIPT_DIE_AFTER": die, "VH_CHILD": "c20-script"}, 5*time.Second)
		if err != nil {
			return
		}
		c.SetRootsProvider(mcp.NewDefaultRootsProvider(mcp.Root{URI: "file:///r", Name: "r"}))
		if _, err := c.Initialize(ctx, &mcp.InitializeRequest{}); err != nil {
			c.Close()
			continue
		}
		var wg sync.WaitGroup
		for g := 0; g < 6; g++ {
			wg.Add(1)
			go func(g int) {
				defer wg.Done()
				for j := 0; j < 25; j++ {
					cctx, cc := context.WithTimeout(ctx, 250*time.Millisecond)
					switch (g + j) % 3 {
					case 0:
						rq := &mcp.CallToolRequest{}
						rq.Params.Name = "x"
						guard(func() { c.CallTool(cctx, rq) })
					case 1:
						guard(func() { c.ListTools(cctx, &mcp.ListToolsRequest{}) })
					default:
						guard(func() { c.SendRootsListChangedNotification(cctx) })
					}
					cc()
					opsDone.Add(1)
				}
			}(g)
		}
		wg.Wait()
		guard(func() { c.Close() })
	}
}

type outQueue struct {
	mu   sync.Mutex
	cond *sync.Cond
	buf  []byte
}

func (q *outQueue) Write(p []byte) (int, error) {
	q.mu.Lock()
	q.buf = append(q.buf, p...)
	q.cond.Signal()
	q.mu.Unlock()
	return len(p), nil
}

func (q *outQueue) run() {
	for {
		q.mu.Lock()
		for len(q.buf) == 0 {
			q.cond.Wait()
		}
		b := q.buf
		q.buf = nil
		q.mu.Unlock()
		if _, err := os.Stdout.Write(b); err != nil {
			os.Exit(0)
		}
	}
}
