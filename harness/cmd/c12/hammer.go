// C12, hammer — high-rate mixed operations through every public entry point, on every server kind, to provoke the
// runtime's concurrent-map detector / the race detector, while entries that are registered throughout (and only ever
// RE-registered, through each entry point in turn) are listed, called, got, read and notified.
package main

import (
	"context"
	"fmt"
	"strings"
	"sync"
	"sync/atomic"
	"time"

	mcp "trpc.group/trpc-go/trpc-mcp-go"

	"verifharness/lib/kit"
	"verifharness/lib/vh"
)

const stableNotification = "notifications/stable"

func hammer(r *vh.Run, kind kit.Kind, iters int) {
	in := kit.Start(kind, kit.Opts{})
	defer in.Close()
	g := &rig{in: in, url: in.URL()}
	stableName := map[string]string{"tools": "stable", "prompts": "stable", "resources": "res://stable", "templates": "tpl-stable"}
	stableTags := map[string]map[string]bool{"tools": {"s": true}, "prompts": {"s": true}, "resources": {"s": true, "s" + multiSuffix: true}, "templates": {"s": true}}
	for _, rg := range []string{"tools", "prompts", "resources", "templates"} {
		g.register(op{Reg: rg, Name: stableName[rg], Tag: "s"})
	}
	var notified atomic.Int64
	onStable := func(ctx context.Context, n *mcp.JSONRPCNotification) error { notified.Add(1); return nil }
	g.registerNotification(stableNotification, onStable)

	stop := make(chan struct{})
	stopped := func() bool {
		select {
		case <-stop:
			return true
		default:
			return false
		}
	}
	var wg sync.WaitGroup
	var mutations atomic.Int64
	for w := 0; w < 4; w++ {
		wg.Add(1)
		go func(w int) {
			defer wg.Done()
			for i := 1; !stopped(); i++ {
				n := fmt.Sprintf("h-%d-%d", w, i%7)
				shared := fmt.Sprintf("h-shared-%d", i%5) // the mutators collide on these names, through different entry points
				g.register(op{Reg: "tools", Name: n, Tag: "x"})
				g.register(op{Reg: "tools", Name: shared, Tag: "x"})
				g.register(op{Reg: "prompts", Name: n, Tag: "x"})
				g.register(op{Reg: "prompts", Name: shared, Tag: "x"})
				g.register(op{Reg: "resources", Name: "res://" + n, Tag: withVia("x", []string{"single", "multi"}[i%2])})
				g.register(op{Reg: "resources", Name: "res://" + shared, Tag: withVia("x", []string{"single", "multi"}[(w+i/5)%2])})
				g.register(op{Reg: "templates", Name: n, Tag: "x"})
				g.register(op{Reg: "templates", Name: "res://" + shared, Tag: "x"})
				switch i % 3 {
				case 0:
					in.UnregisterTools(n)
				case 1:
					in.UnregisterTools("never-registered", n, shared, n)
				default:
					in.UnregisterTools(shared, "never-registered")
				}
				g.registerNotification("notifications/"+n, func(ctx context.Context, n *mcp.JSONRPCNotification) error { return nil })
				g.unregisterNotification("notifications/" + n)
				mutations.Add(1)
			}
		}(w)
	}
	// one goroutine keeps RE-registering the stable entries, through every entry point in turn: replacement must be
	// atomic, a call or list in between must never find them absent, twice, or answered by half of one handler
	wg.Add(1)
	go func() {
		defer wg.Done()
		for i := 0; !stopped(); i++ {
			g.register(op{Reg: "tools", Name: "stable", Tag: "s"})
			g.register(op{Reg: "prompts", Name: "stable", Tag: "s"})
			g.register(op{Reg: "resources", Name: "res://stable", Tag: withVia("s", []string{"single", "multi"}[i%2])})
			g.register(op{Reg: "templates", Name: "tpl-stable", Tag: "s"})
			g.registerNotification(stableNotification, onStable)
		}
	}()
	wire := []string{"tools", "prompts", "resources"}
	if hasTemplateList(kind) {
		wire = append(wire, "templates")
	}
	var sent, accepted atomic.Int64
	var cw sync.WaitGroup
	for w := 0; w < 6; w++ {
		cw.Add(1)
		go func(w int) {
			defer cw.Done()
			cl, err := dialW(in)
			if err != nil {
				r.Inconclusive(fmt.Sprintf("hammer on %s: a session could not be opened: %v", kind, err))
				return
			}
			defer cl.close()
			for i := 0; i < iters; i++ {
				for _, rg := range wire {
					st := stableName[rg]
					lres := cl.do(op{Reg: rg, Kind: "list"})
					switch {
					case lres.Transport != "":
						r.Inconclusive(fmt.Sprintf("hammer on %s: %s list: %s", kind, rg, lres.Transport))
					case lres.Err != "":
						r.Violation(fmt.Sprintf("C12|%s|%s|hammer|request-failed", kind, rg), fmt.Sprintf("%s: %s list failed: %s", kind, rg, lres.Err), nil)
					default:
						r.Eval(1)
						count := map[string]int{}
						stableOK := 0
						for _, it := range lres.Items {
							j := strings.Index(it, "=")
							count[it[:j]]++
							if it[:j] == st && stableTags[rg][it[j+1:]] {
								stableOK++
							}
						}
						for n, c := range count {
							if c > 1 {
								r.Violation(fmt.Sprintf("C12|%s|%s|hammer|duplicate-entry-in-list", kind, rg), fmt.Sprintf("%s: a %s list shows the entry %q %d times", kind, rg, n, c), map[string]interface{}{"entries": len(lres.Items)})
							}
						}
						if stableOK == 0 {
							r.Violation(fmt.Sprintf("C12|%s|%s|hammer|stable-entry-missing-from-list", kind, rg), fmt.Sprintf("%s: a %s list does not show (with one of its descriptors) an entry that is registered throughout (it is only ever re-registered)", kind, rg), map[string]interface{}{"list": capItems(lres.Items)})
						}
						r.Count("hammer_lists_judged", 1)
						r.Count("hammer_lists_judged|"+string(kind), 1)
					}
					if rg == "templates" {
						continue
					}
					res := cl.do(op{Reg: rg, Kind: "call", Name: st})
					if res.Transport != "" {
						r.Inconclusive(fmt.Sprintf("hammer on %s: %s call: %s", kind, rg, res.Transport))
					} else {
						r.Eval(1)
						if res.Err != "" || !res.OK || !stableTags[rg][res.Tag] {
							r.Violation(fmt.Sprintf("C12|%s|%s|hammer|stable-entry-call-failed", kind, rg), fmt.Sprintf("%s: a call to an entry registered throughout failed or returned another handler's value: %+v", kind, res), nil)
						} else if !oneHandler(rg, res) {
							r.Violation(fmt.Sprintf("C12|%s|%s|hammer|answer-put-together-from-two-handlers", kind, rg), fmt.Sprintf("%s: the answer for an entry that is re-registered through RegisterResource and RegisterResources in turn is not the answer of one of its handlers: %+v", kind, res), nil)
						}
						r.Count("hammer_calls_judged", 1)
					}
					if nres := cl.do(op{Reg: rg, Kind: "call", Name: "never-registered"}); nres.Transport == "" && nres.Err == "" && nres.OK {
						r.Violation(fmt.Sprintf("C12|%s|%s|hammer|never-registered-entry-served", kind, rg), fmt.Sprintf("%s: a call to a never-registered %s entry succeeded", kind, rg), nil)
					}
				}
				// the getters
				if t, ok := g.getTool("stable"); !ok || t.Name != "stable" || t.Description != "s" {
					r.Violation(fmt.Sprintf("C12|%s|tools|hammer|stable-entry-missing-from-GetTool", kind), fmt.Sprintf("%s: GetTool of a tool registered throughout = (%q, %q, %v)", kind, t.Name, t.Description, ok), nil)
				}
				n := 0
				seen := map[string]bool{}
				for _, t := range g.getTools() {
					if seen[t.Name] {
						r.Violation(fmt.Sprintf("C12|%s|tools|hammer|duplicate-entry-in-list-by-GetTools", kind), fmt.Sprintf("%s: GetTools shows %q twice", kind, t.Name), nil)
					}
					seen[t.Name] = true
					if t.Name == "stable" && t.Description == "s" {
						n++
					}
				}
				r.Eval(2)
				if n != 1 {
					r.Violation(fmt.Sprintf("C12|%s|tools|hammer|stable-entry-missing-from-GetTools", kind), fmt.Sprintf("%s: GetTools shows a tool registered throughout %d times", kind, n), nil)
				}
				// notification handlers: a volatile one and the one that is registered throughout
				cl.notify("notifications/h-0-1")
				sent.Add(1)
				if cl.notify(stableNotification) {
					accepted.Add(1)
				}
			}
		}(w)
	}
	cw.Wait()
	close(stop)
	wg.Wait()

	// At rest: the names the mutators collided on are there once, resources in an order that no later list changes.
	if cl, err := dialW(in); err == nil {
		for _, rg := range wire {
			a, b := cl.do(op{Reg: rg, Kind: "list"}), cl.do(op{Reg: rg, Kind: "list"})
			if a.Transport != "" || b.Transport != "" || a.Err != "" || b.Err != "" {
				continue
			}
			r.Eval(1)
			count := map[string]int{}
			for _, it := range a.Items {
				count[it[:strings.Index(it, "=")]]++
			}
			for n, c := range count {
				if c > 1 {
					r.Violation(fmt.Sprintf("C12|%s|%s|hammer|duplicate-entry-in-list", kind, rg), fmt.Sprintf("%s: at rest the %s list shows the entry %q %d times", kind, rg, n, c), map[string]interface{}{"entries": len(a.Items)})
				}
			}
			for i := 0; i < 5 && rg != "tools"; i++ { // (the tools of these names may have been unregistered last)
				n := fmt.Sprintf("h-shared-%d", i)
				if rg != "prompts" {
					n = "res://" + n
				}
				if count[n] == 0 && mutations.Load() >= 40 {
					r.Violation(fmt.Sprintf("C12|%s|%s|hammer|registered-entry-missing-from-list", kind, rg), fmt.Sprintf("%s: at rest the %s list lacks %q, which was registered many times and never unregistered", kind, rg, n), nil)
				}
			}
			same := multisetEq(a.Items, b.Items)
			if rg == "resources" {
				same = seqEq(a.Items, b.Items)
			}
			if !same {
				r.Violation(fmt.Sprintf("C12|%s|%s|hammer|two-lists-at-rest-differ", kind, rg), fmt.Sprintf("%s: two %s lists taken at rest differ", kind, rg), map[string]interface{}{"first": capItems(a.Items), "second": capItems(b.Items)})
			}
		}
		cl.close()
	}

	// The handler of notifications/stable is registered throughout. The Streamable server runs it before it answers
	// the POST, so every accepted notification has been handled by now; the legacy SSE and stdio servers start it in
	// a goroutine, which is given time — running out of it says nothing.
	want := accepted.Load()
	for dl := time.Now().Add(60 * time.Second); notified.Load() < want && time.Now().Before(dl) && kind != kit.SJSON && kind != kit.SSSE; {
		time.Sleep(5 * time.Millisecond)
	}
	r.Eval(1)
	switch got := notified.Load(); {
	case got == want:
		r.Count("hammer_notifications_handled_by_the_handler_registered_throughout", got)
	case got < want && (kind == kit.SJSON || kind == kit.SSSE):
		r.Violation(fmt.Sprintf("C12|%s|notification-handlers|hammer|stable-handler-not-invoked", kind), fmt.Sprintf("%s: %d notifications were accepted for a method whose handler is registered throughout (only ever re-registered), the handler ran %d times", kind, want, got), nil)
	case got < want:
		r.Inconclusive(fmt.Sprintf("hammer on %s: %d of %d notifications reached the handler within the watchdog", kind, got, want))
	case got <= sent.Load(): // a notification whose POST failed on the way back may have been handled all the same
		r.Count("hammer_notifications_handled_by_the_handler_registered_throughout", got)
	default:
		r.Violation(fmt.Sprintf("C12|%s|notification-handlers|hammer|handler-invoked-too-often", kind), fmt.Sprintf("%s: %d notifications were sent, the handler ran %d times", kind, sent.Load(), got), nil)
	}
	r.Count("hammer_mutator_iterations", mutations.Load())
	r.Count("hammer_notifications_sent", 2*sent.Load())
	r.Distinct("hammer|" + string(kind))
}
