// C12, entry points — every public way into the registries, on every server kind.
//
// The three server types (Server, SSEServer, StdioServer) each carry their own copies of the public registration
// methods, and several of them lead into the managers by a code path of their own:
//
//	tools      RegisterTool, UnregisterTools(one name), UnregisterTools(several names, absent / repeated ones included)
//	prompts    RegisterPrompt
//	resources  RegisterResource (one content), RegisterResources (several contents) — the same URI space
//	templates  RegisterResourceTemplate (listed by resources/templates/list; not served by the stdio server)
//	handlers   RegisterNotificationHandler / UnregisterNotificationHandler
//
// This file holds what the scenario families (histories, same-name rounds, hammer, filters) share to drive them:
// the registration side (rig), a wire client that works on all three server kinds (wconn) and the public getters.
//
// A registration is identified by its tag: the descriptor's description and every text the handler returns are the
// tag. For resources the tag also says which entry point was used: a tag ending in "-m" is registered through
// RegisterResources and its handler returns TWO contents, every other tag through RegisterResource (ONE content), so a
// read tells whether the answer came from one handler or was put together from two.
package main

import (
	"context"
	"encoding/json"
	"fmt"
	"strings"
	"time"

	mcp "trpc.group/trpc-go/trpc-mcp-go"

	"verifharness/lib/kit"
)

const multiSuffix = "-m"

func viaOf(tag string) string {
	if strings.HasSuffix(tag, multiSuffix) {
		return "multi"
	}
	return "single"
}

// withVia makes a tag that selects the given resource entry point.
func withVia(tag, via string) string {
	if via == "multi" {
		return tag + multiSuffix
	}
	return tag
}

// partsOf: how many contents the handler registered under this tag returns.
func partsOf(tag string) int {
	if viaOf(tag) == "multi" {
		return 2
	}
	return 1
}

type rig struct {
	in  *kit.Instance
	url string
}

func (g *rig) register(o op) {
	tag, name := o.Tag, o.Name
	switch o.Reg {
	case "tools":
		g.in.RegisterTool(mcp.NewTool(name, mcp.WithDescription(tag)), func(ctx context.Context, req *mcp.CallToolRequest) (*mcp.CallToolResult, error) {
			return mcp.NewTextResult(tag), nil
		})
	case "prompts":
		g.in.RegisterPrompt(&mcp.Prompt{Name: name, Description: tag}, func(ctx context.Context, req *mcp.GetPromptRequest) (*mcp.GetPromptResult, error) {
			return &mcp.GetPromptResult{Description: tag, Messages: []mcp.PromptMessage{{Role: mcp.RoleUser, Content: mcp.NewTextContent(tag)}}}, nil
		})
	case "resources":
		if viaOf(tag) == "multi" {
			g.in.RegisterResources(&mcp.Resource{URI: name, Name: name, Description: tag}, func(ctx context.Context, req *mcp.ReadResourceRequest) ([]mcp.ResourceContents, error) {
				return []mcp.ResourceContents{mcp.TextResourceContents{URI: name, Text: tag}, mcp.TextResourceContents{URI: name + "#2", Text: tag}}, nil
			})
			return
		}
		g.in.RegisterResource(&mcp.Resource{URI: name, Name: name, Description: tag}, func(ctx context.Context, req *mcp.ReadResourceRequest) (mcp.ResourceContents, error) {
			return mcp.TextResourceContents{URI: name, Text: tag}, nil
		})
	case "templates":
		g.registerTemplate(name, tag)
	}
}

func templateURI(name string) string {
	var b strings.Builder
	for _, c := range name {
		switch {
		case c >= 'a' && c <= 'z', c >= 'A' && c <= 'Z', c >= '0' && c <= '9', c == '-':
			b.WriteRune(c)
		default:
			b.WriteByte('-')
		}
	}
	return "tpl://" + b.String() + "/{id}"
}

// registerTemplate: RegisterResourceTemplate is not wrapped by the kit.
func (g *rig) registerTemplate(name, tag string) {
	t := mcp.NewResourceTemplate(templateURI(name), name, mcp.WithTemplateDescription(tag))
	h := func(ctx context.Context, req *mcp.ReadResourceRequest) ([]mcp.ResourceContents, error) {
		return []mcp.ResourceContents{mcp.TextResourceContents{URI: req.Params.URI, Text: tag}}, nil
	}
	switch {
	case g.in.Server != nil:
		g.in.Server.RegisterResourceTemplate(t, h)
	case g.in.SSE != nil:
		g.in.SSE.RegisterResourceTemplate(t, h)
	case g.in.Stdio != nil:
		g.in.Stdio.RegisterResourceTemplate(t, h)
	}
}

func (g *rig) registerNotification(method string, h mcp.ServerNotificationHandler) {
	switch {
	case g.in.Server != nil:
		g.in.Server.RegisterNotificationHandler(method, h)
	case g.in.SSE != nil:
		g.in.SSE.RegisterNotificationHandler(method, h)
	case g.in.Stdio != nil:
		g.in.Stdio.RegisterNotificationHandler(method, h)
	}
}

func (g *rig) unregisterNotification(method string) {
	switch {
	case g.in.Server != nil:
		g.in.Server.UnregisterNotificationHandler(method)
	case g.in.SSE != nil:
		g.in.SSE.UnregisterNotificationHandler(method)
	case g.in.Stdio != nil:
		g.in.Stdio.UnregisterNotificationHandler(method)
	}
}

func (g *rig) getTools() []mcp.Tool {
	switch {
	case g.in.Server != nil:
		return g.in.Server.GetTools()
	case g.in.SSE != nil:
		return g.in.SSE.GetTools()
	default:
		return g.in.Stdio.GetTools()
	}
}

func (g *rig) getTool(n string) (mcp.Tool, bool) {
	switch {
	case g.in.Server != nil:
		return g.in.Server.GetTool(n)
	case g.in.SSE != nil:
		return g.in.SSE.GetTool(n)
	default:
		return g.in.Stdio.GetTool(n)
	}
}

// hasTemplateList: the stdio server does not serve resources/templates/list.
func hasTemplateList(k kit.Kind) bool { return k != kit.Stdio }

// ---- wire client for all server kinds -------------------------------------------------------------------------

const rpcWatchdog = 120 * time.Second

type wconn struct {
	c *kit.RawConn
	n int
}

func dialW(in *kit.Instance) (*wconn, error) {
	ctx := context.Background() // the legacy event stream lives as long as the context it was dialled with
	c, err := in.Dial(ctx)
	if err != nil {
		return nil, err
	}
	if err := c.Handshake(ctx); err != nil {
		c.Close()
		return nil, err
	}
	return &wconn{c: c}, nil
}

func (w *wconn) close() { w.c.Close() }

// rpc: transport != "" means nothing can be said (no answer within the watchdog, connection trouble); failed != ""
// means the server answered with something that is no JSON-RPC answer to the request.
func (w *wconn) rpc(method, params string) (frame map[string]json.RawMessage, transport, failed string) {
	w.n++
	id := fmt.Sprintf(`"w-%d"`, w.n)
	body := fmt.Sprintf(`{"jsonrpc":"2.0","id":%s,"method":%q,"params":%s}`, id, method, params)
	ex := w.c.Post(context.Background(), []byte(body), kit.PostOpts{WantID: id, Wait: rpcWatchdog})
	if ex.TimedOut {
		return nil, "no answer within the watchdog", ""
	}
	if ex.HTTP != nil && ex.HTTP.Err != "" {
		return nil, "transport: " + ex.HTTP.Err, ""
	}
	for _, fr := range ex.Frames {
		var m map[string]json.RawMessage
		if json.Unmarshal([]byte(fr), &m) == nil && kit.CanonID(m["id"]) == id {
			frame = m
		}
	}
	if frame == nil {
		st := 0
		if ex.HTTP != nil {
			st = ex.HTTP.Status
		}
		return nil, "", fmt.Sprintf("no frame answers the %s request (HTTP status %d, %d frames)", method, st, len(ex.Frames))
	}
	return frame, "", ""
}

// notify sends a notification; true = the transport accepted it.
func (w *wconn) notify(method string) bool { return w.notifyP(method, "{}") }

func (w *wconn) notifyP(method, params string) bool {
	ex := w.c.Post(context.Background(), []byte(fmt.Sprintf(`{"jsonrpc":"2.0","method":%q,"params":%s}`, method, params)), kit.PostOpts{NoWait: true})
	if ex.HTTP != nil {
		return ex.HTTP.Err == "" && ex.HTTP.Status >= 200 && ex.HTTP.Status < 300
	}
	return true // stdio: written to the server's stdin
}

func listMethod(reg string) (method, field, nameKey string) {
	switch reg {
	case "prompts":
		return "prompts/list", "prompts", "name"
	case "resources":
		return "resources/list", "resources", "uri"
	case "templates":
		return "resources/templates/list", "resourceTemplates", "name"
	}
	return "tools/list", "tools", "name"
}

func (w *wconn) do(o op) out {
	switch o.Kind {
	case "list":
		method, field, nameKey := listMethod(o.Reg)
		m, tr, failed := w.rpc(method, "{}")
		if tr != "" {
			return out{Transport: tr}
		}
		if failed != "" {
			return out{Err: failed}
		}
		var res map[string]json.RawMessage
		if json.Unmarshal(m["result"], &res) != nil {
			return out{Err: "no result: " + string(m["error"])}
		}
		var items []map[string]interface{}
		if err := json.Unmarshal(res[field], &items); err != nil {
			return out{Err: "list field: " + err.Error()}
		}
		o2 := out{OK: true}
		for _, it := range items {
			n, _ := it[nameKey].(string)
			d, _ := it["description"].(string)
			o2.Items = append(o2.Items, n+"="+d)
		}
		return o2
	case "call":
		var m map[string]json.RawMessage
		var tr, failed string
		switch o.Reg {
		case "tools":
			m, tr, failed = w.rpc("tools/call", fmt.Sprintf(`{"name":%q,"arguments":{}}`, o.Name))
		case "prompts":
			m, tr, failed = w.rpc("prompts/get", fmt.Sprintf(`{"name":%q}`, o.Name))
		default:
			m, tr, failed = w.rpc("resources/read", fmt.Sprintf(`{"uri":%q}`, o.Name))
		}
		if tr != "" {
			return out{Transport: tr}
		}
		if failed != "" {
			return out{Err: failed}
		}
		if m["error"] != nil {
			return out{OK: false}
		}
		if len(m["result"]) == 0 {
			return out{Err: "empty result"}
		}
		var any interface{}
		json.Unmarshal(m["result"], &any)
		var texts []string
		collectTexts(any, &texts)
		o2 := out{OK: true}
		if len(texts) == 0 {
			return out{Err: "the result carries no text: " + head(string(m["result"]))}
		}
		o2.Tag = texts[0]
		for _, t := range texts {
			if t != o2.Tag {
				o2.Mixed = true
			}
		}
		if o.Reg == "resources" {
			if res, ok := any.(map[string]interface{}); ok {
				if cs, ok := res["contents"].([]interface{}); ok {
					o2.Parts = len(cs)
				}
			}
		}
		return o2
	}
	return out{}
}

// collectTexts gathers what the handler wrote into the answer: every "text" and "description" string.
func collectTexts(v interface{}, acc *[]string) {
	switch x := v.(type) {
	case map[string]interface{}:
		for _, k := range []string{"description", "text"} {
			if t, ok := x[k].(string); ok {
				*acc = append(*acc, t)
			}
		}
		for k, e := range x {
			if k != "description" && k != "text" {
				collectTexts(e, acc)
			}
		}
	case []interface{}:
		for _, e := range x {
			collectTexts(e, acc)
		}
	}
}

// oneHandler: does a successful call / get / read look like the answer of exactly one registered handler?
func oneHandler(reg string, res out) bool {
	if res.Mixed {
		return false
	}
	if reg == "resources" && res.Parts != partsOf(res.Tag) {
		return false
	}
	return true
}
