// C12, list filters — user code that receives registry data and legally modifies what it was handed.
//
// The registries hand a slice of descriptor pointers to the list filters (WithToolListFilter / WithPromptListFilter /
// WithResourceListFilter and the WithSSE* variants) and descriptor copies to the callers of GetTools / GetTool. A
// filter may do with its argument what filters do: filter it in place (out := in[:0]), clear the tail, sort, reverse,
// rotate, truncate, nil entries out, delete with the append idiom, append / prepend an entry. Whatever one request's
// filter did, the statement still promises every other list "exactly the set of entries that existed at some instant
// during the request, no torn, duplicated or phantom entry, resources in registration order".
//
// Oracle. Each registry has ONE writer goroutine, so its mutation history is a sequence of states S_0, S_1, ...; every
// mutation k is stamped with a logical clock before it is started (call_k) and after it returned (ret_k), every list
// with the clock before it is sent (s) and after its answer arrived (e). The list must be  style(S_k)  for some k with
// ret_k < s (or k = 0)  up to  the last k with call_k < e, where style is the caller's filter applied by the harness to
// a private copy of S_k (resources as a sequence, tools / prompts as a multiset because their listing order is not
// promised). For a caller the filter admits fully (role admin, GetTools) style is the identity.
// Descriptor FIELD mutation through the pointers the filter is handed is not promised to be isolated (the registry
// hands out its own descriptors): it is exercised in a sequential phase of its own, the names / order of the following
// lists are judged, the leaked field values are counted only.
package main

import (
	"context"
	"encoding/json"
	"fmt"
	"math/rand"
	"net/http"
	"runtime"
	"sort"
	"strings"
	"sync"
	"sync/atomic"
	"time"

	mcp "trpc.group/trpc-go/trpc-mcp-go"

	"verifharness/lib/kit"
	"verifharness/lib/vh"
)

type roleKey struct{}

func roleFromRequest(ctx context.Context, r *http.Request) context.Context {
	return context.WithValue(ctx, roleKey{}, r.Header.Get("X-Role"))
}

func isPub(n string) bool { return strings.HasPrefix(n, "pub") }

const filterExtra = "pub-filter-extra"

// sliceStyles are the roles whose filter modifies (or, for the control "alloc", only reads) the slice it is handed.
var sliceStyles = []string{"alloc", "inplace", "inplace-clear", "sort", "reverse", "rotate", "truncate", "nilout", "append", "prepend", "delete"}

// applyStyle is the filter body, generic so that the very same code is run by the library on descriptor pointers and
// by the oracle on a private copy of a model state. Entries may be nil only when somebody else's nil-ing filter leaked
// into this call; the filter tolerates that like a defensive real filter would (a nil is "not public", name "").
func applyStyle[T any](role string, in []*T, name func(*T) string, blank func(*T), mk func(string) *T) []*T {
	nm := func(e *T) string {
		if e == nil {
			return ""
		}
		return name(e)
	}
	switch role {
	case "alloc": // control: the result is freshly allocated, the argument is only read
		out := make([]*T, 0, len(in))
		for _, e := range in {
			if isPub(nm(e)) {
				out = append(out, e)
			}
		}
		return out
	case "inplace": // filtering without allocating
		out := in[:0]
		for _, e := range in {
			if isPub(nm(e)) {
				out = append(out, e)
			}
		}
		return out
	case "inplace-clear": // ... and clearing the tail so that the dropped descriptors can be collected
		out := in[:0]
		for _, e := range in {
			if isPub(nm(e)) {
				out = append(out, e)
			}
		}
		for i := len(out); i < len(in); i++ {
			in[i] = nil
		}
		return out
	case "sort":
		sort.SliceStable(in, func(i, j int) bool { return nm(in[i]) > nm(in[j]) })
		return in
	case "reverse":
		for i, j := 0, len(in)-1; i < j; i, j = i+1, j-1 {
			in[i], in[j] = in[j], in[i]
		}
		return in
	case "rotate":
		if len(in) > 1 {
			first := in[0]
			copy(in, in[1:])
			in[len(in)-1] = first
		}
		return in
	case "truncate":
		k := len(in) / 2
		for i := k; i < len(in); i++ {
			in[i] = nil
		}
		return in[:k]
	case "nilout":
		for i, e := range in {
			if !isPub(nm(e)) {
				in[i] = nil
			}
		}
		return in
	case "append":
		return append(in, mk(filterExtra))
	case "prepend":
		in = append(in, nil)
		copy(in[1:], in)
		in[0] = mk(filterExtra)
		return in
	case "delete":
		for i := 0; i < len(in); {
			if !isPub(nm(in[i])) {
				in = append(in[:i], in[i+1:]...)
			} else {
				i++
			}
		}
		return in
	case "blank": // descriptor FIELD mutation through the pointers (only used in the sequential field phase)
		for _, e := range in {
			if e != nil && !isPub(nm(e)) {
				blank(e)
			}
		}
		return in
	}
	return in // admin and everybody unknown: admitted fully, argument returned untouched
}

type filterStat struct{ calls, rewrote, sawNil atomic.Int64 }

var filterStats sync.Map // role -> *filterStat

func statOf(role string) *filterStat {
	if v, ok := filterStats.Load(role); ok {
		return v.(*filterStat)
	}
	v, _ := filterStats.LoadOrStore(role, &filterStat{})
	return v.(*filterStat)
}

// observed runs a filter and notes whether it rewrote the storage it was handed.
func observed[T any](role string, in []*T, f func() []*T) []*T {
	st := statOf(role)
	st.calls.Add(1)
	orig := append([]*T(nil), in...)
	for _, e := range orig {
		if e == nil {
			st.sawNil.Add(1)
			break
		}
	}
	out := f()
	for i := range orig {
		if in[i] != orig[i] {
			st.rewrote.Add(1)
			break
		}
	}
	return out
}

func toolFilter(ctx context.Context, in []*mcp.Tool) []*mcp.Tool {
	role, _ := ctx.Value(roleKey{}).(string)
	return observed(role, in, func() []*mcp.Tool {
		return applyStyle(role, in, func(t *mcp.Tool) string { return t.Name }, func(t *mcp.Tool) { t.Description = "" },
			func(n string) *mcp.Tool { return mcp.NewTool(n, mcp.WithDescription("extra")) })
	})
}

func promptFilter(ctx context.Context, in []*mcp.Prompt) []*mcp.Prompt {
	role, _ := ctx.Value(roleKey{}).(string)
	return observed(role, in, func() []*mcp.Prompt {
		return applyStyle(role, in, func(p *mcp.Prompt) string { return p.Name }, func(p *mcp.Prompt) { p.Description = "" },
			func(n string) *mcp.Prompt { return &mcp.Prompt{Name: n, Description: "extra"} })
	})
}

func resourceFilter(ctx context.Context, in []*mcp.Resource) []*mcp.Resource {
	role, _ := ctx.Value(roleKey{}).(string)
	return observed(role, in, func() []*mcp.Resource {
		return applyStyle(role, in, func(p *mcp.Resource) string { return p.URI }, func(p *mcp.Resource) { p.Description = "" },
			func(n string) *mcp.Resource { return &mcp.Resource{URI: n, Name: n, Description: "extra"} })
	})
}

// ---- model ----------------------------------------------------------------------------------------------------

type mitem struct{ Name, Desc string }

func render(st []*mitem) []string {
	out := make([]string, len(st))
	for i, e := range st {
		if e == nil {
			out[i] = "=" // the library encodes a nil pointer as a zero descriptor
		} else {
			out[i] = e.Name + "=" + e.Desc
		}
	}
	return out
}

// expect applies the role's filter to a private copy of a state.
func expect(role string, st []mitem) []string {
	ptrs := make([]*mitem, len(st))
	for i := range st {
		c := st[i]
		ptrs[i] = &c
	}
	return render(applyStyle(role, ptrs, func(e *mitem) string { return e.Name }, func(e *mitem) { e.Desc = "" },
		func(n string) *mitem { return &mitem{n, "extra"} }))
}

var fclk atomic.Int64 // logical clock shared by writers and readers

type regModel struct {
	reg     string
	ordered bool
	mu      sync.Mutex
	seq     int       // next fresh name number (touched by the registry's one writer only)
	states  [][]mitem // states[k] = registry after mutation k (states[0] = empty)
	call    []int64   // call[k], ret[k] for k >= 1 (index 0 unused)
	ret     []int64
}

func newRegModel(reg string) *regModel {
	return &regModel{reg: reg, ordered: reg == "resources", states: [][]mitem{nil}, call: []int64{0}, ret: []int64{0}}
}

func (m *regModel) last() []mitem {
	m.mu.Lock()
	defer m.mu.Unlock()
	return m.states[len(m.states)-1]
}

func (m *regModel) begin(next []mitem) int {
	m.mu.Lock()
	defer m.mu.Unlock()
	m.states = append(m.states, next)
	m.call = append(m.call, fclk.Add(1))
	m.ret = append(m.ret, 0)
	return len(m.states) - 1
}

func (m *regModel) end(k int) {
	m.mu.Lock()
	m.ret[k] = fclk.Add(1)
	m.mu.Unlock()
}

// window returns the states a read during [s, e] may show.
func (m *regModel) window(s, e int64) [][]mitem {
	m.mu.Lock()
	defer m.mu.Unlock()
	lo, hi := 0, 0
	for k := 1; k < len(m.states); k++ {
		if m.ret[k] != 0 && m.ret[k] < s {
			lo = k
		}
		if m.call[k] < e {
			hi = k
		}
	}
	if hi < lo {
		hi = lo
	}
	return m.states[lo : hi+1]
}

func multisetEq(a, b []string) bool {
	if len(a) != len(b) {
		return false
	}
	c := map[string]int{}
	for _, x := range a {
		c[x]++
	}
	for _, x := range b {
		c[x]--
		if c[x] < 0 {
			return false
		}
	}
	return true
}

func seqEq(a, b []string) bool {
	if len(a) != len(b) {
		return false
	}
	for i := range a {
		if a[i] != b[i] {
			return false
		}
	}
	return true
}

// matches: is got what the role's filter makes of state st?
func matches(role string, got []string, st []mitem, ordered bool) bool {
	exp := expect(role, st)
	if ordered {
		return seqEq(got, exp)
	}
	if role == "truncate" { // which half survives depends on the (unpromised) listing order
		if len(got) != len(exp) {
			return false
		}
		have := map[string]bool{}
		for _, it := range st {
			have[it.Name+"="+it.Desc] = true
		}
		seen := map[string]bool{}
		for _, x := range got {
			if !have[x] || seen[x] {
				return false
			}
			seen[x] = true
		}
		return true
	}
	return multisetEq(got, exp)
}

func namesOf(items []string) []string {
	out := make([]string, len(items))
	for i, it := range items {
		if j := strings.Index(it, "="); j >= 0 {
			out[i] = it[:j]
		} else {
			out[i] = it
		}
	}
	return out
}

// symptom names what is wrong with a full (identity-filtered) view.
func symptom(got []string, cands [][]mitem, ordered bool) string {
	gn := namesOf(got)
	cnt := map[string]int{}
	for _, n := range gn {
		cnt[n]++
	}
	for n, c := range cnt {
		if c > 1 && n != "" {
			return "duplicate-entry"
		}
	}
	known := map[string]bool{}
	always := map[string]int{}
	for _, st := range cands {
		for _, it := range st {
			known[it.Name] = true
			always[it.Name]++
		}
	}
	for _, n := range gn {
		if !known[n] {
			return "phantom-entry"
		}
	}
	for n, c := range always {
		if c == len(cands) && cnt[n] == 0 {
			return "missing-entry"
		}
	}
	for _, st := range cands {
		sn := make([]string, len(st))
		for i, it := range st {
			sn[i] = it.Name
		}
		if multisetEq(gn, sn) {
			if ordered && !seqEq(gn, sn) {
				return "wrong-order"
			}
			return "wrong-descriptor"
		}
	}
	return "not-a-registered-set"
}

// ---- rig ------------------------------------------------------------------------------------------------------

var fregs = []string{"tools", "prompts", "resources"}

type frig struct {
	r      *vh.Run
	kind   kit.Kind
	in     *kit.Instance
	g      *rig
	models map[string]*regModel
	tagN   atomic.Int64
	lists  atomic.Int64 // lists answered so far (pacing of the writers)
	gave   atomic.Bool  // a sample was given
}

func freshName(reg string, pub bool, n int) string {
	p := "prv"
	if pub {
		p = "pub"
	}
	switch reg {
	case "tools":
		return fmt.Sprintf("%s-t%03d", p, n)
	case "prompts":
		return fmt.Sprintf("%s-p%03d", p, n)
	}
	return fmt.Sprintf("%s://r%03d", p, n)
}

// register (new name or replacement) — only ever called by the registry's one writer.
func (f *frig) register(reg, name string) {
	m := f.models[reg]
	cur := m.last()
	tn := f.tagN.Add(1)
	tag := fmt.Sprintf("v%d", tn)
	if reg == "resources" && tn%3 != 0 { // RegisterResources and RegisterResource in turn (entry.go: the tag decides)
		tag = withVia(tag, "multi")
		f.r.Count("filter_registrations_through_RegisterResources", 1)
	}
	next := make([]mitem, 0, len(cur)+1)
	found := false
	for _, it := range cur {
		if it.Name == name {
			it.Desc = tag
			found = true
		}
		next = append(next, it)
	}
	if !found {
		next = append(next, mitem{name, tag})
	}
	k := m.begin(next)
	f.g.register(op{Reg: reg, Kind: "reg", Name: name, Tag: tag})
	m.end(k)
	f.r.Count("filter_registrations", 1)
}

func (f *frig) registerFresh(reg string, pub bool) {
	m := f.models[reg]
	m.seq++
	f.register(reg, freshName(reg, pub, m.seq))
}

func (f *frig) unregisterTool(name string) {
	m := f.models["tools"]
	cur := m.last()
	next := make([]mitem, 0, len(cur))
	for _, it := range cur {
		if it.Name != name {
			next = append(next, it)
		}
	}
	k := m.begin(next)
	if len(next)%2 == 0 {
		f.in.UnregisterTools(name)
	} else { // several names in one call: a repeated one and one that was never registered
		f.in.UnregisterTools("never-registered", name, name)
	}
	m.end(k)
	f.r.Count("filter_unregistrations", 1)
}

// mutate performs one seeded writer step on a registry.
func (f *frig) mutate(reg string, rng *rand.Rand) {
	cur := f.models[reg].last()
	x := rng.Intn(10)
	switch {
	case x < 5 || len(cur) < 3:
		f.registerFresh(reg, rng.Intn(2) == 0)
	case x < 8 || reg != "tools":
		f.register(reg, cur[rng.Intn(len(cur))].Name) // replacement keeps the place in the order
	default:
		f.unregisterTool(cur[rng.Intn(len(cur))].Name)
	}
}

type fconn struct {
	c    *kit.RawConn
	role string
	n    int
}

func (f *frig) dial(role string) (*fconn, error) {
	ctx := context.Background() // the legacy event stream lives as long as the context it was dialled with
	c, err := f.in.Dial(ctx)
	if err != nil {
		return nil, err
	}
	c.Headers["X-Role"] = role
	if err := c.Handshake(ctx); err != nil {
		c.Close()
		return nil, err
	}
	return &fconn{c: c, role: role}, nil
}

type listAnswer struct {
	items     []string
	transport string // transport trouble / watchdog: not judged
	failed    string // the server answered, but not with a list
}

func (fc *fconn) list(reg string) listAnswer {
	method, field, nameKey := "tools/list", "tools", "name"
	switch reg {
	case "prompts":
		method, field = "prompts/list", "prompts"
	case "resources":
		method, field, nameKey = "resources/list", "resources", "uri"
	}
	fc.n++
	id := fmt.Sprintf(`"f-%s-%d"`, fc.role, fc.n)
	body := fmt.Sprintf(`{"jsonrpc":"2.0","id":%s,"method":%q,"params":{}}`, id, method)
	ex := fc.c.Post(context.Background(), []byte(body), kit.PostOpts{WantID: id, Wait: 120 * time.Second})
	if ex.TimedOut {
		return listAnswer{transport: "no answer within the watchdog"}
	}
	if ex.HTTP != nil && ex.HTTP.Err != "" {
		return listAnswer{transport: "transport: " + ex.HTTP.Err}
	}
	var frame map[string]json.RawMessage
	for _, fr := range ex.Frames {
		var m map[string]json.RawMessage
		if json.Unmarshal([]byte(fr), &m) == nil && kit.CanonID(m["id"]) == id {
			frame = m
		}
	}
	if frame == nil {
		st := 0
		if ex.HTTP != nil {
			st = ex.HTTP.Status
		}
		return listAnswer{failed: fmt.Sprintf("no frame answers the list request (HTTP status %d, %d frames)", st, len(ex.Frames))}
	}
	if frame["error"] != nil {
		return listAnswer{failed: "error answer: " + string(frame["error"])}
	}
	var res map[string]json.RawMessage
	if json.Unmarshal(frame["result"], &res) != nil {
		return listAnswer{failed: "result is no object: " + string(frame["result"])}
	}
	var entries []map[string]interface{}
	if err := json.Unmarshal(res[field], &entries); err != nil {
		return listAnswer{failed: "result." + field + " is no array: " + string(res[field])}
	}
	a := listAnswer{items: []string{}}
	for _, it := range entries {
		n, _ := it[nameKey].(string)
		d, _ := it["description"].(string)
		a.items = append(a.items, n+"="+d)
	}
	return a
}

func capStates(c [][]mitem) interface{} {
	var out [][]string
	for i, st := range c {
		if i >= 4 {
			break
		}
		row := make([]string, len(st))
		for j, it := range st {
			row[j] = it.Name + "=" + it.Desc
		}
		out = append(out, row)
	}
	return out
}

// judge one full-or-filtered view taken during [s, e].
func (f *frig) judge(phase, reg, role, src string, s, e int64, got []string) {
	m := f.models[reg]
	cands := m.window(s, e)
	f.r.Eval(1)
	f.r.Count("filter_views_evaluated", 1)
	for _, st := range cands {
		if matches(role, got, st, m.ordered) {
			f.r.Count("filter_views_judged", 1)
			f.r.Count("filter_views_judged_"+src, 1)
			if role != "admin" && !matches("admin", got, st, m.ordered) {
				f.r.Count("filter_views_differing_from_the_full_view", 1)
			}
			if len(cands) > 1 {
				f.r.Count("filter_views_overlapping_a_mutation", 1)
			}
			f.r.Max("filter_max_entries_in_a_view", int64(len(got)))
			f.r.Distinct(fmt.Sprintf("filter|%s|%s|%s|%s", f.kind, reg, role, phase))
			return
		}
	}
	who, sym := "filtered", "not-the-filter-of-a-registered-set"
	if role == "admin" {
		who, sym = src, symptom(got, cands, m.ordered)
		if src == "list" {
			who = "full-view"
		}
	}
	what := fmt.Sprintf("%s: a %s %s for a caller the filter admits fully is not the registered set (%s) after / while other callers' list filters modified the slices they were handed", f.kind, reg, src, sym)
	if role != "admin" {
		what = fmt.Sprintf("%s: the %s list of a caller whose filter is %q is not that filter applied to any set of entries that existed during the request", f.kind, reg, role)
	}
	f.r.Violation(fmt.Sprintf("C12|filter|%s|%s|%s|%s|%s", f.kind, reg, phase, who, sym), what,
		map[string]interface{}{"role": role, "got": got, "admissible_states_first4": capStates(cands), "admissible_states": len(cands), "expected_of_last": expect(role, cands[len(cands)-1])})
}

func (f *frig) listAndJudge(phase, reg string, fc *fconn) []string {
	s := fclk.Add(1)
	a := fc.list(reg)
	e := fclk.Add(1)
	f.lists.Add(1)
	switch {
	case a.transport != "":
		f.r.Inconclusive(fmt.Sprintf("filter scenario %s: %s list as %s: %s", f.kind, reg, fc.role, a.transport))
	case a.failed != "":
		f.r.Eval(1)
		f.r.Violation(fmt.Sprintf("C12|filter|%s|%s|%s|list-request-failed", f.kind, reg, phase), fmt.Sprintf("%s: a %s list (caller role %q) was not answered with a list: %s", f.kind, reg, fc.role, a.failed), nil)
	default:
		f.judge(phase, reg, fc.role, "list", s, e, a.items)
		return a.items
	}
	return nil
}

func capItems(it []string) []string {
	if len(it) > 8 {
		return append(append([]string{}, it[:8]...), fmt.Sprintf("... %d more", len(it)-8))
	}
	return it
}

func (f *frig) getTools() []mcp.Tool {
	if f.in.SSE != nil {
		return f.in.SSE.GetTools()
	}
	return f.in.Server.GetTools()
}

func (f *frig) getTool(n string) (mcp.Tool, bool) {
	if f.in.SSE != nil {
		return f.in.SSE.GetTool(n)
	}
	return f.in.Server.GetTool(n)
}

// snapshot takes the server-side view through the public getters, judges it, and then does to the returned copies
// what a caller may do to copies: reorder, overwrite, rename, truncate.
func (f *frig) snapshot(phase string, rng *rand.Rand) {
	s := fclk.Add(1)
	ts := f.getTools()
	e := fclk.Add(1)
	got := make([]string, len(ts))
	for i, t := range ts {
		got[i] = t.Name + "=" + t.Description
	}
	f.judge(phase, "tools", "admin", "GetTools", s, e, got)
	if len(ts) > 0 {
		sort.Slice(ts, func(i, j int) bool { return ts[i].Name > ts[j].Name })
		i := rng.Intn(len(ts))
		probe := ts[i].Name
		ts[i].Name = "phantom-from-getter"
		ts[i].Description = "scribbled"
		ts[rng.Intn(len(ts))] = mcp.Tool{}
		ts = append(ts[:0], ts[len(ts)/2:]...)
		_ = ts
		f.r.Count("filter_getter_copies_modified", 1)
		// single descriptor getter
		s = fclk.Add(1)
		t, ok := f.getTool(probe)
		e = fclk.Add(1)
		f.r.Eval(1)
		fits := false
		cands := f.models["tools"].window(s, e)
		for _, st := range cands {
			present := false
			for _, it := range st {
				if it.Name == probe {
					present = true
					if ok && t.Name == probe && t.Description == it.Desc {
						fits = true
					}
				}
			}
			if !present && !ok {
				fits = true
			}
		}
		if !fits {
			f.r.Violation(fmt.Sprintf("C12|filter|%s|tools|%s|GetTool|wrong-descriptor", f.kind, phase), fmt.Sprintf("%s: GetTool(%q) = (%q, %q, %v) fits no state of the tool registry during the call", f.kind, probe, t.Name, t.Description, ok),
				map[string]interface{}{"admissible_states_first4": capStates(cands)})
		} else {
			f.r.Count("filter_views_judged_GetTool", 1)
		}
		t.Name, t.Description = "phantom-from-getter", "scribbled"
	}
}

// filterRun: one server with role-dependent, argument-modifying list filters on all three registries.
func filterRun(r *vh.Run, kind kit.Kind, idx int, race bool) {
	rng := r.Rand(fmt.Sprintf("c12-filter-%s-%d", kind, idx))
	opts := kit.Opts{
		ServerOpts: []mcp.ServerOption{mcp.WithHTTPContextFunc(roleFromRequest), mcp.WithToolListFilter(toolFilter), mcp.WithPromptListFilter(promptFilter), mcp.WithResourceListFilter(resourceFilter)},
		SSEOpts:    []mcp.SSEOption{mcp.WithSSEContextFunc(roleFromRequest), mcp.WithSSEToolListFilter(toolFilter), mcp.WithSSEPromptListFilter(promptFilter), mcp.WithSSEResourceListFilter(resourceFilter)},
	}
	in := kit.Start(kind, opts)
	defer in.Close()
	f := &frig{r: r, kind: kind, in: in, g: &rig{in: in, url: in.URL()}, models: map[string]*regModel{}}
	for _, reg := range fregs {
		f.models[reg] = newRegModel(reg)
		// private and public entries alternate, a private one first: in-place filtering has to move entries
		n := 4 + rng.Intn(4)
		for i := 0; i < n; i++ {
			f.registerFresh(reg, i%2 == 1)
		}
	}
	conns := map[string]*fconn{}
	defer func() {
		for _, c := range conns {
			c.c.Close()
		}
	}()
	for _, role := range append([]string{"admin", "admin-2", "admin-3", "blank"}, sliceStyles...) {
		hdr := role
		if strings.HasPrefix(role, "admin") {
			hdr = "admin"
		}
		c, err := f.dial(hdr)
		if err != nil {
			r.Inconclusive(fmt.Sprintf("filter scenario %s: session for role %s could not be opened: %v", kind, role, err))
			return
		}
		conns[role] = c
	}

	// -- phase 1: sequential. role, admin, role, admin on every registry; registrations in between.
	rounds := r.Pick(2, 6)
	if race {
		rounds = 1
	}
	for round := 0; round < rounds; round++ {
		for _, pi := range rng.Perm(len(sliceStyles)) {
			role := sliceStyles[pi]
			for _, ri := range rng.Perm(len(fregs)) {
				var views [][]string
				for _, who := range []string{role, "admin", role, "admin"} {
					views = append(views, capItems(f.listAndJudge("seq", fregs[ri], conns[who])))
				}
				if idx == 0 && !race && round == 0 && fregs[ri] == "resources" && (role == "inplace" || role == "truncate" || role == "prepend") {
					r.Sample(map[string]interface{}{"scenario": "filter", "kind": kind, "registry": "resources", "sequence": []string{role, "admin", role, "admin"}, "observed_views": views})
				}
			}
			f.snapshot("seq", rng)
			if rng.Intn(2) == 0 {
				for _, reg := range fregs {
					f.mutate(reg, rng)
				}
			}
		}
	}

	// -- phase 2: concurrent. every role lists on its own session while one writer per registry registers,
	// replaces (and, tools, unregisters); a further goroutine reads through the getters and scribbles on the copies.
	perReader := r.Pick(30, 120)
	perWriter := r.Pick(16, 40)
	if race {
		perReader, perWriter = 12, 8
	}
	var readers, writers sync.WaitGroup
	var readersDone atomic.Bool
	for name, c := range conns {
		if name == "blank" {
			continue
		}
		readers.Add(1)
		go func(c *fconn, seed int64) {
			defer readers.Done()
			rr := rand.New(rand.NewSource(seed))
			for i := 0; i < perReader; i++ {
				f.listAndJudge("conc", fregs[rr.Intn(len(fregs))], c)
			}
		}(c, rng.Int63())
	}
	readers.Add(1)
	go func(seed int64) {
		defer readers.Done()
		rr := rand.New(rand.NewSource(seed))
		for i := 0; i < perReader; i++ {
			f.snapshot("conc", rr)
			runtime.Gosched()
		}
	}(rng.Int63())
	totalLists := int64(perReader * (len(conns) - 1))
	base := f.lists.Load()
	for _, reg := range fregs {
		writers.Add(1)
		go func(reg string, seed int64) {
			defer writers.Done()
			wr := rand.New(rand.NewSource(seed))
			for i := 0; i < perWriter; i++ {
				// pacing by counts, not by time: the i-th mutation waits until its share of the lists was answered
				want := totalLists * int64(i) / int64(perWriter)
				for f.lists.Load() < base+want && !readersDone.Load() {
					time.Sleep(50 * time.Microsecond)
				}
				f.mutate(reg, wr)
			}
		}(reg, rng.Int63())
	}
	readers.Wait()
	readersDone.Store(true)
	writers.Wait()

	// -- phase 3: quiescent again.
	for _, reg := range fregs {
		f.listAndJudge("after", reg, conns["admin"])
		f.listAndJudge("after", reg, conns["inplace"])
		f.listAndJudge("after", reg, conns["admin-2"])
	}
	f.snapshot("after", rng)

	// -- phase 4: descriptor FIELD mutation through the handed pointers, one request at a time. Not promised to be
	// isolated: names / order are judged, leaked field values are counted.
	for _, reg := range fregs {
		for _, who := range []string{"blank", "admin", "blank", "admin"} {
			f.fieldList(reg, conns[who])
		}
	}
	// replacing every entry installs fresh descriptors: from here on the descriptors are judged again
	for _, reg := range fregs {
		for _, it := range f.models[reg].last() {
			f.register(reg, it.Name)
		}
		for _, who := range []string{"admin", "sort", "admin"} {
			f.listAndJudge("replaced", reg, conns[who])
		}
	}
	f.snapshot("replaced", rng)
}

// fieldList: one list in the field-mutation phase; names (and order) are judged, descriptor values only counted.
func (f *frig) fieldList(reg string, fc *fconn) {
	m := f.models[reg]
	s := fclk.Add(1)
	a := fc.list(reg)
	e := fclk.Add(1)
	if a.transport != "" {
		f.r.Inconclusive(fmt.Sprintf("filter scenario %s: %s list as %s: %s", f.kind, reg, fc.role, a.transport))
		return
	}
	f.r.Eval(1)
	if a.failed != "" {
		f.r.Violation(fmt.Sprintf("C12|filter|%s|%s|field|list-request-failed", f.kind, reg), fmt.Sprintf("%s: a %s list (caller role %q) was not answered with a list: %s", f.kind, reg, fc.role, a.failed), nil)
		return
	}
	cands := m.window(s, e)
	st := cands[len(cands)-1] // nothing mutates the registry in this phase
	want := make([]string, len(st))
	leaked := 0
	for i, it := range st {
		want[i] = it.Name
	}
	gn := namesOf(a.items)
	ok := multisetEq(gn, want)
	if ok && m.ordered {
		ok = seqEq(gn, want)
	}
	if !ok {
		f.r.Violation(fmt.Sprintf("C12|filter|%s|%s|field|full-view|%s", f.kind, reg, symptom(a.items, cands, m.ordered)), fmt.Sprintf("%s: after a filter modified descriptor fields through the pointers it was handed, the %s list (role %q) does not name the registered set", f.kind, reg, fc.role),
			map[string]interface{}{"got": a.items, "registered": want})
		return
	}
	reg2desc := map[string]string{}
	for _, it := range st {
		reg2desc[it.Name] = it.Desc
	}
	for _, it := range a.items {
		j := strings.Index(it, "=")
		if reg2desc[it[:j]] != it[j+1:] {
			leaked++
		}
	}
	f.r.Count("filter_field_phase_lists_judged_by_name", 1)
	if fc.role == "admin" {
		f.r.Count("filter_field_values_changed_by_an_earlier_filter_seen_by_admin(not judged)", int64(leaked))
	}
	f.r.Distinct(fmt.Sprintf("filter|%s|%s|%s|field", f.kind, reg, fc.role))
}

// exportFilterStats turns the filter-side counters into run counters.
func exportFilterStats(r *vh.Run) {
	filterStats.Range(func(k, v interface{}) bool {
		role, st := k.(string), v.(*filterStat)
		r.Count("filter_calls", st.calls.Load())
		if role != "admin" {
			r.Count("filter_calls_non_admin", st.calls.Load())
		}
		r.Count("filter_calls_that_rewrote_their_argument", st.rewrote.Load())
		if st.rewrote.Load() > 0 {
			r.SetAdd("filter_styles_that_rewrote_their_argument", role)
		}
		r.Count("filter_calls_handed_a_nil_entry(not judged)", st.sawNil.Load())
		return true
	})
}
