// C12 — registries stay consistent while tools, prompts and resources change under load.
package main

import (
	"context"
	"runtime"
	"sync/atomic"
	"encoding/json"
	"fmt"
	"math/rand"
	"os"
	"path/filepath"
	"sort"
	"strconv"
	"strings"
	"sync"
	"time"

	"github.com/anishathalye/porcupine"
	mcp "trpc.group/trpc-go/trpc-mcp-go"

	"verifharness/lib/kit"
	"verifharness/lib/peer"
	"verifharness/lib/racelog"
	"verifharness/lib/vh"
)

type op struct {
	Reg  string // tools | prompts | resources
	Kind string // reg | unreg | list | call
	Name string
	Tag  string
}
type out struct {
	OK    bool     // unreg: something was removed; call: found
	Tag   string   // call: tag returned by the handler
	Items []string // list: "name=tag" in listing order
	Err   string
}

type regState struct {
	order []string
	tags  map[string]string
}

func (s regState) clone() regState {
	n := regState{order: append([]string{}, s.order...), tags: map[string]string{}}
	for k, v := range s.tags {
		n.tags[k] = v
	}
	return n
}

func (s regState) key() string {
	var b []string
	for _, n := range s.order {
		b = append(b, n+"="+s.tags[n])
	}
	return strings.Join(b, ",")
}

func registryModel(ordered bool) porcupine.Model {
	return porcupine.Model{
		Init: func() interface{} { return regState{tags: map[string]string{}} },
		Step: func(state, input, output interface{}) (bool, interface{}) {
			s := state.(regState)
			in := input.(op)
			o := output.(out)
			switch in.Kind {
			case "reg":
				n := s.clone()
				if _, ok := n.tags[in.Name]; !ok {
					n.order = append(n.order, in.Name)
				}
				n.tags[in.Name] = in.Tag
				return true, n
			case "unreg":
				_, present := s.tags[in.Name]
				if o.OK != present {
					return false, s
				}
				if !present {
					return true, s
				}
				n := s.clone()
				delete(n.tags, in.Name)
				for i, x := range n.order {
					if x == in.Name {
						n.order = append(n.order[:i:i], n.order[i+1:]...)
						break
					}
				}
				return true, n
			case "list":
				if len(o.Items) != len(s.order) {
					return false, s
				}
				if ordered {
					for i, n := range s.order {
						if o.Items[i] != n+"="+s.tags[n] {
							return false, s
						}
					}
					return true, s
				}
				seen := map[string]bool{}
				for _, it := range o.Items {
					if seen[it] {
						return false, s
					}
					seen[it] = true
				}
				for _, n := range s.order {
					if !seen[n+"="+s.tags[n]] {
						return false, s
					}
				}
				return true, s
			case "call":
				t, present := s.tags[in.Name]
				if !present {
					return !o.OK, s
				}
				return o.OK && o.Tag == t, s
			}
			return false, s
		},
		Equal: func(a, b interface{}) bool { return a.(regState).key() == b.(regState).key() },
		DescribeOperation: func(i, o interface{}) string {
			return fmt.Sprintf("%+v -> %+v", i, o)
		},
	}
}

type rig struct {
	in  *kit.Instance
	url string
}

func (g *rig) register(o op) {
	tag := o.Tag
	switch o.Reg {
	case "tools":
		g.in.RegisterTool(mcp.NewTool(o.Name, mcp.WithDescription(tag)), func(ctx context.Context, req *mcp.CallToolRequest) (*mcp.CallToolResult, error) {
			return mcp.NewTextResult(tag), nil
		})
	case "prompts":
		g.in.RegisterPrompt(&mcp.Prompt{Name: o.Name, Description: tag}, func(ctx context.Context, req *mcp.GetPromptRequest) (*mcp.GetPromptResult, error) {
			return &mcp.GetPromptResult{Description: tag, Messages: []mcp.PromptMessage{{Role: mcp.RoleUser, Content: mcp.NewTextContent(tag)}}}, nil
		})
	case "resources":
		name := o.Name
		g.in.RegisterResource(&mcp.Resource{URI: name, Name: name, Description: tag}, func(ctx context.Context, req *mcp.ReadResourceRequest) (mcp.ResourceContents, error) {
			return mcp.TextResourceContents{URI: name, Text: tag}, nil
		})
	}
}

type client struct {
	hp  *peer.HTTPPeer
	sid string
	url string
	n   int
}

func newClient(url string) (*client, error) {
	c := &client{hp: peer.NewHTTPPeer(), url: url}
	re := c.hp.Do(context.Background(), "POST", url, map[string]string{"Content-Type": "application/json", "Accept": "application/json"}, kit.InitBody("1", ""))
	if re.Status != 200 || re.Sess == "" {
		return nil, fmt.Errorf("initialize: status %d", re.Status)
	}
	c.sid = re.Sess
	return c, nil
}

func (c *client) rpc(method, params string) (map[string]json.RawMessage, error) {
	c.n++
	body := fmt.Sprintf(`{"jsonrpc":"2.0","id":%d,"method":"%s","params":%s}`, c.n, method, params)
	re := c.hp.Do(context.Background(), "POST", c.url, map[string]string{"Content-Type": "application/json", "Accept": "application/json", "Mcp-Session-Id": c.sid}, []byte(body))
	if re.Status != 200 {
		return nil, fmt.Errorf("status %d err %s", re.Status, re.Err)
	}
	var m map[string]json.RawMessage
	if err := json.Unmarshal(re.Body, &m); err != nil {
		return nil, err
	}
	return m, nil
}

func (c *client) do(o op) out {
	switch o.Kind {
	case "list":
		method, field, nameKey := "tools/list", "tools", "name"
		if o.Reg == "prompts" {
			method, field = "prompts/list", "prompts"
		} else if o.Reg == "resources" {
			method, field, nameKey = "resources/list", "resources", "uri"
		}
		m, err := c.rpc(method, "{}")
		if err != nil {
			return out{Err: err.Error()}
		}
		var res map[string]json.RawMessage
		if json.Unmarshal(m["result"], &res) != nil {
			return out{Err: "no result: " + string(m["error"])}
		}
		var items []map[string]interface{}
		if err := json.Unmarshal(res[field], &items); err != nil {
			return out{Err: "list field: " + err.Error()}
		}
		o2 := out{OK: true}
		for _, it := range items {
			n, _ := it[nameKey].(string)
			d, _ := it["description"].(string)
			o2.Items = append(o2.Items, n+"="+d)
		}
		return o2
	case "call":
		var m map[string]json.RawMessage
		var err error
		switch o.Reg {
		case "tools":
			m, err = c.rpc("tools/call", fmt.Sprintf(`{"name":%q,"arguments":{}}`, o.Name))
		case "prompts":
			m, err = c.rpc("prompts/get", fmt.Sprintf(`{"name":%q}`, o.Name))
		default:
			m, err = c.rpc("resources/read", fmt.Sprintf(`{"uri":%q}`, o.Name))
		}
		if err != nil {
			return out{Err: err.Error()}
		}
		if m["error"] != nil {
			return out{OK: false}
		}
		s := string(m["result"])
		// the tag is the only text in the result
		var any interface{}
		json.Unmarshal(m["result"], &any)
		return out{OK: true, Tag: findTag(any), Err: errIfEmpty(s)}
	}
	return out{}
}

func errIfEmpty(s string) string {
	if s == "" {
		return "empty result"
	}
	return ""
}

func findTag(v interface{}) string {
	switch x := v.(type) {
	case map[string]interface{}:
		if t, ok := x["text"].(string); ok {
			return t
		}
		keys := make([]string, 0, len(x))
		for k := range x {
			keys = append(keys, k)
		}
		sort.Strings(keys)
		for _, k := range keys {
			if t := findTag(x[k]); t != "" {
				return t
			}
		}
	case []interface{}:
		for _, e := range x {
			if t := findTag(e); t != "" {
				return t
			}
		}
	}
	return ""
}

// history runs one concurrent history against a fresh server and checks it per registry.
func history(r *vh.Run, h int, kind kit.Kind) {
	rng := r.Rand(fmt.Sprintf("c12-%s-%d", kind, h))
	in := kit.Start(kind, kit.Opts{})
	defer in.Close()
	g := &rig{in: in, url: in.URL()}
	regs := []string{"tools", "prompts", "resources"}
	names := map[string][]string{"tools": {"t-a", "t-b", "t-c", "stable"}, "prompts": {"p-a", "p-b", "stable"}, "resources": {"res://a", "res://b", "res://c", "res://stable"}}
	// "stable" entries exist throughout
	for _, rg := range regs {
		st := names[rg][len(names[rg])-1]
		g.register(op{Reg: rg, Kind: "reg", Name: st, Tag: "stable-v0"})
	}
	var mu sync.Mutex
	ops := map[string][]porcupine.Operation{}
	// the initial registration is part of every registry's history
	for _, rg := range regs {
		st := names[rg][len(names[rg])-1]
		ops[rg] = append(ops[rg], porcupine.Operation{ClientId: 0, Input: op{Reg: rg, Kind: "reg", Name: st, Tag: "stable-v0"}, Call: 0, Output: out{}, Return: 1})
	}
	t0 := time.Now()
	now := func() int64 { return int64(time.Since(t0)) + 10 }
	nWorkers := 4 + rng.Intn(3)
	per := 5 + rng.Intn(4)
	seeds := make([]int64, nWorkers)
	for i := range seeds {
		seeds[i] = rng.Int63()
	}
	var wg sync.WaitGroup
	tagN := 0
	for w := 0; w < nWorkers; w++ {
		wg.Add(1)
		go func(w int) {
			defer wg.Done()
			wr := rand.New(rand.NewSource(seeds[w]))
			var cl *client
			for i := 0; i < per; i++ {
				rg := regs[wr.Intn(len(regs))]
				nm := names[rg][wr.Intn(len(names[rg]))]
				kinds := []string{"reg", "reg", "list", "list", "call", "call"}
				if rg == "tools" {
					kinds = append(kinds, "unreg")
				}
				k := kinds[wr.Intn(len(kinds))]
				if nm == "stable" || nm == "res://stable" {
					if k == "unreg" {
						k = "call"
					}
				}
				o := op{Reg: rg, Kind: k, Name: nm}
				var res out
				var call, ret int64
				switch k {
				case "reg":
					mu.Lock()
					tagN++
					o.Tag = fmt.Sprintf("v%d-w%d", tagN, w)
					mu.Unlock()
					call = now()
					g.register(o)
					ret = now()
				case "unreg":
					call = now()
					err := in.UnregisterTools(nm)
					ret = now()
					res = out{OK: err == nil}
				default:
					if cl == nil {
						c, err := newClient(g.url)
						if err != nil {
							r.Violation("C12|"+string(kind)+"|client-handshake", err.Error(), nil)
							return
						}
						cl = c
						defer cl.hp.Close()
					}
					call = now()
					res = cl.do(o)
					ret = now()
					if res.Err != "" {
						r.Violation(fmt.Sprintf("C12|%s|%s|%s|request-failed", kind, rg, k), fmt.Sprintf("%s: %s %s failed: %s", kind, rg, k, res.Err), nil)
						continue
					}
				}
				mu.Lock()
				ops[rg] = append(ops[rg], porcupine.Operation{ClientId: w + 1, Input: o, Call: call, Output: res, Return: ret})
				mu.Unlock()
			}
		}(w)
	}
	wg.Wait()
	for _, rg := range regs {
		r.Eval(1)
		res, _ := porcupine.CheckOperationsVerbose(registryModel(rg == "resources"), ops[rg], 20*time.Second)
		switch res {
		case porcupine.Illegal:
			var desc []string
			for _, o := range ops[rg] {
				desc = append(desc, fmt.Sprintf("c%d [%d,%d] %+v -> %+v", o.ClientId, o.Call, o.Return, o.Input, o.Output))
			}
			r.Violation(fmt.Sprintf("C12|%s|%s|not-linearizable", kind, rg), fmt.Sprintf("%s: a concurrent history of register/unregister/list/call on the %s registry is not linearizable (torn / phantom / duplicate entry, wrong order, stale handler, or a call to a registered entry failing)", kind, rg), map[string]interface{}{"history": desc})
		case porcupine.Unknown:
			r.Inconclusive(fmt.Sprintf("porcupine timeout: history %d registry %s (%d ops)", h, rg, len(ops[rg])))
		default:
			r.Distinct(fmt.Sprintf("%s|%s|ops=%d", kind, rg, len(ops[rg])/4*4))
			r.Count("ops_checked", int64(len(ops[rg])))
		}
	}
	if h == 0 {
		var desc []string
		for _, o := range ops["tools"] {
			desc = append(desc, fmt.Sprintf("c%d %+v -> %+v", o.ClientId, o.Input, o.Output))
		}
		r.Sample(map[string]interface{}{"kind": kind, "registry": "tools", "history": desc})
	}
}

// hammer: high-rate mixed operations to provoke the runtime's concurrent-map detector / the race detector.
func hammer(r *vh.Run, kind kit.Kind, iters int) {
	in := kit.Start(kind, kit.Opts{})
	defer in.Close()
	g := &rig{in: in, url: in.URL()}
	for _, rg := range []string{"tools", "prompts", "resources"} {
		g.register(op{Reg: rg, Name: map[string]string{"tools": "stable", "prompts": "stable", "resources": "res://stable"}[rg], Tag: "s"})
	}
	stop := make(chan struct{})
	var wg sync.WaitGroup
	for w := 0; w < 4; w++ {
		wg.Add(1)
		go func(w int) {
			defer wg.Done()
			i := 0
			for {
				select {
				case <-stop:
					return
				default:
				}
				i++
				n := fmt.Sprintf("h-%d-%d", w, i%7)
				g.register(op{Reg: "tools", Name: n, Tag: "x"})
				g.register(op{Reg: "prompts", Name: n, Tag: "x"})
				g.register(op{Reg: "resources", Name: "res://" + n, Tag: "x"})
				in.UnregisterTools(n)
				if in.Server != nil {
					in.Server.RegisterNotificationHandler("notifications/"+n, func(ctx context.Context, n *mcp.JSONRPCNotification) error { return nil })
					in.Server.UnregisterNotificationHandler("notifications/" + n)
				}
			}
		}(w)
	}
	// one goroutine keeps RE-registering the stable entries with the same tag: replacement must be atomic, a
	// call or list in between must never find them absent
	wg.Add(1)
	go func() {
		defer wg.Done()
		for {
			select {
			case <-stop:
				return
			default:
			}
			g.register(op{Reg: "tools", Name: "stable", Tag: "s"})
			g.register(op{Reg: "prompts", Name: "stable", Tag: "s"})
			g.register(op{Reg: "resources", Name: "res://stable", Tag: "s"})
		}
	}()
	var cw sync.WaitGroup
	for w := 0; w < 6; w++ {
		cw.Add(1)
		go func(w int) {
			defer cw.Done()
			cl, err := newClient(g.url)
			if err != nil {
				return
			}
			defer cl.hp.Close()
			for i := 0; i < iters; i++ {
				for _, rg := range []string{"tools", "prompts", "resources"} {
					st := map[string]string{"tools": "stable", "prompts": "stable", "resources": "res://stable"}[rg]
					res := cl.do(op{Reg: rg, Kind: "call", Name: st})
					r.Eval(1)
					if res.Err != "" || !res.OK || res.Tag != "s" {
						r.Violation(fmt.Sprintf("C12|%s|%s|hammer|stable-entry-call-failed", kind, rg), fmt.Sprintf("%s: a call to an entry registered throughout failed or returned another handler's value: %+v", kind, res), nil)
					}
					lres := cl.do(op{Reg: rg, Kind: "list"})
					found := false
					for _, it := range lres.Items {
						if it == st+"=s" {
							found = true
						}
					}
					if lres.Err == "" && !found {
						r.Violation(fmt.Sprintf("C12|%s|%s|hammer|stable-entry-missing-from-list", kind, rg), fmt.Sprintf("%s: a %s list does not show an entry that is registered throughout (it is only ever re-registered)", kind, rg), nil)
					}
					if nres := cl.do(op{Reg: rg, Kind: "call", Name: "never-registered"}); nres.Err == "" && nres.OK {
						r.Violation(fmt.Sprintf("C12|%s|%s|hammer|never-registered-entry-served", kind, rg), fmt.Sprintf("%s: a call to a never-registered %s entry succeeded", kind, rg), nil)
					}
				}
				cl.hp.Do(context.Background(), "POST", g.url, map[string]string{"Content-Type": "application/json", "Accept": "application/json", "Mcp-Session-Id": cl.sid}, []byte(`{"jsonrpc":"2.0","method":"notifications/h-0-1"}`))
			}
		}(w)
	}
	cw.Wait()
	close(stop)
	wg.Wait()
	r.Distinct("hammer|" + string(kind))
}

// sameName: several goroutines register the SAME fresh name at the same instant (released together by a spin
// barrier), round after round, on every registry; afterwards and meanwhile no list may show a name twice and the
// final lists must hold every name exactly once (resources: in the order of first registration rounds).
func sameName(r *vh.Run, kind kit.Kind, rounds int) {
	in := kit.Start(kind, kit.Opts{})
	defer in.Close()
	g := &rig{in: in, url: in.URL()}
	const W = 8
	var round atomic.Int64
	var arrived atomic.Int64
	var wg sync.WaitGroup
	stop := make(chan struct{})
	dupSeen := atomic.Int64{}
	// a reader lists all the time
	var rw sync.WaitGroup
	rw.Add(1)
	go func() {
		defer rw.Done()
		cl, err := newClient(g.url)
		if err != nil {
			return
		}
		defer cl.hp.Close()
		for {
			select {
			case <-stop:
				return
			default:
			}
			for _, rg := range []string{"tools", "prompts", "resources"} {
				res := cl.do(op{Reg: rg, Kind: "list"})
				seen := map[string]bool{}
				for _, it := range res.Items {
					n := it[:strings.Index(it, "=")]
					if seen[n] && dupSeen.Add(1) == 1 {
						r.Violation(fmt.Sprintf("C12|%s|%s|same-name|duplicate-entry-in-list", kind, rg), fmt.Sprintf("%s: a %s list shows the entry %q twice", kind, rg, n), map[string]interface{}{"entries": len(res.Items)})
					}
					seen[n] = true
				}
			}
		}
	}()
	for w := 0; w < W; w++ {
		wg.Add(1)
		go func(w int) {
			defer wg.Done()
			for rd := int64(1); rd <= int64(rounds); rd++ {
				arrived.Add(1)
				for round.Load() < rd { // spin barrier: everybody starts the round at the same instant
				}
				n := fmt.Sprintf("same-%d", rd)
				g.register(op{Reg: "tools", Name: n, Tag: fmt.Sprint(w)})
				g.register(op{Reg: "prompts", Name: n, Tag: fmt.Sprint(w)})
				g.register(op{Reg: "resources", Name: "res://" + n, Tag: fmt.Sprint(w)})
			}
		}(w)
	}
	for rd := int64(1); rd <= int64(rounds); rd++ {
		for arrived.Load() < rd*W {
			runtime.Gosched()
		}
		round.Store(rd)
	}
	wg.Wait()
	close(stop)
	rw.Wait()
	cl, err := newClient(g.url)
	if err != nil {
		r.Violation("C12|"+string(kind)+"|client-handshake", err.Error(), nil)
		return
	}
	defer cl.hp.Close()
	for _, rg := range []string{"tools", "prompts", "resources"} {
		res := cl.do(op{Reg: rg, Kind: "list"})
		r.Eval(1)
		count := map[string]int{}
		for _, it := range res.Items {
			count[it[:strings.Index(it, "=")]]++
		}
		dups, missing := 0, 0
		for rd := 1; rd <= rounds; rd++ {
			n := fmt.Sprintf("same-%d", rd)
			if rg == "resources" {
				n = "res://" + n
			}
			switch {
			case count[n] > 1:
				dups++
			case count[n] == 0:
				missing++
			}
		}
		if dups > 0 || missing > 0 || len(res.Items) != rounds {
			r.Violation(fmt.Sprintf("C12|%s|%s|same-name|list-not-the-registered-set", kind, rg), fmt.Sprintf("%s: after %d rounds of %d goroutines registering the same new name, the %s list has %d entries: %d names twice, %d missing", kind, rounds, W, rg, len(res.Items), dups, missing), nil)
		} else {
			r.Distinct(fmt.Sprintf("same-name|%s|%s", kind, rg))
		}
	}
	r.Count("same_name_rounds", int64(rounds))
}

func child() {
	kit.Silence()
	cr := vh.NewChildRun("C12")
	kind := kit.Kind(os.Getenv("C12_KIND"))
	from, _ := strconv.Atoi(os.Getenv("C12_FROM"))
	to, _ := strconv.Atoi(os.Getenv("C12_TO"))
	if os.Getenv("C12_MODE") == "hammer" {
		hammer(cr, kind, to)
	} else if os.Getenv("C12_MODE") == "samename" {
		sameName(cr, kind, to)
	} else if os.Getenv("C12_MODE") == "filters" {
		for i := from; i < to; i++ {
			filterRun(cr, kind, i, os.Getenv("C12_RACE") == "1")
		}
		exportFilterStats(cr)
	} else {
		for h := from; h < to; h++ {
			history(cr, h, kind)
		}
	}
	cr.ExportAndExit()
}

func main() {
	kit.MaybeServeStdioChild()
	if vh.ChildRole() == "c12" {
		child()
		return
	}
	r := vh.NewRun("C12", "exploration")
	type job struct {
		kind     kit.Kind
		mode     string
		from, to int
		race     bool
	}
	var jobs []job
	nh := r.Pick(160, 16000)
	batch := nh / 8
	for b := 0; b < 8; b++ {
		k := kit.SJSON
		if b%4 == 3 {
			k = kit.SSSE
		}
		jobs = append(jobs, job{k, "hist", b * batch, (b + 1) * batch, false})
	}
	jobs = append(jobs, job{kit.SJSON, "hammer", 0, r.Pick(150, 1500), false})
	jobs = append(jobs, job{kit.SJSON, "samename", 0, r.Pick(3000, 20000), false})
	// list filters that modify the slices / descriptors they are handed (filters.go): Streamable JSON, Streamable SSE
	// and legacy SSE servers; run indices are disjoint so that every run has its own PRNG stream
	fb := r.Pick(1, 4)
	for b := 0; b < r.Pick(2, 4); b++ {
		jobs = append(jobs, job{kit.SJSON, "filters", b * fb, (b + 1) * fb, false}, job{kit.LSSE, "filters", b * fb, (b + 1) * fb, false})
	}
	for b := 0; b < r.Pick(1, 2); b++ {
		jobs = append(jobs, job{kit.SSSE, "filters", b * fb, (b + 1) * fb, false})
	}
	raceBin := os.Getenv("VH_RACE_BIN")
	if _, err := os.Stat(raceBin); err == nil {
		jobs = append(jobs, job{kit.SJSON, "hammer", 0, r.Pick(60, 600), true}, job{kit.SJSON, "hist", 100000, 100000 + r.Pick(20, 200), true})
		jobs = append(jobs, job{kit.SJSON, "filters", 1000, 1000 + r.Pick(1, 3), true}, job{kit.LSSE, "filters", 1000, 1000 + r.Pick(1, 3), true})
	} else {
		r.Note("race-detector flavour not built: race part skipped")
	}
	var wg sync.WaitGroup
	sem := make(chan struct{}, 10)
	for i, j := range jobs {
		wg.Add(1)
		sem <- struct{}{}
		go func(i int, j job) {
			defer wg.Done()
			defer func() { <-sem }()
			tag := fmt.Sprintf("%s-%s-%d", j.mode, j.kind, i)
			env := append(r.ChildEnvFor(), "C12_KIND="+string(j.kind), "C12_MODE="+j.mode, "C12_FROM="+strconv.Itoa(j.from), "C12_TO="+strconv.Itoa(j.to))
			var res *vh.ChildResult
			logPrefix := ""
			if j.race {
				logPrefix = filepath.Join(r.OutDir, "race", tag)
				os.MkdirAll(filepath.Dir(logPrefix), 0o755)
				old, _ := filepath.Glob(logPrefix + ".*")
				for _, f := range old {
					os.Remove(f)
				}
				env = append(env, "C12_RACE=1", "GORACE=halt_on_error=0 log_path="+logPrefix)
				res = r.SpawnChildBin(raceBin, "c12", tag, nil, env, nil, 15*time.Minute)
			} else {
				res = r.SpawnChild("c12", tag, nil, env, nil, 15*time.Minute)
			}
			cr := r.Merge(res.Stdout())
			if !cr.Done {
				stderr := res.Stderr()
				if res.TimedOut {
					r.Inconclusive("child " + tag + " hit the watchdog")
				} else {
					crash := vh.CrashLine(stderr)
					r.Violation(fmt.Sprintf("C12|%s|process-death|%s", j.kind, vh.FirstLibFrame(stderr)), fmt.Sprintf("%s: the server process died while registries changed under load: %s", j.kind, crash),
						map[string]interface{}{"crash": crash, "first_library_frame": vh.FirstLibFrame(stderr), "stderr_head": head(stderr)})
				}
			}
			if j.race {
				reps := racelog.ParseGlob(logPrefix)
				r.Count("race_reports", int64(len(reps)))
				for pair, rs := range racelog.Dedupe(reps) {
					if !rs[0].InLib {
						continue
					}
					if !strings.Contains(pair, "Manager") && !strings.Contains(pair, "NotificationHandler") && !strings.Contains(pair, "handleServerNotification") {
						continue // races elsewhere are C20's business
					}
					r.Violation("C12|race|"+pair, "data race on a registry: "+pair, map[string]interface{}{"reports": len(rs), "first": head(rs[0].Text)})
				}
				r.Distinct("race-flavour|" + j.mode)
			}
		}(i, j)
	}
	wg.Wait()
	if r.Counter("filter_views_evaluated") == 0 || r.Counter("filter_calls_that_rewrote_their_argument") == 0 || r.Counter("filter_calls_non_admin") == 0 {
		r.Fatal("the list-filter scenarios observed nothing: %d views evaluated, %d filter calls by restricted roles, %d of them rewrote their argument",
			r.Counter("filter_views_evaluated"), r.Counter("filter_calls_non_admin"), r.Counter("filter_calls_that_rewrote_their_argument"))
	}
	r.Finish("concurrent histories (4-6 workers x 5-8 ops, 3-4 names per registry) of register / unregister / list / call over the tools, prompts and resources registries of a Streamable server (JSON and SSE answers), recorded at the API boundary (in-process Register*/Unregister*, raw client sessions for list/call/get/read); every registration carries a version tag that the descriptor and the handler both expose, so a read identifies the write; each registry's history is checked for linearizability with porcupine against an ordered-map model (tools/prompts lists as sets, resources as a sequence; entries registered throughout must always be callable; never-registered ones must fail). Hammer phase: 4 mutator goroutines + 6 client sessions, in a normal and a race-detector child; process death (concurrent map access) and race reports on registry functions refute. Distinct = (server kind, registry, history size bucket). List-filter scenarios (filters.go): Streamable (JSON, SSE answers) and legacy SSE servers whose tool / prompt / resource list filters take the caller's role from a request header (context function) and MODIFY the slice they are handed the way user filters do (filter in place with in[:0], clear the tail, sort, reverse, rotate, truncate, nil entries out, delete with the append idiom, append, prepend; control: allocate) while role admin gets its argument back untouched; role,admin,role,admin sequences on every registry with registrations in between, then every role listing concurrently on its own session with one writer goroutine per registry (register / replace / unregister tools, paced by list counts) and a goroutine that reads GetTools / GetTool and scribbles on the copies, then quiescent lists. One writer per registry makes the mutation history a sequence of states; every view, stamped by a logical clock, must be the caller's filter applied (by the harness, on a private copy) to one of the states the registry had between the view's start and end: resources as a sequence (registration order), tools / prompts as a multiset, descriptors included. Descriptor field mutation through the handed pointers is exercised one request at a time; names and order of the following lists are judged, leaked field values only counted. Distinct there = (server kind, registry, role, phase).",
		[]string{"checker timeouts are inconclusive", "the statement does not promise that a descriptor field changed by a list filter through the pointer it was handed stays invisible to later lists (the registry hands out its own descriptors): counted, not judged", "a list that is not answered within the 120 s watchdog, or a session that cannot be opened, is inconclusive", "the static lockset analysis named in the property's anchor is replaced by the race detector and the runtime map-access detector on the driven paths"})
}

func head(s string) string {
	if len(s) > 2500 {
		return s[:2500]
	}
	return s
}
