// C12 — registries stay consistent while tools, prompts and resources change under load.
package main

import (
	"bytes"
	"context"
	"fmt"
	"math/rand"
	"os"
	"path/filepath"
	"strconv"
	"strings"
	"sync"
	"sync/atomic"
	"time"

	"github.com/anishathalye/porcupine"
	mcp "trpc.group/trpc-go/trpc-mcp-go"

	"verifharness/lib/kit"
	"verifharness/lib/racelog"
	"verifharness/lib/vh"
)

type op struct {
	Reg  string // tools | prompts | resources | templates
	Kind string // reg | unreg | unregAny | list | call | get (GetTool) | gets (GetTools)
	Name string
	Tag  string
	Via  string // the public entry point used (evidence only; for resources the tag decides, see entry.go)
}
type out struct {
	OK        bool     // unreg: something was removed; call / get: found
	Tag       string   // call: tag returned by the handler; get: tag of the descriptor
	Items     []string // list / gets: "name=tag" in listing order
	Parts     int      // read: number of contents in the answer
	Mixed     bool     // call: the texts of the answer are not all the same tag
	Err       string   // the server answered, but not with what was asked for
	Transport string   // no answer / transport trouble: not judged
}

type regState struct {
	order []string
	tags  map[string]string
}

func (s regState) clone() regState {
	n := regState{order: append([]string{}, s.order...), tags: map[string]string{}}
	for k, v := range s.tags {
		n.tags[k] = v
	}
	return n
}

func (s regState) key() string {
	var b []string
	for _, n := range s.order {
		b = append(b, n+"="+s.tags[n])
	}
	return strings.Join(b, ",")
}

// step is the sequential specification of one registry: an insertion-ordered map name -> tag.
func step(ordered bool, s regState, in op, o out) (bool, regState) {
	switch in.Kind {
	case "reg":
		n := s.clone()
		if _, ok := n.tags[in.Name]; !ok {
			n.order = append(n.order, in.Name)
		}
		n.tags[in.Name] = in.Tag
		return true, n
	case "unreg", "unregAny":
		// unreg: UnregisterTools with one name, the error says whether it was there. unregAny: one name of an
		// UnregisterTools call with several names that removed at least one of them (which ones is not reported).
		_, present := s.tags[in.Name]
		if in.Kind == "unreg" && o.OK != present {
			return false, s
		}
		if !present {
			return true, s
		}
		n := s.clone()
		delete(n.tags, in.Name)
		for i, x := range n.order {
			if x == in.Name {
				n.order = append(n.order[:i:i], n.order[i+1:]...)
				break
			}
		}
		return true, n
	case "list", "gets":
		if len(o.Items) != len(s.order) {
			return false, s
		}
		if ordered {
			for i, n := range s.order {
				if o.Items[i] != n+"="+s.tags[n] {
					return false, s
				}
			}
			return true, s
		}
		seen := map[string]bool{}
		for _, it := range o.Items {
			if seen[it] {
				return false, s
			}
			seen[it] = true
		}
		for _, n := range s.order {
			if !seen[n+"="+s.tags[n]] {
				return false, s
			}
		}
		return true, s
	case "call", "get":
		t, present := s.tags[in.Name]
		if !present {
			return !o.OK, s
		}
		return o.OK && o.Tag == t && (in.Kind == "get" || oneHandler(in.Reg, o)), s
	}
	return false, s
}

func registryModel(ordered bool) porcupine.Model {
	return porcupine.Model{
		Init: func() interface{} { return regState{tags: map[string]string{}} },
		Step: func(state, input, output interface{}) (bool, interface{}) {
			return step(ordered, state.(regState), input.(op), output.(out))
		},
		Equal: func(a, b interface{}) bool { return a.(regState).key() == b.(regState).key() },
		DescribeOperation: func(i, o interface{}) string {
			return fmt.Sprintf("%+v -> %+v", i, o)
		},
	}
}

// templateModel: the statement says that registering a name again replaces the entry; the library's template registry
// keeps the first registration of a name (RegisterResourceTemplate drops the manager's "already exists" error). Which of
// the two happens is not what C12 is about, so both are admitted — per registration, as two successor states — and
// what is judged is that every templates list is the set of ONE such state: each registered name exactly once, with
// the descriptor of one of its registrations, consistently over the lists that follow.
func templateModel() porcupine.Model {
	nm := porcupine.NondeterministicModel{
		Init: func() []interface{} { return []interface{}{regState{tags: map[string]string{}}} },
		Step: func(state, input, output interface{}) []interface{} {
			s, in := state.(regState), input.(op)
			if _, exists := s.tags[in.Name]; in.Kind == "reg" && exists {
				_, replaced := step(false, s, in, output.(out))
				return []interface{}{s, replaced}
			}
			ok, n := step(false, s, in, output.(out))
			if !ok {
				return nil
			}
			return []interface{}{n}
		},
		Equal: func(a, b interface{}) bool { return a.(regState).key() == b.(regState).key() },
	}
	return nm.ToModel()
}

// history runs one concurrent history against a fresh server and checks it per registry.
func history(r *vh.Run, h int, kind kit.Kind) {
	rng := r.Rand(fmt.Sprintf("c12-%s-%d", kind, h))
	in := kit.Start(kind, kit.Opts{})
	defer in.Close()
	g := &rig{in: in, url: in.URL()}
	regs := []string{"tools", "prompts", "resources"}
	// one template name is also a resource URI: the two registries share the resource manager and its lock
	names := map[string][]string{"tools": {"t-a", "t-b", "t-c", "stable"}, "prompts": {"p-a", "p-b", "stable"}, "resources": {"res://a", "res://b", "res://c", "res://stable"},
		"templates": {"tp-a", "tp-b", "res://a"}}
	var mu sync.Mutex
	ops := map[string][]porcupine.Operation{}
	// "stable" entries exist throughout; the initial registration is part of every registry's history
	for _, rg := range regs {
		st := names[rg][len(names[rg])-1]
		o := op{Reg: rg, Kind: "reg", Name: st, Tag: "stable-v0"}
		g.register(o)
		ops[rg] = append(ops[rg], porcupine.Operation{ClientId: 0, Input: o, Call: 0, Output: out{}, Return: 1})
	}
	if hasTemplateList(kind) {
		regs = append(regs, "templates")
	}
	// Notification handlers: a Streamable server runs the handler before it answers the POST that carried the
	// notification, so which handler ran (if any) is known when the POST returns; the legacy SSE and stdio servers
	// start it in a goroutine (their handler tables are exercised by the hammer).
	var ran sync.Map // nonce -> tag of the handler that ran
	if kind.IsStreamable() {
		regs = append(regs, "handlers")
		names["handlers"] = []string{"notifications/n-a", "notifications/n-b"}
	}
	t0 := time.Now()
	now := func() int64 { return int64(time.Since(t0)) + 10 }
	nWorkers := 4 + rng.Intn(3)
	per := 6 + rng.Intn(5)
	seeds := make([]int64, nWorkers)
	for i := range seeds {
		seeds[i] = rng.Int63()
	}
	var wg sync.WaitGroup
	tagN := 0
	entryPoints := map[string]int{}
	for w := 0; w < nWorkers; w++ {
		wg.Add(1)
		go func(w int) {
			defer wg.Done()
			wr := rand.New(rand.NewSource(seeds[w]))
			var cl *wconn
			record := func(rg string, o op, res out, call, ret int64, sub int) {
				mu.Lock()
				ops[rg] = append(ops[rg], porcupine.Operation{ClientId: (w+1)*8 + sub, Input: o, Call: call, Output: res, Return: ret})
				if o.Via != "" {
					entryPoints[o.Via]++
				}
				mu.Unlock()
			}
			for i := 0; i < per; i++ {
				rg := regs[wr.Intn(len(regs))]
				nm := names[rg][wr.Intn(len(names[rg]))]
				kinds := []string{"reg", "reg", "list", "list", "call", "call"}
				switch rg {
				case "tools":
					kinds = append(kinds, "unreg", "unregN", "get", "gets")
				case "templates":
					kinds = []string{"reg", "reg", "list", "list"}
				case "handlers":
					kinds = []string{"reg", "reg", "unregH", "call", "call", "call"}
				}
				k := kinds[wr.Intn(len(kinds))]
				if nm == "stable" || nm == "res://stable" {
					if k == "unreg" || k == "unregN" {
						k = "call"
					}
				}
				o := op{Reg: rg, Kind: k, Name: nm}
				var res out
				var call, ret int64
				switch k {
				case "reg":
					o.Via = map[string]string{"tools": "RegisterTool", "prompts": "RegisterPrompt", "resources": "RegisterResource", "templates": "RegisterResourceTemplate"}[rg]
					via := "single"
					if rg == "resources" && wr.Intn(2) == 0 {
						via, o.Via = "multi", "RegisterResources"
					}
					mu.Lock()
					tagN++
					o.Tag = withVia(fmt.Sprintf("v%d-w%d", tagN, w), via)
					mu.Unlock()
					if rg == "handlers" {
						o.Via = "RegisterNotificationHandler"
						tag := o.Tag
						call = now()
						g.registerNotification(nm, func(ctx context.Context, n *mcp.JSONRPCNotification) error {
							if nonce, ok := n.Params.AdditionalFields["nonce"].(string); ok {
								if prev, twice := ran.LoadOrStore(nonce, tag); twice {
									ran.Store(nonce, prev.(string)+"+"+tag)
								}
							}
							return nil
						})
						ret = now()
						break
					}
					call = now()
					g.register(o)
					ret = now()
				case "unregH":
					o.Kind, o.Via = "unregAny", "UnregisterNotificationHandler"
					call = now()
					g.unregisterNotification(nm)
					ret = now()
				case "unreg":
					o.Via = "UnregisterTools(1)"
					call = now()
					err := in.UnregisterTools(nm)
					ret = now()
					res = out{OK: err == nil}
				case "unregN":
					// several names in one call: other tools, a name twice, a name that was never registered
					list := []string{nm}
					for _, x := range names["tools"][:3] {
						if x != nm && wr.Intn(2) == 0 {
							list = append(list, x)
						}
					}
					if wr.Intn(2) == 0 {
						list = append(list, "never-registered")
					}
					if wr.Intn(3) == 0 {
						list = append(list, nm)
					}
					wr.Shuffle(len(list), func(a, b int) { list[a], list[b] = list[b], list[a] })
					call = now()
					err := in.UnregisterTools(list...)
					ret = now()
					// The call is not promised to be one step: it goes into the history as one removal per distinct
					// name, all with the call's interval. No name removed (error): each of them was absent. One
					// distinct name: the error says whether it was there. Otherwise which ones were there is open.
					var distinct []string
					for _, x := range list {
						dup := false
						for _, y := range distinct {
							dup = dup || x == y
						}
						if !dup {
							distinct = append(distinct, x)
						}
					}
					real := 0
					for _, x := range distinct {
						if x != "never-registered" {
							real++
						}
					}
					for j, x := range distinct {
						part := op{Reg: rg, Kind: "unregAny", Name: x, Tag: fmt.Sprintf("part of UnregisterTools(%s)", strings.Join(list, ","))}
						if err != nil || (real == 1 && x != "never-registered") {
							part.Kind = "unreg"
						}
						record(rg, part, out{OK: err == nil}, call, ret, j)
					}
					mu.Lock()
					entryPoints["UnregisterTools(n)"]++
					mu.Unlock()
					continue
				case "get":
					o.Via = "GetTool"
					call = now()
					t, ok := g.getTool(nm)
					ret = now()
					res = out{OK: ok, Tag: t.Description}
					if ok && t.Name != nm {
						r.Violation(fmt.Sprintf("C12|%s|tools|GetTool|wrong-descriptor", kind), fmt.Sprintf("%s: GetTool(%q) returned the descriptor of %q", kind, nm, t.Name), nil)
						continue
					}
				case "gets":
					o.Via = "GetTools"
					call = now()
					ts := g.getTools()
					ret = now()
					res = out{OK: true}
					for _, t := range ts {
						res.Items = append(res.Items, t.Name+"="+t.Description)
					}
				default:
					if cl == nil {
						c, err := dialW(in)
						if err != nil {
							r.Inconclusive(fmt.Sprintf("history %d on %s: a session could not be opened: %v", h, kind, err))
							return
						}
						cl = c
						defer cl.close()
					}
					call = now()
					if rg == "handlers" {
						mu.Lock()
						tagN++
						nonce := fmt.Sprintf("nonce-%d", tagN)
						mu.Unlock()
						if !cl.notifyP(nm, fmt.Sprintf(`{"nonce":%q}`, nonce)) {
							res = out{Transport: "the notification was not accepted"}
						} else if v, ok := ran.Load(nonce); ok {
							res = out{OK: true, Tag: v.(string)}
						}
					} else {
						res = cl.do(o)
					}
					ret = now()
					if res.Transport != "" {
						r.Inconclusive(fmt.Sprintf("history %d on %s: %s %s: %s", h, kind, rg, k, res.Transport))
						continue
					}
					if res.Err != "" {
						r.Violation(fmt.Sprintf("C12|%s|%s|%s|request-failed", kind, rg, k), fmt.Sprintf("%s: %s %s failed: %s", kind, rg, k, res.Err), nil)
						continue
					}
				}
				record(rg, o, res, call, ret, 7)
			}
		}(w)
	}
	wg.Wait()
	for _, rg := range regs {
		r.Eval(1)
		model := registryModel(rg == "resources")
		if rg == "templates" {
			model = templateModel()
		}
		res, _ := porcupine.CheckOperationsVerbose(model, ops[rg], 20*time.Second)
		switch res {
		case porcupine.Illegal:
			var desc []string
			for _, o := range ops[rg] {
				desc = append(desc, fmt.Sprintf("c%d [%d,%d] %+v -> %+v", o.ClientId, o.Call, o.Return, o.Input, o.Output))
			}
			r.Violation(fmt.Sprintf("C12|%s|%s|not-linearizable", kind, rg), fmt.Sprintf("%s: a concurrent history of register/unregister/list/call on the %s registry (every public entry point) is not linearizable (torn / phantom / duplicate entry, wrong order, stale handler, an answer put together from two handlers, or a call to a registered entry failing)", kind, rg), map[string]interface{}{"history": desc})
		case porcupine.Unknown:
			r.Inconclusive(fmt.Sprintf("porcupine timeout: history %d registry %s (%d ops)", h, rg, len(ops[rg])))
		default:
			r.Distinct(fmt.Sprintf("%s|%s|ops=%d", kind, rg, len(ops[rg])/4*4))
			r.Count("ops_checked", int64(len(ops[rg])))
			r.Count("ops_checked_"+rg, int64(len(ops[rg])))
			r.Count("histories_checked|"+string(kind), 1)
		}
	}
	for ep, n := range entryPoints {
		r.Count("history_ops_through_"+ep, int64(n))
	}
	if h == 0 {
		for _, rg := range []string{"tools", "resources"} {
			var desc []string
			for _, o := range ops[rg] {
				desc = append(desc, fmt.Sprintf("c%d %+v -> %+v", o.ClientId, o.Input, o.Output))
			}
			r.Sample(map[string]interface{}{"kind": kind, "registry": rg, "history": desc})
		}
	}
}

func child() {
	kit.Silence()
	cr := vh.NewChildRun("C12")
	kind := kit.Kind(os.Getenv("C12_KIND"))
	from, _ := strconv.Atoi(os.Getenv("C12_FROM"))
	to, _ := strconv.Atoi(os.Getenv("C12_TO"))
	if os.Getenv("C12_MODE") == "hammer" {
		hammer(cr, kind, to)
	} else if os.Getenv("C12_MODE") == "samename" {
		sameName(cr, kind, to)
	} else if os.Getenv("C12_MODE") == "filters" {
		for i := from; i < to; i++ {
			filterRun(cr, kind, i, os.Getenv("C12_RACE") == "1")
		}
		exportFilterStats(cr)
	} else {
		for h := from; h < to; h++ {
			history(cr, h, kind)
		}
	}
	cr.ExportAndExit()
}

func main() {
	kit.MaybeServeStdioChild()
	if vh.ChildRole() == "c12" {
		child()
		return
	}
	r := vh.NewRun("C12", "exploration")
	type job struct {
		kind     kit.Kind
		mode     string
		from, to int
		race     bool
	}
	var jobs []job
	// histories: Streamable (JSON and SSE answers), legacy SSE and stdio servers
	nh := r.Pick(320, 16000)
	batch := nh / 16
	histKinds := []kit.Kind{kit.SJSON, kit.LSSE, kit.Stdio, kit.SSSE, kit.SJSON, kit.LSSE, kit.Stdio, kit.SJSON}
	for b := 0; b < 16; b++ {
		jobs = append(jobs, job{histKinds[b%8], "hist", b * batch, (b + 1) * batch, false})
	}
	threeKinds := []kit.Kind{kit.SJSON, kit.LSSE, kit.Stdio} // the three server types: Server, SSEServer, StdioServer
	for _, k := range threeKinds {
		jobs = append(jobs, job{k, "hammer", 0, r.Pick(120, 1200), false})
	}
	// list filters that modify the slices / descriptors they are handed (filters.go): Streamable JSON, Streamable SSE
	// and legacy SSE servers; run indices are disjoint so that every run has its own PRNG stream
	fb := r.Pick(1, 4)
	for b := 0; b < r.Pick(2, 4); b++ {
		jobs = append(jobs, job{kit.SJSON, "filters", b * fb, (b + 1) * fb, false}, job{kit.LSSE, "filters", b * fb, (b + 1) * fb, false})
	}
	for b := 0; b < r.Pick(1, 2); b++ {
		jobs = append(jobs, job{kit.SSSE, "filters", b * fb, (b + 1) * fb, false})
	}
	raceBin := os.Getenv("VH_RACE_BIN")
	if _, err := os.Stat(raceBin); err == nil {
		jobs = append(jobs, job{kit.SJSON, "hammer", 0, r.Pick(60, 600), true}, job{kit.SJSON, "hist", 100000, 100000 + r.Pick(20, 200), true})
		jobs = append(jobs, job{kit.LSSE, "hammer", 0, r.Pick(30, 300), true}, job{kit.Stdio, "hammer", 0, r.Pick(30, 300), true})
		jobs = append(jobs, job{kit.LSSE, "hist", 100000, 100000 + r.Pick(10, 100), true}, job{kit.Stdio, "hist", 100000, 100000 + r.Pick(10, 100), true})
		jobs = append(jobs, job{kit.SJSON, "samename", 0, r.Pick(60, 600), true})
		jobs = append(jobs, job{kit.SJSON, "filters", 1000, 1000 + r.Pick(1, 3), true}, job{kit.LSSE, "filters", 1000, 1000 + r.Pick(1, 3), true})
	} else {
		r.Note("race-detector flavour not built: race part skipped")
	}
	var nViol atomic.Int64
	var wedged atomic.Bool
	runJob := func(i int, j job) {
		if wedged.Load() {
			// one wedged registry is the verdict; every further child would only wait out its watchdog
			r.Count("jobs_skipped_after_wedge", 1)
			return
		}
		tag := fmt.Sprintf("%s-%s-%d", j.mode, j.kind, i)
		env := append(r.ChildEnvFor(), "C12_KIND="+string(j.kind), "C12_MODE="+j.mode, "C12_FROM="+strconv.Itoa(j.from), "C12_TO="+strconv.Itoa(j.to))
		var res *vh.ChildResult
		logPrefix := ""
		if j.race {
			tag += "-race"
			logPrefix = filepath.Join(r.OutDir, "race", tag)
			os.MkdirAll(filepath.Dir(logPrefix), 0o755)
			old, _ := filepath.Glob(logPrefix + ".*")
			for _, f := range old {
				os.Remove(f)
			}
			env = append(env, "C12_RACE=1", "GORACE=halt_on_error=0 log_path="+logPrefix)
			res = r.SpawnChildBin(raceBin, "c12", tag, nil, env, nil, time.Duration(r.Pick(3, 20))*time.Minute)
		} else {
			res = r.SpawnChild("c12", tag, nil, env, nil, time.Duration(r.Pick(3, 20))*time.Minute)
		}
		stdout := res.Stdout()
		nViol.Add(int64(bytes.Count(stdout, []byte(`{"t":"viol"`))))
		cr := r.Merge(stdout)
		if !cr.Done {
			stderr := res.Stderr()
			if res.TimedOut {
				// a child that did not finish: the goroutine dump decides. Several goroutines parked on a
				// sync (RW)Mutex underneath a registry / lifecycle manager function, none of them running, is a
				// wedged registry ("no interleaving ... corrupts a registry", "a call to an entry that is
				// registered throughout succeeds"); anything else is inconclusive.
				if site, n := wedgeSite(stderr); n >= 2 {
					wedged.Store(true)
					nViol.Add(1)
					r.Violation(fmt.Sprintf("C12|%s|registry-wedged|%s", j.kind, site), fmt.Sprintf("%s: the %s workload did not finish within the watchdog and %d goroutines are parked on a manager lock underneath %s: registry operations block each other for good", j.kind, j.mode, n, site),
						map[string]interface{}{"parked_goroutines": n, "first_manager_frame": site, "dump_head": head(stderr)})
				} else {
					r.Inconclusive("child " + tag + " hit the watchdog")
				}
			} else {
				crash := vh.CrashLine(stderr)
				nViol.Add(1)
				r.Violation(fmt.Sprintf("C12|%s|process-death|%s", j.kind, vh.FirstLibFrame(stderr)), fmt.Sprintf("%s: the server process died while registries changed under load: %s", j.kind, crash),
					map[string]interface{}{"crash": crash, "first_library_frame": vh.FirstLibFrame(stderr), "stderr_head": head(stderr)})
			}
		}
		if j.race {
			reps := racelog.ParseGlob(logPrefix)
			r.Count("race_reports", int64(len(reps)))
			for pair, rs := range racelog.Dedupe(reps) {
				if !rs[0].InLib {
					continue
				}
				if !strings.Contains(pair, "Manager") && !strings.Contains(pair, "NotificationHandler") && !strings.Contains(pair, "handleServerNotification") && !strings.Contains(pair, "HandleNotification") && !strings.Contains(pair, "handleNotification") {
					continue // races elsewhere are C20's business
				}
				nViol.Add(1)
				r.Violation("C12|race|"+pair, "data race on a registry: "+pair, map[string]interface{}{"reports": len(rs), "first": head(rs[0].Text)})
			}
			r.Distinct("race-flavour|" + j.mode + "|" + string(j.kind))
		}
	}
	// The same-name rounds come first and one server kind at a time: their goroutines are released together by a spin
	// barrier, and how closely together depends on the cores being free.
	for i, k := range threeKinds {
		runJob(1000+i, job{k, "samename", 0, r.Pick(3000, 20000), false})
	}
	var wg sync.WaitGroup
	sem := make(chan struct{}, 10)
	for i, j := range jobs {
		wg.Add(1)
		sem <- struct{}{}
		go func(i int, j job) {
			defer wg.Done()
			defer func() { <-sem }()
			runJob(i, j)
		}(i, j)
	}
	wg.Wait()
	// a run that found nothing wrong must have observed every scenario family on every server type
	if nViol.Load() == 0 {
		for _, k := range threeKinds {
			if r.Counter("same_name_entries_judged_at_rest|"+string(k)) == 0 || r.Counter("hammer_lists_judged|"+string(k)) == 0 || r.Counter("histories_checked|"+string(k)) == 0 {
				r.Fatal("the entry-point scenarios observed nothing on the %s server: %d same-name entries judged at rest, %d hammer lists judged, %d histories checked (inconclusive: %d)", k,
					r.Counter("same_name_entries_judged_at_rest|"+string(k)), r.Counter("hammer_lists_judged|"+string(k)), r.Counter("histories_checked|"+string(k)), r.Counter("inconclusive"))
			}
		}
		for _, ep := range []string{"RegisterTool", "RegisterPrompt", "RegisterResource", "RegisterResources", "RegisterResourceTemplate", "UnregisterTools(1)", "UnregisterTools(n)", "GetTool", "GetTools", "RegisterNotificationHandler", "UnregisterNotificationHandler"} {
			if r.Counter("history_ops_through_"+ep) == 0 {
				r.Fatal("no history operation went through %s", ep)
			}
		}
	}
	if nViol.Load() == 0 && (r.Counter("filter_views_evaluated") == 0 || r.Counter("filter_calls_that_rewrote_their_argument") == 0 || r.Counter("filter_calls_non_admin") == 0) {
		r.Fatal("the list-filter scenarios observed nothing: %d views evaluated, %d filter calls by restricted roles, %d of them rewrote their argument",
			r.Counter("filter_views_evaluated"), r.Counter("filter_calls_non_admin"), r.Counter("filter_calls_that_rewrote_their_argument"))
	}
	r.Finish("Every public entry point into the registries is driven, on the three server types (Server = Streamable with JSON / SSE answers, SSEServer, StdioServer over in-memory streams): RegisterTool, UnregisterTools with one name and with several (absent and repeated ones included), RegisterPrompt, RegisterResource, RegisterResources, RegisterResourceTemplate, Register/UnregisterNotificationHandler, GetTool, GetTools; list / call / get / read / templates-list / notifications go over the wire on raw sessions. A registration is identified by a tag that its descriptor and every text of its handler's answer carry; for resources the tag also names the entry point (RegisterResources handlers return two contents, RegisterResource handlers one), so a read shows whether one handler answered. (1) Concurrent histories (4-6 workers x 6-10 ops, 2-4 names per registry, entry points drawn at random) recorded at the API boundary; each registry's history is checked for linearizability with porcupine against an insertion-ordered map (tools / prompts / templates / handlers lists as sets, resources as a sequence; entries registered throughout must always be callable; never-registered ones must fail; UnregisterTools with several names enters as one removal per name; a template registered again may keep the first or take the new descriptor). (2) Same-name rounds (samename.go): 8 goroutines released together by a spin barrier perform one operation each on the same fresh name, with the entry points mixed per round (all singular, all plural, alternating, one among the others, at random; tools: registrations against UnregisterTools in its forms; every third template is named like the resource), one registry per round, 4 x 3000 (thorough 20000) rounds per server type, while a wire session lists / calls / reads and a goroutine reads GetTools / GetTool, paced by round counts; lists must be a registered set for the rounds over / begun (no duplicate, phantom, missing entry, descriptor of one of the registrations, resources in round order), answers must come from one of the handlers registered for the name, and at rest descriptor and handler must be those of one registration. (3) Hammer (hammer.go): 4 mutator goroutines through all entry points (colliding on shared names) + one goroutine re-registering stable entries through each entry point in turn + 6 sessions that list, call, read, use the getters and send notifications, in a normal and a race-detector child per server type; process death (concurrent map access), race reports on registry functions, a stable entry missing / doubled / answered by half a handler, a stable notification handler not run refute. Distinct = (server kind, registry, history size bucket | entry-point mix of the round | hammer). List-filter scenarios (filters.go): Streamable (JSON, SSE answers) and legacy SSE servers whose tool / prompt / resource list filters take the caller's role from a request header (context function) and MODIFY the slice they are handed the way user filters do (filter in place with in[:0], clear the tail, sort, reverse, rotate, truncate, nil entries out, delete with the append idiom, append, prepend; control: allocate) while role admin gets its argument back untouched; role,admin,role,admin sequences on every registry with registrations in between, then every role listing concurrently on its own session with one writer goroutine per registry (register / replace / unregister tools, paced by list counts; resources through RegisterResource and RegisterResources in turn, UnregisterTools in its one-name and several-names form in turn) and a goroutine that reads GetTools / GetTool and scribbles on the copies, then quiescent lists. One writer per registry makes the mutation history a sequence of states; every view, stamped by a logical clock, must be the caller's filter applied (by the harness, on a private copy) to one of the states the registry had between the view's start and end: resources as a sequence (registration order), tools / prompts as a multiset, descriptors included. Descriptor field mutation through the handed pointers is exercised one request at a time; names and order of the following lists are judged, leaked field values only counted. Distinct there = (server kind, registry, role, phase).",
		[]string{"checker timeouts are inconclusive", "the statement does not promise that a descriptor field changed by a list filter through the pointer it was handed stays invisible to later lists (the registry hands out its own descriptors): counted, not judged", "a list that is not answered within the 120 s watchdog, or a session that cannot be opened, is inconclusive", "the static lockset analysis named in the property's anchor is replaced by the race detector and the runtime map-access detector on the driven paths",
			"which registration of a template name wins (the library keeps the first, the statement says the later one replaces) is left open; the stdio server has no templates list, its template registrations are only exercised",
			"whether a notification found its handler is read off after the POST returned on Streamable servers only (they run the handler before answering); on legacy SSE / stdio servers, which start it in a goroutine, a missing run after the 60 s watchdog is inconclusive"})
}

func head(s string) string {
	if len(s) > 2500 {
		return s[:2500]
	}
	return s
}

// wedgeSite scans a goroutine dump for goroutines blocked in sync.(*RWMutex) / sync.(*Mutex) acquisition whose stack
// continues into a library manager function; it returns the first such manager frame and the number of goroutines.
func wedgeSite(dump string) (string, int) {
	site, n := "", 0
	for _, g := range strings.Split(dump, "\n\ngoroutine ") {
		lines := strings.Split(g, "\n")
		lockAt := -1
		for i, l := range lines {
			if strings.HasPrefix(l, "sync.(*RWMutex).RLock") || strings.HasPrefix(l, "sync.(*RWMutex).Lock") || strings.HasPrefix(l, "sync.(*Mutex).Lock") {
				lockAt = i
				break
			}
		}
		if lockAt < 0 {
			continue
		}
		for _, l := range lines[lockAt:] {
			if strings.HasPrefix(l, "trpc.group/trpc-go/trpc-mcp-go.(*") && strings.Contains(l, "anager)") {
				n++
				if site == "" {
					if i := strings.LastIndex(l, "("); i > 0 {
						l = l[:i]
					}
					site = strings.TrimPrefix(l, "trpc.group/trpc-go/trpc-mcp-go")
				}
				break
			}
		}
	}
	return site, n
}
