// C12, same-name rounds — several goroutines register the SAME fresh name at the same instant, through different
// public entry points.
//
// W goroutines are released together by a spin barrier, round after round; every round belongs to one registry (tools,
// prompts, resources, templates in turn) and one fresh name, and every goroutine performs ONE operation on that name:
//
//	tools      all RegisterTool | most RegisterTool, some UnregisterTools(name) | ... UnregisterTools(several names)
//	prompts    all RegisterPrompt
//	resources  all RegisterResource | all RegisterResources | alternating | one RegisterResources among RegisterResource |
//	           one RegisterResource among RegisterResources | at random
//	templates  all RegisterResourceTemplate (the name is, every third time, the URI of the resource of the same number)
//
// Meanwhile a wire session lists every registry and calls / gets / reads entries, and a goroutine reads GetTools /
// GetTool; afterwards everything is listed, called and read once more. Oracle (statement of C12 only):
//   - a list shows no name twice, no name that was not registered before the list ended, every name whose round was
//     over before the list began (unless one of the round's goroutines unregistered it), each with the descriptor of one
//     of the registrations made for it, resources in the order of their rounds (= registration order);
//   - a call / get / read of a name whose round is over succeeds and is the answer of ONE of the handlers registered for
//     it (one tag; for resources the number of contents that goes with the tag's entry point); a call of a name whose
//     round has not begun when the answer arrives, or that is never registered, fails;
//   - at rest the entry is one registration's: the handler that answers is the one registered with the listed descriptor.
package main

import (
	"fmt"
	"math/rand"
	"runtime"
	"strings"
	"sync"
	"sync/atomic"
	"time"

	"verifharness/lib/kit"
	"verifharness/lib/vh"
)

const (
	snW          = 8
	snWirePace   = 48 // rounds between two passes of the wire reader
	snGetterPace = 16 // ... of the getter reader
)

type snAct struct {
	do    string   // reg | unreg
	tag   string   // reg
	names []string // unreg: the arguments of UnregisterTools
}

type snEntry struct {
	reg, name string
	n         int   // number within the registry, 1-based
	g         int64 // global round
	tags      map[string]bool
	optional  bool // a goroutine of the round unregisters it: it may or may not be there afterwards
	pattern   string
	acts      [snW]snAct
}

type snRun struct {
	r      *vh.Run
	kind   kit.Kind
	g      *rig
	regs   []string
	plan   map[string][]*snEntry
	byName map[string]map[string]*snEntry
	byG    []*snEntry
	total  int64

	arrived, round atomic.Int64
}

func snPlan(rng *rand.Rand, regs []string, rounds int) (plan map[string][]*snEntry, byG []*snEntry) {
	plan = map[string][]*snEntry{}
	for n := 1; n <= rounds; n++ {
		for _, reg := range regs {
			e := &snEntry{reg: reg, n: n, g: int64(len(byG) + 1), tags: map[string]bool{}}
			e.name = fmt.Sprintf("same-%d", n)
			via := [snW]string{}
			for w := range via {
				via[w] = "single"
			}
			unreg := map[int][]string{}
			switch reg {
			case "tools":
				switch p := rng.Intn(5); {
				case p < 3:
					e.pattern = "RegisterTool"
				case p == 3:
					e.pattern = "RegisterTool+UnregisterTools(1)"
					unreg[rng.Intn(snW)] = []string{e.name}
					unreg[rng.Intn(snW)] = []string{e.name}
				default:
					e.pattern = "RegisterTool+UnregisterTools(n)"
					forms := [][]string{{e.name, "never-registered"}, {e.name, e.name}, {"never-registered", e.name, "never-registered-2", e.name}}
					for _, f := range forms {
						unreg[rng.Intn(snW)] = f
					}
				}
			case "prompts":
				e.pattern = "RegisterPrompt"
			case "resources":
				e.name = "res://" + e.name
				switch rng.Intn(6) {
				case 0:
					e.pattern = "RegisterResource"
				case 1:
					e.pattern = "RegisterResources"
					for w := range via {
						via[w] = "multi"
					}
				case 2:
					e.pattern = "RegisterResource/RegisterResources alternating"
					for w := range via {
						if (w+n)%2 == 0 {
							via[w] = "multi"
						}
					}
				case 3:
					e.pattern = "one RegisterResources among RegisterResource"
					via[rng.Intn(snW)] = "multi"
				case 4:
					e.pattern = "one RegisterResource among RegisterResources"
					one := rng.Intn(snW)
					for w := range via {
						if w != one {
							via[w] = "multi"
						}
					}
				default:
					e.pattern = "RegisterResource/RegisterResources at random"
					for w := range via {
						if rng.Intn(2) == 0 {
							via[w] = "multi"
						}
					}
				}
			case "templates":
				e.pattern = "RegisterResourceTemplate"
				if n%3 == 0 {
					e.pattern = "RegisterResourceTemplate named like the resource"
					e.name = "res://" + e.name
				}
			}
			for w := 0; w < snW; w++ {
				if names, ok := unreg[w]; ok {
					e.acts[w] = snAct{do: "unreg", names: names}
					e.optional = true
					continue
				}
				tag := fmt.Sprintf("n%d-w%d", n, w)
				if reg == "resources" {
					tag = withVia(tag, via[w])
				}
				e.acts[w] = snAct{do: "reg", tag: tag}
				e.tags[tag] = true
			}
			plan[reg] = append(plan[reg], e)
			byG = append(byG, e)
		}
	}
	return plan, byG
}

// complete: the number of global rounds that all goroutines have finished.
func (s *snRun) complete() int64 {
	c := s.arrived.Load()/snW - 1
	if c < 0 {
		return 0
	}
	if c > s.total {
		return s.total
	}
	return c
}

func (s *snRun) sig(reg, src, sym string) string {
	if src != "list" {
		sym += "-by-" + src
	}
	return fmt.Sprintf("C12|%s|%s|same-name|%s", s.kind, reg, sym)
}

// judgeList: items is what a list that began after c0 rounds were over and ended when r1 rounds had begun showed.
func (s *snRun) judgeList(reg, src, phase string, items []string, c0, r1 int64) bool {
	s.r.Eval(1)
	seen := map[string]bool{}
	sym, culprit := "", ""
	lastN := 0
	for _, it := range items {
		j := strings.Index(it, "=")
		name, tag := it[:j], it[j+1:]
		e := s.byName[reg][name]
		switch {
		case seen[name]:
			sym = "duplicate-entry-in-list"
		case e == nil || e.g > r1:
			sym = "phantom-entry-in-list"
		case !e.tags[tag]:
			sym = "descriptor-of-no-registration"
		case reg == "resources" && e.n < lastN:
			sym = "not-in-registration-order"
		}
		if sym != "" {
			culprit = it
			break
		}
		seen[name] = true
		lastN = e.n
	}
	if sym == "" {
		for _, e := range s.plan[reg] {
			if e.g > c0 {
				break
			}
			if !e.optional && !seen[e.name] {
				sym, culprit = "registered-entry-missing-from-list", e.name
				break
			}
		}
	}
	if sym != "" {
		pat := ""
		if j := strings.Index(culprit, "="); j >= 0 {
			if e := s.byName[reg][culprit[:j]]; e != nil {
				pat = e.pattern
			}
		} else if e := s.byName[reg][culprit]; e != nil {
			pat = e.pattern
		}
		s.r.Violation(s.sig(reg, src, sym), fmt.Sprintf("%s: %s of the %s registry, %s %d goroutines registered the same new name at the same instant (entry points of the round: %s): %s (%q); the view has %d entries, rounds over before it began: %d, begun when it ended: %d of %d",
			s.kind, src, reg, map[string]string{"during": "while", "after": "after"}[phase], snW, pat, sym, culprit, len(items), c0, r1, s.total),
			map[string]interface{}{"entry": culprit, "entry_points_of_its_round": pat, "phase": phase, "entries": len(items)})
		return false
	}
	s.r.Count("same_name_views_judged_"+phase, 1)
	return true
}

// judgeCall: res answers a call / get / read of name that began after c0 rounds were over and ended when r1 had begun.
func (s *snRun) judgeCall(reg, src, phase, name string, res out, c0, r1 int64) {
	if res.Transport != "" {
		s.r.Inconclusive(fmt.Sprintf("same-name rounds on %s: %s %s of %q: %s", s.kind, reg, src, name, res.Transport))
		return
	}
	s.r.Eval(1)
	if res.Err != "" {
		s.r.Violation(fmt.Sprintf("C12|%s|%s|same-name|request-failed", s.kind, reg), fmt.Sprintf("%s: %s %s of %q failed: %s", s.kind, reg, src, name, res.Err), nil)
		return
	}
	e := s.byName[reg][name]
	sym := ""
	switch {
	case e == nil || e.g > r1:
		if res.OK {
			sym = "never-registered-entry-served"
		}
	case res.OK && !e.tags[res.Tag]:
		sym = "answer-of-no-registered-handler"
	case res.OK && src == "call" && !oneHandler(reg, res):
		sym = "answer-put-together-from-two-handlers"
	case !res.OK && e.g <= c0 && !e.optional:
		sym = "registered-entry-call-failed"
	}
	if sym != "" {
		pat := ""
		if e != nil {
			pat = e.pattern
		}
		s.r.Violation(s.sig(reg, src, sym), fmt.Sprintf("%s: %s of the %s entry %q (entry points of its round: %s) %s same-name rounds: %s; answer %+v; rounds over before it began: %d, begun when it ended: %d", s.kind, src, reg, name, pat, phase, sym, res, c0, r1),
			map[string]interface{}{"entry": name, "entry_points_of_its_round": pat, "answer": fmt.Sprintf("%+v", res)})
		return
	}
	s.r.Count("same_name_calls_judged_"+phase, 1)
	if e == nil || e.g > r1 {
		s.r.Count("same_name_calls_of_unregistered_names_judged", 1)
	}
}

func toolItems(g *rig) []string {
	ts := g.getTools()
	items := make([]string, len(ts))
	for i, t := range ts {
		items[i] = t.Name + "=" + t.Description
	}
	return items
}

func (s *snRun) getTool(name string) out {
	t, ok := s.g.getTool(name)
	res := out{OK: ok, Tag: t.Description}
	if ok && t.Name != name {
		res.Err = fmt.Sprintf("GetTool(%q) returned the descriptor of %q", name, t.Name)
	}
	return res
}

// latestComplete: the newest entry of reg whose round is among the first c0.
func (s *snRun) latestComplete(reg string, c0 int64) *snEntry {
	var last *snEntry
	// plan[reg][i].g = i*len(regs) + position + 1
	i := int(c0) / len(s.regs)
	for i >= len(s.plan[reg]) {
		i--
	}
	for ; i >= 0; i-- {
		if s.plan[reg][i].g <= c0 {
			last = s.plan[reg][i]
			break
		}
	}
	return last
}

func sameName(r *vh.Run, kind kit.Kind, rounds int) {
	rng := r.Rand("c12-samename-" + string(kind))
	in := kit.Start(kind, kit.Opts{})
	defer in.Close()
	s := &snRun{r: r, kind: kind, g: &rig{in: in, url: in.URL()}, regs: []string{"tools", "prompts", "resources", "templates"}, byName: map[string]map[string]*snEntry{}}
	s.plan, s.byG = snPlan(rng, s.regs, rounds)
	s.total = int64(len(s.byG))
	for _, reg := range s.regs {
		s.byName[reg] = map[string]*snEntry{}
		for _, e := range s.plan[reg] {
			s.byName[reg][e.name] = e
		}
	}
	wire := []string{"tools", "prompts", "resources"}
	if hasTemplateList(kind) {
		wire = append(wire, "templates")
	}

	stop := make(chan struct{})
	stopped := func() bool {
		select {
		case <-stop:
			return true
		default:
			return false
		}
	}
	var readers sync.WaitGroup
	// a wire session lists, calls, gets and reads all the time
	readers.Add(1)
	go func(seed int64) {
		defer readers.Done()
		rr := rand.New(rand.NewSource(seed))
		cl, err := dialW(in)
		if err != nil {
			r.Inconclusive(fmt.Sprintf("same-name rounds on %s: the reading session could not be opened: %v", kind, err))
			return
		}
		defer cl.close()
		for last := int64(-1 << 20); !stopped(); {
			// paced by the rounds (a pass per so many of them), not by time: the amount of reading is bounded
			for s.round.Load() < last+snWirePace && !stopped() {
				time.Sleep(100 * time.Microsecond)
			}
			last = s.round.Load()
			for _, reg := range wire {
				c0 := s.complete()
				res := cl.do(op{Reg: reg, Kind: "list"})
				r1 := s.round.Load()
				switch {
				case res.Transport != "":
					r.Inconclusive(fmt.Sprintf("same-name rounds on %s: %s list: %s", kind, reg, res.Transport))
				case res.Err != "":
					r.Eval(1)
					r.Violation(fmt.Sprintf("C12|%s|%s|same-name|request-failed", kind, reg), fmt.Sprintf("%s: %s list failed: %s", kind, reg, res.Err), nil)
				default:
					s.judgeList(reg, "list", "during", res.Items, c0, r1)
				}
				if reg == "templates" {
					continue
				}
				// an entry whose round is just over, an older one, one whose round is far ahead, one that never comes
				var targets []string
				c0 = s.complete()
				if e := s.latestComplete(reg, c0); e != nil {
					targets = append(targets, e.name, s.plan[reg][rr.Intn(e.n)].name)
				}
				ahead := s.round.Load() + 4000
				if ahead <= s.total {
					targets = append(targets, s.byG[ahead-1].name)
					if s.byG[ahead-1].reg != reg { // the name of another registry's round: never registered here, unless the names coincide
						targets[len(targets)-1] = fmt.Sprintf("never-%d", ahead)
					}
				}
				targets = append(targets, "never-registered")
				for _, name := range targets {
					c0 = s.complete()
					cres := cl.do(op{Reg: reg, Kind: "call", Name: name})
					s.judgeCall(reg, "call", "during", name, cres, c0, s.round.Load())
				}
			}
		}
	}(rng.Int63())
	// ... and the public getters are read all the time
	readers.Add(1)
	go func() {
		defer readers.Done()
		for last := int64(-1 << 20); !stopped(); {
			for s.round.Load() < last+snGetterPace && !stopped() {
				time.Sleep(50 * time.Microsecond)
			}
			last = s.round.Load()
			c0 := s.complete()
			items := toolItems(s.g)
			s.judgeList("tools", "GetTools", "during", items, c0, s.round.Load())
			c0 = s.complete()
			if e := s.latestComplete("tools", c0); e != nil {
				res := s.getTool(e.name)
				s.judgeCall("tools", "GetTool", "during", e.name, res, c0, s.round.Load())
			}
			if ahead := s.round.Load() + 4000; ahead <= s.total && s.byG[ahead-1].reg == "tools" {
				name := s.byG[ahead-1].name
				res := s.getTool(name)
				s.judgeCall("tools", "GetTool", "during", name, res, 0, s.round.Load())
			}
		}
	}()

	var wg sync.WaitGroup
	for w := 0; w < snW; w++ {
		wg.Add(1)
		go func(w int) {
			defer wg.Done()
			for g := int64(1); g <= s.total; g++ {
				e := s.byG[g-1]
				a := &e.acts[w]
				o := op{Reg: e.reg, Kind: "reg", Name: e.name, Tag: a.tag}
				// spin barrier: the last one to arrive releases everybody at the same instant. Spinning is kept
				// short: when the machine is busy the cores are better yielded to the goroutines that are awaited.
				if s.arrived.Add(1) == g*snW {
					s.round.Store(g)
				}
				for spins := 0; s.round.Load() < g; spins++ {
					if spins > 3000 {
						runtime.Gosched()
					}
				}
				if a.do == "unreg" {
					in.UnregisterTools(a.names...)
				} else {
					s.g.register(o)
				}
			}
			s.arrived.Add(1) // "arrives" at the round after the last one: the last round is over for this goroutine
		}(w)
	}
	wg.Wait()
	close(stop)
	readers.Wait()

	// ---- afterwards ----
	cl, err := dialW(in)
	if err != nil {
		r.Inconclusive(fmt.Sprintf("same-name rounds on %s: the final session could not be opened: %v", kind, err))
		return
	}
	defer cl.close()
	for _, reg := range wire {
		res := cl.do(op{Reg: reg, Kind: "list"})
		if res.Transport != "" {
			r.Inconclusive(fmt.Sprintf("same-name rounds on %s: final %s list: %s", kind, reg, res.Transport))
			continue
		}
		if res.Err != "" {
			r.Eval(1)
			r.Violation(fmt.Sprintf("C12|%s|%s|same-name|request-failed", kind, reg), fmt.Sprintf("%s: %s list failed: %s", kind, reg, res.Err), nil)
			continue
		}
		if !s.judgeList(reg, "list", "after", res.Items, s.total, s.total) {
			continue
		}
		listed := map[string]string{}
		for _, it := range res.Items {
			j := strings.Index(it, "=")
			listed[it[:j]] = it[j+1:]
		}
		if reg == "tools" {
			items := toolItems(s.g)
			s.judgeList(reg, "GetTools", "after", items, s.total, s.total)
			if !multisetEq(items, res.Items) {
				r.Violation(s.sig(reg, "GetTools", "getter-and-list-disagree-at-rest"), fmt.Sprintf("%s: at rest GetTools (%d entries) and tools/list (%d entries) are not the same set of descriptors", kind, len(items), len(res.Items)), nil)
			}
		}
		patterns := map[string]int{}
		winners := map[string]int{}
		for _, e := range s.plan[reg] {
			tag, isListed := listed[e.name]
			if reg != "templates" {
				cres := cl.do(op{Reg: reg, Kind: "call", Name: e.name})
				if isListed {
					s.judgeCall(reg, "call", "after", e.name, cres, s.total, s.total)
				}
				if cres.Transport == "" && cres.Err == "" && (cres.OK != isListed || (cres.OK && cres.Tag != tag)) {
					r.Violation(s.sig(reg, "call", "entry-is-not-one-registration-at-rest"), fmt.Sprintf("%s: at rest the %s entry %q (entry points of its round: %s) is listed=%v with descriptor %q, but a call of it gives found=%v by the handler registered with %q: descriptor and handler are not those of one registration",
						kind, reg, e.name, e.pattern, isListed, tag, cres.OK, cres.Tag), nil)
					continue
				}
			}
			if reg == "tools" {
				gres := s.getTool(e.name)
				r.Eval(1)
				if gres.Err != "" || gres.OK != isListed || (gres.OK && gres.Tag != tag) {
					r.Violation(s.sig(reg, "GetTool", "getter-and-list-disagree-at-rest"), fmt.Sprintf("%s: at rest tools/list has %q listed=%v descriptor %q, GetTool says %+v", kind, e.name, isListed, tag, gres), nil)
					continue
				}
			}
			patterns[e.pattern]++
			if isListed {
				if j := strings.Index(tag, "-w"); j >= 0 {
					winners[tag[j+1:]]++
				}
			} else {
				r.Count("same_name_entries_unregistered_in_the_end|"+string(kind), 1)
			}
		}
		for p, n := range patterns {
			r.Distinct(fmt.Sprintf("same-name|%s|%s|%s", kind, reg, p))
			r.Count(fmt.Sprintf("same_name_rounds|%s|%s", reg, p), int64(n))
		}
		for w := range winners {
			r.SetAdd(fmt.Sprintf("same_name_goroutines_whose_registration_survived|%s|%s", kind, reg), w)
		}
		r.Count("same_name_entries_judged_at_rest|"+string(kind), int64(len(s.plan[reg])))
	}
	if !hasTemplateList(kind) {
		r.Count("same_name_template_rounds_without_a_list_to_judge(stdio)", int64(len(s.plan["templates"])))
	}
	r.Count("same_name_rounds", s.total)
	r.Count("same_name_rounds|"+string(kind), s.total)
	if rounds > 0 {
		e := s.plan["resources"][0]
		r.Sample(map[string]interface{}{"scenario": "same-name round", "kind": kind, "registry": "resources", "name": e.name, "entry_points": e.pattern, "operations_of_the_goroutines": fmt.Sprintf("%+v", e.acts)})
	}
}
