package main

// Scenario class "the filter's verdict is final for every shape of verdict".
//
// The statement: "List filters are evaluated per request, so an entry a filter hides from a caller never appears in
// that caller's list response while remaining visible to callers the filter admits." Nothing in it depends on HOW the
// filter reports its selection. The other workloads use one filter idiom (var out; append; return out) and admit
// every caller to at least one entry, so a library that second-guesses some shapes of verdict ("a nil result means the
// filter has nothing to say", "an empty result cannot be meant", "a result that is not a fresh slice is ignored",
// "the argument is what counts, it was filtered in place") is never put to the test. Here K callers with distinct
// header tokens list tools, prompts and resources of one server at the same time; which SET a caller is admitted to
// (everything | a strict subset | exactly one entry | nothing) and which REPRESENTATION the filter uses for its
// verdict are both derived by context functions from headers of the request, and change from request to request, so
// that at any time callers of different classes are inside the filters together: the verdict oracle (the answer is
// exactly the admitted set; in particular an empty verdict gives an empty list) and the context-bleed oracle (the
// admitted sets "subset" and "one" contain an entry only this caller may see) run on the same answers.
//
// Representations of the EMPTY verdict: nil slice (var out + append idiom that never appended), make(., 0),
// make(., 0, n), a literal []*T{}, arg[:0], arg[n:n]. Of a NON-EMPTY verdict: a fresh slice (append to nil), the
// in-place idiom (out := arg[:0]; append - a prefix sub-slice of the argument, which is overwritten), a suffix
// sub-slice of the argument (admitted entries compacted to its end), a fresh slice in descending name order, a fresh
// slice with every entry twice, and (for "everything") the argument itself.
//
// Not exercised: a verdict containing an entry that is not registered, or a nil entry - the statement says nothing
// about what such a list response looks like.

import (
	"context"
	"encoding/json"
	"fmt"
	"net/http"
	"runtime"
	"sort"
	"strings"
	"sync"
	"sync/atomic"
	"time"

	mcp "trpc.group/trpc-go/trpc-mcp-go"

	"verifharness/lib/kit"
	"verifharness/lib/vh"
)

const verdictHdr = "X-Verif-Verdict"

type k4 struct{}

// verdictFn is the third context function: the verdict shape asked for by this request.
func verdictFn(ctx context.Context, r *http.Request) context.Context {
	return context.WithValue(ctx, k4{}, r.Header.Get(verdictHdr))
}

type verdictShape struct{ set, repr string }

func (s verdictShape) String() string { return s.set + "/" + s.repr }

var verdictShapes = func() []verdictShape {
	var out []verdictShape
	for _, repr := range []string{"nil", "make0", "make0cap", "literal", "arg[:0]", "arg[n:n]"} {
		out = append(out, verdictShape{"none", repr})
	}
	for _, set := range []string{"all", "subset", "one"} {
		for _, repr := range []string{"fresh", "arg-prefix", "arg-suffix", "reversed", "dup"} {
			out = append(out, verdictShape{set, repr})
		}
	}
	return append(out, verdictShape{"all", "arg"})
}()

func parseVerdictShape(s string) (verdictShape, bool) {
	i := strings.Index(s, "/")
	if i < 0 {
		return verdictShape{}, false
	}
	return verdictShape{s[:i], s[i+1:]}, true
}

// verdictAdmits: the admitted set of a caller, by the caller's token and the set class (the harness-side reference and
// the filters both use it; it depends on nothing but its arguments).
func verdictAdmits(set, prefix, tok, name string, K int) bool {
	switch set {
	case "all":
		return true
	case "subset":
		return allowed(name, prefix, tok, K)
	case "one":
		var k int
		fmt.Sscanf(tok, "tok-%d", &k)
		return name == fmt.Sprintf("%sonly-%d", prefix, k)
	}
	return false
}

// buildVerdict reports the admitted entries of in in the representation repr.
func buildVerdict[T any](in []*T, nameOf func(*T) string, admit func(string) bool, repr string) []*T {
	switch repr {
	case "nil", "fresh":
		// the usual idiom; nil when nothing was admitted
		var out []*T
		for _, x := range in {
			if admit(nameOf(x)) {
				out = append(out, x)
			}
		}
		return out
	case "make0":
		out := make([]*T, 0)
		for _, x := range in {
			if admit(nameOf(x)) {
				out = append(out, x)
			}
		}
		return out
	case "make0cap":
		out := make([]*T, 0, len(in))
		for _, x := range in {
			if admit(nameOf(x)) {
				out = append(out, x)
			}
		}
		return out
	case "literal":
		out := []*T{}
		for _, x := range in {
			if admit(nameOf(x)) {
				out = append(out, x)
			}
		}
		return out
	case "arg[:0]", "arg-prefix":
		// filtering in place: the verdict is a prefix of the argument's backing array, the argument is overwritten
		out := in[:0]
		for _, x := range in {
			if admit(nameOf(x)) {
				out = append(out, x)
			}
		}
		return out
	case "arg[n:n]", "arg-suffix":
		// the admitted entries are compacted to the END of the argument: a sub-slice with a non-zero offset
		w := len(in)
		for i := len(in) - 1; i >= 0; i-- {
			if admit(nameOf(in[i])) {
				w--
				in[w] = in[i]
			}
		}
		return in[w:]
	case "reversed":
		out := make([]*T, 0, 4)
		for _, x := range in {
			if admit(nameOf(x)) {
				out = append(out, x)
			}
		}
		sort.Slice(out, func(i, j int) bool { return nameOf(out[i]) > nameOf(out[j]) })
		return out
	case "dup":
		var out []*T
		for _, x := range in {
			if admit(nameOf(x)) {
				out = append(out, x, x)
			}
		}
		return out
	case "arg":
		return in // only used with the set "all"
	}
	return in
}

type verdictRecord struct {
	shape string
	names []string // what the filter returned, in its order
	isNil bool
}

type verdictSrv struct {
	kind   kit.Kind
	K      int
	spin   int
	in     *kit.Instance
	inside atomic.Int64
	pairs  atomic.Int64 // (entry, other request inside one of the filters) pairs
	maxIn  atomic.Int64
	last   sync.Map // "<tok>|<method>" -> verdictRecord: the filter's latest verdict for that caller
	mu     sync.Mutex
	incons []string // filter invocations whose context-function values did not belong together
}

// stage: the filters are a little slow (a yield loop, no barrier), so that requests of callers of different classes are
// inside them at the same time; measured, not assumed.
func (vs *verdictSrv) stage() func() {
	n := vs.inside.Add(1)
	if n > 1 {
		vs.pairs.Add(n - 1)
	}
	for {
		m := vs.maxIn.Load()
		if n <= m || vs.maxIn.CompareAndSwap(m, n) {
			break
		}
	}
	for i := 0; i < vs.spin; i++ {
		runtime.Gosched()
	}
	return func() { vs.inside.Add(-1) }
}

func verdictFilter[T any](vs *verdictSrv, method, prefix string, nameOf func(*T) string) func(ctx context.Context, in []*T) []*T {
	return func(ctx context.Context, in []*T) []*T {
		defer vs.stage()()
		tok := tokOf(ctx)
		tok2, _ := ctx.Value(k2{}).(string)
		raw, _ := ctx.Value(k4{}).(string)
		sh, ok := parseVerdictShape(raw)
		if !ok {
			return in // not a request of this workload (none is expected)
		}
		if tok2 != wantTok2(tok, 2) {
			vs.mu.Lock()
			vs.incons = append(vs.incons, fmt.Sprintf("%s filter: first context function's value %q, second's %q, third's %q", method, tok, tok2, raw))
			vs.mu.Unlock()
		}
		out := buildVerdict(in, nameOf, func(name string) bool { return verdictAdmits(sh.set, prefix, tok, name, vs.K) }, sh.repr)
		rec := verdictRecord{shape: raw, isNil: out == nil}
		for _, x := range out {
			rec.names = append(rec.names, nameOf(x))
		}
		vs.last.Store(tok+"|"+method, rec)
		return out
	}
}

var verdictLists = []struct{ method, field, prefix string }{
	{"tools/list", "tools", "t-"},
	{"prompts/list", "prompts", "p-"},
	{"resources/list", "resources", "r-"},
}

func verdictNames(K int) []string {
	names := []string{"all", "even", "odd"}
	for k := 0; k < K; k++ {
		names = append(names, fmt.Sprintf("only-%d", k))
	}
	return names
}

func buildVerdictSrv(kind kit.Kind, K, spin int) *verdictSrv {
	vs := &verdictSrv{kind: kind, K: K, spin: spin}
	tf := verdictFilter(vs, "tools/list", "t-", func(t *mcp.Tool) string { return t.Name })
	pf := verdictFilter(vs, "prompts/list", "p-", func(p *mcp.Prompt) string { return p.Name })
	rf := verdictFilter(vs, "resources/list", "r-", func(x *mcp.Resource) string { return x.Name })
	if kind == kit.LSSE {
		all := func(ctx context.Context, r *http.Request) context.Context {
			return verdictFn(ctxFn2(ctxFn1(ctx, r), r), r)
		}
		vs.in = kit.Start(kind, kit.Opts{SSEOpts: []mcp.SSEOption{mcp.WithSSEContextFunc(all), mcp.WithSSEToolListFilter(tf), mcp.WithSSEPromptListFilter(pf), mcp.WithSSEResourceListFilter(rf)}})
	} else {
		vs.in = kit.Start(kind, kit.Opts{ServerOpts: []mcp.ServerOption{mcp.WithHTTPContextFunc(ctxFn1), mcp.WithHTTPContextFunc(ctxFn2), mcp.WithHTTPContextFunc(verdictFn),
			mcp.WithToolListFilter(tf), mcp.WithPromptListFilter(pf), mcp.WithResourceListFilter(rf)}})
	}
	for _, n := range verdictNames(K) {
		n := n
		vs.in.RegisterTool(mcp.NewTool("t-"+n), func(ctx context.Context, req *mcp.CallToolRequest) (*mcp.CallToolResult, error) {
			return mcp.NewTextResult("x"), nil
		})
		vs.in.RegisterPrompt(&mcp.Prompt{Name: "p-" + n}, func(ctx context.Context, req *mcp.GetPromptRequest) (*mcp.GetPromptResult, error) {
			return &mcp.GetPromptResult{}, nil
		})
		vs.in.RegisterResource(&mcp.Resource{URI: "res://" + n, Name: "r-" + n}, func(ctx context.Context, req *mcp.ReadResourceRequest) (mcp.ResourceContents, error) {
			return mcp.TextResourceContents{URI: "res://" + n, Text: "x"}, nil
		})
	}
	return vs
}

// wireNames: the names of a list answer in wire order; ok is false when the frame is not a result carrying the field
// as an array (or null).
func wireNames(frame, field string) (names []string, ok bool) {
	var m struct {
		Result map[string]json.RawMessage `json:"result"`
	}
	if frame == "" || json.Unmarshal([]byte(frame), &m) != nil || m.Result == nil {
		return nil, false
	}
	raw, has := m.Result[field]
	if !has {
		return nil, false
	}
	var items []map[string]interface{}
	if json.Unmarshal(raw, &items) != nil {
		return nil, false
	}
	names = []string{}
	for _, it := range items {
		s, _ := it["name"].(string)
		names = append(names, s)
	}
	return names, true
}

func sortedSet(xs []string) []string {
	seen := map[string]bool{}
	out := []string{}
	for _, x := range xs {
		if !seen[x] {
			seen[x] = true
			out = append(out, x)
		}
	}
	sort.Strings(out)
	return out
}

// verdictCells: correct answers per (list kind, verdict shape, server kind)
var verdictCells = map[string]int{}
var verdictCellsMu sync.Mutex
var verdictSampled atomic.Bool

func verdictScenario(r *vh.Run, kind kit.Kind, K, rounds int, order []int, spin int) {
	vs := buildVerdictSrv(kind, K, spin)
	in := vs.in
	defer in.Close()
	ctx := context.Background()
	type cli struct {
		k   int
		tok string
		c   *kit.RawConn
	}
	var clients []cli
	defer func() {
		for _, c := range clients {
			c.c.Close()
		}
	}()
	for k := 0; k < K; k++ {
		c, err := in.Dial(ctx)
		if err != nil {
			r.Fatal("verdict shapes: dial: %v", err)
		}
		c.Headers[hdr] = fmt.Sprintf("tok-%d", k)
		clients = append(clients, cli{k, fmt.Sprintf("tok-%d", k), c})
		if err := c.Handshake(ctx); err != nil {
			r.Fatal("verdict shapes: handshake: %v", err)
		}
	}
	where := fmt.Sprintf("%s verdict-shapes K=%d", kind, K)
	n := len(verdictShapes)
	registered := verdictNames(K)
	type answer struct {
		cl     cli
		li     int
		sh     verdictShape
		ex     *kit.Exchange
		rec    verdictRecord
		hasRec bool
	}
	for round := 0; round < rounds; round++ {
		answers := make([]*answer, 0, 3*K)
		var mu sync.Mutex
		var wg sync.WaitGroup
		for _, cl := range clients {
			for li := range verdictLists {
				// the K callers of a round have K different shapes per list kind (K <= n), a caller's three lists differ too,
				// and over n rounds every caller has had every shape for every list kind
				sh := verdictShapes[order[(cl.k+round+li*7)%n]]
				a := &answer{cl: cl, li: li, sh: sh}
				answers = append(answers, a)
				wg.Add(1)
				go func() {
					defer wg.Done()
					l := verdictLists[a.li]
					id := fmt.Sprintf(`"%s#%s#%d"`, a.cl.tok, l.method, round)
					ex := a.cl.c.Post(ctx, []byte(fmt.Sprintf(`{"jsonrpc":"2.0","id":%s,"method":"%s"}`, id, l.method)),
						kit.PostOpts{WantID: id, Wait: 60 * time.Second, Headers: map[string]string{verdictHdr: a.sh.String()}})
					// this caller has one request per list kind in flight: the filter's latest verdict under its token is this one's
					x, has := vs.last.Load(a.cl.tok + "|" + l.method)
					mu.Lock()
					a.ex = ex
					if has {
						a.rec, a.hasRec = x.(verdictRecord), true
					}
					mu.Unlock()
				}()
			}
		}
		wg.Wait()
		for _, a := range answers {
			l := verdictLists[a.li]
			r.Eval(1)
			f := ""
			if a.ex != nil {
				f = answerFrame(a.ex.Frames)
			}
			got, isList := wireNames(f, l.field)
			if !isList {
				r.Count("verdict_unanswered", 1)
				r.Inconclusive(fmt.Sprintf("%s round %d: %s of %s (verdict %s) was not answered with a list (timed out: %v): %.200s", where, round, l.method, a.cl.tok, a.sh, a.ex != nil && a.ex.TimedOut, f))
				continue
			}
			want := []string{}
			for _, nm := range registered {
				if verdictAdmits(a.sh.set, l.prefix, a.cl.tok, l.prefix+nm, K) {
					want = append(want, l.prefix+nm)
				}
			}
			sort.Strings(want)
			gotSet := sortedSet(got)
			wit := map[string]interface{}{"kind": kind, "requester": a.cl.tok, "method": l.method, "admitted_set": a.sh.set, "verdict_representation": a.sh.repr,
				"answer": got, "filter_admits": want, "clients": K, "registered_entries": len(registered)}
			if a.hasRec && a.rec.shape == a.sh.String() {
				wit["filter_returned"], wit["filter_returned_nil_slice"] = a.rec.names, a.rec.isNil
			}
			if strings.Join(gotSet, ",") != strings.Join(want, ",") {
				inWant := map[string]bool{}
				for _, w := range want {
					inWant[w] = true
				}
				symptom := "admitted-entry-missing"
				for _, g := range gotSet {
					if !inWant[g] {
						symptom = "hidden-entry-listed"
					}
				}
				what := fmt.Sprintf("%s: %s for %s returned %v; the filter's verdict for this caller (admitted set %q, reported as %q) is %v", where, l.method, a.cl.tok, got, a.sh.set, a.sh.repr, want)
				if len(want) == 0 {
					what += " - a caller the filter admits to nothing must get an empty list"
				}
				r.Count("verdict_answers_violating", 1)
			r.Violation(fmt.Sprintf("C13|%s|verdict-shape|%s|%s|%s", kind, l.method, a.sh, symptom), what, wit)
				continue
			}
			// a correct answer: the cell is observed
			r.Distinct(fmt.Sprintf("%s|verdict|%s|%s", kind, l.method, a.sh))
			r.Count(fmt.Sprintf("verdict_callers|%s|%s", l.method, a.sh), 1)
			r.Count("verdict_callers_kind|"+string(kind), 1)
			verdictCellsMu.Lock()
			verdictCells[fmt.Sprintf("%s|%s|%s", l.method, a.sh, kind)]++
			verdictCellsMu.Unlock()
			if len(want) == 0 {
				r.Count("verdict_empty_verdicts_answered_with_empty_list", 1)
				if a.hasRec && a.rec.shape == a.sh.String() && a.rec.isNil {
					r.Count("verdict_nil_verdicts_answered_with_empty_list", 1)
				}
			}
			// order and multiplicity of the answer against what the filter returned: left open by the statement, counted
			if a.hasRec && a.rec.shape == a.sh.String() && len(want) > 1 {
				if strings.Join(got, ",") == strings.Join(a.rec.names, ",") {
					r.Count("verdict_answers_in_filter_order_and_multiplicity", 1)
				} else {
					r.Count("verdict_answers_other_order_or_multiplicity", 1)
				}
			}
			if kind == kit.SLJSON && a.sh.set == "none" && a.sh.repr == "nil" && l.method == "resources/list" && a.hasRec && verdictSampled.CompareAndSwap(false, true) {
				r.Sample(map[string]interface{}{"verdict_shape_case": wit, "concurrent_callers_with_other_verdict_shapes": K - 1})
			}
		}
	}
	vs.mu.Lock()
	incons := vs.incons
	vs.mu.Unlock()
	for i, s := range incons {
		if i >= 3 {
			break
		}
		r.Violation(fmt.Sprintf("C13|%s|verdict-shape|filter|context-values-of-different-requests", kind), where+": "+s, map[string]interface{}{"kind": kind, "clients": K, "inconsistent_invocations": len(incons)})
	}
	r.Count("verdict_filter_overlapping_pairs", vs.pairs.Load())
	r.Count("verdict_filter_overlapping_pairs|"+string(kind), vs.pairs.Load())
	r.Max("verdict_requests_inside_filters_at_once", vs.maxIn.Load())
}

// verdictSweep: every server kind, every list kind, every verdict shape, K callers at a time.
func verdictSweep(r *vh.Run) {
	rng := r.Rand("verdict-shapes")
	n := len(verdictShapes)
	kinds := []kit.Kind{kit.SJSON, kit.SSSE, kit.SLJSON, kit.SLSSE, kit.SNoSess, kit.LSSE}
	type cfg struct{ K, rounds int }
	cfgs := []cfg{{8, n + 2}}
	if !r.Quick() {
		cfgs = []cfg{{2, n}, {8, 3 * n}, {n, 2 * n}}
	}
	for _, kind := range kinds {
		for _, c := range cfgs {
			verdictScenario(r, kind, c.K, c.rounds, rng.Perm(n), []int{20, 100, 400}[rng.Intn(3)])
		}
	}
}

// verdictVerdict: the class counts as observed only when every (list kind, verdict shape, server kind) cell had
// callers whose answers were judged, and when callers really were inside the filters together.
func verdictVerdict(r *vh.Run) {
	kinds := []kit.Kind{kit.SJSON, kit.SSSE, kit.SLJSON, kit.SLSSE, kit.SNoSess, kit.LSSE}
	verdictCellsMu.Lock()
	defer verdictCellsMu.Unlock()
	observed, min := 0, -1
	var missing []string
	for _, l := range verdictLists {
		for _, sh := range verdictShapes {
			for _, kind := range kinds {
				key := fmt.Sprintf("%s|%s|%s", l.method, sh, kind)
				c := verdictCells[key]
				if c > 0 {
					observed++
				} else if len(missing) < 8 {
					missing = append(missing, key)
				}
				if min < 0 || c < min {
					min = c
				}
			}
		}
	}
	total := len(verdictLists) * len(verdictShapes) * len(kinds)
	r.Count("verdict_cells_list_kind_x_shape_x_server_kind", int64(total))
	r.Count("verdict_cells_observed", int64(observed))
	r.Count("verdict_cell_min_callers", int64(min))
	r.Require(r.Counter("verdict_answers_violating") > 0 || observed == total,
		"verdict shapes: %d of %d (list kind x verdict shape x server kind) cells had a caller whose answer was judged correct; without: %s", observed, total, strings.Join(missing, ", "))
	r.Require(r.Counter("verdict_filter_overlapping_pairs") > 0, "verdict shapes: callers of different verdict classes were never inside the filters at the same time")
}
