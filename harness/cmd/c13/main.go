// C13 — request-scoped context never bleeds between concurrent requests.
package main

import (
	"strconv"
	"context"
	"encoding/json"
	"fmt"
	"net/http"
	"sort"
	"strings"
	"sync"
	"sync/atomic"
	"time"

	mcp "trpc.group/trpc-go/trpc-mcp-go"

	"verifharness/lib/kit"
	"verifharness/lib/vh"
)

type k1 struct{}
type k2 struct{}

const hdr = "X-Verif-Token"

func ctxFn1(ctx context.Context, r *http.Request) context.Context {
	return context.WithValue(ctx, k1{}, r.Header.Get(hdr))
}

// ctxFn2 must run after ctxFn1: it derives its value from ctxFn1's.
func ctxFn2(ctx context.Context, r *http.Request) context.Context {
	v, _ := ctx.Value(k1{}).(string)
	return context.WithValue(ctx, k2{}, "f2("+v+")|hdr="+r.Header.Get(hdr))
}

type k3 struct{}

// extraFn is context function number i (3, 4, ...): each appends to a chain value, so the registration order of all of
// them and the request each one ran for are visible in one string.
func extraFn(i int) func(ctx context.Context, r *http.Request) context.Context {
	return func(ctx context.Context, r *http.Request) context.Context {
		prev, _ := ctx.Value(k3{}).(string)
		return context.WithValue(ctx, k3{}, fmt.Sprintf("%s>%d:%s", prev, i, r.Header.Get(hdr)))
	}
}

func wantTok2(tok string, F int) string {
	if F < 2 {
		return ""
	}
	return "f2(" + tok + ")|hdr=" + tok
}

func wantChain(tok string, F int) string {
	s := ""
	for i := 3; i <= F; i++ {
		s += fmt.Sprintf(">%d:%s", i, tok)
	}
	return s
}

// barrier: requests that carry X-Verif-Barrier "<name>/<n>" meet inside the FIRST context function (all n of them, or
// whoever arrived within 2 s), so that the context-function stage of n requests of different clients overlaps.
var barriers sync.Map // name -> *barrierState

type barrierState struct {
	mu      sync.Mutex
	arrived int
	ch      chan struct{}
}

var barrierMet atomic.Int64

func meet(r *http.Request) {
	v := r.Header.Get("X-Verif-Barrier")
	i := strings.LastIndex(v, "/")
	if i < 0 {
		return
	}
	n, _ := strconv.Atoi(v[i+1:])
	x, _ := barriers.LoadOrStore(v, &barrierState{ch: make(chan struct{})})
	b := x.(*barrierState)
	b.mu.Lock()
	b.arrived++
	if b.arrived == n {
		close(b.ch)
		barrierMet.Add(1)
	}
	b.mu.Unlock()
	select {
	case <-b.ch:
	case <-time.After(2 * time.Second):
	}
}

func ctxFn1B(ctx context.Context, r *http.Request) context.Context {
	meet(r)
	return ctxFn1(ctx, r)
}

func both(ctx context.Context, r *http.Request) context.Context { return ctxFn2(ctxFn1B(ctx, r), r) }

func tokOf(ctx context.Context) string { v, _ := ctx.Value(k1{}).(string); return v }

func visible(kindPrefix, tok string, K int) []string {
	var k int
	fmt.Sscanf(tok, "tok-%d", &k)
	out := []string{kindPrefix + "all", kindPrefix + "only-" + fmt.Sprint(k)}
	if k%2 == 0 {
		out = append(out, kindPrefix+"even")
	} else {
		out = append(out, kindPrefix+"odd")
	}
	sort.Strings(out)
	return out
}

func allowed(name, prefix, tok string, K int) bool {
	for _, v := range visible(prefix, tok, K) {
		if v == name {
			return true
		}
	}
	return false
}

type echo struct {
	Tok1     string `json:"tok1"`
	Tok2     string `json:"tok2"`
	Chain    string `json:"chain"`
	Sess     string `json:"sess"`
	CSess    string `json:"csess"`
	Server   string `json:"server"`
	HasSrv   bool   `json:"has_server"`
	Sender   bool   `json:"sender"`
	Notified bool   `json:"notified"`
}

var inHandler, maxInHandler atomic.Int64

type mwObs struct {
	ReqID string
	Tok   string
	Tok2  string
	Chain string
	Sess  string
	CSess string
}

func build(kind kit.Kind, K, F int, mw *[]mwObs, mwMu *sync.Mutex) *kit.Instance {
	middleware := func(next mcp.HandlerFunc) mcp.HandlerFunc {
		return func(ctx context.Context, req *mcp.JSONRPCRequest) (mcp.JSONRPCMessage, error) {
			o := mwObs{ReqID: fmt.Sprint(req.ID), Tok: tokOf(ctx)}
			o.Tok2, _ = ctx.Value(k2{}).(string)
			o.Chain, _ = ctx.Value(k3{}).(string)
			if s, ok := mcp.GetSessionFromContext(ctx); ok && s != nil {
				o.Sess = s.GetID()
			}
			if s := mcp.ClientSessionFromContext(ctx); s != nil {
				o.CSess = s.GetID()
			}
			mwMu.Lock()
			*mw = append(*mw, o)
			mwMu.Unlock()
			return next(ctx, req)
		}
	}
	toolFilter := func(ctx context.Context, tools []*mcp.Tool) []*mcp.Tool {
		var out []*mcp.Tool
		for _, t := range tools {
			if allowed(t.Name, "t-", tokOf(ctx), K) {
				out = append(out, t)
			}
		}
		return out
	}
	promptFilter := func(ctx context.Context, ps []*mcp.Prompt) []*mcp.Prompt {
		var out []*mcp.Prompt
		for _, p := range ps {
			if allowed(p.Name, "p-", tokOf(ctx), K) {
				out = append(out, p)
			}
		}
		return out
	}
	resFilter := func(ctx context.Context, rs []*mcp.Resource) []*mcp.Resource {
		var out []*mcp.Resource
		for _, x := range rs {
			if allowed(x.Name, "r-", tokOf(ctx), K) {
				out = append(out, x)
			}
		}
		return out
	}
	var in *kit.Instance
	if kind == kit.LSSE {
		in = kit.Start(kind, kit.Opts{SSEOpts: []mcp.SSEOption{mcp.WithSSEContextFunc(both), mcp.WithSSEToolListFilter(toolFilter), mcp.WithSSEPromptListFilter(promptFilter), mcp.WithSSEResourceListFilter(resFilter), mcp.WithSSEMiddleware(middleware)}})
	} else {
		// F context functions, registered one option call at a time (the way an application composes them)
		so := []mcp.ServerOption{mcp.WithHTTPContextFunc(ctxFn1B)}
		if F >= 2 {
			so = append(so, mcp.WithHTTPContextFunc(ctxFn2))
		}
		for i := 3; i <= F; i++ {
			so = append(so, mcp.WithHTTPContextFunc(extraFn(i)))
		}
		so = append(so, mcp.WithToolListFilter(toolFilter), mcp.WithPromptListFilter(promptFilter), mcp.WithResourceListFilter(resFilter), mcp.WithMiddleware(middleware))
		in = kit.Start(kind, kit.Opts{ServerOpts: so})
	}
	names := []string{"all", "even", "odd"}
	for k := 0; k < K; k++ {
		names = append(names, fmt.Sprintf("only-%d", k))
	}
	for _, n := range names {
		in.RegisterTool(mcp.NewTool("t-"+n), func(ctx context.Context, req *mcp.CallToolRequest) (*mcp.CallToolResult, error) {
			return mcp.NewTextResult("x"), nil
		})
		in.RegisterPrompt(&mcp.Prompt{Name: "p-" + n}, func(ctx context.Context, req *mcp.GetPromptRequest) (*mcp.GetPromptResult, error) {
			return &mcp.GetPromptResult{}, nil
		})
		in.RegisterResource(&mcp.Resource{URI: "res://" + n, Name: "r-" + n}, func(ctx context.Context, req *mcp.ReadResourceRequest) (mcp.ResourceContents, error) {
			return mcp.TextResourceContents{URI: "res://" + n, Text: "x"}, nil
		})
	}
	in.RegisterTool(mcp.NewTool("ctxecho", mcp.WithString("gate"), mcp.WithString("nonce")), func(ctx context.Context, req *mcp.CallToolRequest) (*mcp.CallToolResult, error) {
		n := inHandler.Add(1)
		for {
			m := maxInHandler.Load()
			if n <= m || maxInHandler.CompareAndSwap(m, n) {
				break
			}
		}
		defer inHandler.Add(-1)
		if g, _ := req.Params.Arguments["gate"].(string); g != "" {
			kit.G.Wait(ctx, g)
		}
		// re-read everything AFTER the wait: other requests have been inside meanwhile
		e := echo{Tok1: tokOf(ctx)}
		e.Tok2, _ = ctx.Value(k2{}).(string)
		e.Chain, _ = ctx.Value(k3{}).(string)
		if s, ok := mcp.GetSessionFromContext(ctx); ok && s != nil {
			e.Sess = s.GetID()
		}
		if s := mcp.ClientSessionFromContext(ctx); s != nil {
			e.CSess = s.GetID()
		}
		if srv := mcp.GetServerFromContext(ctx); srv != nil {
			e.HasSrv = true
			e.Server = fmt.Sprintf("%p", srv)
		}
		if sender, ok := mcp.GetNotificationSender(ctx); ok {
			e.Sender = true
			nonce, _ := req.Params.Arguments["nonce"].(string)
			e.Notified = sender.SendCustomNotification("notifications/verif", map[string]interface{}{"nonce": nonce}) == nil
		}
		b, _ := json.Marshal(e)
		return mcp.NewTextResult(string(b)), nil
	})
	return in
}

func namesOf(frame string, field, key string) []string {
	var m struct {
		Result map[string]json.RawMessage `json:"result"`
	}
	if json.Unmarshal([]byte(frame), &m) != nil {
		return nil
	}
	var items []map[string]interface{}
	json.Unmarshal(m.Result[field], &items)
	var out []string
	for _, it := range items {
		s, _ := it[key].(string)
		out = append(out, s)
	}
	sort.Strings(out)
	return out
}

func answerFrame(frames []string) string {
	for _, f := range frames {
		if _, has, hm := kit.FrameID(f); has && !hm {
			return f
		}
	}
	return ""
}

func scenario(r *vh.Run, kind kit.Kind, K, rounds int, Fopt ...int) {
	F := 2
	if len(Fopt) > 0 && kind != kit.LSSE {
		F = Fopt[0]
	}
	var mw []mwObs
	var mwMu sync.Mutex
	in := build(kind, K, F, &mw, &mwMu)
	defer in.Close()
	ctx := context.Background()
	srvPtr := fmt.Sprintf("%p", in.Srv())
	type cli struct {
		tok string
		c   *kit.RawConn
	}
	var clients []cli
	for k := 0; k < K; k++ {
		c, err := in.Dial(ctx)
		if err != nil {
			r.Fatal("dial: %v", err)
		}
		c.Headers[hdr] = fmt.Sprintf("tok-%d", k)
		if err := c.Handshake(ctx); err != nil {
			r.Fatal("handshake: %v", err)
		}
		clients = append(clients, cli{fmt.Sprintf("tok-%d", k), c})
	}
	defer func() {
		for _, c := range clients {
			c.c.Close()
		}
	}()
	maxInHandler.Store(0)
	for round := 0; round < rounds; round++ {
		gate := fmt.Sprintf("g-%s-%d-%d-%d", kind, K, F, round)
		var wg sync.WaitGroup
		for _, cl := range clients {
			wg.Add(1)
			go func(cl cli) {
				defer wg.Done()
				// a mix: one gated call (overlaps with everyone else's), three lists
				nonce := fmt.Sprintf("%s#%d", cl.tok, round)
				id := fmt.Sprintf(`"%s#call#%d"`, cl.tok, round)
				var cwg sync.WaitGroup
				cwg.Add(1)
				go func() {
					defer cwg.Done()
					ex := cl.c.Post(ctx, []byte(fmt.Sprintf(`{"jsonrpc":"2.0","id":%s,"method":"tools/call","params":{"name":"ctxecho","arguments":{"gate":"%s","nonce":"%s"}}}`, id, gate, nonce)), kit.PostOpts{WantID: id, Wait: 30 * time.Second, Headers: map[string]string{"X-Verif-Barrier": fmt.Sprintf("%s/%d", gate, K)}})
					r.Eval(1)
					f := answerFrame(ex.Frames)
					var m struct {
						Result struct {
							Content []struct {
								Text string `json:"text"`
							} `json:"content"`
						} `json:"result"`
					}
					var e echo
					if json.Unmarshal([]byte(f), &m) != nil || len(m.Result.Content) != 1 || json.Unmarshal([]byte(m.Result.Content[0].Text), &e) != nil {
						r.Violation(fmt.Sprintf("C13|%s|handler|call-failed", kind), fmt.Sprintf("%s: context echo call failed: %v", kind, ex.Frames), nil)
						return
					}
					wit := map[string]interface{}{"kind": kind, "requester": cl.tok, "session": cl.c.SessionID, "echo": e}
					switch {
					case e.Tok1 != cl.tok:
						r.Violation(fmt.Sprintf("C13|%s|handler|context-value-of-other-request", kind), fmt.Sprintf("%s: handler of %s saw the context value of %q", kind, cl.tok, e.Tok1), wit)
					case e.Tok2 != wantTok2(cl.tok, F):
						r.Violation(fmt.Sprintf("C13|%s|handler|context-functions-order", kind), fmt.Sprintf("%s: second context function did not see the first one's value of this request: %q", kind, e.Tok2), wit)
					case e.Chain != wantChain(cl.tok, F):
						r.Violation(fmt.Sprintf("C13|%s|handler|context-functions-chain", kind), fmt.Sprintf("%s: with %d context functions the handler of %s saw the chain %q, registration order on this request gives %q", kind, F, cl.tok, e.Chain, wantChain(cl.tok, F)), wit)
					case kind != kit.SLJSON && kind != kit.SLSSE && e.Sess != cl.c.SessionID:
						r.Violation(fmt.Sprintf("C13|%s|handler|session-of-other-request", kind), fmt.Sprintf("%s: handler of session %s saw session %q", kind, cl.c.SessionID, e.Sess), wit)
					case e.CSess != e.Sess:
						r.Violation(fmt.Sprintf("C13|%s|handler|client-session-differs", kind), fmt.Sprintf("%s: ClientSessionFromContext (%q) and GetSessionFromContext (%q) disagree", kind, e.CSess, e.Sess), wit)
					case !e.HasSrv || e.Server != srvPtr:
						r.Violation(fmt.Sprintf("C13|%s|handler|server-handle", kind), fmt.Sprintf("%s: tool handler's server handle is %q, the server is %s", kind, e.Server, srvPtr), wit)
					default:
						r.Distinct(fmt.Sprintf("%s|handler|K=%d|ctxfuncs=%d", kind, K, F))
					}
					// the notification sender belongs to this request: its notification must be on this POST stream only
					if kind == kit.SSSE || kind == kit.SLSSE {
						if !e.Sender || !e.Notified {
							r.Violation(fmt.Sprintf("C13|%s|sender|absent", kind), "tool handler had no working notification sender on an SSE response", wit)
						}
						own, foreign := 0, 0
						for _, fr := range ex.Frames {
							if strings.Contains(fr, `"notifications/verif"`) {
								if strings.Contains(fr, `"nonce":"`+nonce+`"`) {
									own++
								} else {
									foreign++
								}
							}
						}
						if own != 1 || foreign != 0 {
							r.Violation(fmt.Sprintf("C13|%s|sender|notification-on-other-stream", kind), fmt.Sprintf("%s: request %s: its POST stream carried %d own and %d foreign in-call notifications", kind, nonce, own, foreign), wit)
						} else {
							r.Distinct(fmt.Sprintf("%s|sender|K=%d", kind, K))
						}
					}
				}()
				for _, l := range []struct{ method, field, key, prefix string }{{"tools/list", "tools", "name", "t-"}, {"prompts/list", "prompts", "name", "p-"}, {"resources/list", "resources", "name", "r-"}} {
					lid := fmt.Sprintf(`"%s#%s#%d"`, cl.tok, l.method, round)
					ex := cl.c.Post(ctx, []byte(fmt.Sprintf(`{"jsonrpc":"2.0","id":%s,"method":"%s"}`, lid, l.method)), kit.PostOpts{WantID: lid, Wait: 30 * time.Second})
					r.Eval(1)
					got := namesOf(answerFrame(ex.Frames), l.field, l.key)
					want := visible(l.prefix, cl.tok, K)
					if l.method == "tools/list" {
						// ctxecho is hidden by the filter for everyone (its name has no t- prefix match)
					}
					if strings.Join(got, ",") != strings.Join(want, ",") {
						r.Violation(fmt.Sprintf("C13|%s|filter|%s|list-of-other-caller", kind, l.method), fmt.Sprintf("%s: %s for %s returned %v, the filter admits %v for this caller", kind, l.method, cl.tok, got, want),
							map[string]interface{}{"requester": cl.tok, "got": got, "want": want})
					} else {
						r.Distinct(fmt.Sprintf("%s|filter|%s|K=%d", kind, l.method, K))
					}
				}
				cwg.Wait()
			}(cl)
		}
		// all K gated handlers are inside at once, then released together
		got := kit.G.AwaitWaiters(gate, K, 20*time.Second)
		r.Max("handlers_overlapping_"+string(kind), int64(got))
		if got < K {
			r.Inconclusive(fmt.Sprintf("%s K=%d round %d: only %d handlers overlapped", kind, K, round, got))
		}
		kit.G.Open(gate)
		wg.Wait()
	}
	// middleware observations: token and session must be the request's own (request ids embed the token)
	mwMu.Lock()
	obs := append([]mwObs{}, mw...)
	mwMu.Unlock()
	sessOf := map[string]string{}
	for _, cl := range clients {
		sessOf[cl.tok] = cl.c.SessionID
	}
	checked := 0
	for _, o := range obs {
		i := strings.Index(o.ReqID, "#")
		if i < 0 {
			continue // handshake / fence requests
		}
		tok := o.ReqID[:i]
		r.Eval(1)
		checked++
		switch {
		case o.Tok != tok || o.Tok2 != wantTok2(tok, F) || o.Chain != wantChain(tok, F):
			r.Violation(fmt.Sprintf("C13|%s|middleware|context-value-of-other-request", kind), fmt.Sprintf("%s: middleware processing request %s saw context values %q / %q / %q", kind, o.ReqID, o.Tok, o.Tok2, o.Chain), o)
		case kind != kit.SLJSON && kind != kit.SLSSE && o.Sess != sessOf[tok]:
			r.Violation(fmt.Sprintf("C13|%s|middleware|session-of-other-request", kind), fmt.Sprintf("%s: middleware processing request %s saw session %q, the requester's is %q", kind, o.ReqID, o.Sess, sessOf[tok]), o)
		}
	}
	if checked > 0 {
		r.Distinct(fmt.Sprintf("%s|middleware|K=%d", kind, K))
	}
	r.Count("middleware_observations", int64(checked))
	r.Max("context_function_barriers_met", barrierMet.Load())
	r.Sample(map[string]interface{}{"kind": kind, "clients": K, "context_functions": F, "rounds": rounds, "max_handlers_overlapping": maxInHandler.Load()})
}

func main() {
	kit.MaybeServeStdioChild()
	kit.Silence()
	r := vh.NewRun("C13", "exploration")
	for _, kind := range []kit.Kind{kit.SJSON, kit.SSSE, kit.SLJSON, kit.SLSSE, kit.LSSE} {
		for _, K := range []int{2, 8, r.Pick(16, 32)} {
			scenario(r, kind, K, r.Pick(25, 1000))
		}
	}
	// the number of registered context functions is a configuration dimension of its own
	for _, kind := range []kit.Kind{kit.SJSON, kit.SSSE, kit.SLJSON, kit.SLSSE} {
		for _, F := range []int{1, 3, 4, 5, 6, 7, 9, 12} {
			scenario(r, kind, r.Pick(4, 8), r.Pick(8, 120), F)
		}
	}
	r.Finish("K = 2 / 8 / 16-32 raw clients, each with a unique header token, against Streamable (stateful / stateless, JSON / SSE answers) and legacy SSE servers configured with two HTTP context functions (the second derives its value from the first's; a second sweep registers 1, 3-7, 9 and 12 of them, each appending to a chain value, and lets the K requests of a round meet inside the first context function so that the context-function stages overlap), a tool / prompt / resource list filter keyed on the token, and a middleware; per round every client issues one gated tool call (all K handlers are inside at the same time, then released together) and three list requests; each echo (context values, session via both accessors, server handle, notification sender by effect) and each list must be the requester's own; middleware observations are joined to requests through the request id. Distinct = (server kind, stage, K).",
		[]string{"presence is required only where documented: context-function values everywhere, the session in handlers, server handle and sender in tool handlers", "stateless sessions are per-request temporaries, so only token isolation and accessor agreement are checked there"})
}
