// C13 — request-scoped context never bleeds between concurrent requests.
package main

import (
	"context"
	"encoding/json"
	"fmt"
	"net/http"
	"sort"
	"strconv"
	"strings"
	"sync"
	"sync/atomic"
	"time"

	mcp "trpc.group/trpc-go/trpc-mcp-go"

	"verifharness/lib/kit"
	"verifharness/lib/vh"
)

type k1 struct{}
type k2 struct{}

const hdr = "X-Verif-Token"

func ctxFn1(ctx context.Context, r *http.Request) context.Context {
	return context.WithValue(ctx, k1{}, r.Header.Get(hdr))
}

// ctxFn2 must run after ctxFn1: it derives its value from ctxFn1's.
func ctxFn2(ctx context.Context, r *http.Request) context.Context {
	v, _ := ctx.Value(k1{}).(string)
	return context.WithValue(ctx, k2{}, "f2("+v+")|hdr="+r.Header.Get(hdr))
}

type k3 struct{}

// extraFn is context function number i (3, 4, ...): each appends to a chain value, so the registration order of all of
// them and the request each one ran for are visible in one string.
func extraFn(i int) func(ctx context.Context, r *http.Request) context.Context {
	return func(ctx context.Context, r *http.Request) context.Context {
		prev, _ := ctx.Value(k3{}).(string)
		return context.WithValue(ctx, k3{}, fmt.Sprintf("%s>%d:%s", prev, i, r.Header.Get(hdr)))
	}
}

func wantTok2(tok string, F int) string {
	if F < 2 {
		return ""
	}
	return "f2(" + tok + ")|hdr=" + tok
}

func wantChain(tok string, F int) string {
	s := ""
	for i := 3; i <= F; i++ {
		s += fmt.Sprintf(">%d:%s", i, tok)
	}
	return s
}

// barrier: requests that carry X-Verif-Barrier "<name>/<n>" meet inside the FIRST context function (all n of them, or
// whoever arrived within rvBound - see rendezvous.go), so that the context-function stage of n requests of different
// clients overlaps.
var barriers sync.Map // name -> *barrierState

type barrierState struct {
	mu      sync.Mutex
	arrived int
	met     bool // all n were inside at the same time
	broken  bool // a participant gave up waiting (watchdog): everybody is released, later arrivals do not wait
	ch      chan struct{}
}

var barrierMet atomic.Int64

// meet never holds a request longer than rvBound: a library that lets the requests through the context functions one
// at a time makes the first participant give up, which releases all the others (present and future) at once.
func meet(r *http.Request) {
	v := r.Header.Get("X-Verif-Barrier")
	i := strings.LastIndex(v, "/")
	if i < 0 {
		return
	}
	n, _ := strconv.Atoi(v[i+1:])
	x, _ := barriers.LoadOrStore(v, &barrierState{ch: make(chan struct{})})
	b := x.(*barrierState)
	b.mu.Lock()
	b.arrived++
	if b.arrived == n && !b.broken {
		b.met = true
		close(b.ch)
		barrierMet.Add(1)
	}
	b.mu.Unlock()
	t := time.NewTimer(rvBound)
	defer t.Stop()
	select {
	case <-b.ch:
	case <-t.C:
		b.mu.Lock()
		if !b.met && !b.broken {
			b.broken = true
			close(b.ch)
		}
		b.mu.Unlock()
	}
}

// barrierOutcome tells whether the context-function barrier of a round was met and forgets it.
func barrierOutcome(name string) (met, used bool) {
	x, ok := barriers.LoadAndDelete(name)
	if !ok {
		return false, false
	}
	b := x.(*barrierState)
	b.mu.Lock()
	defer b.mu.Unlock()
	return b.met, true
}

func ctxFn1B(ctx context.Context, r *http.Request) context.Context {
	meet(r)
	return ctxFn1(ctx, r)
}

func both(ctx context.Context, r *http.Request) context.Context { return ctxFn2(ctxFn1B(ctx, r), r) }

func tokOf(ctx context.Context) string { v, _ := ctx.Value(k1{}).(string); return v }

func visible(kindPrefix, tok string, K int) []string {
	var k int
	fmt.Sscanf(tok, "tok-%d", &k)
	out := []string{kindPrefix + "all", kindPrefix + "only-" + fmt.Sprint(k)}
	if k%2 == 0 {
		out = append(out, kindPrefix+"even")
	} else {
		out = append(out, kindPrefix+"odd")
	}
	sort.Strings(out)
	return out
}

func allowed(name, prefix, tok string, K int) bool {
	for _, v := range visible(prefix, tok, K) {
		if v == name {
			return true
		}
	}
	return false
}

type echo struct {
	Tok1     string `json:"tok1"`
	Tok2     string `json:"tok2"`
	Chain    string `json:"chain"`
	Sess     string `json:"sess"`
	CSess    string `json:"csess"`
	Server   string `json:"server"`
	HasSrv   bool   `json:"has_server"`
	Sender   bool   `json:"sender"`
	Notified bool   `json:"notified"`
}

var inHandler, maxInHandler atomic.Int64

// ---------------------------------------------------------------------------------------------------------------------
// "The session of that request" as an object with state.
//
// Every piece of server-side user code that processes a request (middleware, tool / prompt / resource handler, list
// filter, notification handler) looks at the session the library hands it: which object it is (pointer, id, through
// both accessors) and what is noted on it. The middleware (on the notification path, where no middleware runs: the
// notification handler itself) first reads what is already on the session, then notes the token the context functions
// derived and the request id on it; every stage additionally notes the request id under its own key, waits at the gate
// of the round (when there is one) and reads everything back.

type kReq struct{}

// reqInfo is the identity of a request as the harness encoded it in the request id "<tok>#<what>#<round>#<g|f>"
// (notifications carry the same string in params.nonce).
type reqInfo struct {
	ID    string `json:"id"`
	Tok   string `json:"tok"`
	What  string `json:"what"`
	Round int    `json:"round"`
	Gated bool   `json:"gated"`
}

func parseReq(id string) (reqInfo, bool) {
	p := strings.Split(id, "#")
	if len(p) != 4 {
		return reqInfo{}, false
	}
	n, err := strconv.Atoi(p[2])
	if err != nil {
		return reqInfo{}, false
	}
	return reqInfo{ID: id, Tok: p[0], What: p[1], Round: n, Gated: p[3] == "g"}, true
}

// carry is what the middlewares hand inward next to the request: who the request is and what happened to its context
// on the way (it travels as a context value of our own, so it survives a middleware that detaches the context).
type carry struct {
	ri       reqInfo
	ok       bool // ri is valid (not a handshake / fence request)
	detached bool // some middleware above handed inward a context that does not descend from the one it received
}

type kStyle struct{ pos int }

// Middleware styles: what a middleware does with the context it passes inward.
//
//	pass            next(ctx) (plus a value of its own)
//	derive          context.WithValue + context.WithTimeout on the incoming context
//	detach          a fresh context.Background() carrying only what the middleware copies explicitly: the values the HTTP
//	                context functions derived (and our request identity), NOT the library's session / server / sender keys -
//	                what applications do to decouple the handler's lifetime from the connection
//	detach-timeout  the same with a timeout on the fresh context
//	goroutine       next runs in a goroutine of its own, the middleware waits for it
//
// Not exercised: a middleware that replaces the context with one derived from ANOTHER request's context. The statement
// promises what the library hands to the code processing a request; application code that itself smuggles another
// request's context in is outside of it.
var allStyles = []string{"pass", "derive", "detach", "detach-timeout", "goroutine"}

const mwTimeout = 30 * time.Minute // never meant to fire: far beyond the check's watchdog

func isDetach(style string) bool { return style == "detach" || style == "detach-timeout" }

func stackName(stack []string) string {
	if len(stack) == 0 {
		return "none"
	}
	return strings.Join(stack, ">")
}

// handInward builds the context a middleware of the given style passes to next.
func handInward(ctx context.Context, style string, pos int) (context.Context, context.CancelFunc) {
	switch style {
	case "derive":
		return context.WithTimeout(context.WithValue(ctx, kStyle{pos}, style), mwTimeout)
	case "detach", "detach-timeout":
		fresh, cancel := context.Background(), context.CancelFunc(func() {})
		if style == "detach-timeout" {
			fresh, cancel = context.WithTimeout(fresh, mwTimeout)
		}
		// the white list: the values the HTTP context functions derived from this request
		for _, k := range []interface{}{k1{}, k2{}, k3{}} {
			if v := ctx.Value(k); v != nil {
				fresh = context.WithValue(fresh, k, v)
			}
		}
		return fresh, cancel
	default: // pass, goroutine
		return context.WithValue(ctx, kStyle{pos}, style), func() {}
	}
}

type sessView struct {
	Has bool   `json:"has"`
	Ptr string `json:"ptr,omitempty"`
	ID  string `json:"id,omitempty"`
}

func view(s mcp.Session) (sessView, mcp.Session) {
	if s == nil {
		return sessView{}, nil
	}
	p := fmt.Sprintf("%p", s)
	if p == "0x0" || strings.HasPrefix(p, "%!p") {
		return sessView{}, nil
	}
	return sessView{Has: true, Ptr: p, ID: s.GetID()}, s
}

type dataRead struct {
	V  string `json:"v,omitempty"`
	OK bool   `json:"ok"`
}

func getData(s mcp.Session, key string) dataRead {
	v, ok := s.GetData(key)
	if !ok {
		return dataRead{}
	}
	str, isStr := v.(string)
	if !isStr {
		str = fmt.Sprintf("(%T)%v", v, v)
	}
	return dataRead{V: str, OK: true}
}

const (
	keyOwner = "verif.owner" // the token the context functions derived for the request that wrote it
	keyReq   = "verif.req"   // the id of the request that wrote it
)

// obs is one stage's view of one request.
type obs struct {
	Stage    string   `json:"stage"`
	Req      reqInfo  `json:"request"`
	Attrib   bool     `json:"attributed"` // the request this code ran for is known (id / nonce parsed)
	Tok      string   `json:"ctx_tok"`
	Tok2     string   `json:"ctx_tok2"`
	Chain    string   `json:"ctx_chain"`
	Sess     sessView `json:"session"`        // GetSessionFromContext
	CSess    sessView `json:"client_session"` // ClientSessionFromContext
	Wrote    bool     `json:"wrote_owner"`    // this stage noted owner + request id itself (before the gate)
	Pre      dataRead `json:"owner_before_write"`
	PreReq   dataRead `json:"req_before_write"`
	Owner    dataRead `json:"owner_after_gate"`
	ReqV     dataRead `json:"req_after_gate"`
	Mine     dataRead `json:"stage_key_after_gate"`
	Waited   bool     `json:"waited_at_gate"`
	Released bool     `json:"held_until_released"`                  // left the gate because the harness opened it (not a watchdog / cancellation)
	Detached bool     `json:"below_detaching_middleware,omitempty"` // the context this stage received went through a detaching middleware
	Style    string   `json:"middleware_style,omitempty"`           // middleware stages: what this middleware does with the context
	Stack    string   `json:"middleware_stack,omitempty"`
	Mode     string   `json:"mode,omitempty"` // "sequential": one client at a time, one request at a time
}

// scen is the state of one scenario (one server instance).
type scen struct {
	kind   kit.Kind
	K, F   int
	prefix string // gate name prefix, unique per scenario

	stack      []string     // middleware styles, outermost (first registered) first; the classic scenarios use {"pass"}
	sequential bool         // one client at a time, one request at a time (client B does not even exist while A is served)
	extended   bool         // a scenario of the middleware-style sweep (own evidence keys)
	cur        atomic.Value // sequential mode: the reqInfo of the one request in flight
	curBroken  atomic.Bool  // a request was given up on (watchdog): "the one request in flight" is not known any more

	released sync.Map // gate name -> true, set by the harness right before it opens the gate
	rv       rvScen   // rendezvous bookkeeping and circuit breakers (harness goroutine only)

	mu    sync.Mutex
	obs   []obs
	notes int // notification-handler observations so far

	// judgement state (harness goroutine only)
	stats     map[string]*stageStat
	sampled   map[string]bool
	noteWaits int
}

type stageStat struct{ withSession, ownReads, bad, detachedOwn int }

// open releases a gate and says so (a handler that leaves its wait earlier was not held until the release).
func (sc *scen) open(name string) {
	sc.released.Store(name, true)
	kit.G.Open(name)
}

// waitAt waits at a gate; released tells whether the wait ended because the harness opened the gate.
func (sc *scen) waitAt(ctx context.Context, name string) (waited, released bool) {
	if _, already := sc.released.Load(name); already {
		return false, false // the round is over: nothing to meet
	}
	kit.G.Wait(ctx, name)
	_, released = sc.released.Load(name)
	return true, released
}

func (sc *scen) add(o obs) {
	sc.mu.Lock()
	sc.obs = append(sc.obs, o)
	if o.Stage == "notification-handler" {
		sc.notes++
	}
	sc.mu.Unlock()
}

// take hands the observations collected so far to the judge.
func (sc *scen) take() []obs {
	sc.mu.Lock()
	defer sc.mu.Unlock()
	out := sc.obs
	sc.obs = nil
	return out
}

func (sc *scen) noteCount() int64 {
	sc.mu.Lock()
	defer sc.mu.Unlock()
	return int64(sc.notes)
}

func (sc *scen) mode() string {
	if sc.sequential {
		return "sequential"
	}
	return "overlapping"
}

// detaches: some middleware of the stack hands inward a context that does not descend from the incoming one.
func (sc *scen) detaches() bool {
	for _, s := range sc.stack {
		if isDetach(s) {
			return true
		}
	}
	return false
}

// identity tells which request the code holding ctx runs for, where the request itself does not say: from what the
// middlewares handed down or, in sequential mode, from the harness (exactly one request is in flight).
func (sc *scen) identity(ctx context.Context) (reqInfo, bool) {
	if c, ok := ctx.Value(kReq{}).(carry); ok {
		return c.ri, c.ok
	}
	if sc.sequential && !sc.curBroken.Load() {
		if ri, ok := sc.cur.Load().(reqInfo); ok {
			return ri, true
		}
	}
	return reqInfo{}, false
}

func (sc *scen) callGate(round int) string { return fmt.Sprintf("%s-%d", sc.prefix, round) }
func (sc *scen) stageGate(what string, round int) string {
	return fmt.Sprintf("%s-%d/%s", sc.prefix, round, what)
}

// observe is run by every stage. hold is what separates the writes from the reads: the gate of the round (all K requests
// of the round are inside when it opens) or, for the middleware, the rest of the request's processing.
func (sc *scen) observe(ctx context.Context, stage string, ri reqInfo, attrib, writeOwner bool, hold func() (bool, bool), style ...string) {
	o := obs{Stage: stage, Req: ri, Attrib: attrib, Tok: tokOf(ctx), Stack: stackName(sc.stack), Mode: sc.mode()}
	if c, ok := ctx.Value(kReq{}).(carry); ok {
		o.Detached = c.detached
	}
	if len(style) > 0 {
		o.Style = style[0]
	}
	o.Tok2, _ = ctx.Value(k2{}).(string)
	o.Chain, _ = ctx.Value(k3{}).(string)
	gs, _ := mcp.GetSessionFromContext(ctx)
	var s, s2 mcp.Session
	o.Sess, s2 = view(gs)
	o.CSess, s = view(mcp.ClientSessionFromContext(ctx))
	if s == nil {
		s = s2
	}
	stageKey := "verif.stage." + stage
	if s != nil {
		if writeOwner {
			o.Pre = getData(s, keyOwner)
			o.PreReq = getData(s, keyReq)
			s.SetData(keyOwner, o.Tok)
			s.SetData(keyReq, ri.ID)
			o.Wrote = true
		}
		s.SetData(stageKey, ri.ID)
	}
	o.Waited, o.Released = hold()
	if s != nil {
		o.Owner = getData(s, keyOwner)
		o.ReqV = getData(s, keyReq)
		o.Mine = getData(s, stageKey)
	}
	sc.add(o)
}

// holdAt waits at the stage gate of the request's round when the harness asked for it.
func (sc *scen) holdAt(ctx context.Context, ri reqInfo, ok bool) func() (bool, bool) {
	return func() (bool, bool) {
		if !ok || !ri.Gated {
			return false, false
		}
		return sc.waitAt(ctx, sc.stageGate(ri.What, ri.Round))
	}
}

func build(sc *scen) *kit.Instance {
	kind, K, F := sc.kind, sc.K, sc.F
	// One middleware per entry of sc.stack, the first one outermost. Every one of them treats EVERY request (handshake and
	// fence requests included) in its style; requests with an identity are observed: the outermost middleware is the stage
	// "middleware" (it notes the owner on the session), the others are "middleware-inner".
	var middlewares []mcp.Middleware
	for pos, style := range sc.stack {
		pos, style := pos, style
		stage := "middleware"
		if pos > 0 {
			stage = "middleware-inner"
		}
		middlewares = append(middlewares, func(next mcp.HandlerFunc) mcp.HandlerFunc {
			return func(ctx context.Context, req *mcp.JSONRPCRequest) (resp mcp.JSONRPCMessage, err error) {
				c, has := ctx.Value(kReq{}).(carry)
				if !has {
					c.ri, c.ok = parseReq(fmt.Sprint(req.ID))
				}
				inner := func() {
					in, cancel := handInward(ctx, style, pos)
					defer cancel()
					ci := c
					ci.detached = c.detached || isDetach(style)
					in = context.WithValue(in, kReq{}, ci)
					if style == "goroutine" {
						done := make(chan struct{})
						go func() {
							defer close(done)
							resp, err = next(in, req)
						}()
						<-done
						return
					}
					resp, err = next(in, req)
				}
				if !c.ok {
					inner()
					return resp, err
				}
				sc.observe(ctx, stage, c.ri, true, pos == 0, func() (bool, bool) {
					inner()
					return false, false
				}, style)
				return resp, err
			}
		})
	}
	// filterStage: what a list filter sees of the request it is evaluated for (the request identity comes down from the
	// middlewares through the context; without a middleware it is known only when one request is in flight at a time).
	filterStage := func(ctx context.Context, method string) {
		ri, ok := sc.identity(ctx)
		sc.observe(ctx, "filter|"+method, ri, ok, false, sc.holdAt(ctx, ri, ok))
	}
	toolFilter := func(ctx context.Context, tools []*mcp.Tool) []*mcp.Tool {
		filterStage(ctx, "tools/list")
		var out []*mcp.Tool
		for _, t := range tools {
			if allowed(t.Name, "t-", tokOf(ctx), K) {
				out = append(out, t)
			}
		}
		return out
	}
	promptFilter := func(ctx context.Context, ps []*mcp.Prompt) []*mcp.Prompt {
		filterStage(ctx, "prompts/list")
		var out []*mcp.Prompt
		for _, p := range ps {
			if allowed(p.Name, "p-", tokOf(ctx), K) {
				out = append(out, p)
			}
		}
		return out
	}
	resFilter := func(ctx context.Context, rs []*mcp.Resource) []*mcp.Resource {
		filterStage(ctx, "resources/list")
		var out []*mcp.Resource
		for _, x := range rs {
			if allowed(x.Name, "r-", tokOf(ctx), K) {
				out = append(out, x)
			}
		}
		return out
	}
	var in *kit.Instance
	if kind == kit.LSSE {
		in = kit.Start(kind, kit.Opts{SSEOpts: []mcp.SSEOption{mcp.WithSSEContextFunc(both), mcp.WithSSEToolListFilter(toolFilter), mcp.WithSSEPromptListFilter(promptFilter), mcp.WithSSEResourceListFilter(resFilter), mcp.WithSSEMiddleware(middlewares...)}})
	} else {
		// F context functions, registered one option call at a time (the way an application composes them)
		so := []mcp.ServerOption{mcp.WithHTTPContextFunc(ctxFn1B)}
		if F >= 2 {
			so = append(so, mcp.WithHTTPContextFunc(ctxFn2))
		}
		for i := 3; i <= F; i++ {
			so = append(so, mcp.WithHTTPContextFunc(extraFn(i)))
		}
		so = append(so, mcp.WithToolListFilter(toolFilter), mcp.WithPromptListFilter(promptFilter), mcp.WithResourceListFilter(resFilter))
		if len(middlewares) <= 2 {
			so = append(so, mcp.WithMiddleware(middlewares...))
		} else {
			// longer stacks are registered one option call at a time
			for _, m := range middlewares {
				so = append(so, mcp.WithMiddleware(m))
			}
		}
		in = kit.Start(kind, kit.Opts{ServerOpts: so})
	}
	names := []string{"all", "even", "odd"}
	for k := 0; k < K; k++ {
		names = append(names, fmt.Sprintf("only-%d", k))
	}
	for _, n := range names {
		in.RegisterTool(mcp.NewTool("t-"+n), func(ctx context.Context, req *mcp.CallToolRequest) (*mcp.CallToolResult, error) {
			return mcp.NewTextResult("x"), nil
		})
		in.RegisterPrompt(&mcp.Prompt{Name: "p-" + n}, func(ctx context.Context, req *mcp.GetPromptRequest) (*mcp.GetPromptResult, error) {
			return &mcp.GetPromptResult{}, nil
		})
		in.RegisterResource(&mcp.Resource{URI: "res://" + n, Name: "r-" + n}, func(ctx context.Context, req *mcp.ReadResourceRequest) (mcp.ResourceContents, error) {
			return mcp.TextResourceContents{URI: "res://" + n, Text: "x"}, nil
		})
	}
	in.RegisterTool(mcp.NewTool("ctxecho", mcp.WithString("gate"), mcp.WithString("nonce")), func(ctx context.Context, req *mcp.CallToolRequest) (*mcp.CallToolResult, error) {
		n := inHandler.Add(1)
		for {
			m := maxInHandler.Load()
			if n <= m || maxInHandler.CompareAndSwap(m, n) {
				break
			}
		}
		defer inHandler.Add(-1)
		nonce, _ := req.Params.Arguments["nonce"].(string)
		ri, riOK := parseReq(nonce)
		// note the request on its session, wait at the gate, read back
		sc.observe(ctx, "handler", ri, riOK, false, func() (bool, bool) {
			if g, _ := req.Params.Arguments["gate"].(string); g != "" {
				return sc.waitAt(ctx, g)
			}
			return false, false
		})
		// re-read everything AFTER the wait: other requests have been inside meanwhile
		e := echo{Tok1: tokOf(ctx)}
		e.Tok2, _ = ctx.Value(k2{}).(string)
		e.Chain, _ = ctx.Value(k3{}).(string)
		if s, ok := mcp.GetSessionFromContext(ctx); ok && s != nil {
			e.Sess = s.GetID()
		}
		if s := mcp.ClientSessionFromContext(ctx); s != nil {
			e.CSess = s.GetID()
		}
		if srv := mcp.GetServerFromContext(ctx); srv != nil {
			e.HasSrv = true
			e.Server = fmt.Sprintf("%p", srv)
		}
		if sender, ok := mcp.GetNotificationSender(ctx); ok {
			e.Sender = true
			e.Notified = sender.SendCustomNotification("notifications/verif", map[string]interface{}{"nonce": nonce}) == nil
		}
		b, _ := json.Marshal(e)
		return mcp.NewTextResult(string(b)), nil
	})
	// prompt / resource handlers and the notification handler: same observation (hidden from every list by the filters)
	in.RegisterPrompt(&mcp.Prompt{Name: "ctxecho-p"}, func(ctx context.Context, req *mcp.GetPromptRequest) (*mcp.GetPromptResult, error) {
		ri, ok := parseReq(req.Params.Arguments["nonce"])
		sc.observe(ctx, "prompt-handler", ri, ok, false, sc.holdAt(ctx, ri, ok))
		return &mcp.GetPromptResult{Description: "ok"}, nil
	})
	in.RegisterResource(&mcp.Resource{URI: "res://ctxecho", Name: "ctxecho-r"}, func(ctx context.Context, req *mcp.ReadResourceRequest) (mcp.ResourceContents, error) {
		ri, ok := sc.identity(ctx)
		sc.observe(ctx, "resource-handler", ri, ok, false, sc.holdAt(ctx, ri, ok))
		return mcp.TextResourceContents{URI: "res://ctxecho", Text: "ok"}, nil
	})
	noteHandler := func(ctx context.Context, n *mcp.JSONRPCNotification) error {
		nonce, _ := n.Params.AdditionalFields["nonce"].(string)
		ri, ok := parseReq(nonce)
		// no middleware runs for a notification: this handler notes the owner itself
		sc.observe(ctx, "notification-handler", ri, ok, true, sc.holdAt(ctx, ri, ok))
		return nil
	}
	switch {
	case in.Server != nil:
		in.Server.RegisterNotificationHandler(noteMethod, noteHandler)
	case in.SSE != nil:
		in.SSE.RegisterNotificationHandler(noteMethod, noteHandler)
	}
	return in
}

const noteMethod = "notifications/verif-note"

func namesOf(frame string, field, key string) []string {
	var m struct {
		Result map[string]json.RawMessage `json:"result"`
	}
	if json.Unmarshal([]byte(frame), &m) != nil {
		return nil
	}
	var items []map[string]interface{}
	json.Unmarshal(m.Result[field], &items)
	var out []string
	for _, it := range items {
		s, _ := it[key].(string)
		out = append(out, s)
	}
	sort.Strings(out)
	return out
}

func answerFrame(frames []string) string {
	for _, f := range frames {
		if _, has, hm := kit.FrameID(f); has && !hm {
			return f
		}
	}
	return ""
}

// the stages a client walks through, one after the other, while its tool call is held at the gate of the round
var sideStages = []struct{ what, method, field, key, prefix string }{
	{"tools/list", "tools/list", "tools", "name", "t-"},
	{"prompts/list", "prompts/list", "prompts", "name", "p-"},
	{"resources/list", "resources/list", "resources", "name", "r-"},
	{"prompts/get", "prompts/get", "", "", ""},
	{"resources/read", "resources/read", "", "", ""},
	{"note", noteMethod, "", "", ""},
}

// stageOfWhat maps the <what> of a request id to the stage that observes it downstream of the middleware.
var stageOfWhat = map[string]string{
	"call": "handler", "tools/list": "filter|tools/list", "prompts/list": "filter|prompts/list", "resources/list": "filter|resources/list",
	"prompts/get": "prompt-handler", "resources/read": "resource-handler", "note": "notification-handler",
}

func stateless(kind kit.Kind) bool { return kind == kit.SLJSON || kind == kit.SLSSE }

// scenario is the classic configuration: one pass-through middleware, K clients overlapping.
func scenario(r *vh.Run, kind kit.Kind, K, rounds int, Fopt ...int) {
	F := 2
	if len(Fopt) > 0 && kind != kit.LSSE {
		F = Fopt[0]
	}
	run(r, &scen{kind: kind, K: K, F: F, stack: []string{"pass"}}, rounds)
}

var scenarioSeq atomic.Int64

func run(r *vh.Run, sc *scen, rounds int) {
	kind, K, F := sc.kind, sc.K, sc.F
	sc.prefix = fmt.Sprintf("g%d-%s-%d-%d", scenarioSeq.Add(1), kind, K, F)
	in := build(sc)
	defer in.Close()
	ctx := context.Background()
	srvPtr := fmt.Sprintf("%p", in.Srv())
	type cli struct {
		tok string
		c   *kit.RawConn
	}
	var clients []cli
	sessOf := map[string]string{}
	// connect performs dial + handshake of client number k (through the middlewares, like every request)
	connect := func(k int) bool {
		c, err := in.Dial(ctx)
		if err != nil {
			r.Fatal("dial: %v", err)
		}
		c.Headers[hdr] = fmt.Sprintf("tok-%d", k)
		clients = append(clients, cli{fmt.Sprintf("tok-%d", k), c})
		if err := c.Handshake(ctx); err != nil {
			if !sc.extended {
				r.Fatal("handshake: %v", err)
			}
			r.Inconclusive(fmt.Sprintf("%s middlewares %s (%s): handshake of client %d failed: %v", kind, stackName(sc.stack), sc.mode(), k, err))
			return false
		}
		sessOf[fmt.Sprintf("tok-%d", k)] = c.SessionID
		return true
	}
	defer func() {
		for _, c := range clients {
			c.c.Close()
		}
	}()
	if !sc.sequential {
		for k := 0; k < K; k++ {
			if !connect(k) {
				return
			}
		}
	}
	maxInHandler.Store(0)
	// Without a middleware the filters and the resource handler do not know which request they run for while clients
	// overlap: no lock-step rounds. Circuit breakers (rendezvous.go): a rendezvous that stays incomplete releases its
	// participants, counts as "overlap not achieved" and, when repeated, switches that barrier off.
	stageGating := len(sc.stack) > 0
	ctxBarrier := true // this round's calls meet inside the first context function (set per round by the harness loop)
	allIn := map[string]bool{}     // "<round>/<what>": all K requests of that stage were inside at the same time
	var notesAccepted atomic.Int64 // notification POSTs the server accepted
	var sideFailed atomic.Int64    // prompts/get, resources/read answers that were not results
	// where names the configuration in messages; hstage the tool-handler stage in signatures
	where := string(kind)
	if sc.extended {
		where = fmt.Sprintf("%s, middlewares %s, %s clients", kind, stackName(sc.stack), sc.mode())
	}
	detaches := sc.detaches()
	hstage := "handler"
	if detaches {
		hstage = "handler(detached-ctx)"
	}
	handlerKey := fmt.Sprintf("%s|handler|K=%d|ctxfuncs=%d", kind, K, F)
	if sc.extended {
		handlerKey = fmt.Sprintf("%s|handler|mw=%s|%s", kind, stackName(sc.stack), sc.mode())
	}
	// inFlight tells the stages which request is being served (sequential mode only: there is exactly one)
	inFlight := func(id string) {
		if sc.sequential {
			ri, _ := parseReq(id)
			sc.cur.Store(ri)
		}
	}
	// runClient is one client's mix of a round: one tool call (held at the gate of the round when clients overlap), three
	// lists, a prompt, a resource, a notification. Overlapping clients issue the side requests next to the held call;
	// in sequential mode every request is answered before the next one is sent.
	runClient := func(cl cli, round int, gate, sfx string) {
		csfx := "g"
		if sc.sequential {
			csfx = "f"
		}
		nonce := fmt.Sprintf("%s#call#%d#%s", cl.tok, round, csfx)
		id := `"` + nonce + `"`
		call := func() {
			po := kit.PostOpts{WantID: id, Wait: 60 * time.Second}
			if !sc.sequential && ctxBarrier {
				po.Headers = map[string]string{"X-Verif-Barrier": fmt.Sprintf("%s/%d", gate, K)}
			}
			ex := cl.c.Post(ctx, []byte(fmt.Sprintf(`{"jsonrpc":"2.0","id":%s,"method":"tools/call","params":{"name":"ctxecho","arguments":{"gate":"%s","nonce":"%s"}}}`, id, gate, nonce)), po)
			r.Eval(1)
			f := answerFrame(ex.Frames)
			var m struct {
				Result struct {
					Content []struct {
						Text string `json:"text"`
					} `json:"content"`
				} `json:"result"`
			}
			var e echo
			if json.Unmarshal([]byte(f), &m) != nil || len(m.Result.Content) != 1 || json.Unmarshal([]byte(m.Result.Content[0].Text), &e) != nil {
				if ex.TimedOut || f == "" {
					sc.curBroken.Store(true)
					r.Inconclusive(fmt.Sprintf("%s K=%d round %d: no answer to the context echo call of %s (timed out: %v)", where, K, round, cl.tok, ex.TimedOut))
					return
				}
				r.Violation(fmt.Sprintf("C13|%s|%s|call-failed", kind, hstage), fmt.Sprintf("%s: context echo call failed: %v", where, ex.Frames), nil)
				return
			}
			wit := map[string]interface{}{"kind": kind, "requester": cl.tok, "session": cl.c.SessionID, "echo": e, "middlewares": stackName(sc.stack), "clients": sc.mode()}
			// the session the handler obtained: below a detaching middleware only the documented fallback
			// (ClientSessionFromContext) is left - whichever accessor answers, it must be the requester's session
			seen := e.CSess
			if seen == "" {
				seen = e.Sess
			}
			switch {
			case e.Tok1 != cl.tok:
				r.Violation(fmt.Sprintf("C13|%s|%s|context-value-of-other-request", kind, hstage), fmt.Sprintf("%s: handler of %s saw the context value of %q", where, cl.tok, e.Tok1), wit)
			case e.Tok2 != wantTok2(cl.tok, F):
				r.Violation(fmt.Sprintf("C13|%s|%s|context-functions-order", kind, hstage), fmt.Sprintf("%s: second context function did not see the first one's value of this request: %q", where, e.Tok2), wit)
			case e.Chain != wantChain(cl.tok, F):
				r.Violation(fmt.Sprintf("C13|%s|%s|context-functions-chain", kind, hstage), fmt.Sprintf("%s: with %d context functions the handler of %s saw the chain %q, registration order on this request gives %q", where, F, cl.tok, e.Chain, wantChain(cl.tok, F)), wit)
			case !detaches && !stateless(kind) && e.Sess != cl.c.SessionID:
				r.Violation(fmt.Sprintf("C13|%s|handler|session-of-other-request", kind), fmt.Sprintf("%s: handler of session %s saw session %q", where, cl.c.SessionID, e.Sess), wit)
			case !detaches && e.CSess != e.Sess:
				r.Violation(fmt.Sprintf("C13|%s|handler|client-session-differs", kind), fmt.Sprintf("%s: ClientSessionFromContext (%q) and GetSessionFromContext (%q) disagree", where, e.CSess, e.Sess), wit)
			case detaches && !stateless(kind) && seen != cl.c.SessionID:
				r.Violation(fmt.Sprintf("C13|%s|%s|session-of-other-request", kind, hstage), fmt.Sprintf("%s: handler of session %s (%s) saw session %q (ClientSessionFromContext %q, GetSessionFromContext %q)", where, cl.c.SessionID, cl.tok, seen, e.CSess, e.Sess), wit)
			case detaches && e.CSess != "" && e.Sess != "" && e.CSess != e.Sess:
				r.Violation(fmt.Sprintf("C13|%s|%s|client-session-differs", kind, hstage), fmt.Sprintf("%s: ClientSessionFromContext (%q) and GetSessionFromContext (%q) disagree", where, e.CSess, e.Sess), wit)
			case !detaches && (!e.HasSrv || e.Server != srvPtr):
				r.Violation(fmt.Sprintf("C13|%s|handler|server-handle", kind), fmt.Sprintf("%s: tool handler's server handle is %q, the server is %s", where, e.Server, srvPtr), wit)
			case detaches && e.HasSrv && e.Server != srvPtr:
				r.Violation(fmt.Sprintf("C13|%s|%s|server-handle", kind, hstage), fmt.Sprintf("%s: tool handler's server handle is %q, the server is %s", where, e.Server, srvPtr), wit)
			default:
				r.Distinct(handlerKey)
				if detaches {
					// what a detached context loses is left open by the statement: counted, not judged
					if !stateless(kind) {
						r.Count("detached_handler_fallback_session_is_requesters", 1)
					}
					if e.Sess == "" {
						r.Count("detached_handler_without_GetSessionFromContext", 1)
					}
					if !e.HasSrv {
						r.Count("detached_handler_without_server_handle", 1)
					}
				}
			}
			// the notification sender belongs to this request: its notification must be on this POST stream only
			if kind == kit.SSSE || kind == kit.SLSSE {
				if detaches && !e.Sender {
					r.Count("detached_handler_without_notification_sender", 1)
					return
				}
				if !e.Sender || !e.Notified {
					r.Violation(fmt.Sprintf("C13|%s|sender|absent", kind), "tool handler had no working notification sender on an SSE response", wit)
				}
				own, foreign := 0, 0
				for _, fr := range ex.Frames {
					if strings.Contains(fr, `"notifications/verif"`) {
						if strings.Contains(fr, `"nonce":"`+nonce+`"`) {
							own++
						} else {
							foreign++
						}
					}
				}
				if own != 1 || foreign != 0 {
					r.Violation(fmt.Sprintf("C13|%s|sender|notification-on-other-stream", kind), fmt.Sprintf("%s: request %s: its POST stream carried %d own and %d foreign in-call notifications", where, nonce, own, foreign), wit)
				} else {
					r.Distinct(fmt.Sprintf("%s|sender|K=%d", kind, K))
				}
			}
		}
		var cwg sync.WaitGroup
		cwg.Add(1)
		if sc.sequential {
			inFlight(nonce)
			call()
			cwg.Done()
		} else {
			go func() {
				defer cwg.Done()
				call()
			}()
		}
		for _, l := range sideStages {
			snonce := fmt.Sprintf("%s#%s#%d#%s", cl.tok, l.what, round, sfx)
			lid := `"` + snonce + `"`
			inFlight(snonce)
			switch l.what {
			case "note":
				before := sc.noteCount()
				ex := cl.c.Post(ctx, []byte(fmt.Sprintf(`{"jsonrpc":"2.0","method":"%s","params":{"nonce":"%s"}}`, l.method, snonce)), kit.PostOpts{NoWait: true})
				r.Eval(1)
				if ex.HTTP != nil && ex.HTTP.Status >= 200 && ex.HTTP.Status < 300 {
					notesAccepted.Add(1)
					if sc.sequential {
						// the legacy server runs the notification handler detached from the POST: let it finish before the
						// next request is sent (watchdog only; the observation is judged whenever it arrives)
						for deadline := time.Now().Add(15 * time.Second); sc.noteCount() == before && time.Now().Before(deadline); {
							time.Sleep(time.Millisecond)
						}
					}
				}
			case "prompts/get", "resources/read":
				params := fmt.Sprintf(`{"name":"ctxecho-p","arguments":{"nonce":"%s"}}`, snonce)
				if l.what == "resources/read" {
					params = `{"uri":"res://ctxecho"}`
				}
				ex := cl.c.Post(ctx, []byte(fmt.Sprintf(`{"jsonrpc":"2.0","id":%s,"method":"%s","params":%s}`, lid, l.method, params)), kit.PostOpts{WantID: lid, Wait: 60 * time.Second})
				r.Eval(1)
				if ex.TimedOut {
					sc.curBroken.Store(true)
				}
				if !strings.Contains(answerFrame(ex.Frames), `"result"`) {
					sideFailed.Add(1)
				}
			default:
				ex := cl.c.Post(ctx, []byte(fmt.Sprintf(`{"jsonrpc":"2.0","id":%s,"method":"%s"}`, lid, l.method)), kit.PostOpts{WantID: lid, Wait: 60 * time.Second})
				r.Eval(1)
				if ex.TimedOut {
					sc.curBroken.Store(true)
					r.Inconclusive(fmt.Sprintf("%s K=%d round %d: no answer to %s of %s", where, K, round, l.method, cl.tok))
					continue
				}
				got := namesOf(answerFrame(ex.Frames), l.field, l.key)
				want := visible(l.prefix, cl.tok, K)
				// ctxecho / ctxecho-p / ctxecho-r are hidden by the filters for everyone (no visible name matches them)
				if strings.Join(got, ",") != strings.Join(want, ",") {
					r.Violation(fmt.Sprintf("C13|%s|filter|%s|list-of-other-caller", kind, l.method), fmt.Sprintf("%s: %s for %s returned %v, the filter admits %v for this caller", where, l.method, cl.tok, got, want),
						map[string]interface{}{"requester": cl.tok, "got": got, "want": want, "middlewares": stackName(sc.stack), "clients": sc.mode()})
				} else if sc.extended {
					r.Distinct(fmt.Sprintf("%s|filter|%s|mw=%s|%s", kind, l.method, stackName(sc.stack), sc.mode()))
				} else {
					r.Distinct(fmt.Sprintf("%s|filter|%s|K=%d", kind, l.method, K))
				}
			}
		}
		cwg.Wait()
	}
	// every observation of a round is in when its requests are answered (each is recorded before its request is
	// answered), except those of the legacy SSE server's notification handlers, which run detached from the POST: wait for
	// them (watchdog, not an oracle; after one miss the wait is not repeated, late observations are judged with a later
	// round)
	awaitNotes := func(round int) {
		for deadline := time.Now().Add(15 * time.Second); sc.noteWaits < 1 && sc.noteCount() < notesAccepted.Load(); {
			if time.Now().After(deadline) {
				sc.noteWaits++
				r.Inconclusive(fmt.Sprintf("%s K=%d round %d: %d of %d accepted notifications reached the notification handler", where, K, round, sc.noteCount(), notesAccepted.Load()))
				break
			}
			time.Sleep(time.Millisecond)
		}
	}
	for round := 0; round < rounds && sc.sequential; round++ {
		// strictly sequential: client 0 alone (in round 0 the others have not even connected yet), then client 1 alone, ...
		for k := 0; k < K; k++ {
			if round == 0 && !connect(k) {
				return
			}
			runClient(clients[k], round, "", "f")
			r.Count("sequential_client_turns", 1)
		}
		awaitNotes(round)
		judge(r, sc, sc.take(), sessOf, allIn)
	}
	for round := 0; round < rounds && !sc.sequential; round++ {
		gate := sc.callGate(round)
		// odd rounds are lock-step: every stage of the K clients meets at its own gate while the K tool calls are held;
		// even rounds leave the side requests free-running next to the held calls
		gated := stageGating && round%2 == 1
		sfx := "f"
		if gated {
			sfx = "g"
		}
		rwhere := fmt.Sprintf("%s K=%d round %d", where, K, round)
		ctxBarrier = sc.rv.on(r, "ctxfn")
		// the held tool calls: with the breaker tripped the gate is open before the calls arrive (nothing is held)
		callOn := sc.rv.on(r, "call")
		if !callOn {
			sc.open(gate)
		}
		var wg sync.WaitGroup
		for _, cl := range clients {
			wg.Add(1)
			go func(cl cli) {
				defer wg.Done()
				runClient(cl, round, gate, sfx)
			}(cl)
		}
		// all K gated handlers are inside at once, then released together (released after rvBound in any case)
		callMet := false
		if callOn {
			got := kit.G.AwaitWaiters(gate, K, rvBound)
			r.Max("handlers_overlapping_"+string(kind), int64(got))
			callMet = got == K
			sc.rv.result(r, "call", callMet, fmt.Sprintf("%s (%d of %d tool handlers inside)", rwhere, got, K))
			if callMet {
				allIn[fmt.Sprintf("%d/call", round)] = true
			}
		}
		if gated {
			// lock-step: while the K calls are held, the K requests of each stage meet at the stage's gate; a stage
			// whose requests do not all get there is released after rvBound and judged by its answers alone
			for _, l := range sideStages {
				sg := sc.stageGate(l.what, round)
				aspect := "stage:" + l.what
				switch {
				case !callMet:
					sc.rv.skipped(r, aspect)
				case sc.rv.on(r, aspect):
					n := kit.G.AwaitWaiters(sg, K, rvBound)
					r.Max("stage_overlapping_"+string(kind), int64(n))
					if n == K {
						allIn[fmt.Sprintf("%d/%s", round, l.what)] = true
					}
					sc.rv.result(r, aspect, n == K, fmt.Sprintf("%s (%d of %d %s requests inside their stage)", rwhere, n, K, l.what))
				}
				sc.open(sg)
			}
		}
		sc.open(gate)
		wg.Wait()
		if ctxBarrier {
			if met, used := barrierOutcome(fmt.Sprintf("%s/%d", gate, K)); used {
				sc.rv.result(r, "ctxfn", met, rwhere+" (first context function)")
			}
		}
		awaitNotes(round)
		judge(r, sc, sc.take(), sessOf, allIn)
	}
	if n := sideFailed.Load(); n > 0 {
		r.Inconclusive(fmt.Sprintf("%s K=%d: %d prompts/get / resources/read requests were not answered with a result", where, K, n))
	}
	time.Sleep(20 * time.Millisecond)
	judge(r, sc, sc.take(), sessOf, allIn) // stragglers
	finishScenario(r, sc)
	r.Max("context_function_barriers_met", barrierMet.Load())
	if !sc.extended && kind == kit.SJSON && K >= 16 {
		r.Sample(map[string]interface{}{"kind": kind, "clients": K, "context_functions": F, "rounds": rounds, "max_handlers_overlapping": maxInHandler.Load()})
	}
}

// tokOfValue: every value the stages note on a session starts with the token of the client it was written for
// ("tok-3" or "tok-3#<what>#<round>#<g|f>").
func tokOfValue(v string) string {
	if i := strings.Index(v, "#"); i >= 0 {
		return v[:i]
	}
	return v
}

// judge decides every observation of a scenario against the requester it was made for.
//
// What the statement promises about the session: it is the session OF THAT REQUEST (so: of the requesting client), the
// stages processing the request see it, and no request of another client does. Hence, for every stage:
//   - a session-data value written for another client must never be read (concurrent or earlier: a session that reaches
//     a second client is not "the session of that request" any more);
//   - what the request noted on its session must still be there for the later stages of the same request;
//   - two requests of different clients that are inside at the same time must not hold the same session object.
//
// Left open (accepted): values noted by ANOTHER request of the SAME client. On a stateful / legacy server that is the
// point of a session; on a stateless server the library happens to use one temporary session per request, the statement
// does not say so - such carry-over is only counted.
func judge(r *vh.Run, sc *scen, all []obs, sessOf map[string]string, allIn map[string]bool) {
	kind, K := sc.kind, sc.K
	if sc.stats == nil {
		sc.stats = map[string]*stageStat{}
		sc.sampled = map[string]bool{}
	}
	stats, sampled := sc.stats, sc.sampled
	// the middleware notes owner and request id before the later stages of the same request run: they must find them
	wroteByMW := map[string]bool{}
	outer := map[string]sessView{} // request id -> the session the outermost middleware was handed by the library
	for _, o := range all {
		if o.Stage == "middleware" && o.Wrote {
			wroteByMW[o.Req.ID] = true
		}
		if o.Stage == "middleware" && o.Attrib {
			if v := o.CSess; v.Has {
				outer[o.Req.ID] = v
			} else if v := o.Sess; v.Has {
				outer[o.Req.ID] = v
			}
		}
	}
	for _, o := range all {
		if !o.Attrib {
			r.Count("observations_without_request_identity", 1)
			continue
		}
		r.Eval(1)
		tok := o.Req.Tok
		st := stats[o.Stage]
		if st == nil {
			st = &stageStat{}
			stats[o.Stage] = st
		}
		// stageName: a stage below a detaching middleware is a class of its own
		stageName := o.Stage
		if o.Detached {
			stageName += "(detached-ctx)"
		}
		sig := func(symptom string) string { return fmt.Sprintf("C13|%s|%s|%s", kind, stageName, symptom) }
		// context values (the tool handler's are judged on the wire, from its echo)
		if o.Stage != "handler" {
			ctxBad := o.Tok != tok || o.Tok2 != wantTok2(tok, sc.F) || o.Chain != wantChain(tok, sc.F)
			if ctxBad && o.Stage == "notification-handler" && o.Tok == "" && o.Tok2 == "" && o.Chain == "" {
				r.Count("notification_handler_without_context_values", 1) // presence there is not documented
				ctxBad = false
			}
			if ctxBad {
				st.bad++
				r.Violation(sig("context-value-of-other-request"), fmt.Sprintf("%s: %s processing request %s saw context values %q / %q / %q", kind, o.Stage, o.Req.ID, o.Tok, o.Tok2, o.Chain), o)
				continue
			}
		}
		if o.Stage == "middleware" {
			r.Count("middleware_observations", 1)
		}
		s := o.CSess
		if !s.Has {
			s = o.Sess
		}
		if !s.Has {
			r.Count("observations_without_session_"+string(kind), 1)
			if o.Detached && o.Stage != "handler" {
				// below a detaching middleware the library's own context keys are gone; only the tool handler has a
				// documented fallback (the session is injected again for it). Left open by the statement: counted.
				r.Count("detached_stage_without_session", 1)
				continue
			}
			if kind.Stateful() || kind == kit.LSSE {
				if o.Stage == "middleware" || o.Stage == "middleware-inner" || o.Stage == "handler" {
					st.bad++
					r.Violation(sig("session-of-other-request"), fmt.Sprintf("%s: %s processing request %s saw no session, the requester's is %q", kind, o.Stage, o.Req.ID, sessOf[tok]), o)
				}
			}
			continue
		}
		st.withSession++
		if o.Sess.Has && o.CSess.Has && o.Sess.Ptr != o.CSess.Ptr {
			st.bad++
			r.Violation(sig("client-session-differs"), fmt.Sprintf("%s: %s processing request %s: ClientSessionFromContext (%s %q) and GetSessionFromContext (%s %q) are different objects", kind, o.Stage, o.Req.ID, o.CSess.Ptr, o.CSess.ID, o.Sess.Ptr, o.Sess.ID), o)
			continue
		}
		if (kind.Stateful() || kind == kit.LSSE) && s.ID != sessOf[tok] {
			st.bad++
			r.Violation(sig("session-of-other-request"), fmt.Sprintf("%s: %s processing request %s saw session %q, the requester's is %q", kind, o.Stage, o.Req.ID, s.ID, sessOf[tok]), o)
			continue
		}
		// the session OBJECT: while a request is being processed its outermost middleware holds the session the library
		// handed it; a stage further in (same request, so both are alive) that is handed another object has been given a
		// session that is not the one of this request (same id or not)
		if ov, ok := outer[o.Req.ID]; ok && o.Stage != "middleware" && o.Stage != "notification-handler" {
			if ov.Ptr != s.Ptr {
				st.bad++
				r.Violation(sig("session-object-of-other-request"), fmt.Sprintf("%s: %s processing request %s was handed the session object %s (id %q); the library handed the outermost middleware of the same request %s (id %q)", kind, o.Stage, o.Req.ID, s.Ptr, s.ID, ov.Ptr, ov.ID), o)
				continue
			}
			r.Count("same_request_session_objects_compared", 1)
			if o.Detached {
				st.detachedOwn++
			}
		}
		// session data
		bad := false
		check := func(name string, d dataRead, want string, mustBeThere bool) {
			if bad {
				return
			}
			switch {
			case !d.OK:
				if mustBeThere {
					bad = true
					r.Violation(sig("session-data-not-visible"), fmt.Sprintf("%s: %s processing request %s: %s, noted on the request's session earlier in the same request, is gone", kind, o.Stage, o.Req.ID, name), o)
				}
			case tokOfValue(d.V) != tok:
				bad = true
				r.Violation(sig("session-data-of-other-client"), fmt.Sprintf("%s: %s processing request %s of %s read %s = %q from its session: noted by a request of another client", kind, o.Stage, o.Req.ID, tok, name, d.V), o)
			case d.V == want:
				st.ownReads++
			default:
				// another request of the same client
				if stateless(kind) {
					r.Count("stateless_carry_over_same_client", 1)
				} else {
					r.Count("same_client_other_request_values", 1)
				}
			}
		}
		upstream := o.Wrote || wroteByMW[o.Req.ID]
		if o.Wrote {
			check("owner (before this request wrote)", o.Pre, tok, false)
			check("request id (before this request wrote)", o.PreReq, o.Req.ID, false)
		}
		check("owner", o.Owner, tok, upstream)
		check("request id", o.ReqV, o.Req.ID, upstream)
		check("the stage's own note", o.Mine, o.Req.ID, true)
		if bad {
			st.bad++
			continue
		}
		if sc.extended && o.Detached && o.Stage == "handler" && o.Req.Round == 1 && o.Req.Tok != "tok-0" && !extSampled[string(kind)+sc.mode()] && len(sc.stack) == 2 {
			extSampled[string(kind)+sc.mode()] = true
			if kind == kit.SJSON && !sc.sequential { // (one sample slot is left to the shared-computation class)
				r.Sample(map[string]interface{}{"kind": kind, "handler_below_detaching_middleware": o})
			}
		}
		if !sc.extended && !sampled[o.Stage] && K == 2 && sc.F == 2 && o.Req.Round == 1 {
			sampled[o.Stage] = true
			if (kind == kit.SLJSON && o.Stage == "handler") || (kind == kit.SJSON && o.Stage == "notification-handler") {
				r.Sample(map[string]interface{}{"kind": kind, "session_observation": o})
			}
		}
	}
	// live-object comparison: requests that were inside at the same time (all K calls held; all K requests of a stage at
	// the stage's gate while the calls were held) must not share a session object across clients
	byRound := map[int][]obs{}
	for _, o := range all {
		if o.Attrib && o.Waited && stageOfWhat[o.Req.What] == o.Stage {
			byRound[o.Req.Round] = append(byRound[o.Req.Round], o)
		}
	}
	for round, os := range byRound {
		if !allIn[fmt.Sprintf("%d/call", round)] {
			continue
		}
		cohorts := map[string][]obs{}
		for _, o := range os {
			cohorts[o.Req.What] = append(cohorts[o.Req.What], o)
		}
		for what, co := range cohorts {
			if !allIn[fmt.Sprintf("%d/%s", round, what)] {
				continue
			}
			live := co
			if what != "call" {
				// the calls that were still held when this stage met (they left only when the harness released them)
				live = append([]obs{}, co...)
				for _, c := range cohorts["call"] {
					if c.Released {
						live = append(live, c)
					}
				}
			}
			sessOfObs := func(o obs) sessView {
				if o.CSess.Has {
					return o.CSess
				}
				return o.Sess
			}
			groups := map[string][]obs{} // session object -> the live requests holding it
			compared := 0
			for _, o := range live {
				if s := sessOfObs(o); s.Has {
					compared++
					groups[s.Ptr] = append(groups[s.Ptr], o)
				}
			}
			owner := groups
			for ptr, g := range groups {
				// a member of this stage (for the call cohort: a call) sharing the object with a live request of another client
				var m, x *obs
				for i := range g {
					if g[i].Req.What != what {
						continue
					}
					for j := range g {
						if g[j].Req.Tok != g[i].Req.Tok {
							m, x = &g[i], &g[j]
							break
						}
					}
					if m != nil {
						break
					}
				}
				if m == nil {
					continue
				}
				stage := stageOfWhat[what]
				r.Violation(fmt.Sprintf("C13|%s|%s|session-object-shared-between-clients", kind, stage), fmt.Sprintf("%s: requests %s and %s of different clients, inside at the same time, were handed the same session object %s (ids %q / %q)", kind, m.Req.ID, x.Req.ID, ptr, sessOfObs(*m).ID, sessOfObs(*x).ID),
					map[string]interface{}{"first": *m, "second": *x})
				if st := stats[stage]; st != nil {
					st.bad++
				}
			}
			if compared >= 2 {
				r.Count("live_session_objects_compared", int64(compared))
				if stateless(kind) {
					r.Count("stateless_live_session_objects_compared", int64(compared))
					r.Max("stateless_distinct_live_sessions", int64(len(owner)))
				}
			}
		}
	}
}

var extSampled = map[string]bool{}

// finishScenario turns what the judge accumulated over the rounds of a scenario into evidence.
func finishScenario(r *vh.Run, sc *scen) {
	kind, K := sc.kind, sc.K
	for stage, st := range sc.stats {
		r.Count("session_data_own_reads", int64(st.ownReads))
		r.Count("observations_with_session", int64(st.withSession))
		if sc.extended {
			// the middleware-style sweep: (kind, stack, mode, stage) is covered when the stage was handed a session and
			// every one of them was the request's own
			r.Count("mwsweep_observations_with_session", int64(st.withSession))
			r.Count("mwsweep_detached_session_objects_verified", int64(st.detachedOwn))
			if sc.sequential {
				r.Count("mwsweep_sequential_observations_with_session", int64(st.withSession))
			}
			if st.withSession > 0 && st.bad == 0 {
				r.Distinct(fmt.Sprintf("%s|mw=%s|%s|%s", kind, stackName(sc.stack), sc.mode(), stage))
			}
			continue
		}
		if stage == "middleware" && st.withSession+st.bad > 0 {
			r.Distinct(fmt.Sprintf("%s|middleware|K=%d", kind, K))
		}
		if st.ownReads > 0 && st.bad == 0 {
			r.Distinct(fmt.Sprintf("%s|session-data|%s|K=%d", kind, stage, K))
		}
	}
	if sc.stats["middleware"] == nil && len(sc.stack) > 0 {
		// the middleware ran for no request at all: nothing about it was observed
		r.Inconclusive(fmt.Sprintf("%s K=%d: no middleware observation", kind, K))
	}
}

func main() {
	kit.MaybeServeStdioChild()
	kit.Silence()
	r := vh.NewRun("C13", "exploration")
	for _, kind := range []kit.Kind{kit.SJSON, kit.SSSE, kit.SLJSON, kit.SLSSE, kit.LSSE} {
		for _, K := range []int{2, 8, r.Pick(16, 32)} {
			scenario(r, kind, K, r.Pick(26, 1000))
		}
	}
	// sessions disabled: no session is handed out; the context values are still the request's own
	scenario(r, kit.SNoSess, 8, r.Pick(10, 200))
	// the number of registered context functions is a configuration dimension of its own
	for _, kind := range []kit.Kind{kit.SJSON, kit.SSSE, kit.SLJSON, kit.SLSSE} {
		for _, F := range []int{1, 3, 4, 5, 6, 7, 9, 12} {
			scenario(r, kind, r.Pick(4, 8), r.Pick(8, 120), F)
		}
	}
	// what middlewares do with the context they pass inward, and what the library might compute once and reuse: stacks of
	// 0-3 middlewares of the five styles, clients overlapping and strictly one after the other
	stacks := [][]string{
		{}, {"pass"}, {"derive"}, {"detach"}, {"detach-timeout"}, {"goroutine"},
		{"pass", "pass"}, {"detach", "detach"}, {"derive", "detach"}, {"detach", "derive"}, {"goroutine", "detach-timeout"}, {"detach", "goroutine"},
		{"pass", "derive", "goroutine"}, {"detach", "detach", "detach"}, {"derive", "detach-timeout", "pass"}, {"goroutine", "goroutine", "detach"},
	}
	if !r.Quick() {
		stacks = [][]string{{}}
		for _, a := range allStyles {
			stacks = append(stacks, []string{a})
			for _, b := range allStyles {
				stacks = append(stacks, []string{a, b})
			}
		}
	}
	rng := r.Rand("middleware-stacks")
	for i, n := 0, r.Pick(4, 40); i < n; i++ {
		st := make([]string, 3)
		if r.Quick() {
			st = make([]string, 1+rng.Intn(3))
		}
		for j := range st {
			st[j] = allStyles[rng.Intn(len(allStyles))]
		}
		stacks = append(stacks, st)
	}
	for _, stack := range stacks {
		for _, kind := range []kit.Kind{kit.SJSON, kit.SSSE, kit.SLJSON, kit.SLSSE, kit.LSSE} {
			for _, sequential := range []bool{false, true} {
				F := 3
				if kind == kit.LSSE {
					F = 2
				}
				run(r, &scen{kind: kind, K: 3, F: F, stack: stack, sequential: sequential, extended: true}, r.Pick(2, 6))
			}
		}
		r.SetAdd("middleware_stacks", stackName(stack))
	}
	verdictSweep(r)
	sharedSweep(r)
	// non-vacuity (Require, not Fatal: violations found by the value oracle are reported first)
	r.Require(r.Counter("mwsweep_detached_session_objects_verified") > 0 && r.Counter("detached_handler_fallback_session_is_requesters") > 0 && r.Counter("mwsweep_sequential_observations_with_session") > 0,
		"the middleware-style sweep observed no session below a detaching middleware / none in sequential mode: that part of the property was not exercised")
	r.Require(r.Counter("session_data_own_reads") > 0 && r.Counter("live_session_objects_compared") > 0 && r.Counter("stateless_live_session_objects_compared") > 0,
		"no session data was read back / no live session objects were compared (stateless servers included): the session part of the property was not exercised")
	rvVerdict(r)
	sharedVerdict(r)
	verdictVerdict(r)
	r.Finish("K = 2 / 8 / 16-32 raw clients, each with a unique header token, against Streamable (stateful / stateless, JSON / SSE answers; sessions disabled with K = 8) and legacy SSE servers configured with two HTTP context functions (the second derives its value from the first's; a second sweep registers 1, 3-7, 9 and 12 of them, each appending to a chain value, and lets the K requests of a round meet inside the first context function so that the context-function stages overlap), a tool / prompt / resource list filter keyed on the token, and a middleware; per round every client issues one gated tool call (all K handlers are inside at the same time, then released together) and, next to it, three list requests, a prompts/get, a resources/read and a notification with a registered server-side handler; in every second round these six stages are lock-step too (the K requests of a stage meet at a gate inside the filter / handler while the K calls are held). Each echo (context values, session via both accessors, server handle, notification sender by effect) and each list must be the requester's own; every stage records the session object it is handed (pointer, id, both accessors) and uses it as state: the middleware (the notification handler on its path) reads what is on the session, notes the derived token and the request id on it, every stage notes the request id under its own key, waits, and reads all of it back - a value noted for another client is a violation in every configuration, a note of the same request that is gone is one, and requests of different clients inside at the same time must hold different session objects. Observations are joined to requests through the request id. A last sweep varies what the middlewares do with the context they pass inward - stacks of 0 to 3 middlewares (a fixed list, plus stacks drawn from the seed; thorough: all stacks of length <= 2) of the styles pass-through, derive (WithValue + WithTimeout), detach (a fresh context.Background(), optionally with a timeout, carrying only the copied context-function values, none of the library's session / server / sender keys) and run-next-in-a-goroutine, every middleware treating every request (handshake included) in its style - on Streamable stateful / stateless (JSON / SSE) and legacy SSE, with 3 clients overlapping as before and strictly sequentially (client 0 connects and is served alone, one request at a time, then client 1, ...; repeated). Every middleware of the stack observes like the others; the session any stage obtains through either accessor must be the requester's (id) and, within one request, the very object the library handed the outermost middleware; the context-function values must be the request's own. Below a detaching middleware only the tool handler's ClientSessionFromContext (the documented fallback) is required to be there; a missing GetSessionFromContext / server handle / notification sender / session in filters, prompt and resource handlers and inner middlewares is counted (detached_*), not judged. Distinct = (server kind, stage, K) resp. (server kind, middleware stack, overlapping | sequential, stage). Every rendezvous (first context function, held tool calls, lock-step stages) is a watchdog-bounded one: when not all participants are inside within 5 s they are released anyway, the round is booked as overlap-not-achieved (rendezvous_unmet, an INCONCLUSIVE line; never a violation and never held) and its answers are still judged by the value oracle; two consecutive unmet rendezvous of an aspect switch that barrier off for the rest of the scenario, three such scenarios for the rest of the run (rendezvous_skipped), and a run with more than a tenth of its rendezvous unmet or skipped ends without a verdict. Last class, shared computation between overlapping calls: 2 / 6 / 12-24 clients send tools/list, prompts/list, resources/list, resources/templates/list, tools/call, prompts/get and resources/read at the same time - every (method, slowness, shape) combination in seed order, shapes: all clients the same method | a mix of methods | bursts of three per client; the requests of different clients are identical down to the JSON-RPC id and the arguments, only the headers differ - against filters / handlers that are slow without containing a barrier (yield loops of 200-20000 Gosched, sleeps of 0.2-2 ms, or a gate the harness opens once all requests of the round went through the first context function, optionally with the first client sent ahead and held inside its filter before the others are sent); each answer must be the caller's own (list = what the filter admits for the caller's token, echo = the caller's context-function values and session); filters / handlers count the other requests inside the same user code when they enter (shared_overlapping_pairs|<method>), an answer becomes a distinct case (server kind, method, slowness, shape) only in a round whose requests really overlapped inside that user code, and the run ends without a verdict when the list filters did not overlap in at least half of their same-method rounds. Class verdict shapes (the filter's verdict is final whatever its shape): on every server kind (Streamable stateful / stateless x JSON / SSE, sessions disabled, legacy SSE) 8 (thorough: 2 / 8 / 22) callers with distinct tokens list tools, prompts and resources at the same time against slow filters (yield loops, overlap counted); a third context function takes the verdict shape of the request from a header, so every request of every caller has its own shape and the callers of a round all have different ones: admitted set everything | a strict subset containing an entry only this caller may see | exactly that one entry | NOTHING, the empty verdict reported as nil slice (var out + append idiom), make(.,0), make(.,0,n), a literal, arg[:0], arg[n:n], a non-empty verdict as a fresh slice, filtered in place (arg[:0] + append), as a suffix sub-slice of the argument, in descending name order, with every entry twice, as the argument itself; the answer must be a list whose set of names is exactly the admitted set of the caller's own token and shape (an empty verdict gives an empty list, never the unfiltered one); the filter also checks that the three context-function values it sees belong to one request. Distinct = (server kind, list kind, admitted set / representation); all 3 x 22 x 6 cells must have judged callers (verdict_cells_observed, verdict_cell_min_callers), else no verdict.",
		[]string{"a library that serialises or coalesces overlapping requests does not violate the statement by that alone: unmet rendezvous / missing overlap make the run inconclusive (INCONCLUSIVE lines, exit 3 when frequent), only an answer carrying another caller's values is a violation", "presence is required only where documented: context-function values everywhere (not in notification handlers), the session in handlers and middlewares of servers that issue session ids, server handle and sender in tool handlers", "stateless sessions: the statement promises isolation between clients; that the library uses one temporary session per request is not part of it, so a value carried over from another request of the SAME client is only counted (stateless_carry_over_same_client), not a violation", "session objects are compared by pointer only between requests that were inside at the same time, and between the stages of one request while its outermost middleware still holds the session (address reuse after a request has ended proves nothing)", "a middleware that replaces the context with one kept from ANOTHER request is application misbehaviour outside the statement: not exercised", "what a detached context (fresh context.Background() + copied application values) still offers besides the tool handler's session fallback is left open by the statement: counted only", "verdict shapes: order and multiplicity of a list answer relative to the filter's verdict are left open by the statement (answers are compared as sets; verdict_answers_in_filter_order_and_multiplicity is counted only), and so is a verdict naming an unregistered or nil entry (not exercised); an error answer to a list request is inconclusive, not a violation"})
}
