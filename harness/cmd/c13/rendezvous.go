package main

import (
	"fmt"
	"sync"
	"time"

	"verifharness/lib/vh"
)

// Rendezvous bookkeeping.
//
// Several workloads make requests of different clients meet (inside the first context function, inside the tool handler,
// inside a list filter / prompt / resource / notification handler) so that their processing provably overlaps. A library
// that serialises or coalesces requests never lets all participants be inside at once. That is not a C13 violation; it
// must neither hang the check nor be folded into "held": a rendezvous that is not complete within rvBound (a watchdog,
// never a verdict) releases its participants anyway, the round counts as "overlap not achieved" (inconclusive for the
// overlap aspect only) and the answers are still judged by the value oracle (own context values, own list).
//
// Circuit breakers keep a run against such a library short: after rvTripAfter consecutive unmet rendezvous of an aspect
// in a scenario that aspect's barrier is not used for the rest of the scenario; once that happened in rvGlobalAfter
// scenarios the aspect's barrier is off for the rest of the run. Every skipped rendezvous is counted, and the run ends
// without a verdict (vacuous, exit 3) when more than a tenth of the rendezvous were unmet or skipped.
const (
	rvBound       = 5 * time.Second
	rvTripAfter   = 2
	rvGlobalAfter = 3
)

var rvGlobal = struct {
	mu    sync.Mutex
	trips map[string]int  // aspect -> scenarios in which its breaker tripped
	off   map[string]bool // aspect -> barrier off for the rest of the run
}{trips: map[string]int{}, off: map[string]bool{}}

// rvScen is the per-scenario part (harness goroutine only).
type rvScen struct {
	consecutive map[string]int
	off         map[string]bool
}

func (s *rvScen) init() {
	if s.consecutive == nil {
		s.consecutive = map[string]int{}
		s.off = map[string]bool{}
	}
}

// on tells whether the barrier of the aspect is still in use; a rendezvous that is not attempted because a breaker
// tripped is counted as skipped.
func (s *rvScen) on(r *vh.Run, aspect string) bool {
	s.init()
	rvGlobal.mu.Lock()
	g := rvGlobal.off[aspect]
	rvGlobal.mu.Unlock()
	if s.off[aspect] || g {
		r.Count("rendezvous_skipped", 1)
		r.Count("rendezvous_skipped|"+aspect, 1)
		return false
	}
	return true
}

// skipped counts a rendezvous that could not be attempted because an outer one (the held tool calls) was unmet.
func (s *rvScen) skipped(r *vh.Run, aspect string) {
	r.Count("rendezvous_skipped", 1)
	r.Count("rendezvous_skipped|"+aspect, 1)
}

// result books one attempted rendezvous.
func (s *rvScen) result(r *vh.Run, aspect string, met bool, where string) {
	s.init()
	r.Count("rendezvous_attempted", 1)
	if met {
		r.Count("rendezvous_met", 1)
		r.Count("rendezvous_met|"+aspect, 1)
		s.consecutive[aspect] = 0
		return
	}
	r.Count("rendezvous_unmet", 1)
	r.Count("rendezvous_unmet|"+aspect, 1)
	r.Inconclusive(fmt.Sprintf("%s: overlap not achieved (rendezvous %q incomplete after %s; participants released, answers judged by the value oracle only)", where, aspect, rvBound))
	s.consecutive[aspect]++
	if s.consecutive[aspect] < rvTripAfter || s.off[aspect] {
		return
	}
	s.off[aspect] = true
	r.Count("rendezvous_breakers_tripped", 1)
	r.Inconclusive(fmt.Sprintf("%s: %d consecutive unmet rendezvous %q: that barrier is not used for the rest of this scenario", where, rvTripAfter, aspect))
	rvGlobal.mu.Lock()
	rvGlobal.trips[aspect]++
	global := rvGlobal.trips[aspect] >= rvGlobalAfter && !rvGlobal.off[aspect]
	if global {
		rvGlobal.off[aspect] = true
	}
	rvGlobal.mu.Unlock()
	if global {
		r.Inconclusive(fmt.Sprintf("rendezvous %q was given up in %d scenarios: that barrier is not used for the rest of the run (the library seems to serialise or coalesce these requests)", aspect, rvGlobalAfter))
		r.Note(fmt.Sprintf("barrier %q switched off for the rest of the run after %d scenarios gave it up", aspect, rvGlobalAfter))
	}
}

// rvVerdict: a run in which a large share of the rendezvous was unmet or skipped has not observed the overlap the
// property quantifies over - no verdict (unless a violation was found, which takes precedence).
func rvVerdict(r *vh.Run) {
	att, unmet, skipped := r.Counter("rendezvous_attempted"), r.Counter("rendezvous_unmet"), r.Counter("rendezvous_skipped")
	r.Require(att > 0 && (unmet+skipped)*10 <= att+skipped,
		"rendezvous: %d attempted, %d unmet, %d skipped after a breaker tripped: the overlap of requests the property quantifies over was not achieved for more than a tenth of the rounds", att, unmet, skipped)
}
